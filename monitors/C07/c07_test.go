//go:build verif

package benchproc_test

// C07: any string is expressible as a double-quoted Go string literal (and as a
// bare word when it has none of the documented special characters) in every
// word position of filters and projections and denotes exactly that string;
// parsing any text succeeds or returns a syntax error positioned inside the
// text, never a panic or a hang; the listed malformed classes are rejected.
//
// Oracle: Go string-literal semantics (the string itself is the meaning of
// strconv.Quote(s)), the documented grammar of benchproc/syntax, and the string
// reference for key extraction (see C05).

import (
	"errors"
	"fmt"
	"regexp"
	"strconv"
	"strings"
	"testing"
	"time"
	"unicode"
	"unicode/utf8"

	"golang.org/x/perf/benchfmt"
	"golang.org/x/perf/benchproc"
	"golang.org/x/perf/benchproc/internal/parse"
	kit "golang.org/x/perf/internal/verifkit"
)

// ---------------------------------------------------------------------------
// Reference: what a key denotes for a result (string model)

type c07KV struct{ K, V string }

type c07Res struct {
	Name string
	Cfg  []c07KV
	Unit string
}

func (r *c07Res) build() *benchfmt.Result {
	res := &benchfmt.Result{Name: benchfmt.Name([]byte(r.Name)), Iters: 1}
	for _, kv := range r.Cfg {
		res.Config = append(res.Config, benchfmt.Config{Key: kv.K, Value: []byte(kv.V), File: true})
	}
	u := r.Unit
	if u == "" {
		u = "sec/op"
	}
	res.Values = []benchfmt.Value{{Value: 1, Unit: u}}
	return res
}

func c07Extract(key string, r *c07Res) string {
	n := r.Name
	rest := n
	gmp, hasGmp := "", false
	j := len(n)
	for j > 0 && n[j-1] >= '0' && n[j-1] <= '9' {
		j--
	}
	if j < len(n) && j > 0 && n[j-1] == '-' {
		rest, gmp, hasGmp = n[:j-1], n[j:], true
	}
	segs := strings.Split(rest, "/")
	switch {
	case key == ".name":
		return segs[0]
	case key == ".fullname":
		return n
	case strings.HasPrefix(key, "/"):
		if key == "/gomaxprocs" && hasGmp {
			return gmp
		}
		for _, s := range segs[1:] {
			if strings.HasPrefix("/"+s, key+"=") {
				return ("/" + s)[len(key)+1:]
			}
		}
		return ""
	}
	for _, kv := range r.Cfg {
		if kv.K == key {
			return kv.V
		}
	}
	return ""
}

// c07KeyHolds: does the term key:"v" hold for the (single-measurement) result?
func c07KeyHolds(key, v string, r *c07Res) bool {
	if key == ".unit" {
		u := r.Unit
		if u == "" {
			u = "sec/op"
		}
		return u == v
	}
	return c07Extract(key, r) == v
}

// ---------------------------------------------------------------------------
// Spelling words

// c07BareOK: s has the documented bareWord shape
//
//	bareWord = [^-*"():@,][^ ():@,]*
//
// and is inside the claimed domain: not one of the operator words AND/OR, no
// Unicode white space, and (value position of a filter) no leading '/', which
// is documented to start a regexp.
func c07BareOK(s string, value bool) bool {
	if s == "" || s == "AND" || s == "OR" {
		return false
	}
	if strings.IndexByte(`-*"():@,`, s[0]) >= 0 {
		return false
	}
	if value && s[0] == '/' {
		return false
	}
	if strings.ContainsAny(s, " ():@,") {
		return false
	}
	for _, r := range s {
		if unicode.IsSpace(r) {
			return false
		}
	}
	return true
}

func c07HexQuote(s string) string {
	var sb strings.Builder
	sb.WriteByte('"')
	for i := 0; i < len(s); i++ {
		fmt.Fprintf(&sb, `\x%02x`, s[i])
	}
	sb.WriteByte('"')
	return sb.String()
}

// c07MixedQuote: another legal double-quoted spelling: octal and \u escapes,
// raw bytes where the language allows them.
func c07MixedQuote(s string) string {
	var sb strings.Builder
	sb.WriteByte('"')
	for i := 0; i < len(s); {
		r, n := utf8.DecodeRuneInString(s[i:])
		switch {
		case r == utf8.RuneError && n == 1:
			fmt.Fprintf(&sb, `\%03o`, s[i])
		case r == '"' || r == '\\':
			sb.WriteByte('\\')
			sb.WriteRune(r)
		case r == '\n':
			sb.WriteString(`\n`)
		case r < 0x20 || r == 0x7f:
			fmt.Fprintf(&sb, `\u%04x`, r)
		case r == 'a' || r == 'A':
			fmt.Fprintf(&sb, `\U%08x`, r)
		default:
			sb.WriteString(s[i : i+n]) // raw, including blanks, operators, multi-byte runes
		}
		i += n
	}
	sb.WriteByte('"')
	return sb.String()
}

type c07Spelling struct {
	text string
	bare bool
}

func c07Spellings(s string, value bool) []c07Spelling {
	var out []c07Spelling
	seen := map[string]bool{}
	add := func(t string, bare bool) {
		if !seen[t] {
			seen[t] = true
			out = append(out, c07Spelling{t, bare})
		}
	}
	add(strconv.Quote(s), false)
	add(strconv.QuoteToASCII(s), false)
	add(c07HexQuote(s), false)
	add(c07MixedQuote(s), false)
	if c07BareOK(s, value) {
		add(s, true)
	}
	return out
}

// c07NearMisses returns strings different from s that a wrong reading of the
// spelling would produce or that differ minimally from s.
func c07NearMisses(s string) []string {
	q := strconv.Quote(s)
	cands := []string{s + "x", s + " ", s + "\\", `"` + s + `"`, q, q[1 : len(q)-1], q[1:], q[:len(q)-1], "", " " + s, strings.ToLower(s), strings.ToUpper(s)}
	if len(s) > 0 {
		cands = append(cands, s[:len(s)-1], s[1:])
		b := []byte(s)
		b[len(b)-1] ^= 1
		cands = append(cands, string(b))
	}
	var out []string
	seen := map[string]bool{s: true}
	for _, c := range cands {
		if !seen[c] {
			seen[c] = true
			out = append(out, c)
		}
	}
	return out
}

// ---------------------------------------------------------------------------
// Class 1: expressibility and denotation

type c07StrCase struct{ S kit.B }

func c07SigSuffix(sp c07Spelling) string {
	if sp.bare {
		return "bare"
	}
	return "quoted"
}

func c07CheckErr(text string, err error) *kit.Fail {
	if err == nil {
		return nil
	}
	var se *parse.SyntaxError
	if !errors.As(err, &se) {
		return kit.Failf("error-not-syntax-error", "parsing %q returned %T: %v", text, err, err)
	}
	if se.Off < 0 || se.Off > len(text) {
		return kit.Failf("error-offset-outside-text", "parsing %q (len %d): syntax error %q at offset %d", text, len(text), se.Msg, se.Off)
	}
	_ = err.Error() // formatting the error must not panic either
	return nil
}

func c07StrCheck(c c07StrCase) *kit.Fail {
	s := string(c.S)
	near := c07NearMisses(s)

	// (1) filter value position: k:<word> and k:(zz OR <word>)
	for _, sp := range c07Spellings(s, true) {
		for ti, text := range []string{"k:" + sp.text, "k:(zz OR " + sp.text + ")", "-k:" + sp.text + " OR k:" + sp.text} {
			f, err := benchproc.NewFilter(text)
			if err != nil {
				if fail := c07CheckErr(text, err); fail != nil {
					return fail
				}
				return kit.Failf("value-"+c07SigSuffix(sp)+"-rejected", "filter %q (value %q) rejected: %v", text, s, err)
			}
			list, always := ti == 1, ti == 2
			for _, x := range append([]string{s}, near...) {
				r := c07Res{Name: "B", Cfg: []c07KV{{"k", x}}}
				m, _ := f.Match(r.build())
				want := x == s || always || (list && x == "zz")
				if m.All() != want {
					return kit.Failf("value-"+c07SigSuffix(sp)+"-denotes-other-string", "filter %q is meant to test k against %q; on k=%q it gives %v", text, s, x, m.All())
				}
			}
		}
	}

	// (1b) the quoted word next to a confusable sibling in ONE expression: a
	// value of the shape "/x/" written as a quoted literal must still denote the
	// literal string when the same expression also holds the regexp /x/ on the
	// same key (an implementation that shares compiled terms by their printed
	// form confuses the two - seeded change C07 seed2).
	if len(s) >= 3 && s[0] == '/' && s[len(s)-1] == '/' {
		inner := s[1 : len(s)-1]
		safe := true
		for i := 0; i < len(inner); i++ {
			ch := inner[i]
			if !(ch >= 'a' && ch <= 'z' || ch >= 'A' && ch <= 'Z' || ch >= '0' && ch <= '9' || strings.IndexByte(".*+?^$|", ch) >= 0) {
				safe = false
			}
		}
		if re, err := regexp.Compile(inner); safe && err == nil {
			q := strconv.Quote(s)
			texts := []string{
				"k:" + q + " OR k:/" + inner + "/",
				"k:/" + inner + "/ OR k:" + q,
				"k:" + q + " -k:/" + inner + "/",
				"k:(/" + inner + "/ OR " + q + ")",
			}
			for ti, text := range texts {
				f, err := benchproc.NewFilter(text)
				if err != nil {
					kit.Count("c07 sibling-regexp texts not accepted (skipped)", 1)
					continue
				}
				for _, x := range append([]string{s, inner, "", "zz" + inner + "zz"}, near...) {
					r := c07Res{Name: "B", Cfg: []c07KV{{"k", x}}}
					m, _ := f.Match(r.build())
					lit, rx := x == s, re.MatchString(x)
					want := lit || rx
					if ti == 2 {
						want = lit && !rx
					}
					if m.All() != want {
						return kit.Failf("value-quoted-confused-with-regexp-sibling", "filter %q: quoted %s must denote the literal %q and /%s/ the regexp; on k=%q it gives %v, want %v", text, q, s, inner, x, m.All(), want)
					}
				}
				kit.Count("c07 quoted literal next to regexp sibling", 1)
			}
		}
	}

	// results for the key positions
	keyResults := func() []c07Res {
		rs := []c07Res{
			{Name: "B", Cfg: []c07KV{{s, "v"}}},
			{Name: "B" + s + "=v"},
			{Name: "v", Unit: "v"},
			{Name: "B" + s + "x=v/q=1", Cfg: []c07KV{{s + "x", "v"}, {"k", "v"}}},
			{Name: "B", Cfg: []c07KV{{s, "w"}}},
			{Name: "B/" + s + "=v", Cfg: []c07KV{{"/" + s, "v"}}},
			{Name: "B-7", Cfg: []c07KV{{"gomaxprocs", "v"}}},
		}
		if len(s) > 1 {
			rs = append(rs, c07Res{Name: "B" + s[:len(s)-1] + "=v", Cfg: []c07KV{{s[:len(s)-1], "v"}}})
		}
		return rs
	}

	// (2) filter key position: <word>:v
	if s != "" && s != ".config" {
		for _, sp := range c07Spellings(s, false) {
			text := sp.text + ":v"
			f, err := benchproc.NewFilter(text)
			if err != nil {
				if fail := c07CheckErr(text, err); fail != nil {
					return fail
				}
				return kit.Failf("key-"+c07SigSuffix(sp)+"-rejected", "filter %q (key %q) rejected: %v", text, s, err)
			}
			for _, r := range keyResults() {
				m, _ := f.Match(r.build())
				if want := c07KeyHolds(s, "v", &r); m.All() != want {
					return kit.Failf("key-"+c07SigSuffix(sp)+"-denotes-other-key", "filter %q (key %q) on name %q cfg %q unit %q gives %v, want %v", text, s, r.Name, r.Cfg, r.Unit, m.All(), want)
				}
			}
		}
	}

	// (3) projection key position: <word>
	if s != "" && s != ".unit" {
		for _, sp := range c07Spellings(s, false) {
			for _, text := range []string{sp.text, sp.text + "@alpha", "zz," + sp.text} {
				var pp benchproc.ProjectionParser
				flt, _ := benchproc.NewFilter("*")
				proj, err := pp.Parse(text, flt)
				if err != nil {
					if fail := c07CheckErr(text, err); fail != nil {
						return fail
					}
					return kit.Failf("projkey-"+c07SigSuffix(sp)+"-rejected", "projection %q (key %q) rejected: %v", text, s, err)
				}
				fields := proj.Fields()
				field := fields[len(fields)-1]
				if field.Name != s {
					return kit.Failf("projkey-"+c07SigSuffix(sp)+"-denotes-other-key", "projection %q: field name %q, want %q", text, field.Name, s)
				}
				if s == ".config" {
					continue // a tuple, no string value
				}
				for _, r := range keyResults() {
					got := proj.Project(r.build()).Get(field)
					if want := c07Extract(s, &r); got != want {
						return kit.Failf("projkey-"+c07SigSuffix(sp)+"-denotes-other-key", "projection %q (key %q) on name %q cfg %q = %q, want %q", text, s, r.Name, r.Cfg, got, want)
					}
				}
			}
		}
	}

	// (4) member of a fixed value list: k@(<word>) and k@(zz <word> yy)
	for _, sp := range c07Spellings(s, false) {
		for ti, text := range []string{"k@(" + sp.text + ")", "k@(zz " + sp.text + " yy)"} {
			var pp benchproc.ProjectionParser
			flt, _ := benchproc.NewFilter("*")
			proj, err := pp.Parse(text, flt)
			if err != nil {
				if fail := c07CheckErr(text, err); fail != nil {
					return fail
				}
				return kit.Failf("listmember-"+c07SigSuffix(sp)+"-rejected", "projection %q (member %q) rejected: %v", text, s, err)
			}
			field := proj.Fields()[0]
			for _, x := range append([]string{s}, near...) {
				r := c07Res{Name: "B", Cfg: []c07KV{{"k", x}}}
				res := r.build()
				m, _ := flt.Match(res)
				want := x == s || (ti == 1 && (x == "zz" || x == "yy"))
				if m.All() != want {
					return kit.Failf("listmember-"+c07SigSuffix(sp)+"-denotes-other-string", "projection %q lists %q; result with k=%q kept=%v, want %v", text, s, x, m.All(), want)
				}
				if got := proj.Project(res).Get(field); got != x {
					return kit.Failf("listmember-projected-value-wrong", "projection %q: k=%q projected as %q", text, x, got)
				}
			}
		}
	}
	if c07BareOK(s, true) {
		kit.Count("strings also checked as bare word in value position", 1)
	}
	if c07BareOK(s, false) {
		kit.Count("strings also checked as bare word in key/projection/list position", 1)
	}
	return nil
}

func c07StrNonTrivial(c c07StrCase) bool {
	s := string(c.S)
	if s == "" || !utf8.ValidString(s) {
		return true
	}
	return strings.ContainsAny(s, "\"\\ :()@,-*/\t") || s == "AND" || s == "OR"
}

// the 18-symbol special alphabet of the design
var c07Alphabet = []string{`"`, `\`, " ", ":", "(", ")", "@", ",", "-", "*", "/", "a", "A", "O", "R", "\x80", "\xff", "\t"}

func c07GenRandomStr(r *kit.Rand, i int) c07StrCase {
	pool := []string{`"`, `\`, `\`, " ", ":", "(", ")", "@", ",", "-", "*", "/", "a", "b", "N", "D", "A", "O", "R", "=", ".", "0", "9",
		"\x80", "\xff", "\xc2", "\xa0", "\x85", "\t", "\n", "\r", "\x00", "\x7f", "\a", "é", "世", "\u00a0", "\u2028", "\u0085", "\u3000", "\U0001f600", "\ufffd", "'", "`", "$", "^", "[", "]", "|", "{"}
	var sb strings.Builder
	switch r.Intn(8) {
	case 0:
		sb.WriteString(kit.Pick(r, []string{".name", ".fullname", ".unit", ".config", ".file", "/gomaxprocs", "/size", "AND", "OR", "and", "AND ", "alpha", "num", "first", "fixed"}))
		if r.Bool() {
			sb.WriteString(kit.Pick(r, pool))
		}
	case 1: // any bytes
		for k := r.Range(1, 12); k > 0; k-- {
			sb.WriteByte(byte(r.Intn(256)))
		}
	default:
		for k := r.Range(0, 12); k > 0; k-- {
			sb.WriteString(kit.Pick(r, pool))
		}
		if r.Chance(0.3) { // runs of backslashes and quotes at the end
			sb.WriteString(strings.Repeat(`\`, r.Range(1, 3)))
			if r.Bool() {
				sb.WriteString(`"`)
			}
		}
	}
	s := sb.String()
	if len(s) > 16 {
		s = s[:16]
	}
	return c07StrCase{S: kit.B(s)}
}

// ---------------------------------------------------------------------------
// Valid expressions as token lists (for classes 2 and 3)

// kinds: 'w' bare word, 'q' quoted word, 'r' regexp, 'O' OR, 'A' AND, and the
// operator characters ( ) : - * @ ,
type c07Tok struct {
	K byte
	S string
}

func c07GenWord(r *kit.Rand, pool []string, value bool) c07Tok {
	s := kit.Pick(r, pool)
	if c07BareOK(s, value) && r.Chance(0.7) {
		return c07Tok{'w', s}
	}
	switch r.Intn(3) {
	case 0:
		return c07Tok{'q', c07MixedQuote(s)}
	case 1:
		return c07Tok{'q', strconv.QuoteToASCII(s)}
	}
	return c07Tok{'q', strconv.Quote(s)}
}

var c07FilterKeys = []string{".name", ".fullname", ".unit", "/size", "/gomaxprocs", "goos", "pkg", "cpu name", ".file", "é", "k\\"}
var c07Values = []string{"Foo", "4k", "ns/op", "sec/op", "linux", "a b", "", "x\\", "\"q\"", "-1", "*", "AND", "世", "\xff", "a,b", "(x)", "/slash", "a:b", "v@1"}
var c07Regexps = []string{"/a/", "/^Foo$/", "/(a|b)/", "/[/]x/", `/a\/b/`, "//", "/.*/", "/[^a-c]+/", "/(?i)foo/", "/a b/", `/\(/`, "/x{2,3}/", "/[)]/"}

func c07GenFilterToks(r *kit.Rand, depth int, out *[]c07Tok) {
	emit := func(k byte, s string) { *out = append(*out, c07Tok{k, s}) }
	if depth > 0 && r.Chance(0.6) {
		switch r.Intn(4) {
		case 0:
			emit('-', "-")
			emit('(', "(")
			c07GenFilterToks(r, depth-1, out)
			emit(')', ")")
		case 1:
			emit('(', "(")
			c07GenFilterToks(r, depth-1, out)
			emit(')', ")")
		case 2: // conjunction of parenthesised or atomic operands
			for k := r.Range(2, 3); k > 0; k-- {
				emit('(', "(")
				c07GenFilterToks(r, depth-1, out)
				emit(')', ")")
				if k > 1 && r.Chance(0.4) {
					emit('A', "AND")
				}
			}
		default:
			for k := r.Range(2, 3); k > 0; k-- {
				emit('(', "(")
				c07GenFilterToks(r, depth-1, out)
				emit(')', ")")
				if k > 1 {
					emit('O', "OR")
				}
			}
		}
		return
	}
	switch r.Intn(10) {
	case 0:
		emit('*', "*")
		return
	case 1:
		emit('-', "-")
	}
	*out = append(*out, c07GenWord(r, c07FilterKeys, false))
	emit(':', ":")
	val := func() {
		if r.Chance(0.25) {
			emit('r', kit.Pick(r, c07Regexps))
		} else {
			*out = append(*out, c07GenWord(r, c07Values, true))
		}
	}
	if r.Chance(0.3) {
		emit('(', "(")
		n := r.Range(1, 3)
		allLit := false
		if r.Chance(0.15) {
			n = r.Range(4, 14) // long alternative lists, half of them literals only
			allLit = r.Bool()
		}
		for k := n; k > 0; k-- {
			if allLit {
				*out = append(*out, c07GenWord(r, c07Values, true))
			} else {
				val()
			}
			if k > 1 {
				emit('O', "OR")
			}
		}
		emit(')', ")")
	} else {
		val()
	}
}

var c07ProjKeys = []string{".name", ".fullname", ".config", "/size", "/gomaxprocs", "goos", "pkg", "cpu name", ".file", "é", "k\\", "a,b"}

func c07GenProjToks(r *kit.Rand, out *[]c07Tok) {
	emit := func(k byte, s string) { *out = append(*out, c07Tok{k, s}) }
	keys := append([]string(nil), c07ProjKeys...)
	kit.Shuffle(r, keys)
	n := r.Range(1, 4)
	for i := 0; i < n; i++ {
		if i > 0 && r.Chance(0.6) {
			emit(',', ",")
		}
		*out = append(*out, c07GenWord(r, keys[i:i+1], false))
		switch r.Intn(4) {
		case 0:
			emit('@', "@")
			o := kit.Pick(r, []string{"alpha", "num", `"alpha"`, `"num"`})
			if o[0] == '"' {
				emit('q', o)
			} else {
				emit('w', o)
			}
		case 1:
			if keys[i] == ".config" {
				break
			}
			emit('@', "@")
			emit('(', "(")
			for k := r.Range(1, 3); k > 0; k-- {
				*out = append(*out, c07GenWord(r, c07Values, false))
			}
			emit(')', ")")
		}
	}
}

// c07Join concatenates tokens with a blank wherever two tokens would otherwise
// run together; never a blank around ':' and '@' or after '-'.
func c07Join(r *kit.Rand, toks []c07Tok) string {
	var sb strings.Builder
	for i, t := range toks {
		if i > 0 {
			p := toks[i-1]
			switch {
			case p.K == ':' || t.K == ':' || p.K == '-' || p.K == '@' || t.K == '@':
			case p.K == '(' || t.K == ')' || p.K == ',' || t.K == ',':
				if r.Chance(0.2) {
					sb.WriteByte(' ')
				}
			default:
				sb.WriteByte(' ')
				if r.Chance(0.1) {
					sb.WriteByte(' ')
				}
			}
		}
		sb.WriteString(t.S)
	}
	return sb.String()
}

func c07TextOf(toks []c07Tok) string {
	var sb strings.Builder
	for _, t := range toks {
		sb.WriteString(t.S)
	}
	return sb.String()
}

// ---------------------------------------------------------------------------
// Class 2: must-reject texts, invalid by construction on the token list

type c07RejectCase struct {
	Proj bool   // offered to ProjectionParser.Parse (else NewFilter)
	Base kit.B  // the valid expression the text was derived from ("" if none)
	Text kit.B  // the broken text
	Why  string // which must-reject class
	Arg  kit.B  // unknown-order: the order name used
	// Warm > 0 (projections only): the parser offered the text is not fresh
	// but has already parsed other, valid projections successfully, as the
	// commands' shared parser has: 1 = ParseWithUnit(".name"), 2 =
	// Parse("goos,/size") then ParseWithUnit(""), 3 = Parse(".fullname").
	Warm int `json:",omitempty"`
}

func c07ParseAs(text string, proj bool, warm ...int) error {
	if proj {
		var pp benchproc.ProjectionParser
		flt, _ := benchproc.NewFilter("*")
		w := 0
		if len(warm) > 0 {
			w = warm[0]
		}
		var werr error
		switch w {
		case 1:
			_, _, werr = pp.ParseWithUnit(".name", flt)
		case 2:
			if _, werr = pp.Parse("goos,/size", flt); werr == nil {
				_, _, werr = pp.ParseWithUnit("", flt)
			}
		case 3:
			_, werr = pp.Parse(".fullname", flt)
		}
		if werr != nil {
			return fmt.Errorf("warm-up projection rejected: %v", werr)
		}
		if w > 0 && len(text)%2 == 1 {
			_, _, err := pp.ParseWithUnit(text, flt)
			return err
		}
		_, err := pp.Parse(text, flt)
		return err
	}
	_, err := benchproc.NewFilter(text)
	return err
}

func c07RejectCheck(c c07RejectCase) *kit.Fail {
	if c.Base != "" {
		if err := c07ParseAs(string(c.Base), c.Proj, c.Warm); err != nil {
			return kit.Failf("valid-expression-rejected", "valid expression %q (proj=%v) rejected: %v", c.Base, c.Proj, err)
		}
	}
	text := string(c.Text)
	err := c07ParseAs(text, c.Proj, c.Warm)
	if err == nil {
		sig := "must-reject-accepted-" + c.Why
		if c.Why == "unknown-order" {
			// the internal order name "fixed" has its own narrow signature
			sig = "unknown-order-accepted"
			if c.Arg == "fixed" {
				sig = "order-name-fixed-accepted"
			}
		}
		return kit.Failf(sig, "%s: text %q (proj=%v, derived from %q) was accepted", c.Why, text, c.Proj, c.Base)
	}
	kit.Count("rejected as required: "+c.Why, 1)
	return c07CheckErr(text, err)
}

func c07Has(toks []c07Tok, k byte) []int {
	var idx []int
	for i, t := range toks {
		if t.K == k {
			idx = append(idx, i)
		}
	}
	return idx
}

func c07Without(toks []c07Tok, i int) []c07Tok {
	out := append([]c07Tok(nil), toks[:i]...)
	return append(out, toks[i+1:]...)
}

func c07With(toks []c07Tok, i int, t ...c07Tok) []c07Tok {
	out := append([]c07Tok(nil), toks[:i]...)
	out = append(out, t...)
	return append(out, toks[i:]...)
}

// Order names that are not documented sort orders. "first" is deliberately
// absent: parse.Field documents it as the name of the default order.
// Order names that no reasonable implementation would accept. Plausible
// aliases or case variants of the documented names ("numeric", "Alpha", "NUM",
// "desc", ...) are deliberately NOT here: a tree that adds such an alias makes
// it a known order (false alarm on a benign change, DESIGN.md 9.5).
var c07BogusOrders = []string{"bogus", "zzqx", "alhpa", "nmu", "", "alpha ", "fixed", "fixed", "fixe", "fixedd", "qq7", "x", "@", "al pha"}

func c07RejectGen(r *kit.Rand, i int) c07RejectCase {
	for {
		proj := i%2 == 1
		var toks []c07Tok
		if proj {
			c07GenProjToks(r, &toks)
		} else {
			c07GenFilterToks(r, r.Range(0, 3), &toks)
		}
		base := c07Join(r, toks)
		var broken []c07Tok
		why, arg := "", ""
		noLater := func(i int, ch string) bool {
			for _, t := range toks[i+1:] {
				if strings.Contains(t.S, ch) {
					return false
				}
			}
			return true
		}
		switch r.Intn(12) {
		case 0: // remove one ')'
			if idx := c07Has(toks, ')'); len(idx) > 0 {
				broken, why = c07Without(toks, kit.Pick(r, idx)), "unbalanced-parens-missing-close"
			}
		case 1: // add one '('
			p := r.Intn(len(toks) + 1)
			broken, why = c07With(toks, p, c07Tok{'(', "("}), "unbalanced-parens-extra-open"
		case 2: // add one ')'
			p := r.Intn(len(toks) + 1)
			broken, why = c07With(toks, p, c07Tok{')', ")"}), "unbalanced-parens-extra-close"
		case 3: // remove one '('
			if idx := c07Has(toks, '('); len(idx) > 0 {
				broken, why = c07Without(toks, kit.Pick(r, idx)), "unbalanced-parens-missing-open"
			}
		case 4: // unterminated quoted word: the last one, nothing with a quote after it
			if idx := c07Has(toks, 'q'); len(idx) > 0 {
				k := idx[len(idx)-1]
				if noLater(k, `"`) {
					broken = append([]c07Tok(nil), toks...)
					broken[k].S = broken[k].S[:len(broken[k].S)-1]
					why = "unterminated-quoted-word"
				}
			}
		case 5: // unterminated regexp: the last one, no '/' after it
			if idx := c07Has(toks, 'r'); len(idx) > 0 && !proj {
				k := idx[len(idx)-1]
				if noLater(k, "/") && len(toks[k].S) >= 2 {
					broken = append([]c07Tok(nil), toks...)
					broken[k].S = broken[k].S[:len(broken[k].S)-1]
					why = "unterminated-regexp"
				}
			}
		case 6: // a term without ':'
			if idx := c07Has(toks, ':'); len(idx) > 0 {
				broken, why = c07Without(toks, kit.Pick(r, idx)), "term-lacks-colon"
			}
		case 7: // a term without a value (followed by the end or by ')')
			if proj {
				break
			}
			var cand []int
			for k, t := range toks {
				if t.K == ':' && k+1 < len(toks) && strings.IndexByte("wqr", toks[k+1].K) >= 0 && (k+2 == len(toks) || toks[k+2].K == ')') {
					cand = append(cand, k+1)
				}
				// one-element value list: k:(v) -> k:()
				if t.K == ':' && k+3 < len(toks) && toks[k+1].K == '(' && strings.IndexByte("wqr", toks[k+2].K) >= 0 && toks[k+3].K == ')' {
					cand = append(cand, k+2)
				}
			}
			if len(cand) > 0 {
				broken, why = c07Without(toks, kit.Pick(r, cand)), "term-lacks-value"
			}
		case 8: // .config in a filter / .unit in a projection
			var cand []int
			for k, t := range toks {
				if (!proj && (t.K == 'w' || t.K == 'q') && k+1 < len(toks) && toks[k+1].K == ':') || (proj && c07IsProjKey(toks, k)) {
					cand = append(cand, k)
				}
			}
			if len(cand) > 0 {
				k := kit.Pick(r, cand)
				broken = append([]c07Tok(nil), toks...)
				word := ".config"
				why = "config-in-filter"
				if proj {
					word, why = ".unit", "unit-in-projection"
				}
				switch r.Intn(3) {
				case 0:
					broken[k] = c07Tok{'q', strconv.Quote(word)}
				case 1:
					broken[k] = c07Tok{'q', c07HexQuote(word)}
				default:
					broken[k] = c07Tok{'w', word}
				}
			}
		case 9, 10: // empty fixed list / unknown sort order on a key of a projection
			if !proj {
				break
			}
			// pick a key without an order and give it one
			var cand []int
			for k := range toks {
				if c07IsProjKey(toks, k) && (k+1 == len(toks) || toks[k+1].K != '@') {
					cand = append(cand, k)
				}
			}
			if len(cand) == 0 {
				break
			}
			k := kit.Pick(r, cand)
			if r.Bool() {
				broken, why = c07With(toks, k+1, c07Tok{'@', "@"}, c07Tok{'(', "("}, c07Tok{')', ")"}), "empty-fixed-list"
			} else {
				arg = kit.Pick(r, c07BogusOrders)
				ot := c07Tok{'w', arg}
				if !c07BareOK(arg, false) || r.Chance(0.3) {
					ot = c07Tok{'q', strconv.Quote(arg)}
				}
				broken, why = c07With(toks, k+1, c07Tok{'@', "@"}, ot), "unknown-order"
			}
		default: // fixed texts of each class
			fixed := []struct {
				Proj       bool
				Base, Text kit.B
				Why        string
				Arg        kit.B
			}{
				{false, "", "(", "unbalanced-parens-extra-open", ""}, {false, "", ")", "unbalanced-parens-extra-close", ""}, {false, "", "(a:b", "unbalanced-parens-missing-close", ""},
				{false, "", "a:b)", "unbalanced-parens-extra-close", ""}, {false, "", "a:(b", "unbalanced-parens-missing-close", ""}, {false, "", "((a:b)", "unbalanced-parens-missing-close", ""},
				{false, "", `a:"b`, "unterminated-quoted-word", ""}, {false, "", `"a:b`, "unterminated-quoted-word", ""}, {false, "", `a:"b\"`, "unterminated-quoted-word", ""}, {false, "", `a:"`, "unterminated-quoted-word", ""},
				{false, "", `a:"b\\\"`, "unterminated-quoted-word", ""},
				{false, "", "a:/b", "unterminated-regexp", ""}, {false, "", "a:/", "unterminated-regexp", ""}, {false, "", `a:/b\/`, "unterminated-regexp", ""}, {false, "", "a:/[/", "unterminated-regexp", ""}, {false, "", "a:(/b OR c)", "unterminated-regexp", ""},
				{false, "", "a", "term-lacks-colon", ""}, {false, "", "a b", "term-lacks-colon", ""}, {false, "", `"a"`, "term-lacks-colon", ""}, {false, "", "a:b c", "term-lacks-colon", ""}, {false, "", "-a", "term-lacks-colon", ""},
				{false, "", "a:", "term-lacks-value", ""}, {false, "", "(a:)", "term-lacks-value", ""}, {false, "", "a:()", "term-lacks-value", ""}, {false, "", "b:c a:", "term-lacks-value", ""}, {false, "", "-a:", "term-lacks-value", ""},
				{false, "", ".config:x", "config-in-filter", ""}, {false, "", `".config":x`, "config-in-filter", ""}, {false, "", "a:b .config:(x OR y)", "config-in-filter", ""}, {false, "", "-.config:/x/", "config-in-filter", ""},
				{true, "", "k@()", "empty-fixed-list", ""}, {true, "", "k@( )", "empty-fixed-list", ""}, {true, "", "a,k@(),b", "empty-fixed-list", ""}, {true, "", `"k"@()`, "empty-fixed-list", ""},
				{true, "", "k@bogus", "unknown-order", "bogus"}, {true, "", "a k@x b", "unknown-order", "x"}, {true, "", `k@""`, "unknown-order", ""},
				{true, "", "k@fixed", "unknown-order", "fixed"}, {true, "", `a,k@"fixed" b`, "unknown-order", "fixed"},
				{true, "", ".unit", "unit-in-projection", ""}, {true, "", "a,.unit", "unit-in-projection", ""}, {true, "", ".unit@alpha", "unit-in-projection", ""}, {true, "", `".unit"`, "unit-in-projection", ""}, {true, "", ".unit@(a)", "unit-in-projection", ""},
				{true, "", "k@(a", "unbalanced-parens-missing-close", ""}, {true, "", "k@(a))", "unbalanced-parens-extra-close", ""}, {true, "", "k)", "unbalanced-parens-extra-close", ""}, {true, "", "(k", "unbalanced-parens-extra-open", ""}, {true, "", "k@a)", "unbalanced-parens-extra-close", ""},
				{true, "", `"k`, "unterminated-quoted-word", ""}, {true, "", `k@"alpha`, "unterminated-quoted-word", ""}, {true, "", `k@(a "b)`, "unterminated-quoted-word", ""},
			}
			f := kit.Pick(r, fixed)
			fc := c07RejectCase{Proj: f.Proj, Base: f.Base, Text: f.Text, Why: f.Why, Arg: f.Arg}
			if fc.Proj && r.Bool() {
				fc.Warm = r.Range(1, 3)
			}
			return fc
		}
		if why == "" {
			continue
		}
		warm := 0
		if proj && r.Chance(0.5) {
			warm = r.Range(1, 3)
		}
		return c07RejectCase{Proj: proj, Base: kit.B(base), Text: kit.B(c07Join(r, broken)), Why: why, Arg: kit.B(arg), Warm: warm}
	}
}

// c07IsProjKey: token k of a projection token list is a key (a word that is
// neither an order name nor a member of a value list).
func c07IsProjKey(toks []c07Tok, k int) bool {
	t := toks[k]
	return (t.K == 'w' || t.K == 'q') && !(k > 0 && toks[k-1].K == '@') && !c07InList(toks, k)
}

// c07InList reports whether token k lies inside a parenthesised list.
func c07InList(toks []c07Tok, k int) bool {
	depth := 0
	for _, t := range toks[:k] {
		switch t.K {
		case '(':
			depth++
		case ')':
			depth--
		}
	}
	return depth > 0
}

// ---------------------------------------------------------------------------
// Class 3: no text makes the parsers panic, hang or report a position outside

type c07TextCase struct{ Text kit.B }

func c07TextCheck(c c07TextCase) *kit.Fail {
	text := string(c.Text)
	accepted := 0
	{
		_, err := benchproc.NewFilter(text)
		if fail := c07CheckErr(text, err); fail != nil {
			fail.Msg = "NewFilter: " + fail.Msg
			return fail
		}
		if err == nil {
			accepted++
		}
	}
	{
		var pp benchproc.ProjectionParser
		flt, _ := benchproc.NewFilter("*")
		_, err := pp.Parse(text, flt)
		if fail := c07CheckErr(text, err); fail != nil {
			fail.Msg = "ProjectionParser.Parse: " + fail.Msg
			return fail
		}
		if err == nil {
			accepted++
		}
	}
	{
		var pp benchproc.ProjectionParser
		flt, _ := benchproc.NewFilter("*")
		_, _, err := pp.ParseWithUnit(text, flt)
		if fail := c07CheckErr(text, err); fail != nil {
			fail.Msg = "ProjectionParser.ParseWithUnit: " + fail.Msg
			return fail
		}
	}
	if accepted > 0 {
		kit.Count("arbitrary texts accepted by a parser", 1)
	} else {
		kit.Count("arbitrary texts rejected by both parsers", 1)
	}
	return nil
}

func c07TextGen(r *kit.Rand, i int) c07TextCase {
	special := []string{`"`, `\`, " ", ":", "(", ")", "@", ",", "-", "*", "/", "a", "k", "AND", "OR", " AND ", " OR ", "\x80", "\xff", "\t", "\n", "\u00a0", "\u2028", "\x85", "\xa0", "\xc2",
		"[", "]", "|", "^", "$", "?", "+", "{", "}", ".", "0", "é", "\x00", ".unit", ".config", ".name", "@(", "()", `\"`, `\\`, "//", `\/`, "(?", "[^", "{9999}", `\x`, `\u12`, `\400`, "'"}
	var text string
	switch r.Intn(5) {
	case 0: // random special symbols
		var sb strings.Builder
		for k := r.Range(0, 24); k > 0; k-- {
			sb.WriteString(kit.Pick(r, special))
		}
		text = sb.String()
	case 1: // random bytes
		var sb strings.Builder
		for k := r.Range(0, 30); k > 0; k-- {
			sb.WriteByte(byte(r.Intn(256)))
		}
		text = sb.String()
	default: // byte- and token-level edits of a valid expression
		var toks []c07Tok
		if r.Bool() {
			c07GenProjToks(r, &toks)
		} else {
			c07GenFilterToks(r, r.Range(0, 4), &toks)
		}
		for k := r.Range(0, 3); k > 0 && len(toks) > 0; k-- {
			p := r.Intn(len(toks))
			switch r.Intn(4) {
			case 0:
				toks = c07Without(toks, p)
			case 1:
				toks = c07With(toks, p, toks[r.Intn(len(toks))])
			case 2:
				toks = c07With(toks, p, c07Tok{'w', kit.Pick(r, special)})
			default:
				q := r.Intn(len(toks))
				toks[p], toks[q] = toks[q], toks[p]
			}
		}
		if r.Chance(0.3) {
			text = c07TextOf(toks) // no separating blanks at all
		} else {
			text = c07Join(r, toks)
		}
		b := []byte(text)
		for k := r.Range(0, 3); k > 0 && len(b) > 0; k-- {
			p := r.Intn(len(b))
			switch r.Intn(4) {
			case 0:
				b = append(b[:p], b[p+1:]...)
			case 1:
				b = append(b[:p], append([]byte(kit.Pick(r, special)), b[p:]...)...)
			case 2:
				b = b[:p]
			default:
				b[p] = byte(r.Intn(256))
			}
		}
		text = string(b)
	}
	return c07TextCase{Text: kit.B(text)}
}

func c07TextNonTrivial(c c07TextCase) bool {
	return strings.ContainsAny(string(c.Text), "\"\\():@,/-*") || !utf8.ValidString(string(c.Text))
}

// ---------------------------------------------------------------------------

func TestVerifC07(t *testing.T) {
	exhaustive := kit.Class[c07StrCase]{
		Name: "expressible-exhaustive",
		Enum: func(thorough bool, yield func(c07StrCase)) {
			maxLen := 3
			if thorough {
				maxLen = 4
			}
			var rec func(prefix string, n int)
			rec = func(prefix string, n int) {
				yield(c07StrCase{S: kit.B(prefix)})
				if n == maxLen {
					return
				}
				for _, a := range c07Alphabet {
					rec(prefix+a, n+1)
				}
			}
			rec("", 0)
			for _, s := range []string{"AND", "OR", "AND ", "ORR", "aAND", ".unit", ".config", ".name", ".fullname", "/gomaxprocs", `a\\`, `\\\\`, `a\\\"`, `\"\\`} {
				yield(c07StrCase{S: kit.B(s)})
			}
		},
		Check: c07StrCheck, NonTrivial: c07StrNonTrivial, MinNonTrivial: 5000,
		Rule:            "every string of length <=3 (quick) / <=4 (thorough) over the 18-symbol alphabet {\" \\ blank : ( ) @ , - * / a A O R 0x80 0xFF tab}, written as strconv.Quote, QuoteToASCII, all-\\x and a mixed octal/\\u/raw double-quoted literal - and as a bare word when it has the documented bareWord shape - in four positions: filter value (k:w, k:(zz OR w)), filter key (w:v), projection key (w, w@alpha, zz,w) and fixed-list member (k@(w), k@(zz w yy)); the denotation is observed on results that hold exactly the string and ~14 near misses of it (e.g. the escaped text, the text with its quotes, one byte shorter/longer/changed); non-trivial = the string contains a special character or a non-UTF-8 byte or is empty",
		HangIsViolation: true, CaseTimeout: 2 * time.Minute,
	}
	random := kit.Class[c07StrCase]{
		Name: "expressible-random", Quick: 6000, Thorough: 400000,
		Gen: c07GenRandomStr, Check: c07StrCheck, NonTrivial: c07StrNonTrivial, MinNonTrivial: 3000,
		Rule:            "random byte strings of length <=16 (all 256 byte values, quotes, runs of backslashes, Unicode white space, control characters, key names and operator words) in the same four positions and spellings",
		HangIsViolation: true, CaseTimeout: 2 * time.Minute,
	}
	reject := kit.Class[c07RejectCase]{
		Name: "must-reject", Quick: 40000, Thorough: 2000000,
		Gen: c07RejectGen, Check: c07RejectCheck, MinNonTrivial: 10000,
		Rule:            "a random valid filter or projection built as a token list (checked to be accepted) with one breaking edit made on the token list, so that the text is invalid by construction: one ')' or '(' removed or added, closing quote of the last quoted word dropped (no later quote), closing '/' of the last regexp dropped (no later '/'), ':' of a term dropped, value of a term dropped before ')' or the end, key replaced by .config (filter) / .unit (projection), a key given '@()' or '@' + a name other than alpha/num; plus ~50 fixed texts; every case counts as non-trivial",
		HangIsViolation: true, CaseTimeout: 2 * time.Minute,
	}
	texts := kit.Class[c07TextCase]{
		Name: "any-text", Quick: 60000, Thorough: 3000000,
		Gen: c07TextGen, Check: c07TextCheck, NonTrivial: c07TextNonTrivial, MinNonTrivial: 20000,
		Rule:            "random symbol soups over the special characters, random bytes, and valid expressions damaged by 0-3 token edits and 0-3 byte edits (with and without separating blanks), each offered to NewFilter, ProjectionParser.Parse and ParseWithUnit; every error must be a *parse.SyntaxError with 0 <= Off <= len(text) whose Error() can be formatted; a panic or a case that does not return is a violation; non-trivial = the text contains a special character or invalid UTF-8",
		HangIsViolation: true, CaseTimeout: 2 * time.Minute,
	}
	kit.Run(t, "C07", exhaustive, random, reject, texts)
}
