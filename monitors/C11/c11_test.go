//go:build verif

package stats_test

// C11: exact Mann-Whitney U.
//
// Observation points: stats.MannWhitneyUTest (U, P, error) for all three
// alternatives, stats.UDist.PMF/CDF, and the legacy wrapper benchstat.UTest.
//
// Oracles (all written here, none of them shares code with the package):
//   - U from its definition (double loop over the Cartesian product, in 2U);
//   - exact null distribution of 2U by brute force over all C(n1+n2,n1)
//     relabellings of the pooled values (n1+n2 <= 12) and by an integer
//     counting recurrence over tie groups in 128-bit arithmetic (any size up
//     to 100 pooled values); the two are cross-checked against each other
//     wherever both apply;
//   - tie- and continuity-corrected normal approximation with math.Erfc.
//
// The only recorded-not-repaired defect is the two-sided value on tied
// samples in the exact path (signature utest-twosided-tied-2cdfmin); the
// predicate for that signature is evaluated in c11TwoSidedSig and is as
// narrow as the root cause.

import (
	"errors"
	"fmt"
	"math"
	"math/big"
	"math/bits"
	"sort"
	"testing"

	"golang.org/x/perf/benchstat"
	"golang.org/x/perf/internal/stats"
	kit "golang.org/x/perf/internal/verifkit"
)

const (
	c11Tol      = 1e-12 // absolute tolerance on probabilities
	c11KnownSig = "utest-twosided-tied-2cdfmin"
)

// ---------------------------------------------------------------------------
// 128-bit unsigned counters (C(100,50) < 2^97).

type c11U128 struct{ hi, lo uint64 }

func (a c11U128) isZero() bool { return a.hi == 0 && a.lo == 0 }

func (a c11U128) add(b c11U128) c11U128 {
	lo, c := bits.Add64(a.lo, b.lo, 0)
	hi, c2 := bits.Add64(a.hi, b.hi, c)
	if c2 != 0 {
		panic("c11 oracle: 128-bit overflow in add")
	}
	return c11U128{hi, lo}
}

func (a c11U128) mul64(m uint64) c11U128 {
	h, l := bits.Mul64(a.lo, m)
	hh, hl := bits.Mul64(a.hi, m)
	if hh != 0 {
		panic("c11 oracle: 128-bit overflow in mul")
	}
	hi, c := bits.Add64(h, hl, 0)
	if c != 0 {
		panic("c11 oracle: 128-bit overflow in mul")
	}
	return c11U128{hi, l}
}

func (a c11U128) big() *big.Int {
	z := new(big.Int).SetUint64(a.hi)
	z.Lsh(z, 64)
	return z.Add(z, new(big.Int).SetUint64(a.lo))
}

func c11Binom64(n, k int) uint64 {
	z := new(big.Int).Binomial(int64(n), int64(k))
	if !z.IsUint64() {
		panic("c11 oracle: binomial does not fit 64 bits")
	}
	return z.Uint64()
}

// c11DP returns, indexed by 2U, the number of ways to choose which n1 of the
// pooled values (tie vector T, ascending) form the first sample such that the
// first sample's statistic is U. Counting recurrence over tie groups: when
// u of the t values of a group go to sample 1 (C(t,u) ways) each of them
// beats every sample-2 value of the lower groups (2 each in 2U) and ties with
// the t-u sample-2 values of its own group (1 each).
func c11DP(n1 int, T []int) []*big.Int {
	N := 0
	for _, t := range T {
		N += t
	}
	n2 := N - n1
	if n1 < 0 || n2 < 0 || N > 100 {
		panic("c11 oracle: DP domain")
	}
	size := 2*n1*n2 + 1
	type row struct {
		v      []c11U128
		lo, hi int // non-zero entries lie in [lo,hi]; lo>hi = empty
	}
	mk := func() []row {
		rs := make([]row, n1+1)
		for i := range rs {
			rs[i] = row{lo: 1, hi: 0}
		}
		return rs
	}
	cur, next := mk(), mk()
	cur[0].v = make([]c11U128, size)
	cur[0].v[0] = c11U128{0, 1}
	cur[0].lo, cur[0].hi = 0, 0
	below := 0
	for _, t := range T {
		for i := range next {
			if next[i].lo <= next[i].hi {
				for j := next[i].lo; j <= next[i].hi; j++ {
					next[i].v[j] = c11U128{}
				}
			}
			next[i].lo, next[i].hi = 1, 0
		}
		for c := 0; c <= n1 && c <= below; c++ {
			r := cur[c]
			if r.lo > r.hi {
				continue
			}
			for u := 0; u <= t && c+u <= n1; u++ {
				v := t - u
				if below-c+v > n2 {
					continue
				}
				d := u * (2*(below-c) + v)
				w := c11Binom64(t, u)
				dst := &next[c+u]
				if dst.v == nil {
					dst.v = make([]c11U128, size)
				}
				for tw := r.lo; tw <= r.hi; tw++ {
					x := r.v[tw]
					if x.isZero() {
						continue
					}
					dst.v[tw+d] = dst.v[tw+d].add(x.mul64(w))
				}
				if dst.lo > dst.hi {
					dst.lo, dst.hi = r.lo+d, r.hi+d
				} else {
					if r.lo+d < dst.lo {
						dst.lo = r.lo + d
					}
					if r.hi+d > dst.hi {
						dst.hi = r.hi + d
					}
				}
			}
		}
		cur, next = next, cur
		below += t
	}
	out := make([]*big.Int, size)
	total := new(big.Int)
	for i := range out {
		if cur[n1].v != nil {
			out[i] = cur[n1].v[i].big()
		} else {
			out[i] = new(big.Int)
		}
		total.Add(total, out[i])
	}
	if total.Cmp(new(big.Int).Binomial(int64(N), int64(n1))) != 0 {
		panic(fmt.Sprintf("c11 oracle: DP total %v != C(%d,%d)", total, N, n1))
	}
	return out
}

// c11Brute counts, indexed by 2U, the C(N,n1) relabellings of the pooled
// values directly from the definition of U.
func c11Brute(pooled []float64, n1 int) []*big.Int {
	N := len(pooled)
	n2 := N - n1
	if N > 16 {
		panic("c11 oracle: brute force domain")
	}
	w := make([][]int, N)
	for i := range w {
		w[i] = make([]int, N)
		for j := range w[i] {
			switch {
			case pooled[i] > pooled[j]:
				w[i][j] = 2
			case pooled[i] == pooled[j]:
				w[i][j] = 1
			}
		}
	}
	counts := make([]int64, 2*n1*n2+1)
	if n1 == 0 || n2 == 0 {
		counts[0] = 1
	} else {
		full := uint32(1)<<uint(N) - 1
		for m := uint32(1)<<uint(n1) - 1; m <= full; {
			tw := 0
			for i := 0; i < N; i++ {
				if m>>uint(i)&1 == 0 {
					continue
				}
				for j := 0; j < N; j++ {
					if m>>uint(j)&1 == 0 {
						tw += w[i][j]
					}
				}
			}
			counts[tw]++
			// Gosper's hack: next mask with the same population count.
			c := m & -m
			r := m + c
			m = (((r ^ m) >> 2) / c) | r
		}
	}
	out := make([]*big.Int, len(counts))
	for i, c := range counts {
		out[i] = big.NewInt(c)
	}
	return out
}

func c11Ratio(num, den *big.Int) float64 {
	f, _ := new(big.Rat).SetFrac(num, den).Float64()
	return f
}

// ---------------------------------------------------------------------------
// Oracle for one pair of samples.

type c11Oracle struct {
	n1, n2  int
	twoU    int   // observed 2U from the definition
	T       []int // tie vector of the pooled values, ascending
	hasTies bool
	exact   bool // exact path applies by the documented size limits
	beyond  bool // exact path applies but the pair is too large for the counting oracle
	// exact path:
	less, greater, two float64 // statement values
	wrong2             float64 // the recorded wrong two-sided formula (tied only)
	// for the swapped orientation (x2 first): U' = n1*n2-U
	wrong2Swapped float64
}

func c11TieVector(pooled []float64) (T []int, hasTies bool) {
	for i := 0; i < len(pooled); {
		j := i
		for j < len(pooled) && pooled[j] == pooled[i] {
			j++
		}
		T = append(T, j-i)
		if j-i > 1 {
			hasTies = true
		}
		i = j
	}
	return
}

func c11MakeOracle(x1, x2 []float64) *c11Oracle {
	o := &c11Oracle{n1: len(x1), n2: len(x2)}
	for _, a := range x1 {
		for _, b := range x2 {
			switch {
			case a > b:
				o.twoU += 2
			case a == b:
				o.twoU++
			}
		}
	}
	pooled := append(append([]float64(nil), x1...), x2...)
	sort.Float64s(pooled)
	o.T, o.hasTies = c11TieVector(pooled)
	if o.hasTies {
		o.exact = o.n1 <= stats.MannWhitneyTiesExactLimit && o.n2 <= stats.MannWhitneyTiesExactLimit
	} else {
		o.exact = o.n1 <= stats.MannWhitneyExactLimit && o.n2 <= stats.MannWhitneyExactLimit
	}
	if o.n1 == 0 || o.n2 == 0 || len(o.T) < 2 {
		return o
	}
	if o.exact {
		var counts []*big.Int
		if o.n1+o.n2 <= 100 {
			counts = c11DP(o.n1, o.T)
		}
		if o.n1+o.n2 <= 12 {
			br := c11Brute(pooled, o.n1)
			if counts != nil {
				for i := range br {
					if br[i].Cmp(counts[i]) != 0 {
						panic(fmt.Sprintf("c11 oracle: brute force and DP disagree at 2U=%d: %v vs %v (n1=%d T=%v)", i, br[i], counts[i], o.n1, o.T))
					}
				}
			}
			counts = br
		}
		if counts == nil {
			// The library's exact limits are read from its exported constants;
			// a tree that raises them (benign change, DESIGN.md 9.5) can make the
			// exact path apply beyond what this oracle enumerates: such pairs are
			// skipped and counted, not judged.
			o.beyond = true
			return o
		}
		total := new(big.Int)
		for _, c := range counts {
			total.Add(total, c)
		}
		cum := func(upto int) *big.Int { // sum of counts[0..upto]
			z := new(big.Int)
			for i := 0; i <= upto && i < len(counts); i++ {
				z.Add(z, counts[i])
			}
			return z
		}
		le := cum(o.twoU)
		ge := new(big.Int).Sub(total, cum(o.twoU-1))
		o.less = c11Ratio(le, total)
		o.greater = c11Ratio(ge, total)
		m := le
		if ge.Cmp(le) < 0 {
			m = ge
		}
		two := new(big.Rat).SetFrac(new(big.Int).Lsh(m, 1), total)
		if two.Cmp(big.NewRat(1, 1)) > 0 {
			o.two = 1
		} else {
			o.two, _ = two.Float64()
		}
		// The recorded wrong formula: 1 if U1==U2 else 2*P(U <= min(U1,U2)).
		max2 := 2 * o.n1 * o.n2
		if o.twoU == max2-o.twoU {
			o.wrong2, o.wrong2Swapped = 1, 1
		} else {
			mn := o.twoU
			if max2-o.twoU < mn {
				mn = max2 - o.twoU
			}
			o.wrong2 = c11Ratio(new(big.Int).Lsh(cum(mn), 1), total)
			// Swapped: U' = n1n2-U, P(U' <= m) = P(U >= n1n2-m).
			geM := new(big.Int).Sub(total, cum(max2-mn-1))
			o.wrong2Swapped = c11Ratio(new(big.Int).Lsh(geM, 1), total)
		}
	} else {
		N := float64(o.n1 + o.n2)
		tie := 0.0
		for _, t := range o.T {
			tie += float64(t*t*t - t)
		}
		mu := float64(o.n1) * float64(o.n2) / 2
		sigma := math.Sqrt(float64(o.n1) * float64(o.n2) / 12 * ((N + 1) - tie/(N*(N-1))))
		U := float64(o.twoU) / 2
		o.less = 0.5 * math.Erfc(-(U-mu+0.5)/(sigma*math.Sqrt2))
		o.greater = 0.5 * math.Erfc((U-mu-0.5)/(sigma*math.Sqrt2))
		o.two = math.Min(1, 2*math.Min(o.less, o.greater))
	}
	return o
}

// c11TwoSidedSig classifies a two-sided mismatch. The recorded signature is
// assigned only if ALL of: pooled sample has ties, exact path, U right, and
// the returned value equals the recorded wrong formula evaluated with the
// oracle's own distribution.
func c11TwoSidedSig(o *c11Oracle, uRight bool, got, wrong float64, otherwise string) string {
	if o.hasTies && o.exact && uRight && math.Abs(got-wrong) <= c11Tol {
		return c11KnownSig
	}
	return otherwise
}

type c11Pair struct {
	X1, X2 []float64
	// EL, TL > 0: the case is evaluated with the documented package variables
	// MannWhitneyExactLimit / MannWhitneyTiesExactLimit set to these values
	// (class modified-exact-limits, run serially; restored afterwards).
	EL, TL int `json:",omitempty"`
}

func c11Copy(x []float64) []float64 { return append([]float64(nil), x...) }

func c11AltName(a stats.LocationHypothesis) string {
	switch a {
	case stats.LocationLess:
		return "less"
	case stats.LocationGreater:
		return "greater"
	}
	return "differs"
}

func c11CheckPair(c c11Pair) *kit.Fail {
	o := c11MakeOracle(c.X1, c.X2)
	if o.beyond {
		kit.Count("pairs in the exact path beyond the counting oracle (skipped)", 1)
		return nil
	}
	var fails []*kit.Fail
	add := func(f *kit.Fail) { fails = append(fails, f) }
	alts := []stats.LocationHypothesis{stats.LocationLess, stats.LocationDiffers, stats.LocationGreater}

	degenerate := o.n1 == 0 || o.n2 == 0 || len(o.T) < 2
	if degenerate {
		for _, alt := range alts {
			res, err := stats.MannWhitneyUTest(c11Copy(c.X1), c11Copy(c.X2), alt)
			if err == nil {
				add(kit.Failf("degenerate-not-error", "n1=%d n2=%d distinct=%d alt=%s: no error, result %+v", o.n1, o.n2, len(o.T), c11AltName(alt), res))
				continue
			}
			empty := o.n1 == 0 || o.n2 == 0
			allEq := len(o.T) < 2 && o.n1+o.n2 > 0
			okKind := (empty && errors.Is(err, stats.ErrSampleSize)) || (allEq && !empty && errors.Is(err, stats.ErrSamplesEqual)) ||
				(empty && allEq && errors.Is(err, stats.ErrSamplesEqual))
			if !okKind {
				add(kit.Failf("error-kind", "n1=%d n2=%d distinct=%d alt=%s: error %v is not the documented one", o.n1, o.n2, len(o.T), c11AltName(alt), err))
			}
		}
		if _, err := benchstat.UTest(&benchstat.Metrics{RValues: c11Copy(c.X1)}, &benchstat.Metrics{RValues: c11Copy(c.X2)}); err == nil {
			add(kit.Failf("legacy-degenerate-not-error", "benchstat.UTest n1=%d n2=%d distinct=%d: no error", o.n1, o.n2, len(o.T)))
		}
		kit.Count("degenerate pairs", 1)
		return c11First(fails)
	}

	wantU := float64(o.twoU) / 2
	var twoSidedP float64
	twoSidedOK := false
	firstU, firstP := map[stats.LocationHypothesis]float64{}, map[stats.LocationHypothesis]float64{}
	for _, alt := range alts {
		res, err := stats.MannWhitneyUTest(c11Copy(c.X1), c11Copy(c.X2), alt)
		if err != nil || res == nil {
			add(kit.Failf("unexpected-error", "alt=%s n1=%d n2=%d T=%v: err=%v res=%v", c11AltName(alt), o.n1, o.n2, o.T, err, res))
			continue
		}
		firstU[alt], firstP[alt] = res.U, res.P
		uRight := math.Abs(res.U-wantU) <= 1e-9*math.Max(1, wantU)
		if !uRight {
			add(kit.Failf("u-wrong", "alt=%s: U=%v, definition gives %v (n1=%d n2=%d T=%v)", c11AltName(alt), res.U, wantU, o.n1, o.n2, o.T))
		}
		if res.N1 != o.n1 || res.N2 != o.n2 {
			add(kit.Failf("n-wrong", "alt=%s: N1=%d N2=%d for sizes %d,%d", c11AltName(alt), res.N1, res.N2, o.n1, o.n2))
		}
		path := "exact"
		if !o.exact {
			path = "normal"
		}
		if !(res.P >= -c11Tol && res.P <= 1+c11Tol) {
			sig := "p-out-of-range"
			if alt == stats.LocationDiffers {
				sig = c11TwoSidedSig(o, uRight, res.P, o.wrong2, sig)
			}
			add(kit.Failf(sig, "alt=%s path=%s: P=%v outside [0,1] (n1=%d n2=%d U=%v T=%v)", c11AltName(alt), path, res.P, o.n1, o.n2, wantU, o.T))
			continue
		}
		switch alt {
		case stats.LocationLess:
			if math.Abs(res.P-o.less) > c11Tol {
				add(kit.Failf("less-wrong-"+path, "P=%v want P(U<=%v)=%v (n1=%d n2=%d T=%v)", res.P, wantU, o.less, o.n1, o.n2, o.T))
			}
		case stats.LocationGreater:
			if math.Abs(res.P-o.greater) > c11Tol {
				add(kit.Failf("greater-wrong-"+path, "P=%v want P(U>=%v)=%v (n1=%d n2=%d T=%v)", res.P, wantU, o.greater, o.n1, o.n2, o.T))
			}
		default:
			twoSidedP = res.P
			if math.Abs(res.P-o.two) > c11Tol {
				sig := c11TwoSidedSig(o, uRight, res.P, o.wrong2, "twosided-wrong-"+path)
				add(kit.Failf(sig, "P=%v want min(1,2*min(%v,%v))=%v (n1=%d n2=%d U=%v T=%v)", res.P, o.less, o.greater, o.two, o.n1, o.n2, wantU, o.T))
			} else {
				twoSidedOK = true
			}
		}
	}

	// The same values handed over the way callers hold them: already sorted,
	// with spare capacity behind the first sample (built by append), either in
	// separate arrays or as adjacent windows of one buffer, and the SAME slices
	// reused for all three alternatives. U and P are functions of the two
	// multisets, so every call must repeat the numbers found above.
	{
		s1, s2 := c11Copy(c.X1), c11Copy(c.X2)
		sort.Float64s(s1)
		sort.Float64s(s2)
		var h1, h2 []float64
		layout := "separate arrays, spare capacity"
		if (o.n1+o.n2)%2 == 0 {
			layout = "adjacent windows of one buffer"
			buf := make([]float64, 0, 2*(o.n1+o.n2)+3)
			buf = append(append(buf, s1...), s2...)
			h1, h2 = buf[:o.n1], buf[o.n1:o.n1+o.n2]
		} else {
			h1 = append(make([]float64, 0, 2*(o.n1+o.n2)+3), s1...)
			h2 = append(make([]float64, 0, o.n2+1), s2...)
		}
		for round := 0; round < 2; round++ {
			for _, alt := range alts {
				res, err := stats.MannWhitneyUTest(h1, h2, alt)
				if err != nil || res == nil {
					add(kit.Failf("held-slices-unexpected-error", "%s, round %d alt=%s n1=%d n2=%d T=%v: err=%v", layout, round, c11AltName(alt), o.n1, o.n2, o.T, err))
					continue
				}
				// Correctness was judged above; here only that the same values
				// give the same numbers again.
				wU, ok1 := firstU[alt]
				wP, ok2 := firstP[alt]
				if !ok1 || !ok2 {
					continue
				}
				if math.Abs(res.U-wU) > 1e-9*math.Max(1, math.Abs(wU)) || !(math.Abs(res.P-wP) <= c11Tol) {
					add(kit.Failf("held-slices-result-differs", "%s, round %d alt=%s: U=%v P=%v, but the same values in private copies gave U=%v P=%v (n1=%d n2=%d T=%v; samples now %v %v)",
						layout, round, c11AltName(alt), res.U, res.P, wU, wP, o.n1, o.n2, o.T, h1, h2))
				}
			}
		}
		kit.Count("pairs re-tested on caller-held sorted slices ("+layout+")", 1)
	}

	// Swapped samples: the two-sided value must not change.
	if res, err := stats.MannWhitneyUTest(c11Copy(c.X2), c11Copy(c.X1), stats.LocationDiffers); err != nil || res == nil {
		add(kit.Failf("unexpected-error", "swapped two-sided: err=%v", err))
	} else {
		wantUs := float64(2*o.n1*o.n2-o.twoU) / 2
		uRight := math.Abs(res.U-wantUs) <= 1e-9*math.Max(1, wantUs)
		if !uRight {
			add(kit.Failf("u-wrong", "swapped: U=%v, definition gives %v", res.U, wantUs))
		}
		if math.Abs(res.P-o.two) > c11Tol {
			path := "exact"
			if !o.exact {
				path = "normal"
			}
			sig := c11TwoSidedSig(o, uRight, res.P, o.wrong2Swapped, "twosided-wrong-"+path)
			add(kit.Failf(sig, "swapped: P=%v want %v (n1=%d n2=%d T=%v)", res.P, o.two, o.n2, o.n1, o.T))
		} else if twoSidedOK && math.Abs(res.P-twoSidedP) > c11Tol {
			add(kit.Failf("twosided-swap-asymmetric", "P(x1,x2)=%v P(x2,x1)=%v", twoSidedP, res.P))
		}
	}

	// Legacy wrapper: same number as the two-sided test.
	if p, err := benchstat.UTest(&benchstat.Metrics{RValues: c11Copy(c.X1)}, &benchstat.Metrics{RValues: c11Copy(c.X2)}); err != nil {
		add(kit.Failf("legacy-unexpected-error", "benchstat.UTest: %v", err))
	} else if math.Abs(p-o.two) > c11Tol {
		path := "exact"
		if !o.exact {
			path = "normal"
		}
		sig := c11TwoSidedSig(o, true, p, o.wrong2, "legacy-twosided-wrong-"+path)
		add(kit.Failf(sig, "benchstat.UTest=%v want %v (n1=%d n2=%d T=%v)", p, o.two, o.n1, o.n2, o.T))
	}

	switch {
	case o.exact && o.hasTies:
		kit.Count("exact path, tied", 1)
		if len(o.T) == 2 {
			kit.Count("exact path, exactly two distinct values", 1)
		}
	case o.exact:
		kit.Count("exact path, untied", 1)
	case o.hasTies:
		kit.Count("normal path, tied", 1)
	default:
		kit.Count("normal path, untied", 1)
	}
	if 2*o.twoU == 2*o.n1*o.n2 {
		kit.Count("U1 == U2", 1)
	}
	return c11First(fails)
}

// c11First returns the first failure that is not the recorded finding, else
// the recorded one, else nil: another deviation on the same input must alarm.
func c11First(fails []*kit.Fail) *kit.Fail {
	var known *kit.Fail
	for _, f := range fails {
		if f.Sig != c11KnownSig {
			return f
		}
		if known == nil {
			known = f
		}
	}
	return known
}

func c11PairNonTrivial(c c11Pair) bool {
	if len(c.X1) == 0 || len(c.X2) == 0 {
		return false
	}
	first := c.X1[0]
	for _, v := range c.X1 {
		if v != first {
			return true
		}
	}
	for _, v := range c.X2 {
		if v != first {
			return true
		}
	}
	return false
}

// ---------------------------------------------------------------------------
// Value maps: K strictly increasing values.

func c11Values(K, variant int) []float64 {
	out := make([]float64, K)
	for r := 0; r < K; r++ {
		switch variant % 6 {
		case 0:
			out[r] = float64(r + 1)
		case 1:
			out[r] = float64(r - K/2) // negatives and zero
		case 2:
			out[r] = float64(r+1) * 0.1
		case 3:
			out[r] = -1e300 + float64(r)*(2e300/float64(K))
		case 4:
			out[r] = float64(r+1) * 5e-324 // subnormals
		default:
			out[r] = 9007199254740992 + float64(2*r) // adjacent floats above 2^53
		}
	}
	for r := 1; r < K; r++ {
		if !(out[r] > out[r-1]) {
			panic("c11: value map not strictly increasing")
		}
	}
	return out
}

// c11Scramble permutes xs deterministically from seed (inputs need not be sorted).
func c11Scramble(xs []float64, seed uint64) {
	s := seed*0x9E3779B97F4A7C15 + 1
	for i := len(xs) - 1; i > 0; i-- {
		s ^= s << 13
		s ^= s >> 7
		s ^= s << 17
		j := int(s % uint64(i+1))
		xs[i], xs[j] = xs[j], xs[i]
	}
}

// c11EnumPairs yields every pair of multisets with sizes (n1,n2), up to order
// isomorphism: every sequence of per-rank counts (u_k,v_k) != (0,0).
func c11EnumPairs(n1, n2 int, yield func(u, v []int)) {
	var u, v []int
	var rec func(r1, r2 int)
	rec = func(r1, r2 int) {
		if r1 == 0 && r2 == 0 {
			yield(u, v)
			return
		}
		for a := 0; a <= r1; a++ {
			for b := 0; b <= r2; b++ {
				if a == 0 && b == 0 {
					continue
				}
				u, v = append(u, a), append(v, b)
				rec(r1-a, r2-b)
				u, v = u[:len(u)-1], v[:len(v)-1]
			}
		}
	}
	rec(n1, n2)
}

func c11BuildPair(u, v []int, variant int) c11Pair {
	vals := c11Values(len(u), variant)
	var p c11Pair
	for k := range u {
		for i := 0; i < u[k]; i++ {
			p.X1 = append(p.X1, vals[k])
		}
		for i := 0; i < v[k]; i++ {
			p.X2 = append(p.X2, vals[k])
		}
	}
	c11Scramble(p.X1, uint64(variant)*2+1)
	c11Scramble(p.X2, uint64(variant)*2+2)
	return p
}

// ---------------------------------------------------------------------------
// Random pairs around the exact/approximate switches.

func c11RandomSample(r *kit.Rand, n int, tied int, width int) []float64 {
	// tied: 0 = all distinct (assigned later), 1 = values from a small range.
	out := make([]float64, n)
	for i := range out {
		out[i] = float64(r.Intn(width))
	}
	return out
}

func c11GenLarge(r *kit.Rand, i int) c11Pair {
	return c11GenLargeLim(r, i, stats.MannWhitneyTiesExactLimit, stats.MannWhitneyExactLimit)
}

// c11CheckPairLimits evaluates the pair with the two documented limit
// variables set as the case says. Only used by a Serial class.
func c11CheckPairLimits(c c11Pair) *kit.Fail {
	if c.EL > 0 && c.TL > 0 {
		oe, ot := stats.MannWhitneyExactLimit, stats.MannWhitneyTiesExactLimit
		stats.MannWhitneyExactLimit, stats.MannWhitneyTiesExactLimit = c.EL, c.TL
		defer func() { stats.MannWhitneyExactLimit, stats.MannWhitneyTiesExactLimit = oe, ot }()
		kit.Count("pairs evaluated with modified exact limits", 1)
	}
	return c11CheckPair(c)
}

func c11GenLimits(r *kit.Rand, i int) c11Pair {
	el := kit.Pick(r, []int{5, 6, 8, 12, 20, 60})
	tl := kit.Pick(r, []int{3, 4, 6, 10, 30})
	for tl >= el {
		tl = kit.Pick(r, []int{3, 4, 6, 10, 30})
	}
	c := c11GenLargeLim(r, i, tl, el)
	c.EL, c.TL = el, tl
	return c
}

func c11GenLargeLim(r *kit.Rand, i int, tl, el int) c11Pair {
	var n1, n2 int
	tied := r.Bool()
	lim := el
	if tied {
		lim = tl
	}
	switch r.Intn(8) {
	case 0: // exactly on / one past the limit
		n1, n2 = lim+r.Intn(2), lim+r.Intn(2)
	case 1: // one small, one at the limit
		n1, n2 = r.Range(1, 6), lim+r.Range(-1, 1)
		if r.Bool() {
			n1, n2 = n2, n1
		}
	case 2: // both below the limit
		n1, n2 = r.Range(lim*3/5, lim), r.Range(lim*3/5, lim)
	case 3: // around the limit
		n1, n2 = r.Range(lim-4, lim+4), r.Range(lim-4, lim+4)
	case 4: // between the two limits (tied: normal, untied: exact)
		n1, n2 = r.Range(tl+1, el), r.Range(1, el)
		if r.Bool() {
			n1, n2 = n2, n1
		}
	case 5: // well above
		n1, n2 = r.Range(el+1, 4*el), r.Range(1, 4*el)
		if r.Bool() {
			n1, n2 = n2, n1
		}
	case 6: // small and medium
		n1, n2 = r.Range(1, 14), r.Range(1, 14)
	default:
		n1, n2 = r.Range(1, lim+2), r.Range(1, lim+2)
	}
	if n1 < 0 {
		n1 = 0
	}
	if n2 < 0 {
		n2 = 0
	}
	N := n1 + n2
	pool := make([]float64, N)
	if tied {
		switch r.Intn(4) {
		case 0: // exactly one tied pair (worst case for the tied recurrence)
			p := r.Perm(N)
			for j := range pool {
				pool[j] = float64(p[j])
			}
			if N >= 2 {
				pool[r.Intn(N)] = pool[r.Intn(N)]
			}
		case 1: // two distinct values
			for j := range pool {
				pool[j] = float64(r.Intn(2))
			}
		case 2: // few distinct values
			w := r.Range(2, 6)
			for j := range pool {
				pool[j] = float64(r.Intn(w))
			}
		default: // moderate ties
			w := r.Range(N/3+2, N+2)
			for j := range pool {
				pool[j] = float64(r.Intn(w))
			}
		}
	} else {
		p := r.Perm(N)
		for j := range pool {
			pool[j] = float64(p[j])
		}
	}
	// Location shift / scale so that U is not always central.
	shift := 0.0
	switch r.Intn(4) {
	case 0:
		shift = float64(r.Range(-N, N))
	case 1:
		shift = float64(r.Range(-3, 3))
	}
	scale := kit.Pick(r, []float64{1, 1, 0.5, -1, 1e-3, 1e6})
	var c c11Pair
	c.X1 = make([]float64, n1)
	c.X2 = make([]float64, n2)
	for j := 0; j < n1; j++ {
		c.X1[j] = (pool[j] + shift) * scale
	}
	for j := 0; j < n2; j++ {
		c.X2[j] = pool[n1+j] * scale
	}
	if !tied {
		// the shift may have introduced ties; keep them (the oracle
		// recomputes the tie vector) unless the class asked for none.
		seen := map[float64]bool{}
		dup := false
		for _, v := range append(c11Copy(c.X1), c.X2...) {
			if seen[v] {
				dup = true
			}
			seen[v] = true
		}
		if dup {
			// make distinct again: fractional offsets on x1
			for j := range c.X1 {
				c.X1[j] = (pool[j]+shift)*scale + 0.25*scale
			}
		}
	}
	return c
}

// ---------------------------------------------------------------------------
// UDist: PMF sums to 1, accumulates to CDF, and is the distribution of U.

type c11UD struct {
	N1, N2 int
	T      []int // tie vector; all ones = untied
	NilT   bool  // pass T=nil (documented equivalent of all ones)
}

func c11CheckUD(c c11UD) *kit.Fail {
	sum, tied := 0, false
	for _, t := range c.T {
		sum += t
		if t > 1 {
			tied = true
		}
		if t < 1 {
			return nil
		}
	}
	if c.N1 < 1 || c.N2 < 1 || sum != c.N1+c.N2 || len(c.T) < 2 || (c.NilT && tied) {
		return nil // outside the domain (see NOTES.md)
	}
	counts := c11DP(c.N1, c.T)
	total := new(big.Int).Binomial(int64(sum), int64(c.N1))
	mkDist := func() stats.UDist {
		d := stats.UDist{N1: c.N1, N2: c.N2}
		if !c.NilT {
			d.T = append([]int(nil), c.T...)
		}
		return d
	}
	d := mkDist()
	max2 := 2 * c.N1 * c.N2
	cum := new(big.Int)
	// Neumaier-compensated running sum of the returned PMF values.
	run, comp := 0.0, 0.0
	steps := 0
	for h := 0; h <= max2; h++ {
		cum.Add(cum, counts[h])
		U := float64(h) / 2
		wantCDF := c11Ratio(cum, total)
		gotCDF := d.CDF(U)
		if math.Abs(gotCDF-wantCDF) > c11Tol {
			return kit.Failf("cdf-wrong", "UDist{%d,%d,%v}.CDF(%v)=%v want %v", c.N1, c.N2, c.T, U, gotCDF, wantCDF)
		}
		if !tied && h%2 == 1 {
			// Untied: the support is the integers; PMF documents that U
			// must be integral there (see NOTES.md), so only CDF is
			// probed at half steps.
			continue
		}
		steps++
		gotPMF := d.PMF(U)
		wantPMF := c11Ratio(counts[h], total)
		if math.Abs(gotPMF-wantPMF) > c11Tol {
			return kit.Failf("pmf-wrong", "UDist{%d,%d,%v}.PMF(%v)=%v want %v", c.N1, c.N2, c.T, U, gotPMF, wantPMF)
		}
		t := run + gotPMF
		if math.Abs(run) >= math.Abs(gotPMF) {
			comp += (run - t) + gotPMF
		} else {
			comp += (gotPMF - t) + run
		}
		run = t
		tolRun := c11Tol + 4*2.3e-16*float64(steps)
		if math.Abs(run+comp-gotCDF) > tolRun {
			return kit.Failf("pmf-cdf-accumulate", "UDist{%d,%d,%v}: sum of PMF up to %v = %v but CDF = %v", c.N1, c.N2, c.T, U, run+comp, gotCDF)
		}
	}
	if math.Abs(run+comp-1) > c11Tol+4*2.3e-16*float64(steps) {
		return kit.Failf("pmf-sum", "UDist{%d,%d,%v}: PMF sums to %v", c.N1, c.N2, c.T, run+comp)
	}
	// No mass outside the support.
	top := float64(c.N1 * c.N2)
	for _, U := range []float64{-0.5, -1, top + 0.5, top + 1} {
		if p := d.PMF(U); p != 0 {
			return kit.Failf("pmf-outside-support", "UDist{%d,%d,%v}.PMF(%v)=%v", c.N1, c.N2, c.T, U, p)
		}
	}
	if p := d.CDF(-0.5); p != 0 {
		return kit.Failf("cdf-wrong", "CDF(-0.5)=%v", p)
	}
	if p := d.CDF(top + 0.5); p != 1 {
		return kit.Failf("cdf-wrong", "CDF(max+0.5)=%v", p)
	}
	if tied {
		kit.Count("UDist tied", 1)
		if len(c.T) == 2 {
			kit.Count("UDist two ranks (K=2 base case)", 1)
		}
	} else {
		kit.Count("UDist untied", 1)
	}
	return nil
}

// c11Compositions yields every composition of N into >=2 positive parts.
func c11Compositions(N int, yield func([]int)) {
	var cur []int
	var rec func(rem int)
	rec = func(rem int) {
		if rem == 0 {
			if len(cur) >= 2 {
				yield(append([]int(nil), cur...))
			}
			return
		}
		for p := 1; p <= rem; p++ {
			cur = append(cur, p)
			rec(rem - p)
			cur = cur[:len(cur)-1]
		}
	}
	rec(N)
}

func c11GenUD(r *kit.Rand, i int) c11UD {
	var c c11UD
	if r.Chance(0.3) { // untied, p() recurrence
		c.N1, c.N2 = r.Range(1, 18), r.Range(1, 18)
		c.T = make([]int, c.N1+c.N2)
		for j := range c.T {
			c.T[j] = 1
		}
		c.NilT = r.Bool()
		return c
	}
	c.N1, c.N2 = r.Range(1, 12), r.Range(1, 12)
	N := c.N1 + c.N2
	for {
		c.T = c.T[:0]
		rem := N
		maxPart := kit.Pick(r, []int{2, 3, 5, N})
		for rem > 0 {
			p := r.Range(1, maxPart)
			if p > rem {
				p = rem
			}
			c.T = append(c.T, p)
			rem -= p
		}
		if len(c.T) >= 2 {
			break
		}
	}
	return c
}

// ---------------------------------------------------------------------------
// Families of related tie vectors evaluated one after the other in one case.
//
// The statement quantifies over all pairs of samples; a result must therefore
// not depend on which other distributions were evaluated before it in the
// same process. A case is an ORDERED list of steps that share the pooled size
// (and mostly N1, N2): permutations of one tie vector, vectors whose decimal
// digits regroup into each other with the same sum ([1 12] / [11 2]), and
// unit transfers between neighbouring groups. Every step is checked against
// the exact counts on its own; the order of evaluation is part of the case.

type c11FamStep struct {
	N1 int
	T  []int // tie vector, sum = N1+N2
	U  []int // how many values of each tie group belong to the first sample (sum N1)
}

type c11Fam struct {
	Steps   []c11FamStep
	Mode    int // 0: per step UDist sweep then pair; 1: all pairs, then all sweeps; 2: all sweeps, then all pairs
	Variant int // value map for the samples
}

func c11FamTwoU(T, U []int) int {
	d, below, c := 0, 0, 0
	for k, t := range T {
		u := U[k]
		d += u * (2*(below-c) + (t - u))
		c += u
		below += t
	}
	return d
}

func c11FamStepOK(s c11FamStep) bool {
	if len(s.T) < 2 || len(s.U) != len(s.T) {
		return false
	}
	sum, su := 0, 0
	for k, t := range s.T {
		if t < 1 || s.U[k] < 0 || s.U[k] > t {
			return false
		}
		sum += t
		su += s.U[k]
	}
	n2 := sum - s.N1
	return su == s.N1 && s.N1 >= 1 && n2 >= 1 && sum <= 100
}

func c11CheckFam(c c11Fam) *kit.Fail {
	var fails []*kit.Fail
	wrap := func(i int, what string, f *kit.Fail) {
		if f != nil {
			fails = append(fails, kit.Failf(f.Sig, "step %d/%d (%s, N1=%d T=%v): %s", i+1, len(c.Steps), what, c.Steps[i].N1, c.Steps[i].T, f.Msg))
		}
	}
	sweep := func(i int) {
		s := c.Steps[i]
		sum := 0
		for _, t := range s.T {
			sum += t
		}
		wrap(i, "UDist", c11CheckUD(c11UD{N1: s.N1, N2: sum - s.N1, T: s.T}))
	}
	pair := func(i int) {
		s := c.Steps[i]
		V := make([]int, len(s.T))
		for k := range V {
			V[k] = s.T[k] - s.U[k]
		}
		wrap(i, "MannWhitneyUTest", c11CheckPair(c11BuildPair(s.U, V, c.Variant+i)))
	}
	for _, s := range c.Steps {
		if !c11FamStepOK(s) {
			return nil // outside the domain
		}
	}
	switch c.Mode {
	case 1:
		for i := range c.Steps {
			pair(i)
		}
		for i := range c.Steps {
			sweep(i)
		}
	case 2:
		for i := range c.Steps {
			sweep(i)
		}
		for i := range c.Steps {
			pair(i)
		}
	default:
		for i := range c.Steps {
			sweep(i)
			pair(i)
		}
	}
	big, regroup := false, false
	digits := map[string]string{}
	for _, s := range c.Steps {
		ds := ""
		for _, t := range s.T {
			if t >= 10 {
				big = true
			}
			ds += fmt.Sprint(t)
		}
		if prev, ok := digits[ds]; ok && prev != fmt.Sprint(s.T) {
			regroup = true
		}
		digits[ds] = fmt.Sprint(s.T)
	}
	if big {
		kit.Count("family with a tie group >= 10", 1)
	}
	if regroup {
		kit.Count("family with two different tie vectors spelling the same digit string", 1)
	}
	return c11First(fails)
}

func c11FamNonTrivial(c c11Fam) bool {
	seen := map[string]bool{}
	big := false
	for _, s := range c.Steps {
		seen[fmt.Sprint(s.T)] = true
		for _, t := range s.T {
			if t >= 10 {
				big = true
			}
		}
	}
	return len(seen) >= 2 && big
}

// c11Regroupings yields every vector of >= 2 positive parts (no leading zeros)
// whose decimal digits concatenate to digits and whose sum is sum.
func c11Regroupings(digits string, sum int, yield func([]int)) {
	var cur []int
	var rec func(pos, rem int)
	rec = func(pos, rem int) {
		if pos == len(digits) {
			if rem == 0 && len(cur) >= 2 {
				yield(append([]int(nil), cur...))
			}
			return
		}
		if digits[pos] == '0' {
			return
		}
		v := 0
		for e := pos; e < len(digits); e++ {
			v = v*10 + int(digits[e]-'0')
			if v > rem {
				break
			}
			cur = append(cur, v)
			rec(e+1, rem-v)
			cur = cur[:len(cur)-1]
		}
	}
	rec(0, sum)
}

func c11Permutations(T []int, yield func([]int)) {
	a := append([]int(nil), T...)
	sort.Ints(a)
	for {
		yield(append([]int(nil), a...))
		// next lexicographic permutation
		i := len(a) - 2
		for i >= 0 && a[i] >= a[i+1] {
			i--
		}
		if i < 0 {
			return
		}
		j := len(a) - 1
		for a[j] <= a[i] {
			j--
		}
		a[i], a[j] = a[j], a[i]
		for l, r := i+1, len(a)-1; l < r; l, r = l+1, r-1 {
			a[l], a[r] = a[r], a[l]
		}
	}
}

func c11GenFam(r *kit.Rand, i int) c11Fam {
	tl := stats.MannWhitneyTiesExactLimit
	if tl < 6 {
		tl = 6
	}
	var n1, n2 int
	for {
		n1, n2 = r.Range(1, tl), r.Range(1, tl)
		if r.Chance(0.3) { // at / next to the limit
			n1 = tl - r.Intn(2)
		}
		if r.Chance(0.3) {
			n2 = tl - r.Intn(2)
		}
		if n1+n2 >= 12 {
			break
		}
	}
	N := n1 + n2
	K := r.Range(2, 4)
	if K > N-9 {
		K = N - 9
	}
	b := r.Range(10, N-K+1)
	// random composition of N-b into K-1 positive parts
	rest := make([]int, K-1)
	for j := range rest {
		rest[j] = 1
	}
	for extra := N - b - (K - 1); extra > 0; {
		j := r.Intn(K - 1)
		add := 1
		if r.Chance(0.5) {
			add = r.Range(1, extra)
		}
		rest[j] += add
		extra -= add
	}
	at := r.Intn(K)
	base := append(append(append([]int(nil), rest[:at]...), b), rest[at:]...)

	seen := map[string]bool{}
	var related, transfers [][]int
	addTo := func(dst *[][]int, T []int) {
		k := fmt.Sprint(T)
		if !seen[k] {
			seen[k] = true
			*dst = append(*dst, T)
		}
	}
	c11Permutations(base, func(P []int) {
		addTo(&related, P)
		ds := ""
		for _, t := range P {
			ds += fmt.Sprint(t)
		}
		c11Regroupings(ds, N, func(Q []int) { addTo(&related, Q) })
	})
	for j := 0; j+1 < len(base); j++ {
		for _, d := range []int{-1, 1} {
			Q := append([]int(nil), base...)
			Q[j] += d
			Q[j+1] -= d
			if Q[j] >= 1 && Q[j+1] >= 1 {
				addTo(&transfers, Q)
			}
		}
	}
	kit.Shuffle(r, related)
	// keep base first in the pool so that it is always a member
	pool := [][]int{base}
	for _, T := range related {
		if len(pool) >= 8 {
			break
		}
		if fmt.Sprint(T) != fmt.Sprint(base) {
			pool = append(pool, T)
		}
	}
	kit.Shuffle(r, transfers)
	if len(transfers) > 2 {
		transfers = transfers[:2]
	}
	pool = append(pool, transfers...)
	kit.Shuffle(r, pool)

	c := c11Fam{Mode: r.Intn(3), Variant: r.Intn(6)}
	varyN1 := r.Chance(0.25)
	target := -1
	for _, T := range pool {
		s := c11FamStep{N1: n1, T: T}
		if varyN1 && r.Bool() {
			s.N1 = n2
		}
		// Split of the tie groups between the samples: random subsets;
		// prefer one whose 2U equals that of the first step, so that the
		// pair calls too meet at equal (N1, N2, U).
		best, bestDist := []int(nil), 1<<30
		for try := 0; try < 200; try++ {
			p := r.Perm(N)
			U := make([]int, len(T))
			for _, pos := range p[:s.N1] {
				k := 0
				for pos >= T[k] {
					pos -= T[k]
					k++
				}
				U[k]++
			}
			if target < 0 {
				best = U
				break
			}
			d := c11FamTwoU(T, U) - target
			if d < 0 {
				d = -d
			}
			if d < bestDist {
				best, bestDist = U, d
			}
			if d == 0 {
				break
			}
		}
		s.U = best
		if target < 0 {
			target = c11FamTwoU(T, best)
		}
		c.Steps = append(c.Steps, s)
	}
	return c
}

// ---------------------------------------------------------------------------

func TestVerifC11(t *testing.T) {
	enum := kit.Class[c11Pair]{
		Name: "enum-multiset-pairs",
		Enum: func(thorough bool, yield func(c11Pair)) {
			maxN := 9
			if thorough {
				maxN = 11
			}
			variant := 0
			for N := 2; N <= maxN; N++ {
				for n1 := 1; n1 < N; n1++ {
					c11EnumPairs(n1, N-n1, func(u, v []int) {
						yield(c11BuildPair(u, v, variant))
						variant++
					})
				}
			}
		},
		Check:      c11CheckPair,
		NonTrivial: c11PairNonTrivial,
		Rule: "every pair of non-empty multisets with n1+n2 <= 9 (quick) / 11 (thorough) up to order isomorphism (all sequences of per-rank counts (u_k,v_k)), " +
			"mapped through six value maps (integers, negatives+zero, fractions, +-1e300, subnormals, adjacent floats above 2^53) and scrambled; each checked for all three alternatives, swapped, and through benchstat.UTest; non-trivial = at least two distinct pooled values",
		MinNonTrivial: 50000,
	}
	degenerate := kit.Class[c11Pair]{
		Name: "degenerate",
		Enum: func(thorough bool, yield func(c11Pair)) {
			sizes := []int{0, 1, 2, 3, 5, 24, 25, 26, 49, 50, 51, 60, 120}
			for _, a := range sizes {
				for _, b := range sizes {
					for _, v := range []float64{0, 1, -2.5, 1e300, 5e-324} {
						var c c11Pair
						for i := 0; i < a; i++ {
							c.X1 = append(c.X1, v)
						}
						for i := 0; i < b; i++ {
							c.X2 = append(c.X2, v)
						}
						yield(c)
						if a == 0 && b > 1 || b == 0 && a > 1 {
							// empty against a non-constant sample
							d := c11Pair{X1: c11Copy(c.X1), X2: c11Copy(c.X2)}
							if a == 0 {
								d.X2[0] = v + 1
							} else {
								d.X1[0] = v + 1
							}
							yield(d)
						}
					}
				}
			}
		},
		Check:         c11CheckPair,
		NonTrivial:    func(c c11Pair) bool { return true },
		Rule:          "an empty sample against samples of 0..120 values, and all-equal pooled values for every size pair of {0,1,2,3,5,24,25,26,49,50,51,60,120}^2 (both sides of both limits), five constants; each must be an error for all alternatives and for benchstat.UTest",
		MinNonTrivial: 800,
	}
	large := kit.Class[c11Pair]{
		Name: "random-around-limits", Quick: 6000, Thorough: 200000,
		Gen:        c11GenLarge,
		Check:      c11CheckPair,
		NonTrivial: c11PairNonTrivial,
		Rule: "random tied (one tied pair / two values / few values / moderate) and untied samples with sizes on, just below, just above and far above MannWhitneyTiesExactLimit and MannWhitneyExactLimit, " +
			"shifted and scaled; exact path compared with the integer counting recurrence, normal path with an Erfc formula; non-trivial = at least two distinct pooled values",
		MinNonTrivial: 5000,
	}
	udEnum := kit.Class[c11UD]{
		Name: "udist-enum",
		Enum: func(thorough bool, yield func(c11UD)) {
			maxN := 8
			if thorough {
				maxN = 11
			}
			for N := 2; N <= maxN; N++ {
				c11Compositions(N, func(T []int) {
					for n1 := 1; n1 < N; n1++ {
						yield(c11UD{N1: n1, N2: N - n1, T: T})
						if len(T) == N {
							yield(c11UD{N1: n1, N2: N - n1, T: T, NilT: true})
						}
					}
				})
			}
		},
		Check:         c11CheckUD,
		NonTrivial:    func(c c11UD) bool { return true },
		Rule:          "every tie vector (composition of N into >= 2 parts) for N <= 8 (quick) / 11 (thorough) with every split N1+N2=N; PMF and CDF at every half step against exact counts, running sum of PMF against CDF, total 1, no mass outside [0,N1*N2]",
		MinNonTrivial: 1000,
	}
	udRand := kit.Class[c11UD]{
		Name: "udist-random", Quick: 1500, Thorough: 20000,
		Gen:           c11GenUD,
		Check:         c11CheckUD,
		NonTrivial:    func(c c11UD) bool { return true },
		Rule:          "random tie vectors with N1,N2 <= 12 (parts capped at 2, 3, 5 or N) and untied distributions with N1,N2 <= 18 (T nil or all ones); same checks as udist-enum",
		MinNonTrivial: 1000,
	}
	families := kit.Class[c11Fam]{
		Name: "tie-vector-families", Quick: 400, Thorough: 4000,
		Gen:        c11GenFam,
		Check:      c11CheckFam,
		NonTrivial: c11FamNonTrivial,
		Rule: "an ordered list of up to 10 related tie vectors with the same pooled size N1+N2 in [12, 2*ties limit] and a tie group >= 10 (a base vector of 2-4 groups, its distinct permutations, every vector whose decimal digits regroup to the same string with the same sum such as [1 12]/[11 2], and unit transfers between neighbouring groups), " +
			"all evaluated in ONE case in the stored order: UDist.PMF/CDF at every half step and MannWhitneyUTest on samples built with that tie vector (split chosen so that U coincides between steps where possible), per step / pairs first / sweeps first; each against the exact counting recurrence, so a result must not depend on what was evaluated before; non-trivial = at least two distinct tie vectors and a group >= 10",
		MinNonTrivial: 300,
	}
	limits := kit.Class[c11Pair]{
		Name: "modified-exact-limits", Quick: 1500, Thorough: 40000, Serial: true,
		Gen:        c11GenLimits,
		Check:      c11CheckPairLimits,
		NonTrivial: c11PairNonTrivial,
		Rule: "as random-around-limits, but evaluated (serially) with the documented variables MannWhitneyExactLimit in {5,6,8,12,20,60} and MannWhitneyTiesExactLimit in {3,4,6,10,30} set before the call and restored after it: 'small enough for the exact method' is what these variables say at the time of the call",
		MinNonTrivial: 1000,
	}
	kit.Run(t, "C11", enum, degenerate, large, udEnum, udRand, families, limits)
}
