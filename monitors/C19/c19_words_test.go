//go:build verif

package app

// C19, last sentence of the statement: query text is split into words
// shell-style, and a label value quoted by the analysis front end's query
// builder (addToQuery, unexported - hence this in-package file) is split back
// into exactly the original word.
//
// Oracle: shwords.Split, a state machine written from the doc comment of
// query.SplitWords and restricted to the texts on which "shell-style" has one
// obvious meaning (see kit/shwords). Texts outside that domain are generated
// too, but only checked for termination (no panic).

import (
	"strings"
	"testing"

	kit "golang.org/x/perf/internal/verifkit"
	"golang.org/x/perf/internal/verifkit/shwords"
	"golang.org/x/perf/storage/query"
)

type c19WordsCase struct {
	Words []kit.B // non-empty words (structured class), nil for soup
	Text  kit.B
}

func c19EqualWords(a, b []string) bool {
	if len(a) != len(b) {
		return false
	}
	for i := range a {
		if a[i] != b[i] {
			return false
		}
	}
	return true
}

func c19WordsCheck(c c19WordsCase) *kit.Fail {
	text := string(c.Text)
	got := query.SplitWords(text)
	want, ok, _ := shwords.Split(text)
	if !ok {
		kit.Count("c19_words_out_of_domain", 1)
		if c.Words != nil {
			panic("c19 monitor: structured text outside the domain: " + text)
		}
		return nil
	}
	kit.Count("c19_words_in_domain", 1)
	if c.Words != nil {
		// the generator's words are the ground truth; the reference must agree
		ws := make([]string, len(c.Words))
		for i, w := range c.Words {
			ws[i] = string(w)
		}
		if !c19EqualWords(ws, want) {
			panic("c19 monitor: reference splitter disagrees with the generator on " + text)
		}
	}
	if !c19EqualWords(got, want) {
		return kit.Failf("splitwords-mismatch", "SplitWords(%q) = %q, shell-style splitting gives %q", text, got, want)
	}
	return nil
}

const c19WordAlphabet = "ab \t\"\\:<>'|k1é\n"

func c19GenWord(r *kit.Rand) string {
	switch r.Intn(6) {
	case 0:
		return kit.Pick(r, []string{"k:v", "a b", `a"b`, `a\b`, `\`, `"`, " ", "\t", "'", `\"`, `"\`, "k:a b", "k<\"x y\"", "a\nb", "|", "vs", "k>"})
	case 1:
		return r.Bytes(r.Range(1, 3), "ab")
	}
	return r.Bytes(r.Range(1, 8), c19WordAlphabet)
}

func c19WordsStructured(r *kit.Rand, i int) c19WordsCase {
	var c c19WordsCase
	n := r.Range(0, 6)
	var sb strings.Builder
	blanks := []string{" ", " ", "  ", "\t", " \t "}
	if r.Chance(0.2) {
		sb.WriteString(kit.Pick(r, blanks))
	}
	for j := 0; j < n; j++ {
		w := c19GenWord(r)
		c.Words = append(c.Words, kit.B(w))
		if j > 0 {
			sb.WriteString(kit.Pick(r, blanks))
		}
		sb.WriteString(shwords.Quote(r.Intn, w))
	}
	if r.Chance(0.2) {
		sb.WriteString(kit.Pick(r, blanks))
	}
	if c.Words == nil {
		c.Words = []kit.B{}
	}
	c.Text = kit.B(sb.String())
	return c
}

func c19WordsSoup(r *kit.Rand, i int) c19WordsCase {
	return c19WordsCase{Text: kit.B(r.Bytes(r.Range(0, 14), "ab \t\"\"\\\\:'\n"))}
}

func c19WordsNonTrivial(c c19WordsCase) bool {
	_, ok, _ := shwords.Split(string(c.Text))
	return ok && strings.ContainsAny(string(c.Text), "\"\\")
}

// --- addToQuery

type c19AddCase struct {
	Query kit.B
	Word  kit.B // the word to add (label:value), non-empty
}

func c19AddCheck(c c19AddCase) *kit.Fail {
	q, w := string(c.Query), string(c.Word)
	if w == "" {
		return nil
	}
	built := addToQuery(q, w)
	got := query.SplitWords(built)
	if len(got) == 0 || got[0] != w {
		return kit.Failf("addtoquery-word-not-restored", "addToQuery(%q, %q) = %q, which SplitWords splits into %q; first word should be %q", q, w, built, got, w)
	}
	// The same through the independent splitter, whenever the built text is
	// inside its domain (an arbitrary old query may not be).
	if ref, ok, _ := shwords.Split(built); ok {
		if len(ref) == 0 || ref[0] != w {
			return kit.Failf("addtoquery-quoting-not-shell-style", "addToQuery(%q, %q) = %q reads shell-style as %q; first word should be %q", q, w, built, ref, w)
		}
		kit.Count("c19_addtoquery_checked_by_reference", 1)
	}
	return nil
}

func c19AddGen(r *kit.Rand, i int) c19AddCase {
	var c c19AddCase
	// label:value with hostile values (any byte but NUL-free; newlines included)
	v := c19GenWord(r)
	if r.Chance(0.3) {
		v = r.Bytes(r.Range(1, 12), c19WordAlphabet+"\\\\\"\" ")
	}
	c.Word = kit.B(kit.Pick(r, []string{"k", "goos", "pkg"}) + ":" + v)
	if r.Chance(0.1) {
		c.Word = kit.B(v) // a bare word, too
	}
	switch r.Intn(4) {
	case 0:
		c.Query = ""
	case 1:
		c.Query = kit.B(c19WordsStructured(r, 0).Text)
	case 2:
		c.Query = kit.B(string(c19WordsStructured(r, 0).Text) + " | " + string(c19WordsStructured(r, 0).Text))
	default:
		c.Query = c19WordsSoup(r, 0).Text
	}
	return c
}

func TestVerifC19Words(t *testing.T) {
	kit.Run(t, "C19",
		kit.Class[c19WordsCase]{
			Name: "c19-splitwords-structured", Quick: 40000, Thorough: 2000000,
			Gen: c19WordsStructured, Check: c19WordsCheck, NonTrivial: c19WordsNonTrivial, MinNonTrivial: 5000,
			Rule: "0-6 non-empty words over blanks, tabs, quotes, backslashes, single quotes, newlines, :<>| and UTF-8, each spelled bare / double-quoted / backslash-escaped / as a mixture of adjacent pieces, separated by runs of blanks and tabs; SplitWords must return exactly the words. Non-trivial: text contains a quote or backslash.",
		},
		kit.Class[c19WordsCase]{
			Name: "c19-splitwords-soup", Quick: 60000, Thorough: 3000000,
			Gen: c19WordsSoup, Check: c19WordsCheck, NonTrivial: c19WordsNonTrivial, MinNonTrivial: 3000,
			Rule: "random texts of 0-14 bytes over {a b blank tab \" \\ : ' newline}; compared with the reference splitter whenever the text is inside its domain (balanced quotes, no dangling backslash, inside quotes backslash only before \" or \\, no empty quoted word, no unquoted ' or newline)",
		},
		kit.Class[c19AddCase]{
			Name: "c19-addtoquery", Quick: 40000, Thorough: 2000000,
			Gen: c19AddGen, Check: c19AddCheck, MinNonTrivial: 5000,
			NonTrivial: func(c c19AddCase) bool { return strings.ContainsAny(string(c.Word), " \t\"\\") },
			Rule:       "label:value words with blanks, tabs, quotes, backslashes, newlines, single quotes, added to empty / structured / piped / random old queries; SplitWords(addToQuery(q, w))[0] must be w. Non-trivial: w needs quoting.",
		},
	)
}
