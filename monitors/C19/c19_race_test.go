//go:build verif

package app_test

// C19 level (c): queries and listings issued concurrently with uploads that are
// being committed, under the race detector. One uploader goroutine performs the
// uploads of the scenario one after the other through storage.Client; reader
// goroutines run the scenario's queries at the same time through
// storage.Client and directly on db.DB.
//
// Oracle: every answer must be exactly the model's answer for SOME prefix of
// the upload sequence between "uploads acknowledged before the query was
// issued" and "uploads begun before the answer was complete" - i.e. a query
// sees each upload entirely or not at all, never a part of it, never a record
// twice. The model is completed after the run (IDs and upload-time are only
// known then); answers are recorded and judged afterwards.

import (
	"fmt"
	"strings"
	"sync"
	"sync/atomic"
	"testing"

	kit "golang.org/x/perf/internal/verifkit"
	"golang.org/x/perf/internal/verifkit/shwords"
)

type c19Answer struct {
	q        int
	http     bool
	listing  bool
	lo, hi   int // uploads acknowledged before the call / begun before the return
	obs      c19Obs
	complete bool
	list     c19ListObs
}

func c19RaceCheck(c c19Case) *kit.Fail {
	s, err := c19NewSys(true)
	if err != nil {
		panic("c19 monitor: cannot set up: " + err.Error())
	}
	defer s.close()

	var begun, acked atomic.Int64
	var stop atomic.Bool
	var mu sync.Mutex
	var answers []c19Answer
	var wg sync.WaitGroup
	readers := c.Readers
	if readers < 1 {
		readers = 2
	}
	// Query texts cannot be spelled before IDs are known; the concurrent
	// phase therefore uses literal terms only (Ref terms are resolved against
	// a fixed absent ID) - the generator gives this class literal terms.
	texts := make([]string, len(c.Queries))
	terms := make([][]c19ResolvedTerm, len(c.Queries))
	for i, q := range c.Queries {
		terms[i] = c19Resolve(q.Terms, nil)
		var words []string
		texts[i], words = c19QueryText(q, terms[i])
		if got, ok, why := shwords.Split(texts[i]); !ok || strings.Join(got, "\x00") != strings.Join(words, "\x00") {
			panic(fmt.Sprintf("c19 monitor: query spelling %q does not split into %q (%v %s)", texts[i], words, got, why))
		}
	}
	for rd := 0; rd < readers; rd++ {
		wg.Add(1)
		go func(rd int) {
			defer wg.Done()
			r := kit.NewRand(c.ID, "c19-race-reader", uint64(rd))
			for n := 0; !stop.Load() || n < 4; n++ {
				qi := r.Intn(len(c.Queries))
				a := c19Answer{q: qi, http: r.Bool(), listing: r.Chance(0.4)}
				a.lo = int(acked.Load())
				switch {
				case a.listing && a.http:
					a.list = s.listHTTP(texts[qi], nil, c.Queries[qi].Limit)
				case a.listing:
					a.list = s.listDB(texts[qi], nil, c.Queries[qi].Limit)
				case a.http && texts[qi] != "":
					a.obs, a.complete = s.queryHTTP(texts[qi], 100000)
				default:
					a.http = false
					a.obs, a.complete = s.queryDB(texts[qi], 100000)
				}
				a.hi = int(begun.Load())
				mu.Lock()
				answers = append(answers, a)
				mu.Unlock()
				if n > 400 {
					break
				}
			}
		}(rd)
	}
	m, ups, f := c19Setup(s, c, func(i int, begin bool) {
		if begin {
			begun.Add(1)
		} else {
			acked.Add(1)
		}
	})
	stop.Store(true)
	wg.Wait()
	if f != nil {
		return f
	}
	if len(ups) != len(c.Uploads) {
		// a refused upload would shift the prefix bookkeeping; count and skip
		kit.Count("c19_race_case_with_refused_upload", 1)
		return nil
	}
	if f := m.finish(s, ups); f != nil {
		return f
	}
	nar := &c19Narrow{}
	overlapped := 0
	for _, a := range answers {
		if a.hi > a.lo {
			overlapped++
		}
		var first *kit.Fail
		okAny := false
		for j := a.lo; j <= a.hi && j <= len(m.ups); j++ {
			tmp := &c19Narrow{}
			var f *kit.Fail
			level := "db(concurrent)"
			if a.http {
				level = "http(concurrent)"
			}
			if a.listing {
				f = m.judgeListing(level, texts[a.q], terms[a.q], c.Queries[a.q].Limit, a.list, j, tmp)
			} else {
				f = m.judgeResults(level, texts[a.q], terms[a.q], a.obs, a.complete, j, tmp)
			}
			if f == nil && tmp.f == nil {
				okAny = true
				break
			}
			if f == nil {
				nar.set(tmp.f)
				okAny = true
				break
			}
			if first == nil {
				first = f
			}
		}
		if !okAny {
			if first != nil && (first.Sig == "query-error" || first.Sig == "listing-error") {
				// "database is locked" after the busy timeout is not a wrong
				// answer; it is counted (and would make the case trivial).
				if strings.Contains(first.Msg, "locked") || strings.Contains(first.Msg, "busy") {
					kit.Count("c19_race_busy_errors", 1)
					continue
				}
			}
			return kit.Failf("concurrent-"+first.Sig, "answer matches no upload prefix in [%d,%d] of %d uploads: %s", a.lo, a.hi, len(m.ups), first.Msg)
		}
	}
	kit.Count("c19_race_answers", int64(len(answers)))
	kit.Count("c19_race_answers_overlapping_an_upload", int64(overlapped))
	c19Outcomes.Store(c.ID, overlapped > 0)
	return nar.f
}

func c19RaceGen(r *kit.Rand, i int) c19Case {
	g := c19NewGen(r)
	g.emptyNameVals = false
	c := c19Case{ID: r.Uint64(), Readers: r.Range(2, 4)}
	nu := r.Range(4, 8)
	for j := 0; j < nu; j++ {
		c.Uploads = append(c.Uploads, g.upload(2, 8))
	}
	g.queries(&c, 24)
	// literal terms only (see c19RaceCheck); keep queries that can match
	qs := c.Queries[:0]
	for _, q := range c.Queries {
		lit := true
		for _, t := range q.Terms {
			if t.Ref >= 0 {
				lit = false
			}
		}
		if lit {
			q.Extra = nil
			qs = append(qs, q)
		}
	}
	c.Queries = append(qs, c19Query{Render: r.Uint64()}) // the full dump / full listing
	return c
}

func TestVerifC19Race(t *testing.T) {
	kit.Run(t, "C19", kit.Class[c19Case]{
		Name: "c19-concurrent", Quick: 20, Thorough: 300,
		Gen: c19RaceGen, Check: c19RaceCheck, MinNonTrivial: 10,
		// Serial: concurrent db.OpenSQL calls write the shared sqlite3 driver's ConnectHook (outside this property)
		Serial:     true,
		NonTrivial: func(c c19Case) bool { v, ok := c19Outcomes.Load(c.ID); return ok && v.(bool) },
		Rule:       "4-8 uploads committed one after the other through storage.Client while 2-4 reader goroutines issue the scenario's queries and listings through storage.Client and db.DB; every answer must equal the model for one upload prefix between 'acknowledged before the call' and 'begun before the return'; run under -race. Non-trivial: at least one answer overlapped an upload in progress.",
	})
}
