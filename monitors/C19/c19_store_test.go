//go:build verif

package app_test

// C19: stored results come back exactly; queries mean what they say; the
// upload listing reports counts / order / limit.
//
// A case is a whole scenario: a sequence of uploads (files given as structured
// line histories), and a list of queries (structured terms + a seed for the
// shell-style spelling). The oracle is an in-memory model of the stored records
// built from the structure alone (it never parses text with the code under
// test): labels = file labels ∪ labels derived from the benchmark name ∪ the
// labels the server adds; consecutive results with identical labels form one
// stored record. Observation levels: (a) db.DB.Query / ListUploads directly,
// (b) storage.Client against an in-process httptest server built from
// storage/app (server printer + client reader in the path). Level (c)
// (concurrent, -race) is in c19_race_test.go and reuses this file.

import (
	"context"
	"fmt"
	"io"
	"log"
	"net/http"
	"net/http/httptest"
	"os"
	"sort"
	"strconv"
	"strings"
	"sync"
	"testing"
	"time"
	"unicode"

	kit "golang.org/x/perf/internal/verifkit"
	"golang.org/x/perf/internal/verifkit/shwords"
	"golang.org/x/perf/storage"
	"golang.org/x/perf/storage/app"
	"golang.org/x/perf/storage/benchfmt"
	"golang.org/x/perf/storage/db"
	_ "golang.org/x/perf/storage/db/sqlite3"
	"golang.org/x/perf/storage/fs"
)

// ---------------------------------------------------------------------------
// Case types (lossless through JSON)

type c19Sub struct {
	Key kit.B // "" = positional (sub1, sub2, ...)
	Val kit.B
}

const (
	c19Set = iota
	c19Del
	c19Bench
	c19Junk
)

type c19Line struct {
	K     int      // c19Set / c19Del / c19Bench / c19Junk
	Key   kit.B    `json:",omitempty"` // set, del
	Val   kit.B    `json:",omitempty"` // set
	Sep   kit.B    `json:",omitempty"` // blanks after the colon
	Base  kit.B    `json:",omitempty"` // bench: name up to the first '/'
	Subs  []c19Sub `json:",omitempty"`
	Procs kit.B    `json:",omitempty"` // bench: digits of the -N suffix, "" = none
	Rest  kit.B    `json:",omitempty"` // bench: rest of the line, starts with a blank or tab
	Junk  kit.B    `json:",omitempty"`
}

type c19File struct {
	Name  kit.B // name given to CreateFile ("" = none)
	CRLF  bool  // lines end in "\r\n" (only used by the CR edge class)
	Lines []c19Line
}

type c19Upload struct {
	User  kit.B // what App.Auth returns for this upload ("" = no `by` label)
	Files []c19File
}

type c19Term struct {
	Key kit.B
	Op  string // ":", "<", ">"
	Val kit.B
	Ref int // -1: Val is literal; >=0: the ID of upload (Ref mod #uploads) followed by Val
}

type c19Query struct {
	Terms  []c19Term
	Render uint64 // seed of the shell-style spelling
	Limit  int    // listing limit (0 = none)
	Extra  []kit.B
}

type c19Case struct {
	ID      uint64
	Direct  bool // uploads through db.DB (level a only) instead of HTTP
	Uploads []c19Upload
	Queries []c19Query
	// race class only:
	Readers int `json:",omitempty"`
}

// ---------------------------------------------------------------------------
// Rendering of files

func (l c19Line) name() string {
	s := string(l.Base)
	for _, sub := range l.Subs {
		s += "/"
		if sub.Key != "" {
			s += string(sub.Key) + "="
		}
		s += string(sub.Val)
	}
	if l.Procs != "" {
		s += "-" + string(l.Procs)
	}
	return s
}

func (l c19Line) text() string {
	switch l.K {
	case c19Set:
		return string(l.Key) + ":" + string(l.Sep) + string(l.Val)
	case c19Del:
		return string(l.Key) + ":" + string(l.Sep)
	case c19Bench:
		return "Benchmark" + l.name() + string(l.Rest)
	}
	return string(l.Junk)
}

func (f c19File) text() string {
	eol := "\n"
	if f.CRLF {
		eol = "\r\n"
	}
	var sb strings.Builder
	for _, l := range f.Lines {
		sb.WriteString(l.text())
		sb.WriteString(eol)
	}
	return sb.String()
}

func c19BaseName(name string) string {
	if i := strings.LastIndexAny(name, `/\`); i >= 0 {
		return name[i+1:]
	}
	return name
}

// ---------------------------------------------------------------------------
// The model

// c19Res is one expected result (benchmark line) with everything a query may
// look at.
type c19Res struct {
	Up     int // index of the upload in creation order (successful uploads only)
	Line   string
	Labels map[string]string // file labels ∪ server labels
	Name   map[string]string // labels derived from the benchmark name
}

// c19Rec is one stored record: a maximal run of consecutive results of one
// upload with identical labels.
type c19Rec struct {
	Up     int
	Labels map[string]string
	Name   map[string]string
	Lines  []string
	// LName, if set, holds each line's own name-derived labels (results are
	// re-read from the stored lines, so those are what a query returns). Under
	// the statement's rule they equal Name; only the loose alternative differs.
	LName []map[string]string
}

func (r *c19Rec) nameOf(i int) map[string]string {
	if r.LName != nil {
		return r.LName[i]
	}
	return r.Name
}

// c19Server is what the server told us about one successful upload.
type c19Server struct {
	ID      string
	FileIDs []string
	Time    string
}

func c19EqualMaps(a, b map[string]string) bool {
	if len(a) != len(b) {
		return false
	}
	for k, v := range a {
		if w, ok := b[k]; !ok || w != v {
			return false
		}
	}
	return true
}

// c19Results lists the expected results of one upload in file order.
func c19Results(up int, u c19Upload, s c19Server) []c19Res {
	var out []c19Res
	for fi, f := range u.Files {
		cur := map[string]string{}
		for _, l := range f.Lines {
			switch l.K {
			case c19Set:
				cur[string(l.Key)] = string(l.Val)
			case c19Del:
				delete(cur, string(l.Key))
			case c19Bench:
				lab := map[string]string{}
				for k, v := range cur {
					lab[k] = v
				}
				lab["upload"] = s.ID
				if fi < len(s.FileIDs) {
					lab["upload-part"] = s.FileIDs[fi]
				}
				lab["upload-time"] = s.Time
				if b := c19BaseName(string(f.Name)); b != "" {
					lab["upload-file"] = b
				}
				if u.User != "" {
					lab["by"] = string(u.User)
				}
				nl := map[string]string{"name": string(l.Base)}
				for i, sub := range l.Subs {
					k := string(sub.Key)
					if k == "" {
						k = "sub" + strconv.Itoa(i+1)
					}
					nl[k] = string(sub.Val)
				}
				if l.Procs != "" {
					nl["gomaxprocs"] = string(l.Procs)
				}
				out = append(out, c19Res{Up: up, Line: "Benchmark" + l.name() + string(l.Rest), Labels: lab, Name: nl})
			}
		}
	}
	return out
}

// c19FlushLabels is the number of queued label rows at which the
// implementation flushes (990 SQL arguments / 4 per row, rounded up). It is
// used ONLY to recognise the recorded finding coalesce-split-at-flush; the
// statement's rule is flushRule=false.
const c19FlushLabels = 248

// c19LooseEqual is NOT map equality: a key missing on one side counts as equal
// to an empty value on the other as long as the sizes agree. It is used ONLY to
// recognise the root cause coalesce-empty-vs-missing-label.
func c19LooseEqual(a, b map[string]string) bool {
	if len(a) != len(b) {
		return false
	}
	for k, v := range a {
		if b[k] != v {
			return false
		}
	}
	return true
}

// Record sets of the model: the statement's rule and two alternatives that are
// only consulted to give a known root cause its own signature.
const (
	c19RecsStatement = iota
	c19RecsFlush
	c19RecsLoose
)

func c19CoalesceLoose(rs []c19Res) []c19Rec {
	var out []c19Rec
	for _, r := range rs {
		if len(out) > 0 {
			last := &out[len(out)-1]
			if c19LooseEqual(last.Labels, r.Labels) && c19LooseEqual(last.Name, r.Name) {
				last.Lines = append(last.Lines, r.Line)
				last.LName = append(last.LName, r.Name)
				continue
			}
		}
		out = append(out, c19Rec{Up: r.Up, Labels: r.Labels, Name: r.Name, Lines: []string{r.Line}, LName: []map[string]string{r.Name}})
	}
	return out
}

// c19Coalesce groups the results of one upload into stored records.
func c19Coalesce(rs []c19Res, flushRule bool) []c19Rec {
	var out []c19Rec
	queued := 0
	lastValid := false
	for _, r := range rs {
		if lastValid && len(out) > 0 {
			last := &out[len(out)-1]
			if c19EqualMaps(last.Labels, r.Labels) && c19EqualMaps(last.Name, r.Name) {
				last.Lines = append(last.Lines, r.Line)
				continue
			}
		}
		out = append(out, c19Rec{Up: r.Up, Labels: r.Labels, Name: r.Name, Lines: []string{r.Line}})
		lastValid = true
		if flushRule {
			for i := 0; i < len(r.Labels)+len(r.Name); i++ {
				if queued >= c19FlushLabels {
					queued = 0
					lastValid = false
				}
				queued++
			}
		}
	}
	return out
}

func c19LabelRows(rs []c19Rec) int {
	n := 0
	for _, r := range rs {
		n += len(r.Labels) + len(r.Name)
	}
	return n
}

type c19Model struct {
	ups          []c19Server
	recs         [][]c19Rec // per upload, statement rule
	recsF        [][]c19Rec // per upload, flush rule (finding recognition only)
	hasCR        bool
	hasEmptyName bool
	recsL        [][]c19Rec // per upload, loose label equality (root-cause recognition only)
	hasEmptyVal  bool
	// kindMoves counts consecutive results whose labels are the same set of
	// key/value pairs but differently divided into file and name-derived labels
	// (evidence only).
	kindMoves int
}

func c19Union(a, b map[string]string) map[string]string {
	out := make(map[string]string, len(a)+len(b))
	for k, v := range a {
		out[k] = v
	}
	for k, v := range b {
		out[k] = v
	}
	return out
}

type c19ResolvedTerm struct {
	Key, Op, Val string
}

func c19Resolve(ts []c19Term, ups []c19Server) []c19ResolvedTerm {
	out := make([]c19ResolvedTerm, len(ts))
	for i, t := range ts {
		v := string(t.Val)
		if t.Ref >= 0 {
			if len(ups) > 0 {
				v = ups[t.Ref%len(ups)].ID + v
			} else {
				v = "20000101.1" + v
			}
		}
		out[i] = c19ResolvedTerm{string(t.Key), t.Op, v}
	}
	return out
}

// Alternative readings of `key>""`, used ONLY to recognise known root causes
// after the strict reading has failed.
const (
	c19Strict      = iota // key>"" means value > "" bytewise (the statement)
	c19GtMergedAny        // key>"" is dropped for keys that also have a key<v term and no key:v term
	c19GtAny              // key>"" is satisfied by any present value
)

// c19GtAnyKeys returns the keys whose `key>""` terms the given reading drops.
func c19GtAnyKeys(ts []c19ResolvedTerm, mode int) map[string]bool {
	if mode == c19Strict {
		return nil
	}
	gt, lt, eq := map[string]bool{}, map[string]bool{}, map[string]bool{}
	for _, t := range ts {
		switch {
		case t.Op == ">" && t.Val == "":
			gt[t.Key] = true
		case t.Op == "<":
			lt[t.Key] = true
		case t.Op == ":":
			eq[t.Key] = true
		}
	}
	out := map[string]bool{}
	for k := range gt {
		if mode == c19GtAny || (lt[k] && !eq[k]) {
			out[k] = true
		}
	}
	return out
}

// c19Match evaluates the conjunction of terms on one record with Go's
// bytewise string comparison. gtAny (nil for the statement's reading) lists
// keys whose `key>""` terms are satisfied by any present value.
func c19Match(r *c19Rec, ts []c19ResolvedTerm, gtAny map[string]bool) bool {
	for _, t := range ts {
		v, ok := r.Labels[t.Key]
		if !ok {
			v, ok = r.Name[t.Key]
		}
		if !ok {
			return false
		}
		switch t.Op {
		case ":":
			if v != t.Val {
				return false
			}
		case "<":
			if !(v < t.Val) {
				return false
			}
		case ">":
			if t.Val == "" && gtAny[t.Key] {
				continue
			}
			if !(v > t.Val) {
				return false
			}
		}
	}
	return true
}

func c19Canon(line string, labels, name map[string]string) string {
	var sb strings.Builder
	sb.WriteString(strconv.Quote(line))
	for _, m := range []map[string]string{labels, name} {
		sb.WriteString(" {")
		keys := make([]string, 0, len(m))
		for k := range m {
			keys = append(keys, k)
		}
		sort.Strings(keys)
		for _, k := range keys {
			sb.WriteString(strconv.Quote(k) + ":" + strconv.Quote(m[k]) + ",")
		}
		sb.WriteString("}")
	}
	return sb.String()
}

func c19StripCR(s string) string { return strings.TrimSuffix(s, "\r") }

func c19StripCRMap(m map[string]string) map[string]string {
	out := make(map[string]string, len(m))
	for k, v := range m {
		out[k] = c19StripCR(v)
	}
	return out
}

// expectResults returns the canonical multiset (sorted) of results the query
// must return. upTo limits the model to the first upTo uploads.
func (m *c19Model) set(recset int) [][]c19Rec {
	switch recset {
	case c19RecsFlush:
		return m.recsF
	case c19RecsLoose:
		return m.recsL
	}
	return m.recs
}

func (m *c19Model) expectResults(ts []c19ResolvedTerm, upTo int, gtMode int, stripCR bool, recset int) []string {
	var out []string
	gtAny := c19GtAnyKeys(ts, gtMode)
	recs := m.set(recset)
	for u := 0; u < upTo && u < len(recs); u++ {
		for i := range recs[u] {
			r := &recs[u][i]
			if !c19Match(r, ts, gtAny) {
				continue
			}
			for li, l := range r.Lines {
				if stripCR {
					out = append(out, c19Canon(c19StripCR(l), c19StripCRMap(r.Labels), r.nameOf(li)))
				} else {
					out = append(out, c19Canon(l, r.Labels, r.nameOf(li)))
				}
			}
		}
	}
	sort.Strings(out)
	return out
}

type c19Info struct {
	ID    string
	Count int
}

// expectListing: uploads with at least one matching stored record, newest
// first, at most limit (0 = all).
func (m *c19Model) expectListing(ts []c19ResolvedTerm, upTo, limit int, gtMode int, recset int) []c19Info {
	var out []c19Info
	gtAny := c19GtAnyKeys(ts, gtMode)
	recs := m.set(recset)
	for u := upTo - 1; u >= 0; u-- {
		n := 0
		for i := range recs[u] {
			if c19Match(&recs[u][i], ts, gtAny) {
				n++
			}
		}
		if n > 0 {
			out = append(out, c19Info{m.ups[u].ID, n})
		}
		if limit > 0 && len(out) == limit {
			break
		}
	}
	return out
}

func c19DiffSorted(got, want []string) string {
	i, j := 0, 0
	var missing, extra []string
	for i < len(got) || j < len(want) {
		switch {
		case j >= len(want) || (i < len(got) && got[i] < want[j]):
			extra = append(extra, got[i])
			i++
		case i >= len(got) || want[j] < got[i]:
			missing = append(missing, want[j])
			j++
		default:
			i++
			j++
		}
	}
	if len(missing) == 0 && len(extra) == 0 {
		return ""
	}
	cut := func(xs []string) []string {
		if len(xs) > 3 {
			return append(xs[:3:3], fmt.Sprintf("… (%d more)", len(xs)-3))
		}
		return xs
	}
	return fmt.Sprintf("got %d results, want %d; missing (expected, not returned): %s; extra (returned, not expected): %s",
		len(got), len(want), strings.Join(cut(missing), " | "), strings.Join(cut(extra), " | "))
}

func c19InfosEqual(a, b []c19Info) bool {
	if len(a) != len(b) {
		return false
	}
	for i := range a {
		if a[i] != b[i] {
			return false
		}
	}
	return true
}

// ---------------------------------------------------------------------------
// Query text

func c19QueryText(q c19Query, ts []c19ResolvedTerm) (string, []string) {
	r := kit.NewRand(q.Render, "c19-render", 0)
	var words []string
	var sb strings.Builder
	blanks := []string{" ", " ", "  ", "\t", " \t"}
	if r.Chance(0.15) {
		sb.WriteString(kit.Pick(r, blanks))
	}
	for i, t := range ts {
		w := t.Key + t.Op + t.Val
		words = append(words, w)
		if i > 0 {
			sb.WriteString(kit.Pick(r, blanks))
		}
		if r.Chance(0.3) && shwords.NeedsQuoting(t.Val) && !shwords.NeedsQuoting(t.Key) {
			// key and operator bare, value quoted on its own
			if t.Val == "" {
				sb.WriteString(t.Key + t.Op + `""`)
			} else {
				sb.WriteString(t.Key + t.Op + shwords.Quote(r.Intn, t.Val))
			}
			continue
		}
		sb.WriteString(shwords.Quote(r.Intn, w))
	}
	if r.Chance(0.15) {
		sb.WriteString(kit.Pick(r, blanks))
	}
	return sb.String(), words
}

// ---------------------------------------------------------------------------
// The system under observation

type c19Sys struct {
	dir    string
	d      *db.DB
	fs     *fs.MemFS
	srv    *httptest.Server
	cl     *storage.Client
	userMu sync.Mutex
	user   string
}

var c19LogOnce sync.Once

func c19NewSys(withHTTP bool) (*c19Sys, error) {
	c19LogOnce.Do(func() { log.SetOutput(io.Discard) }) // storage/app logs every request
	dir, err := os.MkdirTemp("/var/tmp", "verif-c19-")
	if err != nil {
		return nil, err
	}
	s := &c19Sys{dir: dir}
	s.d, err = db.OpenSQL("sqlite3", "file:"+dir+"/c19.db?_busy_timeout=20000&_sync=0")
	if err != nil {
		os.RemoveAll(dir)
		return nil, err
	}
	if withHTTP {
		s.fs = fs.NewMemFS()
		a := &app.App{DB: s.d, FS: s.fs, Auth: func(http.ResponseWriter, *http.Request) (string, error) {
			s.userMu.Lock()
			defer s.userMu.Unlock()
			return s.user, nil
		}}
		mux := http.NewServeMux()
		a.RegisterOnMux(mux)
		s.srv = httptest.NewServer(mux)
		s.cl = &storage.Client{BaseURL: s.srv.URL, HTTPClient: s.srv.Client()}
	}
	return s, nil
}

func (s *c19Sys) close() {
	if s.srv != nil {
		s.srv.Close()
	}
	s.d.Close()
	os.RemoveAll(s.dir)
}

const c19DirectTime = "2017-02-03T04:05:06Z"

// upload performs one upload; ok=false means the server refused it (then it is
// not part of the model).
func (s *c19Sys) upload(u c19Upload, direct bool) (c19Server, error) {
	ctx := context.Background()
	if direct {
		up, err := s.d.NewUpload(ctx)
		if err != nil {
			return c19Server{}, err
		}
		sv := c19Server{ID: up.ID, Time: c19DirectTime}
		for fi, f := range u.Files {
			part := fmt.Sprintf("%s/%d", up.ID, fi)
			meta := benchfmt.Labels{"upload": up.ID, "upload-part": part, "upload-time": c19DirectTime}
			if b := c19BaseName(string(f.Name)); b != "" {
				meta["upload-file"] = b
			}
			if u.User != "" {
				meta["by"] = string(u.User)
			}
			br := benchfmt.NewReader(strings.NewReader(f.text()))
			br.AddLabels(meta)
			for br.Next() {
				if err := up.InsertRecord(br.Result()); err != nil {
					up.Abort()
					return c19Server{}, err
				}
			}
			if err := br.Err(); err != nil {
				up.Abort()
				return c19Server{}, err
			}
			sv.FileIDs = append(sv.FileIDs, part)
		}
		if err := up.Commit(); err != nil {
			up.Abort()
			return c19Server{}, err
		}
		return sv, nil
	}
	s.userMu.Lock()
	s.user = string(u.User)
	s.userMu.Unlock()
	up := s.cl.NewUpload(ctx)
	for _, f := range u.Files {
		w, err := up.CreateFile(string(f.Name))
		if err != nil {
			up.Abort()
			return c19Server{}, err
		}
		if _, err := io.WriteString(w, f.text()); err != nil {
			up.Abort()
			return c19Server{}, err
		}
	}
	st, err := up.Commit()
	if err != nil {
		return c19Server{}, err
	}
	return c19Server{ID: st.UploadID, FileIDs: st.FileIDs}, nil
}

type c19Obs struct {
	res []string // canonical, sorted
	err error
}

func c19Collect(next func() bool, result func() *benchfmt.Result, bound int) ([]string, bool) {
	// Results are kept as returned and only serialised after the whole
	// iteration, so a result that changes after the next call to Next shows.
	var rs []*benchfmt.Result
	for next() {
		rs = append(rs, result())
		if len(rs) > bound {
			return nil, false
		}
	}
	out := make([]string, len(rs))
	for i, r := range rs {
		out[i] = c19Canon(r.Content, r.Labels, r.NameLabels)
	}
	sort.Strings(out)
	return out, true
}

func (s *c19Sys) queryDB(text string, bound int) (c19Obs, bool) {
	q := s.d.Query(text)
	defer q.Close()
	res, ok := c19Collect(q.Next, q.Result, bound)
	return c19Obs{res, q.Err()}, ok
}

func (s *c19Sys) queryHTTP(text string, bound int) (c19Obs, bool) {
	q := s.cl.Query(context.Background(), text)
	defer q.Close()
	res, ok := c19Collect(q.Next, q.Result, bound)
	return c19Obs{res, q.Err()}, ok
}

type c19ListObs struct {
	infos []c19Info
	err   error
}

func (s *c19Sys) listDB(text string, extra []string, limit int) c19ListObs {
	ul := s.d.ListUploads(text, extra, limit)
	defer ul.Close()
	var o c19ListObs
	for ul.Next() {
		i := ul.Info()
		o.infos = append(o.infos, c19Info{i.UploadID, i.Count})
		if len(o.infos) > 100000 {
			break
		}
	}
	o.err = ul.Err()
	return o
}

func (s *c19Sys) listHTTP(text string, extra []string, limit int) c19ListObs {
	ul := s.cl.ListUploads(context.Background(), text, extra, limit)
	defer ul.Close()
	var o c19ListObs
	for ul.Next() {
		i := ul.Info()
		o.infos = append(o.infos, c19Info{i.UploadID, i.Count})
		if len(o.infos) > 100000 {
			break
		}
	}
	o.err = ul.Err()
	return o
}

// ---------------------------------------------------------------------------
// Oracle

type c19Narrow struct{ f *kit.Fail }

func (n *c19Narrow) set(f *kit.Fail) {
	if n.f == nil {
		n.f = f
	}
}

// judgeResults compares one observation of Query with the model. It returns a
// generic failure, or records a narrow (known root cause) one in nar.
func (m *c19Model) judgeResults(level, text string, ts []c19ResolvedTerm, o c19Obs, complete bool, upTo int, nar *c19Narrow) *kit.Fail {
	if !complete {
		return kit.Failf("query-too-many-results", "%s Query(%q): iteration did not stop within the bound", level, text)
	}
	if o.err != nil {
		return kit.Failf("query-error", "%s Query(%q): %v", level, text, o.err)
	}
	want := m.expectResults(ts, upTo, c19Strict, false, c19RecsStatement)
	d := c19DiffSorted(o.res, want)
	if d == "" {
		return nil
	}
	if len(c19GtAnyKeys(ts, c19GtMergedAny)) > 0 && c19DiffSorted(o.res, m.expectResults(ts, upTo, c19GtMergedAny, false, c19RecsStatement)) == "" {
		nar.set(kit.Failf("gt-empty-merged-with-lt", "%s Query(%q): key>\"\" merged with key<v on the same key loses its lower bound; the only discrepancy is records whose label is the empty string: %s", level, text, d))
		return nil
	}
	if len(c19GtAnyKeys(ts, c19GtAny)) > 0 && c19DiffSorted(o.res, m.expectResults(ts, upTo, c19GtAny, false, c19RecsStatement)) == "" {
		nar.set(kit.Failf("gt-empty-matches-empty-value", "%s Query(%q) also returns records whose label is the empty string although \"\" > \"\" is false: %s", level, text, d))
		return nil
	}
	if m.hasEmptyVal && c19DiffSorted(o.res, m.expectResults(ts, upTo, c19Strict, false, c19RecsLoose)) == "" {
		nar.set(kit.Failf("coalesce-empty-vs-missing-label", "%s Query(%q): a result was stored in the record of the preceding result although their name-derived labels differ (one has a key with an empty value where the other has a different key): %s", level, text, d))
		return nil
	}
	if m.hasCR && c19DiffSorted(o.res, m.expectResults(ts, upTo, c19Strict, true, c19RecsStatement)) == "" {
		nar.set(kit.Failf("cr-terminated-label-or-line", "%s Query(%q): mismatch confined to a trailing CR of label values / lines: %s", level, text, d))
		return nil
	}
	if m.hasEmptyName && c19DiffSorted(o.res, m.expectResultsEmptyName(ts, upTo)) == "" {
		nar.set(kit.Failf("empty-name-loses-name-label", "%s Query(%q): a result whose benchmark name is empty comes back without its name-derived label name=\"\": %s", level, text, d))
		return nil
	}
	return kit.Failf("query-result-mismatch", "%s Query(%q) terms=%q: %s", level, text, ts, d)
}

// expectResultsEmptyName is the alternative expectation used only to recognise
// one root cause: a result with an empty benchmark name, first in its stored
// record, is returned with no name-derived labels at all.
func (m *c19Model) expectResultsEmptyName(ts []c19ResolvedTerm, upTo int) []string {
	var out []string
	for u := 0; u < upTo && u < len(m.recs); u++ {
		for i := range m.recs[u] {
			r := &m.recs[u][i]
			if !c19Match(r, ts, nil) {
				continue
			}
			for _, l := range r.Lines {
				if len(r.Name) == 1 && r.Name["name"] == "" && strings.TrimLeft(strings.TrimPrefix(l, "Benchmark"), " \t") != strings.TrimPrefix(l, "Benchmark") {
					out = append(out, c19Canon(l, r.Labels, nil))
				} else {
					out = append(out, c19Canon(l, r.Labels, r.Name))
				}
			}
		}
	}
	sort.Strings(out)
	return out
}

func c19IsEOF(err error) bool {
	return err != nil && (err == io.EOF || strings.TrimSpace(err.Error()) == "EOF")
}

func (m *c19Model) judgeListing(level, text string, ts []c19ResolvedTerm, limit int, o c19ListObs, upTo int, nar *c19Narrow) *kit.Fail {
	want := m.expectListing(ts, upTo, limit, c19Strict, c19RecsStatement)
	if o.err != nil {
		if c19IsEOF(o.err) && len(want) == 0 && len(o.infos) == 0 {
			nar.set(kit.Failf("listing-contradiction-eof", "%s ListUploads(%q, limit %d): error %q instead of an empty listing for a query that can match nothing", level, text, limit, o.err))
			return nil
		}
		return kit.Failf("listing-error", "%s ListUploads(%q, limit %d): %v", level, text, limit, o.err)
	}
	if c19InfosEqual(o.infos, want) {
		return nil
	}
	if len(c19GtAnyKeys(ts, c19GtMergedAny)) > 0 && c19InfosEqual(o.infos, m.expectListing(ts, upTo, limit, c19GtMergedAny, c19RecsStatement)) {
		nar.set(kit.Failf("gt-empty-merged-with-lt", "%s ListUploads(%q, limit %d) = %v, want %v (key>\"\" merged with key<v lost its lower bound; only records with an empty label value are spurious)", level, text, limit, o.infos, want))
		return nil
	}
	if len(c19GtAnyKeys(ts, c19GtAny)) > 0 && c19InfosEqual(o.infos, m.expectListing(ts, upTo, limit, c19GtAny, c19RecsStatement)) {
		nar.set(kit.Failf("gt-empty-matches-empty-value", "%s ListUploads(%q, limit %d) = %v, want %v (key>\"\" matched an empty value)", level, text, limit, o.infos, want))
		return nil
	}
	// Recorded finding: a flush of the queued label rows in the middle of an
	// upload ends the current run of identical-label results. Recognised only
	// when the listing is exactly what that rule predicts.
	if m.hasEmptyVal && c19InfosEqual(o.infos, m.expectListing(ts, upTo, limit, c19Strict, c19RecsLoose)) {
		nar.set(kit.Failf("coalesce-empty-vs-missing-label", "%s ListUploads(%q, limit %d) = %v, want %v: a result was stored in the record of the preceding result although their name-derived labels differ (empty value vs. missing key)", level, text, limit, o.infos, want))
		return nil
	}
	if wf := m.expectListing(ts, upTo, limit, c19Strict, c19RecsFlush); c19InfosEqual(o.infos, wf) {
		nar.set(kit.Failf("coalesce-split-at-flush", "%s ListUploads(%q, limit %d) = %v, statement (one record per run of identical labels) gives %v; the difference is exactly the runs split where >= %d label rows were queued", level, text, limit, o.infos, want, c19FlushLabels))
		return nil
	}
	sig := "listing-mismatch"
	if len(o.infos) == len(want) {
		sameIDs, sameSet := true, true
		a, b := map[string]bool{}, map[string]bool{}
		for i := range want {
			if o.infos[i].ID != want[i].ID {
				sameIDs = false
			}
			a[o.infos[i].ID] = true
			b[want[i].ID] = true
		}
		for k := range a {
			if !b[k] {
				sameSet = false
			}
		}
		switch {
		case sameIDs:
			sig = "listing-count-wrong"
		case sameSet:
			sig = "listing-order-wrong"
		}
	}
	return kit.Failf(sig, "%s ListUploads(%q, limit %d) terms=%q = %v, want %v", level, text, limit, ts, o.infos, want)
}

// c19Outcome is kept per case ID so NonTrivial can be honest about what a case
// actually exercised.
var c19Outcomes sync.Map // uint64 -> bool

// c19Setup performs the uploads and builds the model from what the server
// reported.
func c19Setup(s *c19Sys, c c19Case, onUpload func(i int, begin bool)) (*c19Model, []c19Upload, *kit.Fail) {
	m := &c19Model{}
	var okUploads []c19Upload
	for i, u := range c.Uploads {
		if onUpload != nil {
			onUpload(i, true)
		}
		sv, err := s.upload(u, c.Direct)
		if onUpload != nil {
			onUpload(i, false)
		}
		if err != nil {
			// Only successful uploads enter the model (the generator produces
			// valid files only, so this is counted and makes the case trivial).
			kit.Count("c19_upload_refused", 1)
			continue
		}
		if len(sv.FileIDs) != len(u.Files) {
			return nil, nil, kit.Failf("upload-status-fileids", "upload %d: %d files sent, server reports file IDs %q", i, len(u.Files), sv.FileIDs)
		}
		m.ups = append(m.ups, sv)
		okUploads = append(okUploads, u)
	}
	return m, okUploads, nil
}

// learnTimes reads the server's own upload-time per upload (compared by shape
// only: RFC 3339, one value per upload) and completes the model.
func (m *c19Model) finish(s *c19Sys, ups []c19Upload) *kit.Fail {
	for i := range m.ups {
		if m.ups[i].Time == "" {
			q := s.d.Query("upload:" + m.ups[i].ID)
			var times []string
			for q.Next() {
				times = append(times, q.Result().Labels["upload-time"])
				if len(times) > 100000 {
					break
				}
			}
			err := q.Err()
			q.Close()
			if err != nil {
				return kit.Failf("query-error", "db Query(upload:%s): %v", m.ups[i].ID, err)
			}
			if len(times) == 0 {
				return kit.Failf("query-result-mismatch", "db Query(upload:%s) returns nothing for an upload the server acknowledged", m.ups[i].ID)
			}
			for _, t := range times {
				if t != times[0] {
					return kit.Failf("upload-time-not-uniform", "upload %s has upload-time %q and %q", m.ups[i].ID, times[0], t)
				}
			}
			if _, err := time.Parse(time.RFC3339, times[0]); err != nil {
				return kit.Failf("upload-time-shape", "upload %s has upload-time %q: %v", m.ups[i].ID, times[0], err)
			}
			m.ups[i].Time = times[0]
		}
		rs := c19Results(i, ups[i], m.ups[i])
		for _, r := range rs {
			if strings.HasSuffix(r.Line, "\r") {
				m.hasCR = true
			}
			if len(r.Name) == 1 && r.Name["name"] == "" {
				m.hasEmptyName = true
			}
			for _, v := range r.Labels {
				if strings.HasSuffix(v, "\r") {
					m.hasCR = true
				}
			}
		}
		for j := 1; j < len(rs); j++ {
			a, b := rs[j-1], rs[j]
			if !c19EqualMaps(a.Name, b.Name) && c19EqualMaps(c19Union(a.Labels, a.Name), c19Union(b.Labels, b.Name)) {
				m.kindMoves++
			}
		}
		m.recs = append(m.recs, c19Coalesce(rs, false))
		m.recsF = append(m.recsF, c19Coalesce(rs, true))
		m.recsL = append(m.recsL, c19CoalesceLoose(rs))
		for _, r := range rs {
			for _, v := range r.Name {
				if v == "" {
					m.hasEmptyVal = true
				}
			}
		}
	}
	return nil
}

func (m *c19Model) totalLines() int {
	n := 0
	for _, rs := range m.recs {
		for _, r := range rs {
			n += len(r.Lines)
		}
	}
	return n
}

func c19Check(c c19Case) *kit.Fail {
	s, err := c19NewSys(!c.Direct)
	if err != nil {
		panic("c19 monitor: cannot set up: " + err.Error())
	}
	defer s.close()
	m, ups, f := c19Setup(s, c, nil)
	if f != nil {
		return f
	}
	if f := m.finish(s, ups); f != nil {
		return f
	}
	nar := &c19Narrow{}
	bound := 4*m.totalLines() + 100
	n := len(m.ups)
	for _, q := range c.Queries {
		ts := c19Resolve(q.Terms, m.ups)
		text, words := c19QueryText(q, ts)
		if got, ok, why := shwords.Split(text); !ok || strings.Join(got, "\x00") != strings.Join(words, "\x00") || len(got) != len(words) {
			panic(fmt.Sprintf("c19 monitor: query spelling %q does not split into %q (%v %s)", text, words, got, why))
		}
		extra := make([]string, len(q.Extra))
		for i, e := range q.Extra {
			extra[i] = string(e)
		}
		o, complete := s.queryDB(text, bound)
		if f := m.judgeResults("db", text, ts, o, complete, n, nar); f != nil {
			return f
		}
		kit.Count("c19_db_queries", 1)
		if len(o.res) > 0 {
			kit.Count("c19_db_queries_nonempty", 1)
		}
		for _, lim := range []int{0, q.Limit} {
			if f := m.judgeListing("db", text, ts, lim, s.listDB(text, extra, lim), n, nar); f != nil {
				return f
			}
			kit.Count("c19_db_listings", 1)
			if q.Limit == 0 {
				break
			}
		}
		if c.Direct {
			continue
		}
		if text != "" { // the HTTP search endpoint requires a non-empty q
			o, complete := s.queryHTTP(text, bound)
			if f := m.judgeResults("http", text, ts, o, complete, n, nar); f != nil {
				return f
			}
			kit.Count("c19_http_queries", 1)
		}
		for _, lim := range []int{0, q.Limit} {
			if f := m.judgeListing("http", text, ts, lim, s.listHTTP(text, extra, lim), n, nar); f != nil {
				return f
			}
			kit.Count("c19_http_listings", 1)
			if q.Limit == 0 {
				break
			}
		}
	}
	c19Outcomes.Store(c.ID, len(m.ups) == len(c.Uploads) && len(m.ups) > 0)
	if m.kindMoves > 0 {
		kit.Count("c19_cases_with_label_changing_kind_between_consecutive_results", 1)
		kit.Count("c19_label_changes_kind_between_consecutive_results", int64(m.kindMoves))
	}
	return nar.f
}

// ---------------------------------------------------------------------------
// Generators

var (
	c19FileKeys = []string{"k", "goos", "commit", "cl", "pkg.x", "é", "k_2", "branch-a"}
	c19SubKeys  = []string{"size", "mode"}
	c19Bases    = []string{"Foo", "Bar", "Foo2", "Ünï", "x"}
	c19SubVals  = []string{"1", "16", "a", "x.y", "Z", "é"}
	c19Users    = []string{"", "", "user", "a b@example.com"}
	c19FileNms  = []string{"", "1.txt", "path/to/2.txt", `c:\dir\3.txt`, "bench.out"}
	c19Junks    = []string{"", "PASS", "ok  \tgolang.org/x/perf\t0.1s", "goos linux", "BenchmarkNoSpace", "Benchmark",
		" BenchmarkIndented 1 1 ns/op", "--- FAIL: x", "Key: upper", "k :v", "#comment: x", "\t", "k"}
	c19Seps    = []string{" ", " ", " ", "  ", "\t", " \t "}
	c19Specl   = []string{"a b", `a"b`, `a\b`, "x:y", "<", ">z", "a ", "é", "世界", "\xff\xfe", "%", "_", "'", "a|b", "00", "10", "9", "Z", "a\tb", `"`, `\`, "a  b ", "-", "k:v w<x"}
	c19ValAlph = "ab01 :<>\"\\zZ"
)

func c19GenVal(r *kit.Rand) string {
	if r.Chance(0.5) {
		return kit.Pick(r, c19Specl)
	}
	for {
		v := r.Bytes(r.Range(1, 4), c19ValAlph)
		if v[0] != ' ' {
			return v
		}
	}
}

type c19Gen struct {
	r             *kit.Rand
	keys          []string // keys of file labels
	vals          []string // values of file labels (some are legal sub-name values too)
	subKeys       []string // keys of key=value sub-names; may overlap with keys
	emptyNameVals bool
}

// c19LegalSubKey: k can be the key of a `/k=v` part of a benchmark name under
// the monitor's name grammar (and is not a key the name always defines).
func c19LegalSubKey(k string) bool {
	return k != "" && k != "name" && !strings.ContainsAny(k, "/=-") && strings.IndexFunc(k, unicode.IsSpace) < 0
}

// c19LegalSubVal: v can be the value of a name part under the monitor's name
// grammar (no '/', '=', '-', nothing that ends the name field) and, being
// non-empty, also the value of a file label.
func c19LegalSubVal(v string) bool {
	return v != "" && !strings.ContainsAny(v, "/=-") && strings.IndexFunc(v, unicode.IsSpace) < 0
}

// c19SubN returns N for a key of the form subN (N >= 1, no leading zero).
func c19SubN(k string) (int, bool) {
	d := strings.TrimPrefix(k, "sub")
	if d == k || d == "" || d[0] == '0' || len(d) > 3 {
		return 0, false
	}
	n, err := strconv.Atoi(d)
	if err != nil || strconv.Itoa(n) != d {
		return 0, false
	}
	return n, true
}

// c19NameKeys lists the keys of the labels derived from l's benchmark name,
// with repetitions.
func c19NameKeys(l c19Line) []string {
	ks := []string{"name"}
	for i, sub := range l.Subs {
		if sub.Key != "" {
			ks = append(ks, string(sub.Key))
		} else {
			ks = append(ks, "sub"+strconv.Itoa(i+1))
		}
	}
	if l.Procs != "" {
		ks = append(ks, "gomaxprocs")
	}
	return ks
}

// c19LineOK reports whether benchmark line l is inside the monitor's domain
// when the file labels in force are cur: every name-derived key occurs once
// (the derivation for `/sub1=a/b` or `/gomaxprocs=2-4` is not documented) and
// none of them is also a file label (the documented restriction: such an
// upload is refused, which is C20's subject).
func c19LineOK(l c19Line, cur map[string]string) bool {
	seen := map[string]bool{}
	for _, k := range c19NameKeys(l) {
		if _, clash := cur[k]; clash || seen[k] {
			return false
		}
		seen[k] = true
	}
	return true
}

func (g *c19Gen) benchLine(prev *c19Line, cur map[string]string) c19Line {
	r := g.r
	if prev != nil && r.Chance(0.45) && c19LineOK(*prev, cur) {
		// same name again (coalesces unless a label changed in between)
		l := *prev
		l.Rest = kit.B(g.rest())
		return l
	}
	for try := 0; try < 30; try++ {
		l := c19Line{K: c19Bench, Base: kit.B(kit.Pick(r, c19Bases))}
		ns := r.Intn(3)
		used := map[string]bool{}
		for i := 0; i < ns; i++ {
			sub := c19Sub{Val: kit.B(kit.Pick(r, c19SubVals))}
			if r.Chance(0.25) {
				// a value that file labels of this scenario use as well
				if v := kit.Pick(r, g.vals); c19LegalSubVal(v) {
					sub.Val = kit.B(v)
				}
			}
			if g.emptyNameVals && r.Chance(0.3) {
				sub.Val = ""
			}
			if r.Chance(0.6) {
				k := kit.Pick(r, g.subKeys)
				if used[k] {
					continue
				}
				used[k] = true
				sub.Key = kit.B(k)
			}
			l.Subs = append(l.Subs, sub)
		}
		if r.Chance(0.4) {
			l.Procs = kit.B(kit.Pick(r, []string{"1", "4", "16"}))
		}
		l.Rest = kit.B(g.rest())
		if c19LineOK(l, cur) {
			return l
		}
	}
	// only the label `name`, which is never a file label
	return c19Line{K: c19Bench, Base: kit.B(kit.Pick(r, c19Bases)), Rest: kit.B(g.rest())}
}

// migrate continues a file after benchmark line prev with a result that
// differs from prev by ONE label changing its kind: a file label k=v is
// deleted and the name gains the part that derives k=v (`/k=v`, a positional
// part for subN, `-N` for gomaxprocs), or the other way round. The union of
// all labels of the two results is the same, their file labels and
// name-derived labels are not, so they are different records. cur is updated.
func (g *c19Gen) migrate(prev c19Line, cur map[string]string) ([]c19Line, bool) {
	r := g.r
	l := prev
	l.Subs = append([]c19Sub(nil), prev.Subs...)
	l.Rest = kit.B(g.rest())
	if r.Bool() {
		// file label -> name
		var ks []string
		for k, v := range cur {
			if c19LegalSubKey(k) && c19LegalSubVal(v) {
				ks = append(ks, k)
			}
		}
		if len(ks) == 0 {
			return nil, false
		}
		sort.Strings(ks)
		k := kit.Pick(r, ks)
		v := cur[k]
		if n, isSub := c19SubN(k); isSub {
			if n != len(l.Subs)+1 {
				return nil, false
			}
			l.Subs = append(l.Subs, c19Sub{Val: kit.B(v)})
		} else if k == "gomaxprocs" && l.Procs == "" && len(v) <= 3 && strings.Trim(v, "0123456789") == "" && v[0] != '0' && r.Chance(0.7) {
			l.Procs = kit.B(v)
		} else {
			l.Subs = append(l.Subs, c19Sub{Key: kit.B(k), Val: kit.B(v)})
		}
		delete(cur, k)
		if !c19LineOK(l, cur) {
			cur[k] = v
			return nil, false
		}
		return []c19Line{{K: c19Del, Key: kit.B(k)}, l}, true
	}
	// name -> file label: the -N suffix or the last part of the name
	var k, v string
	switch n := len(l.Subs); {
	case l.Procs != "" && (n == 0 || r.Bool()):
		k, v = "gomaxprocs", string(l.Procs)
		l.Procs = ""
	case n > 0:
		k, v = string(l.Subs[n-1].Key), string(l.Subs[n-1].Val)
		if k == "" {
			k = "sub" + strconv.Itoa(n)
		}
		l.Subs = l.Subs[:n-1]
	default:
		return nil, false
	}
	if _, set := cur[k]; set || v == "" {
		return nil, false
	}
	cur[k] = v
	if !c19LineOK(l, cur) {
		delete(cur, k)
		return nil, false
	}
	return []c19Line{{K: c19Set, Key: kit.B(k), Val: kit.B(v), Sep: " "}, l}, true
}

func (g *c19Gen) rest() string {
	r := g.r
	switch r.Intn(4) {
	case 0:
		return fmt.Sprintf(" %d %d ns/op", 1+r.Intn(1000), r.Intn(100000))
	case 1:
		return fmt.Sprintf("\t%d\t%d.%d ns/op\t%d B/op", 1+r.Intn(1000), r.Intn(1000), r.Intn(10), r.Intn(100))
	case 2:
		return " 1 1 ns/op" // identical lines are legal too
	}
	return fmt.Sprintf("  %d  %d ns/op  ", 1+r.Intn(10), r.Intn(100))
}

func (g *c19Gen) file(maxLines int) c19File {
	r := g.r
	f := c19File{Name: kit.B(kit.Pick(r, c19FileNms))}
	n := r.Range(2, maxLines)
	var prev *c19Line
	cur := map[string]string{} // file labels in force
	for i := 0; i < n; i++ {
		switch x := r.Intn(100); {
		case x < 30:
			k, v := kit.Pick(r, g.keys), kit.Pick(r, g.vals)
			cur[k] = v
			f.Lines = append(f.Lines, c19Line{K: c19Set, Key: kit.B(k), Val: kit.B(v), Sep: kit.B(kit.Pick(r, c19Seps))})
		case x < 40:
			k := kit.Pick(r, g.keys)
			delete(cur, k)
			f.Lines = append(f.Lines, c19Line{K: c19Del, Key: kit.B(k), Sep: kit.B(kit.Pick(r, []string{"", "", " ", "\t "}))})
		case x < 50:
			f.Lines = append(f.Lines, c19Line{K: c19Junk, Junk: kit.B(kit.Pick(r, c19Junks))})
		case x < 60 && prev != nil:
			if ls, ok := g.migrate(*prev, cur); ok {
				f.Lines = append(f.Lines, ls...)
				prev = &f.Lines[len(f.Lines)-1]
				break
			}
			fallthrough
		default:
			l := g.benchLine(prev, cur)
			f.Lines = append(f.Lines, l)
			prev = &f.Lines[len(f.Lines)-1]
		}
	}
	l := g.benchLine(prev, cur)
	f.Lines = append(f.Lines, l)
	return f
}

func (g *c19Gen) upload(maxFiles, maxLines int) c19Upload {
	r := g.r
	u := c19Upload{User: kit.B(kit.Pick(r, c19Users))}
	nf := 1
	if r.Chance(0.4) {
		nf = r.Range(1, maxFiles)
	}
	for {
		u.Files = u.Files[:0]
		for i := 0; i < nf; i++ {
			u.Files = append(u.Files, g.file(maxLines))
		}
		// Stay below the number of queued label rows at which the recorded
		// finding coalesce-split-at-flush starts to interfere; the dedicated
		// class c19-flush crosses it on purpose.
		rs := c19Results(0, u, c19Server{ID: "20000101.1", FileIDs: make([]string, nf), Time: "t"})
		if c19LabelRows(c19Coalesce(rs, false)) <= 230 {
			return u
		}
		if maxLines > 4 {
			maxLines--
		}
	}
}

// placeholders while generating queries (IDs are only known at run time)
func (g *c19Gen) queries(c *c19Case, n int) {
	r := g.r
	var all []c19Rec
	for i, u := range c.Uploads {
		fid := make([]string, len(u.Files))
		for j := range fid {
			fid[j] = fmt.Sprintf("@%d/%d", i, j)
		}
		all = append(all, c19Coalesce(c19Results(i, u, c19Server{ID: fmt.Sprintf("@%d", i), FileIDs: fid, Time: "@t"}), false)...)
	}
	nameKeys := append([]string{"name", "gomaxprocs", "sub1", "sub2"}, g.subKeys...)
	// term builds one term; forceKey != "" pins the key. Values are mostly taken
	// from the target record so that the term can hold.
	term := func(target *c19Rec, forceKey string) c19Term {
		t := c19Term{Ref: -1, Op: kit.Pick(r, []string{":", ":", ":", "<", ">"})}
		var key string
		switch x := r.Intn(100); {
		case x < 55:
			key = kit.Pick(r, g.keys)
		case x < 70:
			key = kit.Pick(r, nameKeys)
		case x < 82:
			key = "upload"
		case x < 87:
			key = "upload-part"
		case x < 91:
			key = "upload-file"
		case x < 95:
			key = "by"
		default:
			key = kit.Pick(r, []string{"zz", "absent", "uploadx"})
		}
		if forceKey != "" {
			key = forceKey
		}
		t.Key = kit.B(key)
		var v string
		have := false
		if target != nil {
			if w, ok := target.Labels[key]; ok {
				v, have = w, true
			} else if w, ok := target.Name[key]; ok {
				v, have = w, true
			}
		}
		switch key {
		case "upload", "upload-part":
			// placeholders "@i" / "@i/j" stand for IDs only known at run time
			t.Ref = r.Intn(len(c.Uploads) + 1) // may point past the end: wraps, still a real ID
			part := "/" + strconv.Itoa(r.Intn(3))
			if have && r.Chance(0.8) {
				p := strings.TrimPrefix(v, "@")
				if i := strings.IndexByte(p, '/'); i >= 0 {
					p, part = p[:i], p[i:]
				}
				t.Ref, _ = strconv.Atoi(p)
			}
			t.Val = ""
			if key == "upload-part" {
				t.Val = kit.B(part)
			}
			switch x := r.Intn(12); {
			case x == 0:
				t.Ref, t.Val = -1, "20990101.1"
			case x == 1:
				t.Ref, t.Val = -1, ""
			case x == 2:
				t.Val += "0"
			}
		default:
			if !have || r.Chance(0.25) {
				v = kit.Pick(r, g.vals)
				if r.Chance(0.3) {
					v = kit.Pick(r, append(append([]string{}, c19SubVals...), "1", "4", "16", "Foo", "Bar", "user", "1.txt"))
				}
			}
			switch x := r.Intn(20); {
			case x == 0:
				v += " "
			case x == 1 && len(v) > 1:
				v = v[:len(v)-1]
			case x == 2:
				v = ""
			case x == 3:
				v += "\x00"
			}
			t.Val = kit.B(v)
		}
		if t.Op != ":" && t.Ref < 0 && r.Chance(0.08) {
			t.Val = ""
		}
		if t.Op == ":" && t.Ref < 0 && t.Val == "" {
			t.Op = kit.Pick(r, []string{"<", ">"}) // `key:` (missing value) is an error, outside the statement
		}
		return t
	}
	// rangeStack builds 3-6 range terms (and sometimes one equality) on ONE key,
	// with bounds drawn from the values records really have for that key and
	// their close neighbours, in random order: "several terms on one key mean
	// their conjunction" whatever the order in which bounds tighten.
	// (Added after a seeded change in which a later `k>v` could not tighten an
	// already merged two-sided range.)
	rangeStack := func() []c19Term {
		key := kit.Pick(r, g.keys)
		if r.Chance(0.25) {
			key = kit.Pick(r, nameKeys)
		}
		seen := map[string]bool{}
		var vals []string
		for _, rec := range all {
			v, ok := rec.Labels[key]
			if !ok {
				v, ok = rec.Name[key]
			}
			if ok && !seen[v] {
				seen[v] = true
				vals = append(vals, v)
			}
		}
		vals = append(vals, kit.Pick(r, g.vals))
		sort.Strings(vals)
		var ts []c19Term
		n := r.Range(3, 6)
		for j := 0; j < n; j++ {
			v := kit.Pick(r, vals)
			switch r.Intn(6) {
			case 0:
				v += "0"
			case 1:
				if len(v) > 0 {
					v = v[:len(v)-1]
				}
			}
			op := kit.Pick(r, []string{"<", ">"})
			// bias: lower bounds from the lower half, upper bounds from the upper half,
			// so that most stacks are satisfiable and bounds really tighten
			if r.Chance(0.7) {
				k := r.Intn(len(vals))
				if op == ">" {
					k = r.Intn(len(vals)/2 + 1)
				} else {
					k = len(vals)/2 + r.Intn(len(vals)-len(vals)/2)
				}
				v = vals[k]
			}
			if v == "" && r.Chance(0.9) {
				v = kit.Pick(r, g.vals)
			}
			ts = append(ts, c19Term{Key: kit.B(key), Op: op, Val: kit.B(v), Ref: -1})
		}
		if r.Chance(0.15) {
			if v := kit.Pick(r, vals); v != "" {
				ts = append(ts, c19Term{Key: kit.B(key), Op: ":", Val: kit.B(v), Ref: -1})
			}
		}
		kit.Shuffle(r, ts)
		return ts
	}
	for i := 0; i < n; i++ {
		q := c19Query{Render: r.Uint64()}
		if len(all) > 0 && r.Chance(0.15) {
			q.Terms = rangeStack()
			if r.Chance(0.5) {
				q.Limit = r.Range(1, len(c.Uploads)+1)
			}
			c.Queries = append(c.Queries, q)
			continue
		}
		nt := r.Intn(7)
		if r.Chance(0.5) {
			nt = r.Range(1, 3)
		}
		var target *c19Rec
		if len(all) > 0 && r.Chance(0.7) {
			target = &all[r.Intn(len(all))]
		}
		for j := 0; j < nt; j++ {
			if j > 0 && r.Chance(0.35) {
				// another term on a key already used: redundancy / contradiction
				tg := target
				if r.Chance(0.3) {
					tg = nil
				}
				q.Terms = append(q.Terms, term(tg, string(q.Terms[r.Intn(len(q.Terms))].Key)))
				continue
			}
			q.Terms = append(q.Terms, term(target, ""))
		}
		if r.Chance(0.6) {
			q.Limit = r.Range(1, len(c.Uploads)+1)
		}
		for j := r.Intn(3); j > 0; j-- {
			q.Extra = append(q.Extra, kit.B(kit.Pick(r, append([]string{"name", "upload-time", "zz"}, g.keys...))))
		}
		c.Queries = append(c.Queries, q)
	}
}

func c19NewGen(r *kit.Rand) *c19Gen {
	g := &c19Gen{r: r}
	keys := append([]string{}, c19FileKeys...)
	kit.Shuffle(r, keys)
	g.keys = keys[:r.Range(2, 4)]
	// The statement treats file labels and name-derived labels as ONE label
	// space for queries but as distinct kinds for a record's identity, so the
	// two kinds share keys and values: some scenarios use name-derived keys as
	// file keys, some use file keys as sub-name keys, and some file values are
	// legal sub-name values. (A key is never both in ONE result: c19LineOK.)
	g.subKeys = append([]string{}, c19SubKeys...)
	if r.Chance(0.5) {
		g.keys = append(g.keys, kit.Pick(r, []string{"size", "mode", "sub1", "sub2", "gomaxprocs"}))
	}
	if r.Chance(0.5) {
		for _, k := range g.keys {
			if c19LegalSubKey(k) {
				if _, isSub := c19SubN(k); !isSub && r.Bool() {
					g.subKeys = append(g.subKeys, k)
				}
			}
		}
	}
	if r.Chance(0.3) {
		g.subKeys = append(g.subKeys, "gomaxprocs") // the documented long form of -N
	}
	nv := r.Range(3, 8)
	for i := 0; i < nv; i++ {
		if r.Chance(0.3) {
			g.vals = append(g.vals, kit.Pick(r, append(append([]string{}, c19SubVals...), "4")))
			continue
		}
		g.vals = append(g.vals, c19GenVal(r))
	}
	// close neighbours in the bytewise order make range terms interesting
	if r.Chance(0.7) {
		v := kit.Pick(r, g.vals)
		g.vals = append(g.vals, v+" ", v+"0")
	}
	g.emptyNameVals = r.Chance(0.15)
	return g
}

func c19GenCase(r *kit.Rand, i int) c19Case {
	g := c19NewGen(r)
	c := c19Case{ID: r.Uint64(), Direct: r.Chance(0.3)}
	nu := r.Range(1, 5)
	switch {
	case r.Chance(0.12):
		nu = r.Range(10, 12) // more than ten uploads in a day: ".10" must sort after ".9"
	case r.Chance(0.2):
		nu = r.Range(5, 8)
	}
	maxLines := 12
	if nu > 8 {
		maxLines = 5
	}
	for j := 0; j < nu; j++ {
		c.Uploads = append(c.Uploads, g.upload(3, maxLines))
	}
	nq := 40
	if kit.Thorough() {
		nq = 100
	}
	g.queries(&c, nq)
	return c
}

func c19NonTrivial(c c19Case) bool {
	v, ok := c19Outcomes.Load(c.ID)
	if !ok || !v.(bool) {
		return false
	}
	// at least one query with two terms on one key, and some label history
	multi := false
	for _, q := range c.Queries {
		seen := map[kit.B]bool{}
		for _, t := range q.Terms {
			if seen[t.Key] {
				multi = true
			}
			seen[t.Key] = true
		}
	}
	hist := len(c.Uploads) > 1
	for _, u := range c.Uploads {
		for _, f := range u.Files {
			sets := 0
			for _, l := range f.Lines {
				if l.K == c19Del {
					hist = true
				}
				if l.K == c19Set {
					sets++
				}
			}
			if sets > 1 {
				hist = true
			}
		}
	}
	return multi && hist
}

// ---------------------------------------------------------------------------
// Edge classes (small, enumerated): inputs on which deviations were confirmed

func c19BenchL(base string, rest string, subs ...c19Sub) c19Line {
	return c19Line{K: c19Bench, Base: kit.B(base), Subs: subs, Rest: kit.B(rest)}
}

func c19SetL(k, v string) c19Line {
	return c19Line{K: c19Set, Key: kit.B(k), Val: kit.B(v), Sep: " "}
}

func c19T(k, op, v string) c19Term { return c19Term{Key: kit.B(k), Op: op, Val: kit.B(v), Ref: -1} }

func c19EdgeCases(thorough bool, yield func(c19Case)) {
	id := uint64(1)
	for _, direct := range []bool{true, false} {
		// (1) contradictory terms on the listing; (3) key>"" against an empty
		// name-derived value (both repaired in /repo: d12192f, a36ae3f)
		c := c19Case{ID: id, Direct: direct}
		id++
		c.Uploads = []c19Upload{{Files: []c19File{{Name: "e.txt", Lines: []c19Line{
			c19SetL("k", "a"), c19BenchL("X", " 1 1 ns/op"), c19BenchL("X", " 1 2 ns/op"),
			c19SetL("k", "b"), c19BenchL("X", " 1 3 ns/op", c19Sub{Key: "y", Val: ""}),
			c19BenchL("X", " 1 5 ns/op", c19Sub{Val: ""}, c19Sub{Val: "q"}),
		}}}}}
		for _, ts := range [][]c19Term{
			{c19T("k", ":", "a"), c19T("k", ":", "b")},
			{c19T("k", "<", "a"), c19T("k", ">", "a")},
			{c19T("k", ":", "a"), c19T("k", ">", "a")},
			{c19T("k", "<", "")},
			{c19T("y", ">", "")}, {c19T("name", ">", "")}, {c19T("sub1", ">", "")},
			{c19T("y", ">", ""), c19T("y", "<", "b")}, {c19T("y", "<", "b")}, {c19T("name", "<", "A")},
			{c19T("k", ">", "")}, {c19T("k", ">", ""), c19T("name", ">", "")},
		} {
			for lim := 0; lim < 2; lim++ {
				c.Queries = append(c.Queries, c19Query{Terms: ts, Render: uint64(len(c.Queries)), Limit: lim})
			}
		}
		yield(c)

		// (6) consecutive results whose name-derived labels differ only by
		// "key with empty value" vs "other key"
		c = c19Case{ID: id, Direct: direct}
		id++
		c.Uploads = []c19Upload{{Files: []c19File{{Name: "l.txt", Lines: []c19Line{
			c19BenchL("Foo", " 1 1 ns/op", c19Sub{Key: "mode", Val: ""}, c19Sub{Key: "size", Val: ""}),
			{K: c19Bench, Base: "Foo", Subs: []c19Sub{{Key: "size", Val: ""}}, Procs: "16", Rest: " 1 2 ns/op"},
			c19BenchL("Foo", " 1 3 ns/op", c19Sub{Val: ""}), c19BenchL("Foo", " 1 4 ns/op", c19Sub{Key: "mode", Val: ""}),
		}}}}}
		for _, ts := range [][]c19Term{{c19T("gomaxprocs", ":", "16")}, {c19T("name", ":", "Foo")}, {c19T("mode", "<", "a")}, {c19T("sub1", "<", "a")}, {}} {
			c.Queries = append(c.Queries, c19Query{Terms: ts, Render: uint64(len(c.Queries)), Limit: 1})
		}
		yield(c)

		// (5) a benchmark line whose name is empty
		c = c19Case{ID: id, Direct: direct}
		id++
		c.Uploads = []c19Upload{{Files: []c19File{{Name: "n.txt", Lines: []c19Line{
			c19SetL("k", "a"), c19BenchL("X", " 1 1 ns/op"), c19BenchL("", " 1 4 ns/op"), c19BenchL("", " 1 5 ns/op"), c19BenchL("Y", " 1 6 ns/op"),
		}}}}}
		for _, ts := range [][]c19Term{{c19T("name", "<", "A")}, {c19T("name", ">", "")}, {c19T("k", ":", "a")}, {}} {
			c.Queries = append(c.Queries, c19Query{Terms: ts, Render: uint64(len(c.Queries)), Limit: 1})
		}
		yield(c)

		// (7) the coalescing rule's near misses: consecutive results whose labels
		// are the same set of key/value pairs, but one pair is a file label of one
		// result and a name-derived label of the other - for each kind of
		// name-derived label (key=value part, positional part, -N) and both
		// directions. Three records per file, never one.
		c = c19Case{ID: id, Direct: direct}
		id++
		del := func(k string) c19Line { return c19Line{K: c19Del, Key: kit.B(k)} }
		c.Uploads = []c19Upload{{Files: []c19File{
			{Name: "kv.txt", Lines: []c19Line{
				c19SetL("zone", "x"), c19BenchL("A", " 1 1 ns/op"),
				del("zone"), c19BenchL("A", " 1 2 ns/op", c19Sub{Key: "zone", Val: "x"}),
				c19SetL("zone", "x"), c19BenchL("A", " 1 3 ns/op"),
			}},
			{Name: "procs.txt", Lines: []c19Line{
				c19SetL("gomaxprocs", "4"), c19BenchL("B", " 1 1 ns/op"),
				del("gomaxprocs"), {K: c19Bench, Base: "B", Procs: "4", Rest: " 1 2 ns/op"},
				c19SetL("gomaxprocs", "4"), c19BenchL("B", " 1 3 ns/op"),
			}},
			{Name: "pos.txt", Lines: []c19Line{
				c19SetL("sub1", "q"), c19BenchL("C", " 1 1 ns/op"),
				del("sub1"), c19BenchL("C", " 1 2 ns/op", c19Sub{Val: "q"}),
				c19SetL("sub1", "q"), c19BenchL("C", " 1 3 ns/op"),
			}},
		}}}
		for _, ts := range [][]c19Term{{}, {c19T("zone", ":", "x")}, {c19T("gomaxprocs", ":", "4")}, {c19T("sub1", ":", "q")},
			{c19T("name", ":", "A")}, {c19T("zone", ">", "w"), c19T("zone", "<", "y")}, {c19T("upload-file", ":", "procs.txt")}} {
			c.Queries = append(c.Queries, c19Query{Terms: ts, Render: uint64(len(c.Queries)), Limit: 1})
		}
		yield(c)

		// (4) label values and lines that end in a carriage return
		c = c19Case{ID: id, Direct: direct}
		id++
		c.Uploads = []c19Upload{{Files: []c19File{{Name: "cr.txt", CRLF: true, Lines: []c19Line{
			c19SetL("k", "a\r"), c19BenchL("CR", " 1 1 ns/op"), c19BenchL("CR", " 1 2 ns/op\r"), c19SetL("k", "b"), c19BenchL("CR", " 1 3 ns/op"),
		}}}}}
		for _, ts := range [][]c19Term{{c19T("k", ":", "a\r")}, {c19T("k", ":", "a")}, {c19T("k", ":", "b")}, {c19T("name", ":", "CR")}, {}} {
			c.Queries = append(c.Queries, c19Query{Terms: ts, Render: uint64(len(c.Queries)), Limit: 1})
		}
		yield(c)
	}
}

// (2) uploads that cross the flush threshold of queued label rows
func c19FlushCase(r *kit.Rand, i int) c19Case {
	c := c19Case{ID: r.Uint64(), Direct: r.Bool()}
	nkeys := r.Range(5, 9)
	blocks := r.Range(26, 70)
	var f c19File
	f.Name = "big.txt"
	for b := 0; b < blocks; b++ {
		for k := 0; k < nkeys; k++ {
			v := "1"
			if k == 0 {
				v = strconv.Itoa(b)
			}
			f.Lines = append(f.Lines, c19SetL(fmt.Sprintf("k%d", k), v))
		}
		for j := r.Range(1, 3); j > 0; j-- {
			f.Lines = append(f.Lines, c19BenchL("Z", fmt.Sprintf(" 1 %d ns/op", r.Intn(1000))))
		}
	}
	c.Uploads = []c19Upload{{Files: []c19File{{Name: "s.txt", Lines: []c19Line{c19SetL("k0", "s"), c19BenchL("S", " 1 1 ns/op")}}}}, {Files: []c19File{f}}}
	for q := 0; q < 12; q++ {
		var ts []c19Term
		switch q % 4 {
		case 1:
			ts = []c19Term{c19T("k0", ">", strconv.Itoa(r.Intn(blocks)))}
		case 2:
			ts = []c19Term{c19T("k0", ":", strconv.Itoa(r.Intn(blocks)))}
		case 3:
			ts = []c19Term{{Key: "upload", Op: ":", Ref: 1}, c19T("k1", ":", "1")}
		}
		c.Queries = append(c.Queries, c19Query{Terms: ts, Render: r.Uint64(), Limit: q % 3})
	}
	return c
}

func c19StoreClasses() []kit.Runner {
	return []kit.Runner{
		kit.Class[c19Case]{
			Name: "c19-store", Quick: 300, Thorough: 6000,
			Gen: c19GenCase, Check: c19Check, NonTrivial: c19NonTrivial, MinNonTrivial: 120,
			Rule: "1-12 uploads of 1-3 files built from label histories (set / change / delete over 2-5 keys and a pool of hostile values: blanks, quotes, backslashes, :<>, UTF-8, invalid UTF-8, neighbours in bytewise order), benchmark names with sub-keys, positional parts and -N, repeated names (coalescing), junk lines; file labels and name-derived labels share keys (size, mode, sub1, sub2, gomaxprocs as file keys; file keys as /k=v keys) and values, never within one result, and about one result in ten follows its predecessor with one label moved from the file to the name or back; 40 (thorough 100) queries of 0-6 terms over present/absent keys incl. upload/upload-part/by/name labels, repeated keys (redundant, contradictory), values needing quoting, spelled in random shell-style quoting; each query observed at db.DB.Query/ListUploads (limit 0 and 1..n+1) and, for HTTP-origin cases, through storage.Client. Non-trivial: every upload accepted, some label history, some query with two terms on one key.",
		},
		kit.Class[c19Case]{
			Name: "c19-edge", Enum: c19EdgeCases, Check: c19Check,
			Rule: "enumerated witnesses: contradictory listings, key>\"\" against empty name-derived values, empty-vs-missing name labels, a key/value pair that is a file label of one result and a name-derived label of the next (key=value part, positional part, -N; both directions), CR-terminated label values and lines; db-origin and HTTP-origin each",
		},
		kit.Class[c19Case]{
			Name: "c19-flush", Quick: 6, Thorough: 60, Gen: c19FlushCase, Check: c19Check,
			Rule: "one upload of 26-70 label blocks x 5-9 file labels with 1-3 identical-label results per block, i.e. more than 248 queued label rows; listing counts and query results",
		},
	}
}

func TestVerifC19Store(t *testing.T) {
	kit.Run(t, "C19", c19StoreClasses()...)
}
