//go:build verif

package benchstat_test

// C17: the legacy benchstat library's tables follow its documented statistics.
//
// The real library is driven through Collection{...}.AddConfig/AddResults,
// Tables() (once per collection) and FormatText/FormatCSV with generated legacy
// benchmark inputs. The oracle is a reference recomputation written on the
// generated structure (never on the library's parse): R8 quartiles and the
// 1.5 IQR fences in exact rational arithmetic (math/big), retained values in
// input order, min/mean/max, first-appearance bookkeeping, the significance
// gate, delta formula, direction, note, stable sorting and the geomean.
// p-values are NOT recomputed: they are taken from the same exported
// DeltaTest function applied to the reference's retained values (C11/C12
// decide whether those numbers are right); C17 checks the relations around p.

import (
	"bytes"
	"encoding/csv"
	"errors"
	"hash/fnv"
	"math"
	"math/big"
	"regexp"
	"sort"
	"strconv"
	"strings"
	"testing"

	"golang.org/x/perf/benchstat"
	kit "golang.org/x/perf/internal/verifkit"
	sbf "golang.org/x/perf/storage/benchfmt"
)

// ---------------------------------------------------------------------------
// Case

type c17Meas struct {
	V kit.F
	U string
}

// c17Line is one benchmark result line together with the persistent file
// labels in effect when it is read. The benchmark name is Base[/size=Size][-Procs].
type c17Line struct {
	Base   string
	Size   string
	Procs  int
	Labels map[string]string
	Meas   []c17Meas
}

type c17Config struct {
	Name  string
	Text  bool // true: rendered to text and added with AddConfig; false: AddResults
	Lines []c17Line
}

type c17Case struct {
	Configs   []c17Config
	Test      string // "nil" (default), "u", "t", "none", "synth"
	Alpha     kit.F  // 0 = default 0.05
	GeoMean   bool
	SplitBy   []string
	Order     string // "", "name", "delta", "rname", "rdelta", "len", "rlen"
	SynthSeed uint64
	NoRange   bool
}

func (l c17Line) name() string {
	s := l.Base
	if l.Size != "" {
		s += "/size=" + l.Size
	}
	if l.Procs > 0 {
		s += "-" + strconv.Itoa(l.Procs)
	}
	return s
}

// nameLabels are the labels the benchmark name carries by construction.
func (l c17Line) nameLabels() map[string]string {
	m := map[string]string{"name": l.Base}
	if l.Size != "" {
		m["size"] = l.Size
	}
	if l.Procs > 0 {
		m["gomaxprocs"] = strconv.Itoa(l.Procs)
	}
	return m
}

func (l c17Line) content() string {
	var sb strings.Builder
	sb.WriteString("Benchmark")
	sb.WriteString(l.name())
	sb.WriteString(" 1")
	for _, m := range l.Meas {
		sb.WriteByte(' ')
		sb.WriteString(strconv.FormatFloat(float64(m.V), 'g', -1, 64))
		sb.WriteByte(' ')
		sb.WriteString(m.U)
	}
	return sb.String()
}

func c17SortedKeys(m map[string]string) []string {
	ks := make([]string, 0, len(m))
	for k := range m {
		ks = append(ks, k)
	}
	sort.Strings(ks)
	return ks
}

// text renders a configuration as a legacy benchmark file. The first line is
// neither blank nor a label, so the file has no permanent header labels.
func (cf c17Config) text() string {
	var sb strings.Builder
	sb.WriteString("# verif C17\n")
	cur := map[string]string{}
	for i, l := range cf.Lines {
		for _, k := range c17SortedKeys(cur) {
			if _, ok := l.Labels[k]; !ok {
				sb.WriteString(k + ":\n")
				delete(cur, k)
			}
		}
		for _, k := range c17SortedKeys(l.Labels) {
			if cur[k] != l.Labels[k] {
				sb.WriteString(k + ": " + l.Labels[k] + "\n")
				cur[k] = l.Labels[k]
			}
		}
		sb.WriteString(l.content())
		sb.WriteByte('\n')
		if i%7 == 3 {
			sb.WriteString("PASS\n")
		}
	}
	return sb.String()
}

func (cf c17Config) results() []*sbf.Result {
	var out []*sbf.Result
	for i, l := range cf.Lines {
		lab := sbf.Labels{}
		for k, v := range l.Labels {
			lab[k] = v
		}
		nl := sbf.Labels{}
		for k, v := range l.nameLabels() {
			nl[k] = v
		}
		out = append(out, &sbf.Result{Labels: lab, NameLabels: nl, LineNum: i + 1, Content: l.content()})
	}
	return out
}

// ---------------------------------------------------------------------------
// Reference model

type c17RefMetric struct {
	values    []float64
	retained  []float64
	min, max  float64
	mean      float64 // exact rational mean rounded once
	maxAbs    float64
	nearFence bool
	outliers  int
	nonFinite int  // NaN / +Inf / -Inf measurements among the values
	undecided bool // a quartile would have to be read off a non-finite value, or depends on where NaN is ordered
}

type c17RefKey struct {
	cfg                int
	group, bench, unit string
}

type c17Model struct {
	units     []string
	groups    []string
	benches   map[string][]string
	metrics   map[c17RefKey]*c17RefMetric
	nearFence bool
	undecided bool
	outliers  int
	nonFinite int
}

func c17Rat(f float64) *big.Rat { return new(big.Rat).SetFloat64(f) }

func c17Finite(v float64) bool { return !math.IsNaN(v) && !math.IsInf(v, 0) }

// c17QuartilesR8 returns the Hyndman-Fan type 8 quartiles of xs exactly:
// h = (N+1/3)p + 1/3, Q = x[floor h] + (h - floor h)(x[floor h + 1] - x[floor h])
// with 1-based order statistics, clamped to the extremes. xs is ordered as Go
// orders float64 (NaN first, then -Inf ... +Inf). ok is false when an order
// statistic the quartiles are read from is not a finite number.
func c17QuartilesR8(xs []float64) (q1, q3 *big.Rat, ok bool) {
	s := append([]float64(nil), xs...)
	sort.Float64s(s)
	n := int64(len(s))
	ok = n > 0
	cell := func(i int64) *big.Rat {
		if !c17Finite(s[i]) {
			ok = false
			return new(big.Rat)
		}
		return c17Rat(s[i])
	}
	at := func(num int64) *big.Rat { // h = num/12
		h := big.NewRat(num, 12)
		k := new(big.Int).Quo(h.Num(), h.Denom()).Int64() // h > 0: floor
		if k <= 0 {
			return cell(0)
		}
		if k >= n {
			return cell(n - 1)
		}
		frac := new(big.Rat).Sub(h, big.NewRat(k, 1))
		lo, hi := cell(k-1), cell(k)
		d := new(big.Rat).Sub(hi, lo)
		d.Mul(d, frac)
		return d.Add(d, lo)
	}
	if !ok {
		return nil, nil, false
	}
	q1, q3 = at(3*n+5), at(9*n+7)
	return q1, q3, ok
}

func c17AbsRat(r *big.Rat) *big.Rat { return new(big.Rat).Abs(r) }

// c17Within returns the positions of the values of all that lie within 1.5
// IQR of the quartiles of quart (a NaN or an infinity never does: the fences
// are finite), and whether a finite value lies within 1e-9 relative of a fence.
func c17Within(all, quart []float64) (keep []int, nearFence, ok bool) {
	q1, q3, ok := c17QuartilesR8(quart)
	if !ok {
		return nil, false, false
	}
	iqr := new(big.Rat).Sub(q3, q1)
	w := new(big.Rat).Mul(iqr, big.NewRat(3, 2))
	lo := new(big.Rat).Sub(q1, w)
	hi := new(big.Rat).Add(q3, w)
	// scale for the "within 1e-9 relative of a fence" domain rule
	scale := c17AbsRat(lo)
	for _, r := range []*big.Rat{hi, q1, q3} {
		if a := c17AbsRat(r); a.Cmp(scale) > 0 {
			scale = a
		}
	}
	for i, v := range all {
		if !c17Finite(v) {
			continue
		}
		rv := c17Rat(v)
		if iqr.Sign() != 0 {
			sc := scale
			if a := c17AbsRat(rv); a.Cmp(sc) > 0 {
				sc = a
			}
			eps := new(big.Rat).Mul(sc, big.NewRat(1, 1000000000))
			for _, f := range []*big.Rat{lo, hi} {
				d := new(big.Rat).Sub(rv, f)
				if c17AbsRat(d).Cmp(eps) <= 0 {
					nearFence = true
				}
			}
		}
		if lo.Cmp(rv) <= 0 && rv.Cmp(hi) <= 0 {
			keep = append(keep, i)
		}
	}
	return keep, nearFence, true
}

func (m *c17RefMetric) compute() {
	nan := 0
	var noNaN []float64
	for _, v := range m.values {
		if !c17Finite(v) {
			m.nonFinite++
		}
		if math.IsNaN(v) {
			nan++
		} else {
			noNaN = append(noNaN, v)
			if a := math.Abs(v); a > m.maxAbs && !math.IsInf(v, 0) {
				m.maxAbs = a
			}
		}
	}
	keep, near, ok := c17Within(m.values, m.values)
	if !ok {
		m.undecided = true
		return
	}
	m.nearFence = near
	if nan > 0 {
		// The statement does not say where a NaN stands among the ordered
		// values (first, last, or wherever a selection algorithm leaves it), so
		// the quartiles - and with them the retained set - of a NaN-bearing
		// sample are not decided. Only "a NaN is never within the fences" is
		// judged for such a sample (c17NaNRetained).
		m.undecided = true
		return
	}
	sum := new(big.Rat)
	for _, i := range keep {
		m.retained = append(m.retained, m.values[i])
		sum.Add(sum, c17Rat(m.values[i]))
	}
	m.outliers = len(m.values) - len(keep)
	if len(m.retained) == 0 {
		m.min, m.max, m.mean = math.NaN(), math.NaN(), math.NaN()
		return
	}
	m.min, m.max = m.retained[0], m.retained[0]
	for _, v := range m.retained {
		if v < m.min {
			m.min = v
		}
		if v > m.max {
			m.max = v
		}
	}
	sum.Quo(sum, big.NewRat(int64(len(m.retained)), 1))
	m.mean, _ = sum.Float64()
}

func c17GroupID(c c17Case, l c17Line) string {
	var parts []string
	nl := l.nameLabels()
	for _, s := range c.SplitBy {
		v := nl[s]
		if v == "" {
			v = l.Labels[s]
		}
		if v != "" {
			parts = append(parts, s+"\x00"+v)
		}
	}
	return strings.Join(parts, "\x01")
}

func c17AddString(xs *[]string, s string) {
	for _, x := range *xs {
		if x == s {
			return
		}
	}
	*xs = append(*xs, s)
}

func c17BuildModel(c c17Case) *c17Model {
	m := &c17Model{benches: map[string][]string{}, metrics: map[c17RefKey]*c17RefMetric{}}
	for ci, cf := range c.Configs {
		for _, l := range cf.Lines {
			g := c17GroupID(c, l)
			b := l.name()
			for _, ms := range l.Meas {
				k := c17RefKey{ci, g, b, ms.U}
				rm := m.metrics[k]
				if rm == nil {
					rm = &c17RefMetric{}
					m.metrics[k] = rm
					c17AddString(&m.groups, g)
					bs := m.benches[g]
					c17AddString(&bs, b)
					m.benches[g] = bs
					c17AddString(&m.units, ms.U)
				}
				rm.values = append(rm.values, float64(ms.V))
			}
		}
	}
	for _, rm := range m.metrics {
		rm.compute()
		if rm.nearFence {
			m.nearFence = true
		}
		if rm.undecided {
			m.undecided = true
		}
		if rm.outliers > 0 {
			m.outliers++
		}
		if rm.nonFinite > 0 {
			m.nonFinite++
		}
	}
	return m
}

type c17RefRow struct {
	group, bench string
	ms           []*c17RefMetric // per config, nil = absent
}

// rows returns the expected data rows of the unit's table in first-appearance
// order (groups in order of first appearance, benchmarks within a group in
// order of first appearance). Rows without any data are not listed; with
// exactly two configurations only rows present in both are listed.
func (m *c17Model) rows(c c17Case, unit string) []c17RefRow {
	var out []c17RefRow
	for _, g := range m.groups {
		for _, b := range m.benches[g] {
			row := c17RefRow{group: g, bench: b}
			n := 0
			for ci := range c.Configs {
				rm := m.metrics[c17RefKey{ci, g, b, unit}]
				row.ms = append(row.ms, rm)
				if rm != nil {
					n++
				}
			}
			if n == 0 || (len(c.Configs) == 2 && n != 2) {
				continue
			}
			out = append(out, row)
		}
	}
	return out
}

// ---------------------------------------------------------------------------
// Delta tests

var c17ErrSynth = errors.New("synthetic reason 17")

func c17Hash(seed uint64, unit string, a, b []float64) uint64 {
	h := fnv.New64a()
	var buf [8]byte
	put := func(u uint64) {
		for i := 0; i < 8; i++ {
			buf[i] = byte(u >> (8 * i))
		}
		h.Write(buf[:])
	}
	put(seed)
	h.Write([]byte(unit))
	put(uint64(len(a)))
	bitsOf := func(v float64) uint64 {
		if v != v {
			return 0x7FF8000000000001 // every NaN alike
		}
		return math.Float64bits(v)
	}
	for _, v := range a {
		put(bitsOf(v))
	}
	put(uint64(len(b)))
	for _, v := range b {
		put(bitsOf(v))
	}
	x := h.Sum64()
	x ^= x >> 29
	x *= 0xBF58476D1CE4E5B9
	x ^= x >> 32
	return x
}

func c17Alpha(c c17Case) float64 {
	if float64(c.Alpha) == 0 {
		return 0.05
	}
	return float64(c.Alpha)
}

// c17Synth is a caller-supplied DeltaTest whose result is a pure function of
// the raw measured values of the two metrics, the unit and the case seed.
func c17Synth(c c17Case) benchstat.DeltaTest {
	alpha := c17Alpha(c)
	return func(old, new *benchstat.Metrics) (float64, error) {
		x := c17Hash(c.SynthSeed, old.Unit, old.Values, new.Values)
		switch x % 11 {
		case 0:
			return alpha, nil
		case 1:
			return math.Nextafter(alpha, math.Inf(-1)), nil
		case 2:
			return math.Nextafter(alpha, math.Inf(1)), nil
		case 3:
			return 0, nil
		case 4:
			return 1, nil
		case 5:
			return -1, benchstat.ErrSamplesEqual
		case 6:
			return -1, c17ErrSynth
		case 7:
			return alpha * (1 - 1e-3), nil
		default:
			return float64(x>>11) / (1 << 53), nil
		}
	}
}

func c17Test(c c17Case) (lib benchstat.DeltaTest, ref benchstat.DeltaTest) {
	switch c.Test {
	case "u":
		return benchstat.UTest, benchstat.UTest
	case "t":
		return benchstat.TTest, benchstat.TTest
	case "none":
		return benchstat.NoDeltaTest, benchstat.NoDeltaTest
	case "synth":
		f := c17Synth(c)
		return f, f
	}
	return nil, benchstat.UTest // documented default
}

func c17Order(s string) benchstat.Order {
	byLen := func(t *benchstat.Table, i, j int) bool {
		return len(t.Rows[i].Benchmark) < len(t.Rows[j].Benchmark)
	}
	switch s {
	case "name":
		return benchstat.ByName
	case "delta":
		return benchstat.ByDelta
	case "rname":
		return benchstat.Reverse(benchstat.ByName)
	case "rdelta":
		return benchstat.Reverse(benchstat.ByDelta)
	case "len":
		return byLen
	case "rlen":
		return benchstat.Reverse(byLen)
	}
	return nil
}

func (rm *c17RefMetric) metrics(unit string) *benchstat.Metrics {
	return &benchstat.Metrics{
		Unit:    unit,
		Values:  append([]float64(nil), rm.values...),
		RValues: append([]float64(nil), rm.retained...),
		Min:     rm.min, Mean: rm.mean, Max: rm.max,
	}
}

// ---------------------------------------------------------------------------
// Oracle

const c17Eps = 2.220446049250313e-16
const c17GeoName = "[Geo mean]"

var c17NoteRE = regexp.MustCompile(`^\(p=(\S+) n=(\d+)\+(\d+)\)$`)

func c17SameFloats(a, b []float64) bool {
	if len(a) != len(b) {
		return false
	}
	for i := range a {
		if math.Float64bits(a[i]) != math.Float64bits(b[i]) && !(a[i] != a[i] && b[i] != b[i]) {
			return false
		}
	}
	return true
}

func c17HasData(m *benchstat.Metrics) bool { return m != nil && len(m.Values) > 0 }

func c17RowHasData(r *benchstat.Row) bool {
	for _, m := range r.Metrics {
		if c17HasData(m) {
			return true
		}
	}
	return false
}

func c17TableUnit(t *benchstat.Table) string {
	for _, r := range t.Rows {
		for _, m := range r.Metrics {
			if c17HasData(m) {
				return m.Unit
			}
		}
	}
	return ""
}

func c17GeoMean(xs []float64) float64 {
	// Kahan-summed mean of logs
	var sum, comp float64
	for _, x := range xs {
		y := math.Log(x) - comp
		t := sum + y
		comp = (t - sum) - y
		sum = t
	}
	return math.Exp(sum / float64(len(xs)))
}

func c17Close(a, b, rel float64) bool {
	if a == b {
		return true
	}
	return math.Abs(a-b) <= rel*math.Max(math.Abs(a), math.Abs(b))
}

func c17Build(c c17Case) *benchstat.Collection {
	lib, _ := c17Test(c)
	coll := &benchstat.Collection{
		Alpha:      float64(c.Alpha),
		AddGeoMean: c.GeoMean,
		DeltaTest:  lib,
		SplitBy:    append([]string(nil), c.SplitBy...),
		Order:      c17Order(c.Order),
	}
	for _, cf := range c.Configs {
		if cf.Text {
			coll.AddConfig(cf.Name, []byte(cf.text()))
		} else {
			coll.AddResults(cf.Name, cf.results())
		}
	}
	return coll
}

// c17NaNRetained is the one claim judged on collections whose retained sets
// are otherwise undecided because of a NaN measurement: whatever the
// quartiles are, a NaN does not lie within 1.5 IQR of them, so no metric may
// retain one (and then report NaN statistics next to finite retained values).
func c17NaNRetained(c c17Case) *kit.Fail {
	coll := c17Build(c)
	coll.Tables()
	n := 0
	for k, m := range coll.Metrics {
		if m == nil {
			continue
		}
		for _, v := range m.RValues {
			if math.IsNaN(v) {
				return kit.Failf("nan-retained", "config %q benchmark %q unit %q: a NaN measurement was retained (values %v, retained %v)", k.Config, k.Benchmark, k.Unit, m.Values, m.RValues)
			}
		}
		n++
	}
	kit.Count("C17 metrics of NaN-bearing collections checked only for 'no NaN retained'", int64(n))
	return nil
}

func c17Check(c c17Case) *kit.Fail {
	model := c17BuildModel(c)
	if model.undecided {
		kit.Count("C17 cases skipped (a quartile falls on a NaN/Inf measurement or depends on where NaN is ordered)", 1)
		if model.nonFinite > 0 && c.Test != "nil" && c.Test != "u" {
			return c17NaNRetained(c)
		}
		return nil
	}
	if model.nearFence {
		kit.Count("C17 cases skipped (a value within 1e-9 relative of a fence)", 1)
		return nil
	}
	if model.nonFinite > 0 && (c.Test == "nil" || c.Test == "u") {
		return nil // outside the generated domain (see NOTES.md: NaN-bearing collections never use the U test)
	}
	_, refTest := c17Test(c)
	alpha := c17Alpha(c)
	ncfg := len(c.Configs)

	coll := c17Build(c)
	tables := coll.Tables() // exactly once per collection

	// --- which tables, in which order -----------------------------------
	var wantUnits []string
	for _, u := range model.units {
		if len(model.rows(c, u)) > 0 {
			wantUnits = append(wantUnits, u)
		}
	}
	var obs []*benchstat.Table
	for _, t := range tables {
		if t == nil {
			return kit.Failf("table-nil", "Tables() returned a nil table")
		}
		if c17TableUnit(t) != "" {
			obs = append(obs, t)
		}
	}
	var gotUnits []string
	for _, t := range obs {
		gotUnits = append(gotUnits, c17TableUnit(t))
	}
	if strings.Join(gotUnits, "\x00") != strings.Join(wantUnits, "\x00") {
		return kit.Failf("table-order", "tables for units %q, want (first appearance) %q", gotUnits, wantUnits)
	}

	for ti, t := range obs {
		unit := wantUnits[ti]
		if len(t.Configs) != ncfg {
			return kit.Failf("table-configs", "unit %s: table has configs %q, want %d configs", unit, t.Configs, ncfg)
		}
		for i, cf := range c.Configs {
			if t.Configs[i] != cf.Name {
				return kit.Failf("table-configs", "unit %s: table configs %q", unit, t.Configs)
			}
		}
		rows := append([]*benchstat.Row(nil), t.Rows...)
		// geomean row
		var geo *benchstat.Row
		if n := len(rows); n > 0 && rows[n-1].Benchmark == c17GeoName {
			if !c.GeoMean {
				return kit.Failf("geomean-unrequested", "unit %s: geomean row without AddGeoMean", unit)
			}
			geo = rows[n-1]
			rows = rows[:n-1]
		}
		var data []*benchstat.Row
		for _, r := range rows {
			if r == nil {
				return kit.Failf("row-nil", "unit %s: nil row", unit)
			}
			if r.Benchmark == c17GeoName {
				return kit.Failf("geomean-position", "unit %s: geomean row is not the last row", unit)
			}
			if len(r.Metrics) != ncfg {
				return kit.Failf("row-shape", "unit %s row %s: %d metric columns for %d configs", unit, r.Benchmark, len(r.Metrics), ncfg)
			}
			if c17RowHasData(r) {
				data = append(data, r)
			}
		}
		want := model.rows(c, unit)
		if len(data) != len(want) {
			var names []string
			for _, r := range data {
				names = append(names, r.Group+"|"+r.Benchmark)
			}
			return kit.Failf("row-set", "unit %s: %d data rows %q, want %d", unit, len(data), names, len(want))
		}

		// --- identify rows; first-appearance order or stable sort ---------
		multiGroup := len(model.groups) > 1
		type rk struct{ g, b string }
		wantIdx := map[rk]int{}
		for i, w := range want {
			wantIdx[rk{w.group, w.bench}] = i
		}
		// Observed group labels must be in bijection with the reference
		// group identities (the label text itself is not prescribed).
		g2ref := map[string]string{}
		ref2g := map[string]string{}
		orig := make([]int, len(data)) // position in first-appearance order
		if c.Order == "" {
			for i, r := range data {
				w := want[i]
				if r.Benchmark != w.bench {
					return kit.Failf("row-order", "unit %s: row %d is %q, want %q (first appearance)", unit, i, r.Benchmark, w.bench)
				}
				if multiGroup {
					if g, ok := g2ref[r.Group]; ok && g != w.group {
						return kit.Failf("row-group", "unit %s: row %d %q: group label %q used for two groups", unit, i, r.Benchmark, r.Group)
					}
					if g, ok := ref2g[w.group]; ok && g != r.Group {
						return kit.Failf("row-group", "unit %s: row %d %q: group shown as %q and %q", unit, i, r.Benchmark, g, r.Group)
					}
					g2ref[r.Group], ref2g[w.group] = w.group, r.Group
				}
				orig[i] = i
			}
		} else {
			// Sorted: rows are identified by (group, benchmark). With several
			// groups the group label is matched through the raw values.
			used := make([]bool, len(want))
			for i, r := range data {
				found := -1
				for j, w := range want {
					if used[j] || w.bench != r.Benchmark {
						continue
					}
					ok := true
					for ci, rm := range w.ms {
						om := r.Metrics[ci]
						if (rm != nil) != c17HasData(om) || (rm != nil && !c17SameFloats(rm.values, om.Values)) {
							ok = false
						}
					}
					if ok {
						found = j
						break
					}
				}
				if found < 0 {
					return kit.Failf("row-set", "unit %s: sorted table row %d %q (group %q) matches no expected row", unit, i, r.Benchmark, r.Group)
				}
				used[found] = true
				orig[i] = found
			}
			// Rows with identical name and identical raw values are
			// interchangeable; assign them in increasing order so that the
			// stability check is not fooled by the greedy matching.
			// (greedy matching above already takes the smallest unused index.)
			ft := &benchstat.Table{Metric: t.Metric, OldNewDelta: t.OldNewDelta, Configs: t.Configs, Groups: t.Groups, Rows: data}
			less := c17Order(c.Order)
			ties := 0
			for i := 0; i < len(data); i++ {
				for j := i + 1; j < len(data); j++ {
					if less(ft, j, i) {
						return kit.Failf("sort-order", "unit %s order %s: row %d (%q) sorts before row %d (%q) but comes later", unit, c.Order, j, data[j].Benchmark, i, data[i].Benchmark)
					}
					if !less(ft, i, j) { // equivalent under the order
						ties++
						if orig[i] > orig[j] {
							return kit.Failf("sort-unstable", "unit %s order %s: rows %d (%q) and %d (%q) are equivalent under the order but not in first-appearance order", unit, c.Order, i, data[i].Benchmark, j, data[j].Benchmark)
						}
					}
				}
			}
			kit.Count("C17 sorted tables checked", 1)
			if ties > 0 && len(data) > 12 {
				kit.Count("C17 sorted tables with >12 rows and equivalent rows", 1)
			}
		}

		// --- per row ------------------------------------------------------
		for i, r := range data {
			w := want[orig[i]]
			for ci, rm := range w.ms {
				om := r.Metrics[ci]
				if rm == nil {
					if c17HasData(om) {
						return kit.Failf("metric-extra", "unit %s %q config %d: values %v for a benchmark without results", unit, r.Benchmark, ci, om.Values)
					}
					continue
				}
				if !c17HasData(om) {
					return kit.Failf("metric-missing", "unit %s %q config %d: no values, want %v", unit, r.Benchmark, ci, rm.values)
				}
				if om.Unit != unit {
					return kit.Failf("metric-unit", "unit %s %q config %d: metric unit %q", unit, r.Benchmark, ci, om.Unit)
				}
				if !c17SameFloats(om.Values, rm.values) {
					return kit.Failf("values-wrong", "unit %s %q config %d: Values %v, want (input order) %v", unit, r.Benchmark, ci, om.Values, rm.values)
				}
				if !c17SameFloats(om.RValues, rm.retained) {
					return kit.Failf("retained-wrong", "unit %s %q config %d: retained %v, want values within 1.5 IQR of the R8 quartiles in input order %v (all %v)", unit, r.Benchmark, ci, om.RValues, rm.retained, rm.values)
				}
				if om.Min != rm.min || om.Max != rm.max {
					return kit.Failf("minmax-wrong", "unit %s %q config %d: min/max %v/%v, want %v/%v of %v", unit, r.Benchmark, ci, om.Min, om.Max, rm.min, rm.max, rm.retained)
				}
				// mean: any summation order of n values of magnitude <= maxAbs
				tol := 4 * float64(len(rm.retained)+2) * c17Eps * rm.maxAbs
				if !(math.Abs(om.Mean-rm.mean) <= tol) {
					return kit.Failf("mean-wrong", "unit %s %q config %d: mean %v, want %v (tol %g) of %v", unit, r.Benchmark, ci, om.Mean, rm.mean, tol, rm.retained)
				}
				if !(om.Min-tol <= om.Mean && om.Mean <= om.Max+tol) {
					return kit.Failf("mean-outside", "unit %s %q config %d: min %v mean %v max %v", unit, r.Benchmark, ci, om.Min, om.Mean, om.Max)
				}
				// The statement promises min <= mean <= max literally (the
				// incremental mean the library uses guarantees it; a naive
				// sum/n does not, e.g. 0.1 three times). Added after a seeded change.
				if om.Mean < om.Min || om.Mean > om.Max {
					return kit.Failf("mean-outside-exact", "unit %s %q config %d: min %v <= mean %v <= max %v does not hold (retained %v)", unit, r.Benchmark, ci, om.Min, om.Mean, om.Max, rm.retained)
				}
				if rm.outliers > 0 {
					kit.Count("C17 metrics with outliers removed", 1)
				}
				if rm.nonFinite > 0 {
					kit.Count("C17 metrics with a NaN or infinite measurement (must not be retained)", 1)
				}
			}
			if ncfg != 2 {
				continue
			}
			kit.Count("C17 two-config rows compared", 1)
			if f := c17CheckDelta(c, unit, r, w, refTest, alpha); f != nil {
				return f
			}
		}

		// --- geomean --------------------------------------------------------
		if f := c17CheckGeo(c, model, unit, want, geo); f != nil {
			return f
		}
	}

	if f := c17CheckFormats(c, tables); f != nil {
		return f
	}
	return nil
}

func c17CheckDelta(c c17Case, unit string, r *benchstat.Row, w c17RefRow, refTest benchstat.DeltaTest, alpha float64) *kit.Fail {
	p, terr := refTest(w.ms[0].metrics(unit), w.ms[1].metrics(unit))
	oldMean, newMean := r.Metrics[0].Mean, r.Metrics[1].Mean // observed (checked above)
	shown := r.Delta != "~"
	if shown && !strings.HasSuffix(r.Delta, "%") {
		return kit.Failf("delta-shape", "unit %s %q: Delta %q is neither '~' nor a percentage", unit, r.Benchmark, r.Delta)
	}
	wantShown := terr == nil && p < alpha
	if p == alpha && terr == nil {
		kit.Count("C17 rows with p exactly alpha", 1)
	}
	if shown && !wantShown {
		return kit.Failf("delta-shown-not-significant", "unit %s %q: Delta %q shown although p=%v (err %v) is not below alpha=%v", unit, r.Benchmark, r.Delta, p, terr, alpha)
	}
	if !shown && wantShown {
		return kit.Failf("delta-hidden-significant", "unit %s %q: '~' although p=%v < alpha=%v", unit, r.Benchmark, p, alpha)
	}
	if !shown {
		if r.PctDelta != 0 || r.Change != 0 {
			return kit.Failf("delta-hidden-flagged", "unit %s %q: '~' but PctDelta=%v Change=%d", unit, r.Benchmark, r.PctDelta, r.Change)
		}
		if terr != nil {
			kit.Count("C17 rows '~' with a reason", 1)
			if !strings.Contains(r.Note, terr.Error()) {
				return kit.Failf("note-reason", "unit %s %q: note %q does not give the reason %q", unit, r.Benchmark, r.Note, terr.Error())
			}
			return nil
		}
		kit.Count("C17 rows '~' with p and sizes", 1)
		mm := c17NoteRE.FindStringSubmatch(r.Note)
		if mm == nil {
			return kit.Failf("note-shape", "unit %s %q: note %q is not (p=… n=…+…)", unit, r.Benchmark, r.Note)
		}
		pg, err := strconv.ParseFloat(mm[1], 64)
		if err != nil {
			return kit.Failf("note-shape", "unit %s %q: note %q: p does not parse", unit, r.Benchmark, r.Note)
		}
		if !(math.Abs(pg-p) <= 0.0005*(1+1e-9) || (math.IsNaN(pg) && math.IsNaN(p))) {
			return kit.Failf("note-p", "unit %s %q: note %q, p=%v", unit, r.Benchmark, r.Note, p)
		}
		n1, _ := strconv.Atoi(mm[2])
		n2, _ := strconv.Atoi(mm[3])
		if n1 != len(w.ms[0].retained) || n2 != len(w.ms[1].retained) {
			return kit.Failf("note-sizes", "unit %s %q: note %q, retained sizes %d+%d", unit, r.Benchmark, r.Note, len(w.ms[0].retained), len(w.ms[1].retained))
		}
		return nil
	}
	// shown
	kit.Count("C17 rows with a delta shown", 1)
	pct := (newMean/oldMean - 1) * 100
	if newMean == oldMean {
		pct = 0
	}
	tol := 0.0
	if newMean != oldMean {
		tol = 100 * 8 * c17Eps * (math.Abs(newMean/oldMean) + 1)
	}
	switch {
	case math.IsInf(pct, 0):
		if r.PctDelta != pct {
			return kit.Failf("delta-value", "unit %s %q: PctDelta %v, want %v (old %v new %v)", unit, r.Benchmark, r.PctDelta, pct, oldMean, newMean)
		}
	default:
		if !(math.Abs(r.PctDelta-pct) <= tol) {
			return kit.Failf("delta-value", "unit %s %q: PctDelta %v, want (new/old-1)*100 = %v (old %v new %v)", unit, r.Benchmark, r.PctDelta, pct, oldMean, newMean)
		}
	}
	dv, err := strconv.ParseFloat(strings.TrimSuffix(r.Delta, "%"), 64)
	if err != nil {
		return kit.Failf("delta-shape", "unit %s %q: Delta %q does not parse", unit, r.Benchmark, r.Delta)
	}
	if math.IsInf(pct, 0) {
		if dv != pct {
			return kit.Failf("delta-text", "unit %s %q: Delta %q, want %v", unit, r.Benchmark, r.Delta, pct)
		}
	} else if !(math.Abs(dv-pct) <= 0.005*(1+1e-9)+tol) {
		return kit.Failf("delta-text", "unit %s %q: Delta %q, want %v%% to two decimals", unit, r.Benchmark, r.Delta, pct)
	}
	// direction: higher is better only for the MB/s speed metric. Units
	// that merely end in "-MB/s" are not decided by the statement.
	if strings.HasSuffix(unit, "-MB/s") {
		kit.Count("C17 direction not checked (prefixed -MB/s unit)", 1)
		return nil
	}
	wantChange := 0
	switch {
	case newMean == oldMean:
	case (newMean > oldMean) == (unit == "MB/s"):
		wantChange = +1
	default:
		wantChange = -1
	}
	if unit == "MB/s" && wantChange != 0 {
		kit.Count("C17 MB/s rows with a direction", 1)
	}
	if r.Change != wantChange {
		return kit.Failf("direction-wrong", "unit %s %q: Change=%+d, want %+d (old mean %v, new mean %v)", unit, r.Benchmark, r.Change, wantChange, oldMean, newMean)
	}
	return nil
}

func c17CheckGeo(c c17Case, model *c17Model, unit string, want []c17RefRow, geo *benchstat.Row) *kit.Fail {
	if !c.GeoMean {
		return nil
	}
	ncfg := len(c.Configs)
	all := make([][]float64, ncfg)   // non-zero means of every benchmark of the configuration
	shown := make([][]float64, ncfg) // non-zero means of the rows listed in the table
	zeros := 0
	for _, g := range model.groups {
		for _, b := range model.benches[g] {
			for ci := 0; ci < ncfg; ci++ {
				if rm := model.metrics[c17RefKey{ci, g, b, unit}]; rm != nil {
					if rm.mean != 0 {
						all[ci] = append(all[ci], rm.mean)
					} else {
						zeros++
					}
				}
			}
		}
	}
	for _, w := range want {
		for ci, rm := range w.ms {
			if rm != nil && rm.mean != 0 {
				shown[ci] = append(shown[ci], rm.mean)
			}
		}
	}
	maxShown := 0
	for ci := range shown {
		if len(shown[ci]) > maxShown {
			maxShown = len(shown[ci])
		}
	}
	if geo == nil {
		if maxShown > 1 {
			return kit.Failf("geomean-missing", "unit %s: AddGeoMean set, %d non-zero means in a column, but no geomean row", unit, maxShown)
		}
		return nil
	}
	if len(geo.Metrics) != ncfg {
		return kit.Failf("geomean-shape", "unit %s: geomean row has %d columns", unit, len(geo.Metrics))
	}
	kit.Count("C17 geomean rows checked", 1)
	if zeros > 0 {
		kit.Count("C17 geomean rows with zero means in the table", 1)
	}
	for ci := 0; ci < ncfg; ci++ {
		if len(all[ci]) == 0 {
			// No non-zero mean in this configuration: there is nothing whose
			// geometric mean could be shown. How the gap is rendered is not
			// decided by the statement (blank, zero, NaN), but a definite
			// non-zero number is a geometric mean of data that do not exist.
			if m := geo.Metrics[ci]; m != nil && m.Mean != 0 && !math.IsNaN(m.Mean) {
				return kit.Failf("geomean-of-nothing", "unit %s config %d: no non-zero mean in this configuration, but the geomean row shows %v", unit, ci, m.Mean)
			}
			kit.Count("C17 geomean columns without any non-zero mean (must show no number)", 1)
			continue
		}
		got := geo.Metrics[ci].Mean
		ok := c17Close(got, c17GeoMean(all[ci]), 1e-10)
		if !ok && len(shown[ci]) > 0 {
			ok = c17Close(got, c17GeoMean(shown[ci]), 1e-10)
		}
		if !ok {
			return kit.Failf("geomean-wrong", "unit %s config %d: geomean %v, want %v = geometric mean of the non-zero means %v", unit, ci, got, c17GeoMean(all[ci]), all[ci])
		}
	}
	if ncfg == 2 && geo.Delta != "" && geo.Delta != "~" {
		g0, g1 := geo.Metrics[0].Mean, geo.Metrics[1].Mean
		pct := (g1/g0 - 1) * 100
		tol := 100 * 8 * c17Eps * (math.Abs(g1/g0) + 1)
		if !(math.Abs(geo.PctDelta-pct) <= tol) {
			return kit.Failf("geomean-delta", "unit %s: geomean PctDelta %v, want %v", unit, geo.PctDelta, pct)
		}
	}
	return nil
}

// c17CheckFormats checks that what FormatCSV and FormatText print agrees with
// the tables: rows in the same order, means, delta and note cells.
func c17CheckFormats(c c17Case, tables []*benchstat.Table) *kit.Fail {
	ncfg := len(c.Configs)
	var cb bytes.Buffer
	benchstat.FormatCSV(&cb, tables, c.NoRange)
	rd := csv.NewReader(bytes.NewReader(cb.Bytes()))
	rd.FieldsPerRecord = -1
	recs, err := rd.ReadAll()
	if err != nil {
		return kit.Failf("csv-unreadable", "FormatCSV output is not CSV: %v\n%s", err, cb.String())
	}
	step := 2
	if c.NoRange {
		step = 1
	}
	at := func(rec []string, i int) string {
		if i < len(rec) {
			return rec[i]
		}
		return ""
	}
	ri := 0
	for _, t := range tables {
		for _, r := range t.Rows {
			for ri < len(recs) && !(len(recs[ri]) > 0 && recs[ri][0] == r.Benchmark) {
				ri++
			}
			if ri == len(recs) {
				return kit.Failf("csv-row-missing", "FormatCSV: no record for row %q of table %s (in table order)\n%s", r.Benchmark, t.Metric, cb.String())
			}
			rec := recs[ri]
			ri++
			for ci, m := range r.Metrics {
				if m == nil || m.Unit == "" {
					continue
				}
				cell := at(rec, 1+ci*step)
				v, err := strconv.ParseFloat(cell, 64)
				if err != nil || !(math.Abs(v-m.Mean) <= 1e-5*math.Abs(m.Mean)) {
					return kit.Failf("csv-mean", "FormatCSV row %q config %d: cell %q, mean %v", r.Benchmark, ci, cell, m.Mean)
				}
			}
			if ncfg == 2 {
				if d, n := at(rec, 1+2*step), at(rec, 2+2*step); d != r.Delta || n != r.Note {
					return kit.Failf("csv-delta", "FormatCSV row %q: delta/note cells %q %q, table has %q %q", r.Benchmark, d, n, r.Delta, r.Note)
				}
			}
		}
	}
	var tb bytes.Buffer
	benchstat.FormatText(&tb, tables)
	lines := strings.Split(tb.String(), "\n")
	li := 0
	for _, t := range tables {
		for _, r := range t.Rows {
			for li < len(lines) && !(lines[li] == r.Benchmark || strings.HasPrefix(lines[li], r.Benchmark+" ")) {
				li++
			}
			if li == len(lines) {
				return kit.Failf("text-row-missing", "FormatText: no line for row %q of table %s (in table order)\n%s", r.Benchmark, t.Metric, tb.String())
			}
			line := strings.TrimRight(lines[li], " ")
			li++
			if ncfg == 2 && r.Benchmark != c17GeoName {
				rest := line[len(r.Benchmark):]
				if !strings.Contains(rest, " "+r.Delta) {
					return kit.Failf("text-delta", "FormatText line %q lacks delta %q", line, r.Delta)
				}
				if r.Note != "" && !strings.HasSuffix(line, r.Note) {
					return kit.Failf("text-note", "FormatText line %q lacks note %q", line, r.Note)
				}
			}
		}
	}
	return nil
}

func c17NonTrivial(c c17Case) bool {
	m := c17BuildModel(c)
	if m.nearFence || m.undecided {
		return false
	}
	if m.outliers > 0 {
		return true
	}
	for _, u := range m.units {
		rows := m.rows(c, u)
		if len(c.Configs) == 2 && len(rows) > 0 {
			return true
		}
		if c.Order != "" && len(rows) > 1 {
			return true
		}
	}
	return false
}

// ---------------------------------------------------------------------------
// Generator

var c17Units = []string{"ns/op", "B/op", "allocs/op", "MB/s", "MB/s", "ns/GC", "widgets", "x-ns/op", "y-MB/s", "bytes"}
var c17Bases = []string{"Alpha", "Beta", "Gamma", "Delta", "Eps", "Zeta", "Eta", "Theta", "Iota", "Kappa", "Lambda", "Mu", "Nu", "Xi", "Omicron", "Pi", "Rho", "Sigma", "Tau", "Ups", "Phi", "Chi", "Psi", "Omega", "Encode", "Decode", "GobEncode", "JSONDecode", "Aa", "Bb", "Cc", "Dd", "Ee", "Ff", "Gg", "Hh", "Ii", "Jj", "Kk", "Ll"}

type c17Bench struct {
	base  string
	size  string
	procs int
}

func c17Round(v float64, digits int) float64 {
	if v == 0 {
		return 0
	}
	s := strconv.FormatFloat(v, 'e', digits-1, 64)
	f, _ := strconv.ParseFloat(s, 64)
	return f
}

// c17Sample draws n values for one (benchmark, unit, config).
func c17Sample(r *kit.Rand, kind int, base, factor, sd float64, n int) []float64 {
	out := make([]float64, n)
	switch kind {
	case 1: // constant
		v := c17Round(base*factor, 3)
		for i := range out {
			out[i] = v
		}
	case 2: // all zero
	case 3: // small integers with ties
		lo := r.Range(0, 3)
		for i := range out {
			out[i] = float64(lo + r.Intn(3))
			if factor > 1.2 {
				out[i] += 2
			}
		}
	case 4: // some zeros
		for i := range out {
			if r.Chance(0.4) {
				out[i] = c17Round(base*factor*(1+sd*r.NormFloat64()), 4)
				if out[i] < 0 {
					out[i] = 0
				}
			}
		}
	default:
		digits := 17
		if r.Chance(0.5) {
			digits = r.Range(2, 5)
		}
		for i := range out {
			out[i] = math.Abs(c17Round(base*factor*(1+sd*r.NormFloat64()), digits))
		}
		if r.Chance(0.35) && n >= 3 { // outliers
			k := 1
			if n >= 6 && r.Bool() {
				k = 2
			}
			for j := 0; j < k; j++ {
				i := r.Intn(n)
				if r.Chance(0.7) {
					out[i] = c17Round(out[i]*(1.2+8*r.Float64()*r.Float64()), 5)
				} else {
					out[i] = c17Round(out[i]*(0.05+0.8*r.Float64()), 5)
				}
			}
		}
	}
	return out
}

func c17Gen(r *kit.Rand, i int) c17Case {
	flavour := i % 8
	var c c17Case
	ncfg := kit.Pick(r, []int{1, 2, 2, 2, 2, 3, 4})
	nb := r.Range(1, 6)
	nunits := r.Range(1, 3)
	c.Test = kit.Pick(r, []string{"nil", "u", "u", "t", "t", "none", "synth", "synth"})
	c.Alpha = kit.F(kit.Pick(r, []float64{0, 0, 0.05, 0.01, 0.1, 0.2, 0.5, 0.001}))
	c.GeoMean = r.Chance(0.4)
	c.Order = kit.Pick(r, []string{"", "", "", "name", "delta", "rname", "rdelta", "len", "rlen"})
	c.SynthSeed = r.Uint64()
	c.NoRange = r.Bool()
	nmin, nmax := 1, 12
	var spaced []map[string]string // label sets with phrase values (flavour 7)
	switch flavour {
	case 4: // many rows, ties under the order
		ncfg = 2
		nb = r.Range(14, 40)
		nunits = 1
		nmin, nmax = 4, 6
		c.Order = kit.Pick(r, []string{"delta", "rdelta", "len", "rlen", "name", "rname"})
		c.Test = kit.Pick(r, []string{"u", "synth", "synth", "t"})
	case 5: // speed
		ncfg = 2
		nmin, nmax = 5, 10
	case 6: // zeros and constants with geomean
		c.GeoMean = true
	case 7: // groups
		c.SplitBy = kit.Pick(r, [][]string{{"goos"}, {"size"}, {"goos", "size"}, {"gomaxprocs"}, {"pkg", "goos"}, {"name"}})
		if c.Order == "" && r.Bool() {
			c.Order = kit.Pick(r, []string{"name", "rname", "len"})
		}
		if r.Chance(0.5) {
			// Two or three split labels whose values are phrases: the same
			// word sequence cut at different places gives different value
			// tuples (= different groups) whose texts, written one after the
			// other, look alike.
			keys := kit.Pick(r, [][]string{{"cpu", "note"}, {"host", "cpu"}, {"cpu", "note", "host"}, {"note", "cpu", "goos"}})
			c.SplitBy = append([]string(nil), keys...)
			if r.Chance(0.25) {
				at := r.Intn(len(c.SplitBy) + 1)
				c.SplitBy = append(c.SplitBy[:at], append([]string{kit.Pick(r, []string{"size", "gomaxprocs"})}, c.SplitBy[at:]...)...)
			}
			vocab := []string{"Xeon", "E5", "v2", "turbo", "Gold", "rev", "B", "2.4GHz", "no", "boost", "rack", "7", "a", "a", "x86-64", "L2=1MiB"}
			nw := len(keys) + r.Range(1, 3)
			words := make([]string, nw)
			for j := range words {
				words[j] = kit.Pick(r, vocab)
			}
			cut := func(ws []string) map[string]string { // random cut into len(keys) non-empty phrases
				pos := r.Perm(len(ws) - 1)[:len(keys)-1]
				sort.Ints(pos)
				m := map[string]string{}
				start := 0
				for j, k := range keys {
					end := len(ws)
					if j < len(pos) {
						end = pos[j] + 1
					}
					m[k] = strings.Join(ws[start:end], " ")
					start = end
				}
				return m
			}
			spaced = nil
			for j := 0; j < 4; j++ {
				spaced = append(spaced, cut(words))
			}
			rev := make([]string, nw)
			for j := range words {
				rev[nw-1-j] = words[j]
			}
			spaced = append(spaced, cut(rev))
			one := cut(words)
			delete(one, keys[r.Intn(len(keys))])
			spaced = append(spaced, one, map[string]string{})
			if r.Bool() {
				for _, m := range spaced {
					m["pkg"] = "p/q"
				}
			}
		}
	}
	if r.Chance(0.08) {
		nmax = 30
	}
	// units
	units := []string{}
	for len(units) < nunits {
		u := kit.Pick(r, c17Units)
		if flavour == 5 && len(units) == 0 {
			u = "MB/s"
		}
		dup := false
		for _, x := range units {
			dup = dup || x == u
		}
		if !dup {
			units = append(units, u)
		}
	}
	// benchmarks
	perm := r.Perm(len(c17Bases))
	var benches []c17Bench
	for len(benches) < nb {
		b := c17Bench{base: c17Bases[perm[len(benches)%len(perm)]]}
		if len(benches) >= len(perm) || flavour == 7 || r.Chance(0.25) {
			b.size = kit.Pick(r, []string{"", "1", "10", "100", "4k"})
			if len(benches) >= len(perm) {
				b.size = "z" + strconv.Itoa(len(benches))
			}
		}
		if r.Chance(0.3) {
			b.procs = kit.Pick(r, []int{1, 4, 8, 16})
		}
		benches = append(benches, b)
	}
	// distribution parameters per (benchmark, unit)
	type dist struct {
		kind     int
		base, sd float64
		factors  []float64
	}
	dists := map[[2]int]dist{}
	for bi := range benches {
		for ui := range units {
			d := dist{base: r.LogUniform(-1, 9), sd: kit.Pick(r, []float64{0.001, 0.01, 0.03, 0.1, 0.3})}
			k := r.Intn(20)
			switch {
			case k < 2:
				d.kind = 1
			case k < 3 || (flavour == 6 && k < 7):
				d.kind = 2
			case k < 5:
				d.kind = 3
			case k < 6 || (flavour == 6 && k < 10):
				d.kind = 4
			}
			for ci := 0; ci < ncfg; ci++ {
				d.factors = append(d.factors, kit.Pick(r, []float64{1, 1, 1, 1.0001, 1.02, 1.1, 1.5, 2, 0.9, 0.5, 0.98}))
			}
			dists[[2]int{bi, ui}] = d
		}
	}
	labelsPool := []map[string]string{
		{}, {"goos": "linux"}, {"goos": "darwin"}, {"goos": "linux", "pkg": "p/q"}, {"pkg": "p/r", "goarch": "amd64"},
	}
	if spaced != nil {
		labelsPool = spaced
	}
	for ci := 0; ci < ncfg; ci++ {
		cf := c17Config{Name: kit.Pick(r, []string{"old", "new", "base", "tip", "dir/a", "dir/b"}) + strconv.Itoa(ci), Text: r.Bool()}
		type run struct {
			bi, k int
		}
		var runs []run
		for bi := range benches {
			if nb > 1 && r.Chance(0.12) {
				continue // benchmark missing from this configuration
			}
			n := r.Range(nmin, nmax)
			for k := 0; k < n; k++ {
				runs = append(runs, run{bi, k})
			}
		}
		switch r.Intn(3) {
		case 0: // round robin
			sort.SliceStable(runs, func(a, b int) bool { return runs[a].k < runs[b].k })
		case 1:
			kit.Shuffle(r, runs)
		}
		if ci > 0 && r.Chance(0.3) { // another benchmark order in later configs
			rev := make([]run, len(runs))
			for j := range runs {
				rev[len(runs)-1-j] = runs[j]
			}
			runs = rev
		}
		// values per (benchmark, unit) for this config
		counts := map[int]int{}
		for _, ru := range runs {
			counts[ru.bi]++
		}
		vals := map[[2]int][]float64{}
		var bis []int
		for bi := range counts {
			bis = append(bis, bi)
		}
		sort.Ints(bis) // map order must not steer the random stream
		for _, bi := range bis {
			n := counts[bi]
			for ui := range units {
				d := dists[[2]int{bi, ui}]
				vals[[2]int{bi, ui}] = c17Sample(r, d.kind, d.base, d.factors[ci], d.sd, n)
			}
		}
		lab := kit.Pick(r, labelsPool)
		seen := map[int]int{}
		for _, ru := range runs {
			if flavour == 7 && r.Chance(0.2) || r.Chance(0.03) {
				lab = kit.Pick(r, labelsPool)
			}
			b := benches[ru.bi]
			l := c17Line{Base: b.base, Size: b.size, Procs: b.procs, Labels: map[string]string{}}
			for k, v := range lab {
				l.Labels[k] = v
			}
			j := seen[ru.bi]
			seen[ru.bi]++
			for ui, u := range units {
				if ui > 0 && r.Chance(0.1) {
					continue // this run lacks the unit
				}
				l.Meas = append(l.Meas, c17Meas{V: kit.F(vals[[2]int{ru.bi, ui}][j]), U: u})
			}
			if len(l.Meas) == 0 {
				continue
			}
			cf.Lines = append(cf.Lines, l)
		}
		c.Configs = append(c.Configs, cf)
	}
	// NaN and infinite measurements (Go prints NaN for a 0/0 custom metric):
	// they are never within the fences, so they must be dropped like any
	// outlier. Only in samples of >= 7 values (>= 11 for two of them), so that
	// the quartiles are read off finite values, and ONLY in collections whose
	// delta test is the t test, none or the caller-supplied one: a change that
	// lets a NaN through to the U test makes internal/stats loop forever.
	if (c.Test == "t" || c.Test == "none" || c.Test == "synth") && r.Chance(0.3) {
		type pos struct{ ci, li, mi int }
		byKey := map[c17RefKey][]pos{}
		var order []c17RefKey
		for ci, cf := range c.Configs {
			for li, l := range cf.Lines {
				for mi, ms := range l.Meas {
					k := c17RefKey{ci, c17GroupID(c, l), l.name(), ms.U}
					if byKey[k] == nil {
						order = append(order, k)
					}
					byKey[k] = append(byKey[k], pos{ci, li, mi})
				}
			}
		}
		for _, k := range order {
			ps := byKey[k]
			if len(ps) < 7 || !r.Chance(0.5) {
				continue
			}
			cnt := 1
			if len(ps) >= 11 && r.Chance(0.3) {
				cnt = 2
			}
			for _, j := range r.Perm(len(ps))[:cnt] {
				q := ps[j]
				c.Configs[q.ci].Lines[q.li].Meas[q.mi].V = kit.F(kit.Pick(r, []float64{math.NaN(), math.NaN(), math.NaN(), math.Inf(1), math.Inf(-1)}))
			}
		}
	}
	// alpha exactly equal to the p-value of one comparable row
	if ncfg == 2 && (c.Test == "u" || c.Test == "t" || c.Test == "nil") && r.Chance(0.25) {
		m := c17BuildModel(c)
		_, ref := c17Test(c)
		var ps []float64
		for _, u := range m.units {
			for _, w := range m.rows(c, u) {
				if p, err := ref(w.ms[0].metrics(u), w.ms[1].metrics(u)); err == nil && p > 0 && p < 1 {
					ps = append(ps, p)
				}
			}
		}
		if len(ps) > 0 {
			c.Alpha = kit.F(kit.Pick(r, ps))
		}
	}
	return c
}

func TestVerifC17(t *testing.T) {
	kit.Run(t, "C17", kit.Class[c17Case]{
		Name: "collections", Quick: 12000, Thorough: 300000,
		Gen: c17Gen, Check: c17Check, NonTrivial: c17NonTrivial, MinNonTrivial: 8000,
		Rule: "generated legacy collections: 1-4 configurations (half of them two), 1-40 benchmarks with size/procs name parts, repeated and missing benchmarks, 1-3 units incl. MB/s, samples of 1-30 values (noise, outliers, constants, zeros, tied small integers; in collections not using the U test also a NaN/+Inf/-Inf measurement in samples of >= 7), file labels and SplitBy (incl. 2-4 split labels whose values are phrases with spaces, cut from one word sequence at different places), delta test nil/U/t/none/caller-supplied, alpha incl. exactly the p of a row, order none/name/delta/len and reversed, geomean on/off, fed as text (AddConfig) or results (AddResults). Non-trivial = no value within 1e-9 of a fence and (an outlier was removed, or two configurations share a row, or a sort order applies to >=2 rows)",
	})
}
