//go:build verif

package benchseries_test

// C18: comparison series depend only on the result set; bootstrap summaries
// are sane; date normalisation identifies instants and sorts chronologically.
//
// Three classes:
//   builder   – one result set fed to fresh Builders in 6-20 insertion orders
//               (results shuffled, files shuffled, fed directly or through the
//               benchmark text reader); everything observable is serialised and
//               compared across orders (relational oracle) and the first build
//               is compared with a set-level reference that groups the
//               measurements by (unit, table keys, benchmark, series, role)
//               and applies latest-experiment-wins / concatenation.
//   bootstrap – one point with given numerator/denominator samples, confidence
//               in (0,1), 1-2000 resamples: reproducible, low<=centre<=high,
//               within the attainable ratio range for positive data.
//   dates     – two spellings of one instant and one spelling of another.

import (
	"fmt"
	"math"
	"sort"
	"strconv"
	"strings"
	"testing"
	"time"

	"golang.org/x/perf/benchfmt"
	"golang.org/x/perf/benchseries"
	kit "golang.org/x/perf/internal/verifkit"
)

// ---------------------------------------------------------------------------
// Feeding results

type c18Val struct {
	V kit.F
	U string
}

type c18Res struct {
	File  int
	Bench string
	Table []string // value per table key; "" = key absent
	Exp   string   // experiment stamp as spelled in the input
	Stamp string   // series stamp as spelled in the input
	Role  string   // "exp" numerator, "base" denominator, anything else ignored, "" absent
	NHash string
	DHash string
	Extra string // a key nobody asked for (residue)
	Vals  []c18Val
}

const (
	c18KExp   = "runstamp"
	c18KStamp = "stamp"
	c18KRole  = "role"
	c18KNHash = "nhash"
	c18KDHash = "dhash"
	c18KExtra = "note"
)

func c18Options(tableKeys []string) *benchseries.BuilderOptions {
	return &benchseries.BuilderOptions{
		Filter:          ".unit:/.*/",
		Series:          c18KStamp,
		Table:           strings.Join(tableKeys, ","),
		Experiment:      c18KExp,
		Compare:         c18KRole,
		Numerator:       "exp",
		Denominator:     "base",
		NumeratorHash:   c18KNHash,
		DenominatorHash: c18KDHash,
		Ignore:          "",
		Warn:            func(string, ...interface{}) {},
	}
}

func (r c18Res) config(tableKeys []string) [][2]string {
	var out [][2]string
	add := func(k, v string) {
		if v != "" {
			out = append(out, [2]string{k, v})
		}
	}
	for i, k := range tableKeys {
		if i < len(r.Table) {
			add(k, r.Table[i])
		}
	}
	add(c18KExp, r.Exp)
	add(c18KStamp, r.Stamp)
	add(c18KRole, r.Role)
	add(c18KNHash, r.NHash)
	add(c18KDHash, r.DHash)
	add(c18KExtra, r.Extra)
	return out
}

func (r c18Res) result(tableKeys []string) *benchfmt.Result {
	res := &benchfmt.Result{Name: benchfmt.Name(r.Bench), Iters: 1}
	for _, kv := range r.config(tableKeys) {
		res.Config = append(res.Config, benchfmt.Config{Key: kv[0], Value: []byte(kv[1]), File: true})
	}
	for _, v := range r.Vals {
		res.Values = append(res.Values, benchfmt.Value{Value: float64(v.V), Unit: v.U})
	}
	return res
}

// c18Text renders results as one benchmark file; keys absent from a result
// are deleted before its line.
func c18Text(rs []c18Res, tableKeys []string) string {
	var sb strings.Builder
	cur := map[string]string{}
	for _, r := range rs {
		want := map[string]string{}
		var order []string
		for _, kv := range r.config(tableKeys) {
			want[kv[0]] = kv[1]
			order = append(order, kv[0])
		}
		var del []string
		for k := range cur {
			if _, ok := want[k]; !ok {
				del = append(del, k)
			}
		}
		sort.Strings(del)
		for _, k := range del {
			sb.WriteString(k + ":\n")
			delete(cur, k)
		}
		for _, k := range order {
			if cur[k] != want[k] {
				sb.WriteString(k + ": " + want[k] + "\n")
				cur[k] = want[k]
			}
		}
		sb.WriteString("Benchmark" + r.Bench + " 1")
		for _, v := range r.Vals {
			sb.WriteString(" " + strconv.FormatFloat(float64(v.V), 'g', -1, 64) + " " + v.U)
		}
		sb.WriteString("\n")
	}
	return sb.String()
}

// c18Feed adds the results, in the given order, to a fresh builder. With
// text set, maximal runs of results of the same file are rendered as one
// benchmark file each and read back through benchfmt.Reader, as AddFiles does.
func c18Feed(b *benchseries.Builder, rs []c18Res, tableKeys []string, text bool) *kit.Fail {
	if !text {
		for _, r := range rs {
			b.Add(r.result(tableKeys))
		}
		return nil
	}
	for i := 0; i < len(rs); {
		j := i
		for j < len(rs) && rs[j].File == rs[i].File {
			j++
		}
		rd := benchfmt.NewReader(strings.NewReader(c18Text(rs[i:j], tableKeys)), "f"+strconv.Itoa(rs[i].File))
		n := 0
		for rd.Scan() {
			switch rec := rd.Result().(type) {
			case *benchfmt.Result:
				b.Add(rec)
				n++
			case *benchfmt.SyntaxError:
				return kit.Failf("monitor-text-unreadable", "generated text not readable: %v", rec)
			}
		}
		if rd.Err() != nil || n != j-i {
			return kit.Failf("monitor-text-unreadable", "generated text gave %d results for %d (%v)", n, j-i, rd.Err())
		}
		i = j
	}
	return nil
}

// ---------------------------------------------------------------------------
// Observation

type c18Point struct {
	Unit, Bench, Series string
	Date                string
	Num, Den            []float64 // sorted copies; nil = no cell
	HasSum              bool
	Present             bool
	Low, Center, High   float64
	SumDate             string
}

type c18Obs struct {
	lines  []string // canonical serialisation, compared across orders
	mixed  []bool   // lines[i] is the hash pair of a series some of whose trials lack a baseline
	series []*benchseries.ComparisonSeries
	points []c18Point
}

func c18Floats(xs []float64) string {
	var sb strings.Builder
	for i, x := range xs {
		if i > 0 {
			sb.WriteByte(',')
		}
		sb.WriteString(strconv.FormatUint(math.Float64bits(x), 16))
	}
	return sb.String()
}

func c18Sorted(c *benchseries.Cell) []float64 {
	if c == nil {
		return nil
	}
	s := append([]float64{}, c.Values...)
	sort.Float64s(s)
	return s
}

func c18Observe(c c18Case, rs []c18Res, mixed map[string]bool) (*c18Obs, *kit.Fail) {
	return c18ObserveSplit(c, rs, mixed, -1)
}

// c18ObserveSplit: with split >= 0 the series are first built (and
// summarised) from rs[:split] alone, then the remaining results are added to
// the SAME builder and the series built again; the second build is observed.
func c18ObserveSplit(c c18Case, rs []c18Res, mixed map[string]bool, split int) (*c18Obs, *kit.Fail) {
	opts := c18Options(c.TableKeys)
	if c.filter != "" {
		opts.Filter = c.filter
	}
	b, err := benchseries.NewBuilder(opts)
	if err != nil {
		return nil, kit.Failf("monitor-builder", "NewBuilder: %v", err)
	}
	policy := benchseries.DUPE_REPLACE
	if c.Policy == 1 {
		policy = benchseries.DUPE_COMBINE
	}
	if split >= 0 && split <= len(rs) {
		if f := c18Feed(b, rs[:split], c.TableKeys, c.Text); f != nil {
			return nil, f
		}
		// The first instalment is not the case's result set (it may lack
		// baselines the whole set has, which combining does not tolerate), so
		// the early build itself is not judged, only survived.
		func() {
			defer func() {
				if recover() != nil {
					kit.Count("C18 early builds of an incomplete instalment that panicked (not judged)", 1)
				}
			}()
			if early, err := b.AllComparisonSeries(nil, policy); err == nil {
				for _, cs := range early {
					if cs != nil {
						cs.AddSummaries(float64(c.Conf), c.N)
					}
				}
			}
		}()
		rs = rs[split:]
	}
	if f := c18Feed(b, rs, c.TableKeys, c.Text); f != nil {
		return nil, f
	}
	css, err := b.AllComparisonSeries(nil, policy)
	if err != nil {
		return nil, kit.Failf("series-error", "AllComparisonSeries: %v", err)
	}
	o := &c18Obs{series: css}
	add := func(format string, args ...any) {
		o.lines = append(o.lines, fmt.Sprintf(format, args...))
		o.mixed = append(o.mixed, false)
	}
	for ti, cs := range css {
		if cs == nil {
			return nil, kit.Failf("series-nil", "nil comparison series")
		}
		cs.AddSummaries(float64(c.Conf), c.N)
		add("table %d unit=%q", ti, cs.Unit)
		add(" benchmarks=%q", cs.Benchmarks)
		add(" series=%q", cs.Series)
		var hk []string
		for k := range cs.HashPairs {
			hk = append(hk, k)
		}
		sort.Strings(hk)
		for _, k := range hk {
			add(" hashpair %q = %q/%q", k, cs.HashPairs[k].NumHash, cs.HashPairs[k].DenHash)
			o.mixed[len(o.mixed)-1] = mixed[c18UnitID(cs.Unit)+"\x00"+k]
		}
		for _, r := range cs.Residues {
			add(" residue %q = %q", r.S, r.Slice)
		}
		if len(cs.Summaries) != len(cs.Series) {
			return nil, kit.Failf("summaries-shape", "unit %q: %d summary rows for %d series", cs.Unit, len(cs.Summaries), len(cs.Series))
		}
		for si, s := range cs.Series {
			if len(cs.Summaries[si]) != len(cs.Benchmarks) {
				return nil, kit.Failf("summaries-shape", "unit %q series %q: %d summaries for %d benchmarks", cs.Unit, s, len(cs.Summaries[si]), len(cs.Benchmarks))
			}
			for bi, bn := range cs.Benchmarks {
				p := c18Point{Unit: cs.Unit, Bench: bn, Series: s}
				cc, ok := cs.ComparisonAt(bn, s)
				sum := cs.Summaries[si][bi]
				if sum != nil && (sum.Present || ok) {
					p.HasSum, p.Present = true, sum.Present
					p.Low, p.Center, p.High, p.SumDate = sum.Low, sum.Center, sum.High, sum.Date
				}
				if !ok || cc == nil {
					if p.Present {
						return nil, kit.Failf("summary-without-point", "unit %q %q@%q: summary present without a comparison", cs.Unit, bn, s)
					}
					continue
				}
				p.Date = cc.Date
				p.Num, p.Den = c18Sorted(cc.Numerator), c18Sorted(cc.Denominator)
				add(" point %q @ %q date=%q num=[%s] den=[%s] dennil=%v", bn, s, p.Date, c18Floats(p.Num), c18Floats(p.Den), cc.Denominator == nil)
				add(" summary %q @ %q present=%v low=%x centre=%x high=%x date=%q", bn, s, p.Present, math.Float64bits(p.Low), math.Float64bits(p.Center), math.Float64bits(p.High), p.SumDate)
				o.points = append(o.points, p)
			}
		}
	}
	return o, nil
}

func c18Diff(a, b []string) string {
	n := len(a)
	if len(b) < n {
		n = len(b)
	}
	for i := 0; i < n; i++ {
		if a[i] != b[i] {
			return fmt.Sprintf("line %d:\n  first : %s\n  other : %s", i, a[i], b[i])
		}
	}
	if len(a) != len(b) {
		return fmt.Sprintf("%d lines vs %d lines", len(a), len(b))
	}
	return ""
}

// c18Unmasked returns the serialisation without the hash-pair lines of series
// with mixed baseline presence.
func c18Unmasked(o *c18Obs) []string {
	var out []string
	for i, l := range o.lines {
		if !o.mixed[i] {
			out = append(out, l)
		}
	}
	return out
}

// c18DiffKind names the first differing component (for the signature).
func c18DiffKind(a, b []string) string {
	n := len(a)
	if len(b) < n {
		n = len(b)
	}
	for i := 0; i < n; i++ {
		if a[i] != b[i] {
			f := strings.Fields(a[i])
			if len(f) > 0 {
				if i := strings.IndexByte(f[0], '='); i >= 0 {
					return f[0][:i]
				}
				return f[0]
			}
		}
	}
	return "shape"
}

// ---------------------------------------------------------------------------
// Summary sanity (shared by builder and bootstrap classes)

const c18Eps = 2.220446049250313e-16

// c18CheckSummary checks low <= centre <= high and the attainable range.
// The percentile is a rounded convex combination of two neighbouring ratios
// (two products and a sum: relative error <= 3 eps of the larger magnitude),
// the centre a rounded mean of two; 8 eps of the largest magnitude covers both
// sides with slack.
func c18CheckSummary(p c18Point, conf float64, n int) *kit.Fail {
	if !p.Present {
		return nil
	}
	where := fmt.Sprintf("unit %q %q@%q conf=%v N=%d num=%v den=%v", p.Unit, p.Bench, p.Series, conf, n, p.Num, p.Den)
	if math.IsNaN(p.Low) || math.IsNaN(p.Center) || math.IsNaN(p.High) {
		return kit.Failf("summary-nan", "%s: low=%v centre=%v high=%v", where, p.Low, p.Center, p.High)
	}
	mag := math.Max(math.Abs(p.Low), math.Max(math.Abs(p.Center), math.Abs(p.High)))
	tol := 8 * c18Eps * mag
	lowOK := p.Low <= p.Center+tol
	highOK := p.Center <= p.High+tol
	lhOK := p.Low <= p.High+tol
	if p.Low > p.Center || p.Center > p.High {
		if lowOK && highOK {
			kit.Count("C18 summaries ordered only within rounding tolerance", 1)
		}
	}
	positive := len(p.Num) > 0 && len(p.Den) > 0 && p.Num[0] > 0 && p.Den[0] > 0
	var rangeFail *kit.Fail
	if positive {
		lo := p.Num[0] / p.Den[len(p.Den)-1]
		hi := p.Num[len(p.Num)-1] / p.Den[0]
		rt := 8 * c18Eps * hi
		for _, v := range []float64{p.Low, p.Center, p.High} {
			if !(lo-rt <= v && v <= hi+rt) {
				rangeFail = kit.Failf("summary-out-of-range", "%s: low=%v centre=%v high=%v outside attainable ratios [%v, %v]", where, p.Low, p.Center, p.High, lo, hi)
			}
		}
		kit.Count("C18 summaries checked against the attainable range", 1)
	}
	if rangeFail != nil {
		return rangeFail
	}
	if !highOK || !lhOK {
		return kit.Failf("summary-order", "%s: low=%v centre=%v high=%v violates centre <= high / low <= high", where, p.Low, p.Center, p.High)
	}
	if !lowOK {
		// Known root cause: the lower percentile is read at sorted position
		// N*(1-c)/2 (interpolating), the centre is the median at position
		// (N-1)/2; the first lies to the right of the second iff c*N < 1.
		if conf*float64(n) < 1 {
			return kit.Failf("bootstrap-low-confidence", "%s: low=%v > centre=%v (high=%v); confidence*N = %v < 1", where, p.Low, p.Center, p.High, conf*float64(n))
		}
		return kit.Failf("summary-order", "%s: low=%v > centre=%v (high=%v) with confidence*N = %v >= 1", where, p.Low, p.Center, p.High, conf*float64(n))
	}
	kit.Count("C18 summaries with low<=centre<=high", 1)
	return nil
}

// ---------------------------------------------------------------------------
// Instants (reference side: the standard library's parser for the RFC 3339
// spelling, digit arithmetic for the unpunctuated one)

func c18Instant(s string) (time.Time, bool) {
	if len(s) == 15 && s[8] == 'T' && !strings.ContainsAny(s, "-:.+Z") {
		num := func(a, b int) int { n, _ := strconv.Atoi(s[a:b]); return n }
		return time.Date(num(0, 4), time.Month(num(4, 6)), num(6, 8), num(9, 11), num(11, 13), num(13, 15), 0, time.UTC), true
	}
	t, err := time.Parse(time.RFC3339Nano, s)
	return t, err == nil
}

// ---------------------------------------------------------------------------
// Class builder

type c18Case struct {
	TableKeys []string
	Results   []c18Res
	Policy    int // 0 replace, 1 combine
	Orders    int
	OrderSeed uint64
	Text      bool
	Conf      kit.F
	N         int

	filter string // builder filter for this observation ("" = the catch-all .unit:/.*/); set by the check, not generated
}

func (c c18Case) order(k int) []c18Res {
	rs := append([]c18Res(nil), c.Results...)
	if k == 0 {
		return rs
	}
	r := kit.NewRand(c.OrderSeed, "c18-order", uint64(k))
	switch k % 4 {
	case 1: // files shuffled, results inside a file in their order
		files := map[int][]c18Res{}
		var ids []int
		for _, x := range rs {
			if _, ok := files[x.File]; !ok {
				ids = append(ids, x.File)
			}
			files[x.File] = append(files[x.File], x)
		}
		kit.Shuffle(r, ids)
		rs = rs[:0]
		for _, id := range ids {
			rs = append(rs, files[id]...)
		}
	case 2: // reversed
		for i, j := 0, len(rs)-1; i < j; i, j = i+1, j-1 {
			rs[i], rs[j] = rs[j], rs[i]
		}
	default: // results shuffled
		kit.Shuffle(r, rs)
	}
	return rs
}

type c18RefKey struct {
	table string // unit + "\x00" + table values
	bench string
	nhash string
}

type c18RefTrial struct {
	table, bench, exp string
}

func c18TableID(unit string, tab []string, nkeys int) string {
	var vals []string
	for i := 0; i < nkeys; i++ {
		if i < len(tab) && tab[i] != "" {
			vals = append(vals, tab[i])
		}
	}
	sort.Strings(vals)
	return unit + "\x00" + strings.Join(vals, "\x00")
}

func c18UnitID(csUnit string) string {
	f := strings.Fields(csUnit)
	if len(f) == 0 {
		return ""
	}
	rest := append([]string(nil), f[1:]...)
	sort.Strings(rest)
	return f[0] + "\x00" + strings.Join(rest, "\x00")
}

type c18RefPoint struct {
	num, den []float64
	date     string
	nhash    string
	dhashes  map[string]bool // baseline hash of each trial holding numerators of this point ("" = no baseline)
	stamp    string
	nexp     int
}

// c18Reference computes, from the result set alone, the expected points:
// table -> benchmark -> series label -> point.
func c18Reference(c c18Case) (map[string]map[string]map[string]*c18RefPoint, *kit.Fail) {
	nums := map[c18RefKey]map[string][]float64{} // -> exp -> values
	dens := map[c18RefTrial][]float64{}
	denHash := map[c18RefTrial]string{}
	stampOf := map[string]string{}
	for _, r := range c.Results {
		for _, v := range r.Vals {
			tid := c18TableID(v.U, r.Table, len(c.TableKeys))
			switch r.Role {
			case "exp":
				k := c18RefKey{tid, r.Bench, r.NHash}
				if nums[k] == nil {
					nums[k] = map[string][]float64{}
				}
				nums[k][r.Exp] = append(nums[k][r.Exp], float64(v.V))
				stampOf[r.NHash] = r.Stamp
			case "base":
				tk := c18RefTrial{tid, r.Bench, r.Exp}
				dens[tk] = append(dens[tk], float64(v.V))
				denHash[tk] = r.DHash
			}
		}
	}
	out := map[string]map[string]map[string]*c18RefPoint{}
	for k, byExp := range nums {
		label, err := benchseries.NormalizeDateString(stampOf[k.nhash])
		if err != nil {
			return nil, kit.Failf("date-rejected", "NormalizeDateString(%q): %v", stampOf[k.nhash], err)
		}
		var exps []string
		for e := range byExp {
			exps = append(exps, e)
		}
		// chronological order of the experiments of this point
		var bad *kit.Fail
		sort.Slice(exps, func(i, j int) bool {
			ti, ok1 := c18Instant(exps[i])
			tj, ok2 := c18Instant(exps[j])
			if !ok1 || !ok2 {
				bad = kit.Failf("monitor-date", "cannot parse %q / %q", exps[i], exps[j])
			}
			return ti.Before(tj)
		})
		if bad != nil {
			return nil, bad
		}
		p := &c18RefPoint{nhash: k.nhash, stamp: stampOf[k.nhash], nexp: len(exps)}
		latest := exps[len(exps)-1]
		p.date, err = benchseries.NormalizeDateString(latest)
		if err != nil {
			return nil, kit.Failf("date-rejected", "NormalizeDateString(%q): %v", latest, err)
		}
		p.dhashes = map[string]bool{}
		for _, e := range exps {
			p.dhashes[denHash[c18RefTrial{k.table, k.bench, e}]] = true
		}
		if c.Policy == 0 {
			p.num = append(p.num, byExp[latest]...)
			p.den = append(p.den, dens[c18RefTrial{k.table, k.bench, latest}]...)
		} else {
			for _, e := range exps {
				p.num = append(p.num, byExp[e]...)
				p.den = append(p.den, dens[c18RefTrial{k.table, k.bench, e}]...)
			}
		}
		sort.Float64s(p.num)
		sort.Float64s(p.den)
		if out[k.table] == nil {
			out[k.table] = map[string]map[string]*c18RefPoint{}
		}
		if out[k.table][k.bench] == nil {
			out[k.table][k.bench] = map[string]*c18RefPoint{}
		}
		if out[k.table][k.bench][label] != nil {
			return nil, kit.Failf("monitor-domain", "two numerator hashes share the series label %q", label)
		}
		out[k.table][k.bench][label] = p
	}
	return out, nil
}

func c18SameFloats(a, b []float64) bool {
	if len(a) != len(b) {
		return false
	}
	for i := range a {
		if math.Float64bits(a[i]) != math.Float64bits(b[i]) {
			return false
		}
	}
	return true
}

func c18CheckBuilder(c c18Case) *kit.Fail {
	// --- set-level reference ------------------------------------------------
	ref, f := c18Reference(c)
	if f != nil {
		return f
	}
	// Acceptable denominator hashes per (table, series label): the baseline
	// hashes of the trials that hold numerator measurements of that series.
	// "mixed" = some of those trials have a baseline and some have none.
	dhashes := map[string]map[string]bool{}
	for tid, byB := range ref {
		for _, byS := range byB {
			for label, p := range byS {
				k := tid + "\x00" + label
				if dhashes[k] == nil {
					dhashes[k] = map[string]bool{}
				}
				for h := range p.dhashes {
					dhashes[k][h] = true
				}
			}
		}
	}
	mixed := map[string]bool{}
	for k, set := range dhashes {
		if set[""] && len(set) > 1 {
			mixed[k] = true
		}
	}
	first, f := c18Observe(c, c.order(0), mixed)
	if f != nil {
		return f
	}
	seenTables := map[string]bool{}
	for _, cs := range first.series {
		id := c18UnitID(cs.Unit)
		if seenTables[id] {
			return kit.Failf("table-duplicate", "two comparison series for %q", cs.Unit)
		}
		seenTables[id] = true
		want := ref[id]
		// benchmarks listed once
		seenB := map[string]bool{}
		for _, b := range cs.Benchmarks {
			if seenB[b] {
				return kit.Failf("benchmark-duplicate", "unit %q: benchmark %q listed twice", cs.Unit, b)
			}
			seenB[b] = true
		}
		seenS := map[string]bool{}
		for _, s := range cs.Series {
			if seenS[s] {
				return kit.Failf("series-duplicate", "unit %q: series %q listed twice", cs.Unit, s)
			}
			seenS[s] = true
		}
		wantSeries := map[string]*c18RefPoint{}
		for b, bySer := range want {
			if !seenB[b] {
				return kit.Failf("benchmark-missing", "unit %q: benchmark %q has numerator measurements but is not listed (%q)", cs.Unit, b, cs.Benchmarks)
			}
			for s, p := range bySer {
				wantSeries[s] = p
				if !seenS[s] {
					return kit.Failf("series-missing", "unit %q: series point %q (hash %s) is not listed (%q)", cs.Unit, s, p.nhash, cs.Series)
				}
			}
		}
		for _, s := range cs.Series {
			p := wantSeries[s]
			if p == nil {
				return kit.Failf("series-extra", "unit %q: series point %q matches no numerator measurement", cs.Unit, s)
			}
			hp, ok := cs.HashPairs[s]
			if !ok || hp.NumHash != p.nhash || !dhashes[id+"\x00"+s][hp.DenHash] {
				return kit.Failf("hashpair-wrong", "unit %q series %q: hash pair %+v (present %v), want numerator %s and a denominator hash of %v", cs.Unit, s, hp, ok, p.nhash, dhashes[id+"\x00"+s])
			}
		}
		if len(cs.HashPairs) != len(wantSeries) {
			return kit.Failf("hashpair-extra", "unit %q: %d hash pairs for %d series points", cs.Unit, len(cs.HashPairs), len(wantSeries))
		}
	}
	for id := range ref {
		if !seenTables[id] {
			return kit.Failf("table-missing", "no comparison series for table %q", strings.ReplaceAll(id, "\x00", " "))
		}
	}
	npoints := 0
	for _, p := range first.points {
		w := ref[c18UnitID(p.Unit)][p.Bench][p.Series]
		if w == nil {
			return kit.Failf("point-extra", "unit %q: point %q@%q matches no numerator measurement", p.Unit, p.Bench, p.Series)
		}
		npoints++
		if !c18SameFloats(p.Num, w.num) {
			sig := "numerator-wrong"
			if w.nexp > 1 {
				sig = "numerator-wrong-duplicates"
			}
			return kit.Failf(sig, "unit %q point %q@%q policy %d: numerator %v, want the matching measurements %v (%d experiments)", p.Unit, p.Bench, p.Series, c.Policy, p.Num, w.num, w.nexp)
		}
		if !c18SameFloats(p.Den, w.den) {
			sig := "denominator-wrong"
			if w.nexp > 1 {
				sig = "denominator-wrong-duplicates"
			}
			return kit.Failf(sig, "unit %q point %q@%q policy %d: denominator %v, want the matching measurements %v (%d experiments)", p.Unit, p.Bench, p.Series, c.Policy, p.Den, w.den, w.nexp)
		}
		if p.Date != w.date {
			return kit.Failf("point-date", "unit %q point %q@%q: date %q, want the latest experiment %q", p.Unit, p.Bench, p.Series, p.Date, w.date)
		}
		if w.nexp > 1 {
			kit.Count("C18 points with repeated experiments", 1)
		}
	}
	want := 0
	for _, byB := range ref {
		for _, byS := range byB {
			want += len(byS)
		}
	}
	if npoints != want {
		return kit.Failf("point-missing", "%d points observed, %d expected from the result set", npoints, want)
	}
	kit.Count("C18 points compared with the set-level reference", int64(npoints))

	// --- summaries of the first build ----------------------------------------
	bySamples := map[string]c18Point{}
	for _, p := range first.points {
		if f := c18CheckSummary(p, float64(c.Conf), c.N); f != nil {
			return f
		}
		if p.Present {
			k := c18Floats(p.Num) + "/" + c18Floats(p.Den)
			if q, ok := bySamples[k]; ok && (q.Low != p.Low || q.Center != p.Center || q.High != p.High) {
				return kit.Failf("summary-irreproducible", "same samples num=%v den=%v summarised as %v/%v/%v at %q@%q and %v/%v/%v at %q@%q", p.Num, p.Den, q.Low, q.Center, q.High, q.Bench, q.Series, p.Low, p.Center, p.High, p.Bench, p.Series)
			}
			bySamples[k] = p
		}
	}

	// --- relational: other insertion orders, and the same order again --------
	knownHashpair := ""
	for k := 1; k <= c.Orders; k++ {
		ord := k
		if k == c.Orders {
			ord = 0 // same order once more: reproducibility
		}
		o, f := c18Observe(c, c.order(ord), mixed)
		if f != nil {
			return f
		}
		// Hash-pair lines of series with mixed baseline presence are compared
		// separately (own root cause, own signature); everything else first.
		a, b := c18Unmasked(first), c18Unmasked(o)
		if d := c18Diff(a, b); d != "" {
			kind := c18DiffKind(a, b)
			if ord == 0 {
				return kit.Failf("rebuild-differs-"+kind, "building twice from the same insertion order differs at %s", d)
			}
			if kind == "summary" {
				return kit.Failf("summary-irreproducible", "insertion order %d gives other summaries for the same samples: %s", ord, d)
			}
			return kit.Failf("order-dependence-"+kind, "insertion order %d differs from order 0 at %s", ord, d)
		}
		if d := c18Diff(first.lines, o.lines); d != "" && knownHashpair == "" {
			knownHashpair = fmt.Sprintf("insertion order %d (0 = the same order again) differs from the first build only in the denominator hash of a series some of whose trials have no baseline: %s", ord, d)
		}
	}
	// --- the same set added in two instalments with a build in between ---------
	if knownHashpair == "" && len(c.Results) >= 2 {
		split := 1 + int(c.OrderSeed%uint64(len(c.Results)-1))
		o, f := c18ObserveSplit(c, c.order(0), mixed, split)
		if f != nil {
			return f
		}
		a, b := c18Unmasked(first), c18Unmasked(o)
		if d := c18Diff(a, b); d != "" {
			return kit.Failf("incremental-build-differs-"+c18DiffKind(a, b), "adding the first %d results, building the series, adding the other %d and building again differs from one build over all results at %s", split, len(c.Results)-split, d)
		}
		kit.Count("C18 two-instalment builds compared", 1)
	}
	// --- a unit filter keeps exactly the measurements of the units it names ----
	// The builder's own filter option, naming one unit (or all but one), must
	// give what the catch-all filter gives on results stripped beforehand of
	// every other measurement (results left without any are not added at all).
	if knownHashpair == "" {
		unitSet := map[string]bool{}
		for _, r := range c.Results {
			for _, v := range r.Vals {
				unitSet[v.U] = true
			}
		}
		var units []string
		for u := range unitSet {
			units = append(units, u)
		}
		sort.Strings(units)
		if len(units) >= 2 {
			u := units[int(c.OrderSeed%uint64(len(units)))]
			neg := (c.OrderSeed>>8)&1 == 1
			fc := c
			fc.filter = ".unit:" + strconv.Quote(u)
			if neg {
				fc.filter = "-" + fc.filter
			}
			var kept []c18Res
			for _, r := range c.order(0) {
				r2 := r
				r2.Vals = nil
				for _, v := range r.Vals {
					if (v.U == u) != neg {
						r2.Vals = append(r2.Vals, v)
					}
				}
				if len(r2.Vals) > 0 {
					kept = append(kept, r2)
				}
			}
			fa, f := c18Observe(fc, c.order(0), mixed)
			if f != nil {
				return f
			}
			fb, f := c18Observe(c, kept, mixed)
			if f != nil {
				return f
			}
			a, b := c18Unmasked(fa), c18Unmasked(fb)
			if d := c18Diff(a, b); d != "" {
				return kit.Failf("unit-filter-differs-"+c18DiffKind(a, b), "builder filter %s over all results differs from the catch-all filter over the results stripped of the other measurements at %s", fc.filter, d)
			}
			kit.Count("C18 unit-filtered builds compared with pre-stripped results", 1)
		}
	}
	if knownHashpair != "" {
		return kit.Failf("hashpair-missing-baseline", "%s", knownHashpair)
	}
	kit.Count("C18 insertion orders compared", int64(c.Orders))
	return nil
}

func c18NonTrivialBuilder(c c18Case) bool {
	ref, f := c18Reference(c)
	if f != nil {
		return false
	}
	n, rep := 0, 0
	for _, byB := range ref {
		for _, byS := range byB {
			for _, p := range byS {
				n++
				if p.nexp > 1 {
					rep++
				}
			}
		}
	}
	return n >= 2 && rep >= 1
}

var (
	c18UnitPool  = []string{"sec/op", "B/op", "allocs/op", "widgets", "B/s"}
	c18BenchPool = []string{"Foo", "Bar-8", "Baz/sub=1", "Baz/sub=2-4", "Qux", "Quux/x/y", "Enc"}
	c18Offsets   = []int{0, 0, 60, -60, 330, -480, 840, -720, 345, 1}
)

// c18Spell renders an instant in one of the accepted spellings.
// kind 0: 20060102T150405 (UTC, whole seconds only); 1: RFC 3339 with Z;
// 2: RFC 3339 with a numeric offset; 3: offset and fixed 9 fraction digits;
// 4: offset and millisecond digits when exact.
func c18Spell(t time.Time, kind, offMin int) string {
	t = t.UTC()
	if kind == 0 && t.Nanosecond() != 0 {
		kind = 1
	}
	loc := time.FixedZone("", offMin*60)
	switch kind {
	case 0:
		return t.Format("20060102T150405")
	case 1:
		return t.Format(time.RFC3339Nano)
	case 3:
		return t.In(loc).Format("2006-01-02T15:04:05.000000000Z07:00")
	case 4:
		if t.Nanosecond()%1000000 == 0 {
			return t.In(loc).Format("2006-01-02T15:04:05.000Z07:00")
		}
	}
	if offMin == 0 {
		return t.Format("2006-01-02T15:04:05.999999999") + "+00:00"
	}
	return t.In(loc).Format(time.RFC3339Nano)
}

// c18SpellR renders an instant in a random accepted spelling: half of the
// time one of c18Spell's five kinds, otherwise a free RFC 3339 spelling in
// which every choice the format leaves open is made at random:
//   - the offset: any of c18Offsets; a zero offset written Z, +00:00 or
//     (rarely) -00:00, RFC 3339's "unknown local offset", which is UTC time;
//   - the fraction: any number of digits from the fewest that express the
//     nanoseconds exactly (none for a whole second) up to nine, i.e. with
//     zero, some or all trailing zeros written (.5 .50 .500 .500000000; .0 .000).
//
// The unpunctuated format has exactly one spelling per whole-second instant.
// All of these are accepted by time.Parse(time.RFC3339Nano) (probed; more than
// nine digits and a comma separator are accepted too but not generated).
func c18SpellR(r *kit.Rand, t time.Time) string {
	if r.Bool() {
		return c18Spell(t, r.Intn(5), kit.Pick(r, c18Offsets))
	}
	t = t.UTC()
	if t.Nanosecond() == 0 && r.Chance(0.15) {
		return t.Format("20060102T150405")
	}
	offMin := kit.Pick(r, c18Offsets)
	lt := t.In(time.FixedZone("", offMin*60))
	out := lt.Format("2006-01-02T15:04:05")
	frac := fmt.Sprintf("%09d", t.Nanosecond())
	d0 := len(strings.TrimRight(frac, "0"))
	d := d0
	switch r.Intn(5) {
	case 0:
		d = 9
	case 1, 2:
		d = d0 + r.Intn(9-d0+1)
	case 3:
		for _, k := range []int{3, 6} {
			if k >= d0 && r.Bool() {
				d = k
				break
			}
		}
	}
	if d > 0 {
		out += "." + frac[:d]
	}
	if offMin == 0 {
		switch r.Intn(10) {
		case 0, 1, 2:
			return out + "Z"
		case 3:
			return out + "-00:00"
		}
		return out + "+00:00"
	}
	sign, m := "+", offMin
	if m < 0 {
		sign, m = "-", -m
	}
	return out + fmt.Sprintf("%s%02d:%02d", sign, m/60, m%60)
}

// c18Instants returns n distinct instants around a base, close enough that
// different offsets reorder their spellings.
func c18Instants(r *kit.Rand, n int) []time.Time {
	base := time.Date(r.Range(1999, 2035), time.Month(r.Range(1, 12)), r.Range(1, 28), r.Range(0, 23), r.Range(0, 59), r.Range(0, 59), 0, time.UTC)
	seen := map[int64]bool{}
	var out []time.Time
	for len(out) < n {
		var d time.Duration
		switch r.Intn(4) {
		case 0:
			d = time.Duration(r.Range(-20, 20)) * time.Hour
		case 1:
			d = time.Duration(r.Range(-3000, 3000)) * time.Second
		case 2:
			d = time.Duration(r.Range(-400, 400)) * 24 * time.Hour
		default:
			d = time.Duration(r.Range(-5, 5))*time.Second + time.Duration(r.Intn(4))*250*time.Millisecond
		}
		t := base.Add(d)
		if seen[t.UnixNano()] {
			continue
		}
		seen[t.UnixNano()] = true
		out = append(out, t)
	}
	return out
}

func c18Value(r *kit.Rand, base float64) float64 {
	v := base * (1 + 0.1*r.NormFloat64())
	if v <= 0 {
		v = base
	}
	if r.Chance(0.5) {
		s := strconv.FormatFloat(v, 'e', r.Range(1, 3), 64)
		v, _ = strconv.ParseFloat(s, 64)
	}
	return v
}

func c18GenBuilder(r *kit.Rand, i int) c18Case { return c18GenBuilderP(r, i, 0) }

// c18GenBuilderP: noBase is the probability that a trial gets no baseline
// (replace policy only).
func c18GenBuilderP(r *kit.Rand, i int, noBase float64) c18Case {
	c := c18Case{
		Policy:    i % 2,
		OrderSeed: r.Uint64(),
		Text:      r.Chance(0.4),
		Conf:      kit.F(kit.Pick(r, []float64{0.95, 0.9, 0.99, 0.5, 0.8})),
		N:         kit.Pick(r, []int{20, 50, 100, 200}),
		Orders:    6,
	}
	if kit.Thorough() {
		c.Orders = 20
	}
	if noBase > 0 {
		c.Policy = 0
	}
	c.TableKeys = kit.Pick(r, [][]string{{}, {"goos"}, {"goos"}, {"goos", "goarch"}, {"goos", "goarch"}})
	tabVals := [][]string{{"linux", "darwin", ""}, {"amd64", "arm64", ""}}
	var tables [][]string
	for n := r.Range(1, 2); len(tables) < n; {
		t := make([]string, len(c.TableKeys))
		for k := range t {
			t[k] = kit.Pick(r, tabVals[k])
		}
		dup := false
		for _, x := range tables {
			dup = dup || strings.Join(x, "|") == strings.Join(t, "|")
		}
		if !dup || len(c.TableKeys) == 0 {
			tables = append(tables, t)
		}
		if len(c.TableKeys) == 0 {
			break
		}
	}
	nunits := r.Range(1, 3)
	units := append([]string(nil), c18UnitPool...)
	kit.Shuffle(r, units)
	units = units[:nunits]
	benches := append([]string(nil), c18BenchPool...)
	kit.Shuffle(r, benches)
	benches = benches[:r.Range(2, 5)]

	// denominator groups, series points (hash <-> stamp), experiments
	ngroups := r.Range(1, 2)
	nser := r.Range(2, 6)
	nexp := r.Range(2, 7)
	sInst := c18Instants(r, nser)
	eInst := c18Instants(r, nexp)
	type series struct {
		t     time.Time
		nhash string
		group int
	}
	type experiment struct {
		raw    string
		group  int
		series []int
	}
	var sers []series
	for k := 0; k < nser; k++ {
		sers = append(sers, series{sInst[k], fmt.Sprintf("n%02d%s", k, r.Bytes(5, "0123456789abcdef")), r.Intn(ngroups)})
	}
	var exps []experiment
	for k := 0; k < nexp; k++ {
		e := experiment{raw: c18SpellR(r, eInst[k]), group: r.Intn(ngroups)}
		for si, s := range sers {
			if s.group == e.group && r.Chance(0.7) {
				e.series = append(e.series, si)
			}
		}
		exps = append(exps, e)
	}
	nfiles := r.Range(1, 4)
	bases := map[string]float64{}
	for _, b := range benches {
		for _, u := range units {
			bases[b+"|"+u] = r.LogUniform(-2, 6)
		}
	}
	mk := func(b string, tab []string, e experiment, role string, si int, us []string) c18Res {
		x := c18Res{File: r.Intn(nfiles), Bench: b, Table: tab, Exp: e.raw, Role: role,
			DHash: fmt.Sprintf("d%d", e.group), Extra: kit.Pick(r, []string{"", "", "x", "y"})}
		// every result carries some series stamp and numerator hash; they
		// only matter for numerators
		if si < 0 && len(e.series) > 0 {
			si = kit.Pick(r, e.series)
		}
		if si >= 0 {
			x.NHash = sers[si].nhash
			// a hash may spell its stamp differently from result to result
			x.Stamp = c18SpellR(r, sers[si].t)
		}
		for _, u := range us {
			x.Vals = append(x.Vals, c18Val{V: kit.F(c18Value(r, bases[b+"|"+u])), U: u})
		}
		return x
	}
	for _, e := range exps {
		for _, tab := range tables {
			for _, b := range benches {
				if r.Chance(0.2) {
					continue
				}
				nnum := 0
				for _, si := range e.series {
					if r.Chance(0.2) {
						continue
					}
					for k := r.Range(1, 4); k > 0; k-- {
						us := units
						if r.Chance(0.25) && len(units) > 1 { // numerator lacking a unit
							us = units[:len(units)-1]
						}
						c.Results = append(c.Results, mk(b, tab, e, "exp", si, us))
						nnum++
					}
				}
				// a baseline for every trial (always present in the builder class)
				if noBase > 0 && r.Chance(noBase) {
					continue
				}
				for k := r.Range(1, 4); k > 0; k-- {
					c.Results = append(c.Results, mk(b, tab, e, "base", -1, units))
				}
				if r.Chance(0.1) {
					c.Results = append(c.Results, mk(b, tab, e, kit.Pick(r, []string{"other", ""}), -1, units))
				}
			}
		}
	}
	kit.Shuffle(r, c.Results)
	return c
}

// ---------------------------------------------------------------------------
// Class bootstrap

type c18BootCase struct {
	Num, Den []kit.F
	Conf     kit.F
	N        int
	Seed     uint64
}

func c18BootResults(c c18BootCase) []c18Res {
	var rs []c18Res
	for _, v := range c.Num {
		rs = append(rs, c18Res{Bench: "Foo", Exp: "2020-01-01T00:00:00Z", Stamp: "2020-02-02T00:00:00Z", Role: "exp", NHash: "n", DHash: "d", Vals: []c18Val{{v, "sec/op"}}})
	}
	for _, v := range c.Den {
		rs = append(rs, c18Res{Bench: "Foo", Exp: "2020-01-01T00:00:00Z", Stamp: "2020-02-02T00:00:00Z", Role: "base", NHash: "n", DHash: "d", Vals: []c18Val{{v, "sec/op"}}})
	}
	return rs
}

func c18CheckBoot(c c18BootCase) *kit.Fail {
	conf, n := float64(c.Conf), c.N
	if !(conf > 0 && conf < 1) || n < 1 {
		return nil
	}
	if d := conf*float64(n) - 1; math.Abs(d) < 1e-9 {
		kit.Count("C18 bootstrap cases skipped (confidence*N within 1e-9 of 1)", 1)
		return nil
	}
	bc := c18Case{Conf: c.Conf, N: n}
	rs := c18BootResults(c)
	var firstP *c18Point
	for k := 0; k < 3; k++ {
		ord := append([]c18Res(nil), rs...)
		if k == 1 {
			kit.Shuffle(kit.NewRand(c.Seed, "c18-boot", 1), ord)
		}
		o, f := c18Observe(bc, ord, nil)
		if f != nil {
			return f
		}
		if len(o.points) != 1 {
			return kit.Failf("point-missing", "%d points for one benchmark/series", len(o.points))
		}
		p := o.points[0]
		if !p.Present {
			return kit.Failf("summary-absent", "no summary for a point with numerator and denominator samples")
		}
		if firstP == nil {
			firstP = &p
			continue
		}
		if math.Float64bits(p.Low) != math.Float64bits(firstP.Low) || math.Float64bits(p.Center) != math.Float64bits(firstP.Center) || math.Float64bits(p.High) != math.Float64bits(firstP.High) {
			return kit.Failf("summary-irreproducible", "same samples num=%v den=%v conf=%v N=%d: %v/%v/%v then %v/%v/%v (build %d)", p.Num, p.Den, conf, n, firstP.Low, firstP.Center, firstP.High, p.Low, p.Center, p.High, k)
		}
	}
	if conf*float64(n) < 1 {
		kit.Count("C18 bootstrap cases with confidence*N < 1", 1)
	}
	return c18CheckSummary(*firstP, conf, n)
}

func c18GenBoot(r *kit.Rand, i int) c18BootCase {
	c := c18BootCase{Seed: r.Uint64()}
	switch r.Intn(6) {
	case 0:
		c.N = r.Range(1, 6)
	case 1:
		c.N = r.Range(1, 40)
	case 2:
		c.N = kit.Pick(r, []int{500, 1000, 2000})
	default:
		c.N = r.Range(1, 2000)
	}
	switch r.Intn(8) {
	case 0:
		c.Conf = kit.F(r.Float64()*0.2 + 1e-6)
	case 1:
		c.Conf = kit.F(1 - r.Float64()*0.05 - 1e-9)
	case 2: // near the 1/N boundary from both sides
		c.Conf = kit.F((1 + (r.Float64()-0.5)*0.2) / float64(c.N))
	case 3:
		c.Conf = kit.F(kit.Pick(r, []float64{0.5, 0.9, 0.95, 0.99, 0.999, 0.25, 0.1}))
	default:
		c.Conf = kit.F(r.Float64())
	}
	if !(float64(c.Conf) > 0 && float64(c.Conf) < 1) {
		c.Conf = 0.95
	}
	nn, nd := r.Range(1, 12), r.Range(1, 12)
	if r.Chance(0.1) {
		nn, nd = r.Range(1, 60), r.Range(1, 60)
	}
	bn, bd := r.LogUniform(-3, 6), r.LogUniform(-3, 6)
	kind := r.Intn(10)
	for k := 0; k < nn; k++ {
		v := c18Value(r, bn)
		switch kind {
		case 0:
			v = bn // constant
		case 1:
			v = float64(r.Range(1, 3))
		case 2:
			if r.Chance(0.3) {
				v = 0
			}
		case 3:
			if r.Chance(0.3) {
				v = -v
			}
		}
		c.Num = append(c.Num, kit.F(v))
	}
	for k := 0; k < nd; k++ {
		v := c18Value(r, bd)
		switch kind {
		case 0:
			v = bd
		case 1:
			v = float64(r.Range(1, 3))
		case 2:
			if r.Chance(0.2) {
				v = 0
			}
		case 3:
			if r.Chance(0.2) {
				v = -v
			}
		}
		c.Den = append(c.Den, kit.F(v))
	}
	return c
}

// ---------------------------------------------------------------------------
// Class dates

type c18DateCase struct {
	S1, S2 kit.B // two spellings of instant 1
	S3     kit.B // a spelling of instant 2
	More   []kit.B `json:",omitempty"` // further spellings of instant 1
	T1s    int64 // instant 1: seconds and nanoseconds since the Unix epoch
	T1n    int
	T2s    int64
	T2n    int
}

func c18CheckDate(c c18DateCase) *kit.Fail {
	n1, e1 := benchseries.NormalizeDateString(string(c.S1))
	n2, e2 := benchseries.NormalizeDateString(string(c.S2))
	n3, e3 := benchseries.NormalizeDateString(string(c.S3))
	if e1 != nil || e2 != nil || e3 != nil {
		return kit.Failf("date-rejected", "accepted-format timestamps rejected: %q:%v %q:%v %q:%v", c.S1, e1, c.S2, e2, c.S3, e3)
	}
	if n1 != n2 {
		return kit.Failf("date-same-instant-differs", "%q and %q denote the same instant but normalise to %q and %q", c.S1, c.S2, n1, n2)
	}
	for _, m := range c.More {
		nm, em := benchseries.NormalizeDateString(string(m))
		if em != nil {
			return kit.Failf("date-rejected", "accepted-format timestamp rejected: %q:%v", m, em)
		}
		if nm != n1 {
			return kit.Failf("date-same-instant-differs", "%q and %q denote the same instant but normalise to %q and %q", c.S1, m, n1, nm)
		}
	}
	for _, m := range append([]kit.B{c.S1, c.S2}, c.More...) {
		if c18PaddedFraction(string(m)) {
			kit.Count("C18 spellings of instant 1 whose fraction has trailing zeros", 1)
			if strings.HasSuffix(string(m), "+00:00") {
				kit.Count("C18 spellings of instant 1 with trailing fraction zeros and offset +00:00", 1)
			}
		}
	}
	t1 := time.Unix(c.T1s, int64(c.T1n))
	t2 := time.Unix(c.T2s, int64(c.T2n))
	switch {
	case t1.Before(t2) && !(n1 < n3):
		return kit.Failf("date-order", "%q is before %q but normalised %q !< %q", c.S1, c.S3, n1, n3)
	case t2.Before(t1) && !(n3 < n1):
		return kit.Failf("date-order", "%q is after %q but normalised %q !> %q", c.S1, c.S3, n1, n3)
	case t1.Equal(t2) && n1 != n3:
		return kit.Failf("date-same-instant-differs", "%q and %q denote the same instant but normalise to %q and %q", c.S1, c.S3, n1, n3)
	}
	if strings.ContainsAny(string(c.S1), "-:") != strings.ContainsAny(string(c.S2), "-:") {
		kit.Count("C18 date pairs spelled in both formats", 1)
	}
	return nil
}

// c18PaddedFraction: an RFC 3339 spelling whose fractional second ends in 0.
func c18PaddedFraction(s string) bool {
	dot := strings.IndexByte(s, '.')
	if dot < 0 {
		return false
	}
	end := dot + 1
	for end < len(s) && s[end] >= '0' && s[end] <= '9' {
		end++
	}
	return end > dot+1 && s[end-1] == '0'
}

func c18GenDate(r *kit.Rand, i int) c18DateCase {
	// instants whose UTC year stays within 0001..9998 (domain, see NOTES)
	var t1 time.Time
	switch r.Intn(5) {
	case 0:
		t1 = time.Date(r.Range(1, 9998), time.Month(r.Range(1, 12)), r.Range(1, 28), r.Range(0, 23), r.Range(0, 59), r.Range(0, 59), 0, time.UTC)
		if t1.Year() == 1 && t1.YearDay() < 3 {
			t1 = t1.AddDate(0, 0, 3)
		}
	case 1: // year/month/day boundaries
		t1 = time.Date(r.Range(1970, 2100), time.Month(kit.Pick(r, []int{1, 3, 12})), 1, 0, 0, 0, 0, time.UTC).Add(time.Duration(r.Range(-3, 3)) * time.Second)
	default:
		t1 = time.Date(r.Range(1970, 2100), time.Month(r.Range(1, 12)), r.Range(1, 28), r.Range(0, 23), r.Range(0, 59), r.Range(0, 59), 0, time.UTC)
	}
	whole := r.Chance(0.6)
	if !whole {
		switch r.Intn(3) {
		case 0:
			t1 = t1.Add(time.Duration(r.Intn(1000)) * time.Millisecond)
		case 1:
			t1 = t1.Add(time.Duration(r.Intn(1000000000)))
		default:
			t1 = t1.Add(time.Duration(kit.Pick(r, []int{1, 10, 100, 999999999, 500000000, 100000000, 99999999})))
		}
	}
	var t2 time.Time
	switch r.Intn(8) {
	case 0:
		t2 = t1
	case 1:
		t2 = t1.Add(time.Duration(kit.Pick(r, []int{1, -1, 10, -10, 1000, -1000, 999999999, -999999999})))
	case 2:
		t2 = t1.Add(time.Duration(r.Range(-5, 5)) * time.Second)
	case 3:
		t2 = t1.Add(time.Duration(r.Range(-30, 30)) * time.Hour)
	case 4:
		t2 = t1.Add(time.Duration(r.Range(-1000, 1000)) * time.Millisecond)
	case 5:
		t2 = t1.AddDate(kit.Pick(r, []int{-1, 1, 10, -10, 0}), r.Range(-3, 3), r.Range(-3, 3))
	default:
		t2 = t1.Add(time.Duration(r.Range(-100000, 100000)) * time.Second)
	}
	if y := t2.UTC().Year(); y < 1 || y > 9998 {
		t2 = t1
	}
	k1, k2 := r.Intn(5), r.Intn(5)
	if t1.Nanosecond() == 0 && r.Chance(0.6) {
		k1 = 0 // the unpunctuated spelling against an RFC 3339 one
		k2 = 1 + r.Intn(4)
	}
	c := c18DateCase{
		S1:  kit.B(c18Spell(t1, k1, kit.Pick(r, c18Offsets))),
		S2:  kit.B(c18Spell(t1, k2, kit.Pick(r, c18Offsets))),
		S3:  kit.B(c18SpellR(r, t2)),
		T1s: t1.Unix(), T1n: t1.Nanosecond(), T2s: t2.Unix(), T2n: t2.Nanosecond(),
	}
	// several spellings within each accepted format: offset Z / +00:00 /
	// other zones, fraction trimmed / padded with trailing zeros / absent
	for k := r.Range(1, 4); k > 0; k-- {
		c.More = append(c.More, kit.B(c18SpellR(r, t1)))
	}
	return c
}

func TestVerifC18(t *testing.T) {
	kit.Run(t, "C18",
		kit.Class[c18Case]{
			Name: "builder", Quick: 1500, Thorough: 10000,
			Gen: c18GenBuilder, Check: c18CheckBuilder, NonTrivial: c18NonTrivialBuilder, MinNonTrivial: 800,
			Rule: "result sets over 1-3 units, 0-2 table keys, 2-5 benchmarks, 2-7 experiments (distinct instants, any accepted spelling), 2-6 series stamps with one numerator hash each (stamp spelled differently from result to result), 1-2 denominator hashes, both roles plus ignored roles, 1-4 files; added to fresh builders in 6 (quick) / 20 (thorough) insertion orders, directly or through the text reader; both duplicate policies. Non-trivial = at least 2 points, at least one with repeated experiments",
		},
		kit.Class[c18Case]{
			Name: "builder-missing-baseline", Quick: 300, Thorough: 2000,
			Gen:  func(r *kit.Rand, i int) c18Case { return c18GenBuilderP(r, i, 0.3) },
			Check: c18CheckBuilder, NonTrivial: c18NonTrivialBuilder, MinNonTrivial: 100,
			Rule: "as builder, replace policy only, but 30% of the (benchmark, experiment) trials have no baseline measurements",
		},
		kit.Class[c18BootCase]{
			Name: "bootstrap", Quick: 6000, Thorough: 150000,
			Gen: c18GenBoot, Check: c18CheckBoot, MinNonTrivial: 3000,
			NonTrivial: func(c c18BootCase) bool { return len(c.Num) > 1 && len(c.Den) > 1 && c.N > 1 },
			Rule: "one series point with 1-60 numerator and denominator values (noisy, constant, tied small integers, some zero or negative), confidence in (0,1) incl. near 0, near 1 and around 1/N, 1-2000 resamples; built three times (once with shuffled insertion). Non-trivial = more than one value on both sides and more than one resample",
		},
		kit.Class[c18DateCase]{
			Name: "dates", Quick: 60000, Thorough: 3000000,
			Gen: c18GenDate, Check: c18CheckDate, MinNonTrivial: 20000,
			NonTrivial: func(c c18DateCase) bool {
				if c.S1 == c.S2 {
					return false
				}
				for _, m := range c.More {
					if m != c.S1 && m != c.S2 {
						return true
					}
				}
				return false
			},
			Rule: "instants (years 1-9998, whole seconds or fractions down to 1 ns) in 3-6 spellings: 20060102T150405 or RFC 3339 with the offset written Z / +00:00 / -00:00 / numeric (-12:00..+14:00, half and quarter hours, one minute) and the fraction written with any number of digits from the fewest exact ones (none for whole seconds) to nine, i.e. trimmed, padded with trailing zeros or absent; all spellings must normalise identically; a second instant equal, 1 ns to years away, must normalise to a string ordered like the instants. Non-trivial = at least three different spellings of the first instant",
		},
	)
}
