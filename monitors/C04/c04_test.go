//go:build verif

package benchproc_test

// C04: every measurement a reader reports is normalised to base units
// (numerator ns -> sec ×1e-9, MB -> B ×1e6) for every value including 0, ±Inf
// and NaN; the written pair stays available; unit metadata and .unit filters
// work under both names; units with nothing to normalise pass through
// untouched; normalising twice changes nothing.
//
// Oracle: refread.TidyUnit, an independent tokeniser tracking numerator and
// denominator, plus exact power-of-ten scaling with math/big.
//
// The monitor lives in package benchproc_test because that is the lowest
// package from which benchunit, benchfmt and the .unit filter are all reachable.

import (
	"fmt"
	"math"
	"math/big"
	"strconv"
	"strings"
	"testing"
	"unicode"

	"golang.org/x/perf/benchfmt"
	"golang.org/x/perf/benchmath"
	"golang.org/x/perf/benchproc"
	"golang.org/x/perf/benchunit"
	kit "golang.org/x/perf/internal/verifkit"
	"golang.org/x/perf/internal/verifkit/refread"
)

type c04Case struct {
	Unit   kit.B
	Vals   []kit.F
	Lower  bool // metadata better=lower (else higher)
	Assume bool // metadata assume=exact (else nothing)
	Pre    int  // shape of the Unit lines that precede the metadata (0 = none), see c04Preamble
}

// c04Preamble returns Unit lines to put in front of the metadata text of
// check (iii): lines that name a unit WITHOUT any key=value pair (they set
// nothing) and lines for an unrelated unit. It returns the text, the number
// of lines, the records expected from it and the line numbers of the
// pair-less lines (a reader may or may not complain about those).
func c04Preamble(shape int, U, tu string) (text string, lines int, recs []string, pairless map[int]bool) {
	pairless = map[int]bool{}
	const other = "qq/op"
	if U == other || tu == other {
		return "", 0, nil, pairless
	}
	add := func(l string, rec string, bare bool) {
		lines++
		text += l + "\n"
		if rec != "" {
			recs = append(recs, fmt.Sprintf(rec, lines))
		}
		if bare {
			pairless[lines] = true
		}
	}
	otherRec := "meta@%d " + fmt.Sprintf("%q/%q", other, other) + " better=higher"
	switch shape {
	case 1: // the unit itself, bare
		add("Unit "+U, "", true)
	case 2: // another unit with a pair, then the unit itself, bare
		add("Unit "+other+" better=higher", otherRec, false)
		add("Unit "+U, "", true)
	case 3: // another unit, bare
		add("Unit "+other, "", true)
	case 4: // bare line for the unit, metadata of another unit in between
		add("Unit "+U, "", true)
		add("Unit "+other+" better=higher", otherRec, false)
	case 5: // the base name, bare, then the written name, bare
		add("Unit "+tu, "", true)
		add("Unit "+U, "", true)
	case 6: // bare line of another unit, twice, with trailing blanks
		add("Unit "+other+" ", "", true)
		add("Unit "+other+"\t", "", true)
	}
	return
}

func c04Bits(f float64) uint64 {
	if math.IsNaN(f) {
		return 0x7ff8000000000001
	}
	return math.Float64bits(f)
}

// c04Ord maps floats to integers so that adjacent floats are adjacent
// integers (±0 both map to 0, +Inf follows MaxFloat64).
func c04Ord(f float64) int64 {
	b := math.Float64bits(f)
	if b>>63 != 0 {
		return -int64(b &^ (1 << 63))
	}
	return int64(b)
}

// c04Expect is v×10^e rounded once to float64 (exact arithmetic in between).
func c04Expect(v float64, e int) float64 {
	if e == 0 || v == 0 || math.IsInf(v, 0) || math.IsNaN(v) {
		return v
	}
	x := new(big.Float).SetPrec(2400).SetFloat64(v)
	n := e
	if n < 0 {
		n = -n
	}
	p := new(big.Float).SetPrec(2400).SetInt(new(big.Int).Exp(big.NewInt(10), big.NewInt(int64(n)), nil))
	if e > 0 {
		x.Mul(x, p)
	} else {
		x.Quo(x, p)
	}
	f, _ := x.Float64()
	return f
}

// c04ValueOK decides whether got is an acceptable float64 rendering of
// v×10^e when rewritten components were scaled one after the other.
//
// Tolerance: each rewritten component may cost two roundings (the constant
// 1e-9 is not a float64, and one multiplication or division), the final
// product one more; k components give at most 2k+1 half-ulp steps; we allow
// 2k+2 ulps. 0, ±Inf and NaN are exact classes (sign of zero included).
func c04ValueOK(got, v float64, e, k int) (ok bool, want float64, ulps int64) {
	want = c04Expect(v, e)
	if v == 0 || math.IsInf(v, 0) || math.IsNaN(v) || k == 0 {
		return c04Bits(got) == c04Bits(want), want, 0
	}
	if math.IsNaN(got) {
		return false, want, -1
	}
	d := c04Ord(got) - c04Ord(want)
	if d < 0 {
		d = -d
	}
	return d <= int64(2*k+2), want, d
}

func c04IsField(s string) bool {
	if s == "" {
		return false
	}
	for _, r := range s {
		if unicode.IsSpace(r) {
			return false
		}
	}
	return true
}

func c04Fmt(v float64) string { return strconv.FormatFloat(v, 'g', -1, 64) }

func c04Check(c c04Case) *kit.Fail {
	U := string(c.Unit)
	tu, e, k := refread.TidyUnit(U)

	// (i) benchunit.Tidy directly
	for _, kv := range c.Vals {
		v := float64(kv)
		tv, gotUnit := benchunit.Tidy(v, U)
		if gotUnit != tu {
			return kit.Failf("tidy-unit-wrong", "Tidy(%v, %q) unit %q, want %q", v, U, gotUnit, tu)
		}
		ok, want, ulps := c04ValueOK(tv, v, e, k)
		if !ok {
			sig := "tidy-value-wrong"
			if k == 0 {
				sig = "passthrough-altered"
			}
			return kit.Failf(sig, "Tidy(%v, %q) = %v (%016x), want %v×10^%d = %v (%016x), off by %d ulps (allowed %d)", v, U, tv, math.Float64bits(tv), v, e, want, math.Float64bits(want), ulps, 2*k+2)
		}
		kit.NoteMax("worst ulp distance of a scaled value", float64(ulps))
		// normalising again changes nothing
		tv2, tu2 := benchunit.Tidy(tv, gotUnit)
		if tu2 != gotUnit || c04Bits(tv2) != c04Bits(tv) {
			return kit.Failf("tidy-not-idempotent", "Tidy(Tidy(%v,%q)) = (%v,%q), first pass gave (%v,%q)", v, U, tv2, tu2, tv, gotUnit)
		}
	}
	if !c04IsField(U) {
		kit.Count("units with blanks (benchunit.Tidy only)", 1)
		return nil
	}

	// (ii) the reader, all values of the case on one line under one unit
	var sb strings.Builder
	sb.WriteString("BenchmarkX 1")
	for _, kv := range c.Vals {
		sb.WriteString(" " + c04Fmt(float64(kv)) + " " + U)
	}
	sb.WriteString(" 7 zz/op\n")
	rd := benchfmt.NewReader(strings.NewReader(sb.String()), "c04")
	var res *benchfmt.Result
	for n := 0; rd.Scan(); n++ {
		r, isRes := rd.Result().(*benchfmt.Result)
		if !isRes || n > 0 {
			return kit.Failf("reader-records", "line %q: record #%d is %T %v", sb.String(), n, rd.Result(), rd.Result())
		}
		res = r.Clone()
	}
	if res == nil || rd.Err() != nil || len(res.Values) != len(c.Vals)+1 {
		return kit.Failf("reader-records", "line %q: result %+v err %v", sb.String(), res, rd.Err())
	}
	for i, kv := range c.Vals {
		v := float64(kv)
		g := res.Values[i]
		if k > 0 {
			if g.Unit != tu {
				return kit.Failf("reader-unit-not-normalised", "%s %s read as Unit=%q (want %q): values %+v", c04Fmt(v), U, g.Unit, tu, res.Values)
			}
			if g.OrigUnit != U || c04Bits(g.OrigValue) != c04Bits(v) {
				return kit.Failf("reader-original-missing", "%s %s read with original pair (%v,%q)", c04Fmt(v), U, g.OrigValue, g.OrigUnit)
			}
			ok, want, ulps := c04ValueOK(g.Value, v, e, k)
			if !ok {
				return kit.Failf("reader-value-wrong", "%s %s read as %v %s, want %v (off by %d ulps, allowed %d)", c04Fmt(v), U, g.Value, g.Unit, want, ulps, 2*k+2)
			}
		} else {
			origOK := g.OrigUnit == "" || (g.OrigUnit == U && c04Bits(g.OrigValue) == c04Bits(v))
			if g.Unit != U || c04Bits(g.Value) != c04Bits(v) || !origOK {
				return kit.Failf("passthrough-altered", "%s %s (nothing to normalise) read as %+v", c04Fmt(v), U, g)
			}
		}
	}
	if last := res.Values[len(c.Vals)]; last.Unit != "zz/op" || last.Value != 7 {
		return kit.Failf("reader-records", "trailing measurement read as %+v", last)
	}

	// (iii) unit metadata under both names
	better, bsign := "higher", 1
	if c.Lower {
		better, bsign = "lower", -1
	}
	assume, other := "nothing", "exact"
	var wantAssume benchmath.Assumption = benchmath.AssumeNothing
	if c.Assume {
		assume, other = "exact", "nothing"
		wantAssume = benchmath.AssumeExact
	}
	pre, preLines, preRecs, pairless := c04Preamble(c.Pre, U, tu)
	if preLines > 0 {
		kit.Count("metadata preceded by pair-less or unrelated Unit lines", 1)
	}
	text := pre + "Unit " + U + " better=" + better + " assume=" + assume + "\n" + // two records
		"Unit " + tu + " better=" + better + "\n" + // same metadata under the base name: nothing
		"Unit " + tu + " assume=" + other + "\n" // conflicting under the base name: error
	rd = benchfmt.NewReader(strings.NewReader(text), "c04")
	var kinds []string
	for n := 0; rd.Scan() && n < 16; n++ {
		switch r := rd.Result().(type) {
		case *benchfmt.UnitMetadata:
			_, line := r.Pos()
			kinds = append(kinds, fmt.Sprintf("meta@%d %q/%q %s=%s", line, r.Unit, r.OrigUnit, r.Key, r.Value))
		case *benchfmt.SyntaxError:
			if pairless[r.Line] {
				// whether a Unit line without any pair deserves a
				// complaint is not this property's subject
				continue
			}
			kinds = append(kinds, fmt.Sprintf("error@%d", r.Line))
		default:
			kinds = append(kinds, fmt.Sprintf("%T", r))
		}
	}
	wantKinds := append(append([]string{}, preRecs...),
		fmt.Sprintf("meta@%d %q/%q better=%s", preLines+1, tu, U, better),
		fmt.Sprintf("meta@%d %q/%q assume=%s", preLines+1, tu, U, assume),
		fmt.Sprintf("error@%d", preLines+3),
	)
	if strings.Join(kinds, "; ") != strings.Join(wantKinds, "; ") {
		return kit.Failf("metadata-records", "input %q gave records [%s], want [%s]", text, strings.Join(kinds, "; "), strings.Join(wantKinds, "; "))
	}
	um := rd.Units()
	for _, name := range []string{U, tu} {
		for _, kvp := range [][2]string{{"better", better}, {"assume", assume}} {
			g := um.Get(name, kvp[0])
			if g == nil {
				return kit.Failf("metadata-unreachable", "metadata %s of unit written %q is not found under the name %q", kvp[0], U, name)
			}
			if g.Value != kvp[1] || g.OrigUnit != U || g.Unit != tu || g.Key != kvp[0] {
				return kit.Failf("metadata-wrong", "Get(%q,%q) = %+v, want unit %q orig %q value %q", name, kvp[0], *g, tu, U, kvp[1])
			}
		}
		if g := um.GetBetter(name); g != bsign {
			return kit.Failf("metadata-unreachable", "GetBetter(%q)=%d want %d (metadata written for %q)", name, g, bsign, U)
		}
		if g := um.GetAssumption(name); g != wantAssume {
			return kit.Failf("metadata-unreachable", "GetAssumption(%q)=%v want %v (metadata written for %q)", name, g, wantAssume, U)
		}
	}

	// (iv) .unit filters under both names
	for _, name := range []string{U, tu} {
		f, err := benchproc.NewFilter(".unit:" + strconv.Quote(name))
		if err != nil {
			return kit.Failf("filter-rejected", "NewFilter(.unit:%s): %v", strconv.Quote(name), err)
		}
		m, _ := f.Match(res)
		for i := range c.Vals {
			if !m.Test(i) {
				return kit.Failf("filter-misses-unit", ".unit:%s does not select measurement #%d %+v (written unit %q)", strconv.Quote(name), i, res.Values[i], U)
			}
		}
		if m.Test(len(c.Vals)) {
			return kit.Failf("filter-matches-wrong-unit", ".unit:%s selects %+v", strconv.Quote(name), res.Values[len(c.Vals)])
		}
		cl := res.Clone()
		if keep, _ := f.Apply(cl); !keep || len(cl.Values) != len(c.Vals) {
			return kit.Failf("filter-misses-unit", ".unit:%s Apply kept %d of %d measurements", strconv.Quote(name), len(cl.Values), len(c.Vals))
		}
	}
	f, err := benchproc.NewFilter(".unit:" + strconv.Quote(U+"q"))
	if err == nil {
		if m, _ := f.Match(res); m.Any() {
			return kit.Failf("filter-matches-wrong-unit", ".unit:%s selects something in %+v", strconv.Quote(U+"q"), res.Values)
		}
	}

	if k > 0 {
		kit.Count("units with a rewritable component (all four observation points)", 1)
	} else if strings.Contains(U, "ns") || strings.Contains(U, "MB") {
		kit.Count("pass-through units containing ns/MB only in denominator or inside a word", 1)
	}
	return nil
}

func c04NonTrivial(c c04Case) bool {
	U := string(c.Unit)
	_, _, k := refread.TidyUnit(U)
	if k == 0 {
		return strings.Contains(U, "ns") || strings.Contains(U, "MB")
	}
	for _, kv := range c.Vals {
		v := float64(kv)
		if v == 0 || math.IsInf(v, 0) || math.IsNaN(v) || math.Abs(v) < 2.3e-308 {
			return true
		}
	}
	return false
}

var c04Pool = []string{"ns", "MB", "B", "sec", "op", "s", "GC", "nsx", "xns", "MBs"}
var c04Seps = []string{"/", "*", "-", " "}

func c04Specials() []kit.F {
	return []kit.F{0, kit.F(math.Copysign(0, -1)), kit.F(math.Inf(1)), kit.F(math.Inf(-1)), kit.F(math.NaN()),
		kit.F(math.SmallestNonzeroFloat64), kit.F(math.Float64frombits(0x000123456789abcd)), 1, -1, 12345.678, 1e300, kit.F(math.MaxFloat64)}
}

func c04Enum(thorough bool, yield func(c04Case)) {
	n := 0
	emit := func(u string) {
		n++
		yield(c04Case{Unit: kit.B(u), Vals: c04Specials(), Lower: n%2 == 0, Assume: n%3 != 0, Pre: n % 7})
	}
	maxN := 3
	if thorough {
		maxN = 4
	}
	var rec func(prefix string, depth int)
	rec = func(prefix string, depth int) {
		for _, comp := range c04Pool {
			u := prefix + comp
			emit(u)
			if depth <= 2 {
				// separators at the edges and doubled
				for _, s := range c04Seps {
					emit(s + u)
					emit(u + s)
				}
			}
			if depth < maxN {
				for _, s := range c04Seps {
					rec(u+s, depth+1)
				}
			}
		}
	}
	rec("", 1)
	for _, u := range []string{"", "/", "*", "-", " ", "ns//op", "ns**op", "ns/op*ns", "ns/op*MB/s", "B/s*ns", "MB/ns*MB", "ns--ns", "ns  ns", "ns/ /ns", "ns*/ns", "ns/*ns",
		"nsns", "MBMB", "nS", "Ns", "NS", "mb", "Mb", "mB", "ns.", ".ns", "ns:", "ns/op/op", "ns/op-cycle", "ns-op/MB", "µs/op", "ns/öp", "MB/ŝ", "n/s", "M/B", "M*B", "n-s"} {
		emit(u)
	}
}

func c04RandFloat(r *kit.Rand) float64 {
	switch r.Intn(8) {
	case 0:
		return float64(c04Specials()[r.Intn(12)])
	case 1:
		return math.Float64frombits(r.Uint64() & (1<<52 - 1) >> uint(r.Intn(52))) // subnormal
	case 2:
		return float64(r.Range(-1000, 100000))
	case 3:
		return r.LogUniform(-320, 308)
	case 4:
		return -r.LogUniform(-30, 30)
	default:
		for {
			f := math.Float64frombits(r.Uint64())
			if !math.IsNaN(f) {
				return f
			}
		}
	}
}

func c04GenRandom(r *kit.Rand, i int) c04Case {
	// (non-ASCII letters whose UTF-8 form holds the bytes 0xA0 / 0x85, and multi-byte
	// Unicode spaces as separators, were added after seeding round 2: a byte-wise
	// tokeniser splits the former and misses the latter)
	words := []string{"ns", "MB", "ns", "MB", "B", "sec", "op", "s", "GC", "nsx", "xns", "MBs", "nsns", "MBMB", "Ns", "mb", "bytes", "allocs", "cycle", "µs", "x.y", "%", "1", "ns1", "KB", "GB", "nsec", "n", "M", "é",
		"àns", "nsà", "ÅMB", "MBÅ", "†ns", "à", "…ns"}
	seps := []string{"/", "/", "*", "-", " ", "//", "**", "--", "  ", "/*", "*/", "-/", " / ", "\u2009", "\u3000", "\u00a0", "\u0085", "\u2003/"}
	n := r.Range(1, 6)
	var sb strings.Builder
	if r.Chance(0.06) {
		// numerator components whose factors cancel exactly: a times ns (1e-9) and
		// b times MB (1e6) with 9a = 6b; the unit must still be rewritten although
		// the value does not change (seeding round 2: `if factor == 1 { return unit }`).
		comps := []string{"ns", "ns", "MB", "MB", "MB"}
		if r.Chance(0.2) {
			comps = append(comps, comps...)
		}
		kit.Shuffle(r, comps)
		for j, c := range comps {
			if j > 0 {
				sb.WriteString(kit.Pick(r, []string{"*", "-", "*", "**"}))
			}
			sb.WriteString(c)
		}
		if r.Chance(0.5) {
			sb.WriteString(kit.Pick(r, []string{"/op", "/ns", "/MB/s", "/x"}))
		}
		vals := make([]kit.F, r.Range(1, 6))
		for j := range vals {
			vals[j] = kit.F(c04RandFloat(r))
		}
		kit.Count("units whose ns/MB factors cancel exactly", 1)
		return c04Case{Unit: kit.B(sb.String()), Vals: vals, Lower: r.Bool(), Assume: r.Chance(0.7), Pre: r.Range(0, 6)}
	}
	if r.Chance(0.05) {
		sb.WriteString(kit.Pick(r, seps))
	}
	for j := 0; j < n; j++ {
		if j > 0 {
			sb.WriteString(kit.Pick(r, seps))
		}
		if r.Chance(0.05) {
			sb.WriteString(r.Bytes(r.Range(1, 4), "nsMBbx"))
		} else {
			sb.WriteString(kit.Pick(r, words))
		}
	}
	if r.Chance(0.05) {
		sb.WriteString(kit.Pick(r, seps))
	}
	u := sb.String()
	if r.Chance(0.7) {
		// most units must be expressible in a file: no blanks
		u = strings.ReplaceAll(u, " ", "")
	}
	vals := make([]kit.F, r.Range(1, 6))
	for j := range vals {
		vals[j] = kit.F(c04RandFloat(r))
	}
	return c04Case{Unit: kit.B(u), Vals: vals, Lower: r.Bool(), Assume: r.Chance(0.7), Pre: r.Range(0, 6)}
}

func TestVerifC04(t *testing.T) {
	const rule = "unit × list of values observed through benchunit.Tidy, a one-line input through benchfmt.Reader (every value of the case under the same unit), `Unit` metadata lines looked up with Get/GetBetter/GetAssumption under the written and the base name, and `.unit` filters under both names; non-trivial = the unit has a rewritable component and the values include 0, ±Inf, NaN or a subnormal, or the unit contains ns/MB only in denominator or substring position"
	enum := kit.Class[c04Case]{
		Name: "unit-grammar", Enum: c04Enum,
		Check: c04Check, NonTrivial: c04NonTrivial, MinNonTrivial: 8000,
		Rule: "every unit of up to 3 (thorough: 4) components from {ns MB B sec op s GC nsx xns MBs} joined by / * - and blank, units of up to 2 components also with a leading or trailing separator, plus a list of irregular spellings, each with 12 values {0 -0 +Inf -Inf NaN 5e-324 subnormal 1 -1 12345.678 1e300 MaxFloat64}; " + rule,
	}
	random := kit.Class[c04Case]{
		Name: "random-units", Quick: 20000, Thorough: 2000000, Gen: c04GenRandom,
		Check: c04Check, NonTrivial: c04NonTrivial, MinNonTrivial: 4000,
		Rule: "1-6 components from a wider word list (case variants, doubled words, Unicode, digits) with single and doubled separators, 1-6 values from all float64 bit patterns, subnormals, log-uniform magnitudes and the special values; " + rule,
	}
	kit.Run(t, "C04", enum, random)
}
