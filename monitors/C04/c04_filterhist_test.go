//go:build verif

package benchproc_test

// C04 (filter histories): ONE `.unit` filter is applied to a sequence of
// results in which the same base unit occurs under several written spellings
// (already base, rescaled from ns/MB) interleaved with other units. A `.unit`
// term must select measurement i iff the named unit is i's base unit or i's
// unit as written - independently of what the filter saw before.
// (Added after a seeded change that cached the verdict per base unit.)

import (
	"fmt"
	"regexp"
	"strconv"
	"strings"
	"testing"

	"golang.org/x/perf/benchfmt"
	"golang.org/x/perf/benchproc"
	kit "golang.org/x/perf/internal/verifkit"
	"golang.org/x/perf/internal/verifkit/refread"
)

type c04hCase struct {
	Written kit.B     // a unit with a rewritable component
	Other   kit.B     // an unrelated unit
	Name    int       // 0: filter names the written unit, 1: the base unit, 2: the other unit
	Neg     bool      // -.unit:...
	Re      bool      // the term is the regexp /^<name>$/ instead of the quoted literal
	Results [][]uint8 // per result, per measurement: 0 = written spelling, 1 = base spelling, 2 = other unit
}

func c04hGen(r *kit.Rand, i int) c04hCase {
	var w string
	for {
		n := r.Range(1, 3)
		var sb strings.Builder
		for j := 0; j < n; j++ {
			if j > 0 {
				sb.WriteString(kit.Pick(r, []string{"/", "*", "-"}))
			}
			sb.WriteString(kit.Pick(r, c04Pool))
		}
		w = sb.String()
		if _, _, k := refread.TidyUnit(w); k > 0 {
			break
		}
	}
	if r.Chance(0.4) {
		w = kit.Pick(r, []string{"ns/op", "MB/s", "ns/GC", "MB", "ns"})
	}
	c := c04hCase{Written: kit.B(w), Other: kit.B(kit.Pick(r, []string{"B/op", "allocs/op", "widgets", "sec/xop", "B/sx"})), Name: r.Intn(3), Neg: r.Chance(0.3), Re: r.Chance(0.4)}
	nres := r.Range(2, 8)
	for j := 0; j < nres; j++ {
		nm := r.Range(1, 4)
		ms := make([]uint8, nm)
		for k := range ms {
			ms[k] = uint8(r.Intn(3))
		}
		c.Results = append(c.Results, ms)
	}
	return c
}

func c04hCheck(c c04hCase) *kit.Fail {
	w := string(c.Written)
	base, _, _ := refread.TidyUnit(w)
	other := string(c.Other)
	spell := []string{w, base, other}
	name := spell[c.Name]
	q := ".unit:" + strconv.Quote(name)
	if c.Re {
		// anchored regexp that matches exactly the named spelling; '/' is
		// written as [/] so that it does not end the regexp token
		q = ".unit:/^" + strings.ReplaceAll(regexp.QuoteMeta(name), "/", "[/]") + "$/"
	}
	if c.Neg {
		q = "-" + q
	}
	f, err := benchproc.NewFilter(q)
	if err != nil {
		return kit.Failf("filter-rejected", "NewFilter(%s): %v", q, err)
	}
	var text strings.Builder
	for ri, ms := range c.Results {
		fmt.Fprintf(&text, "BenchmarkR%d 1", ri)
		for mi, m := range ms {
			fmt.Fprintf(&text, " %d %s", 1+ri*10+mi, spell[m])
		}
		text.WriteByte('\n')
	}
	rd := benchfmt.NewReader(strings.NewReader(text.String()), "in")
	ri := 0
	for rd.Scan() {
		res, ok := rd.Result().(*benchfmt.Result)
		if !ok {
			return kit.Failf("history-input-rejected", "unexpected record %v for input %q", rd.Result(), text.String())
		}
		if ri >= len(c.Results) || len(res.Values) != len(c.Results[ri]) {
			return kit.Failf("history-input-shape", "result %d has %d values, input %q", ri, len(res.Values), text.String())
		}
		m, _ := f.Match(res)
		for mi, sp := range c.Results[ri] {
			// written unit and base unit of this measurement, from the model
			wr := spell[sp]
			bs, _, _ := refread.TidyUnit(wr)
			want := name == wr || name == bs
			if c.Neg {
				want = !want
			}
			if m.Test(mi) != want {
				return kit.Failf("filter-history-dependent", "filter %s applied to result #%d of %q: measurement #%d (written %q, base %q) selected=%v, want %v", q, ri, text.String(), mi, wr, bs, m.Test(mi), want)
			}
		}
		ri++
	}
	if ri != len(c.Results) {
		return kit.Failf("history-input-shape", "%d results read, %d written", ri, len(c.Results))
	}
	kit.Count("filter histories (one filter over several results)", 1)
	return nil
}

func TestVerifC04FilterHistory(t *testing.T) {
	kit.Run(t, "C04", kit.Class[c04hCase]{
		Name: "filter-history", Quick: 20000, Thorough: 1000000, Gen: c04hGen, Check: c04hCheck,
		NonTrivial: func(c c04hCase) bool {
			// both spellings of the metric occur
			seen := [3]bool{}
			for _, ms := range c.Results {
				for _, m := range ms {
					seen[m] = true
				}
			}
			return seen[0] && seen[1]
		},
		MinNonTrivial: 5000,
		Rule:          "one `.unit:X` / `-.unit:X` filter (X = written unit, its base unit, or an unrelated unit) applied in sequence to 2-8 results whose measurements use the written spelling, the base spelling and an unrelated unit in random interleaving; non-trivial = both spellings of the metric occur in the history",
	})
}
