//go:build verif

package benchproc_test

// C09: Key.Less is a strict total order on the distinct keys of a projection,
// lexicographic over the flattened fields with the documented per-field orders
// (first observation - also per key inside .config -, alpha, num, fixed list);
// SortKeys yields a sorted permutation that does not depend on the initial
// arrangement.
//
// Oracle: the generator knows every result structurally; the expected tuple of
// each observation, the first-observation ranks and the numeric value of each
// curated "num" spelling come from the case and from a hand-written table,
// never from benchproc. Where a field order cannot separate two distinct
// strings (numerically equal spellings, two non-numbers, two NaNs) the
// direction is not claimed; the totality laws are.

import (
	"fmt"
	"math"
	"sort"
	"strconv"
	"strings"
	"testing"

	"golang.org/x/perf/benchfmt"
	"golang.org/x/perf/benchproc"
	kit "golang.org/x/perf/internal/verifkit"
)

// ---------------------------------------------------------------------------
// Case

type c09Field struct {
	Key   kit.B   `json:"k"`
	Order string  `json:"o,omitempty"` // "" (first observation), "alpha", "num", "fixed"
	Fixed []kit.B `json:"f,omitempty"`
}

type c09KV struct {
	K kit.B `json:"k"`
	V kit.B `json:"v"`
}

type c09Res struct {
	Base  kit.B   `json:"b"`
	Parts []c09KV `json:"p,omitempty"` // "/k=v" parts, keys distinct
	Cfg   []c09KV `json:"c,omitempty"` // file configuration, keys distinct, values non-empty
	Units []kit.B `json:"u,omitempty"` // at least one
}

type c09Case struct {
	Fields   []c09Field `json:"fields"`
	WithUnit bool       `json:"unit,omitempty"`
	Stream   []c09Res   `json:"stream"`
	Dup      int        `json:"dup,omitempty"` // number of duplicated keys added to the slices to sort
	Perms    int        `json:"perms"`         // number of random arrangements to sort
	Seed     uint64     `json:"seed"`
	// Inter: expected number of SortKeys calls made DURING the history (on
	// random subsets of the keys seen so far); 0 = sort only at the end.
	Inter int `json:"inter,omitempty"`
}

// ---------------------------------------------------------------------------
// Curated "num" pool: spelling -> class and value, written by hand.

const (
	c09Number = iota
	c09NaN
	c09NonNumber
)

type c09Num struct {
	class int
	v     float64
}

var c09NumTable = map[string]c09Num{
	"0": {0, 0}, "1": {0, 1}, "2": {0, 2}, "3": {0, 3}, "9": {0, 9}, "10": {0, 10}, "100": {0, 100}, "1000": {0, 1000},
	"1024": {0, 1024}, "1048576": {0, 1048576}, "1e3": {0, 1000}, "1E3": {0, 1000}, "1e6": {0, 1e6}, "1.0": {0, 1}, "1e0": {0, 1},
	"1.5": {0, 1.5}, "0.5": {0, 0.5}, "2.5": {0, 2.5}, "0.001": {0, 0.001}, "1e-3": {0, 0.001}, "-1": {0, -1}, "-2.5": {0, -2.5},
	"1k": {0, 1000}, "2k": {0, 2000}, "1.5k": {0, 1500}, "1000k": {0, 1e6}, "1M": {0, 1e6}, "2M": {0, 2e6}, "1G": {0, 1e9}, "1T": {0, 1e12},
	"1Ki": {0, 1024}, "2Ki": {0, 2048}, "1Mi": {0, 1048576}, "1Gi": {0, 1073741824},
	"4KiB": {0, 4096}, "1KiB": {0, 1024}, "2kB": {0, 2000}, "1MB": {0, 1e6},
	// every documented SI and IEC prefix up to Y / Yi (added after a seeded change made Zi/Yi parse as 0)
	"1P": {0, 1e15}, "1E": {0, 1e18}, "1Z": {0, 1e21}, "1Y": {0, 1e24}, "3YB": {0, 3e24},
	"1Ti": {0, 1 << 40}, "1Pi": {0, 1 << 50}, "1Ei": {0, 1 << 60}, "1Zi": {0, 1180591620717411303424}, "2ZiB": {0, 2361183241434822606848}, "1Yi": {0, 1208925819614629174706176}, "3YiB": {0, 3626777458843887524118528},
	// zero-padded integers of differing widths next to unpadded and fractional
	// neighbours (added after a seeded change compared all-digit strings by
	// length first: 008 > 16, and cyclic with 10.5 in between)
	"008": {0, 8}, "16": {0, 16}, "016": {0, 16}, "010": {0, 10}, "0010": {0, 10}, "11": {0, 11}, "10.5": {0, 10.5}, "9.5": {0, 9.5}, "007": {0, 7}, "00": {0, 0}, "0100": {0, 100}, "99": {0, 99},
	// signed numbers with a suffix (a benign-round helper noticed that the
	// unchanged tree read -5K as +5000; repaired in /repo, see NOTES.md)
	"-5K": {0, -5000}, "-2Ki": {0, -2048}, "-1.5k": {0, -1500}, "-.5K": {0, -500}, "+3M": {0, 3e6}, "-1MB": {0, -1e6},
	"+Inf": {0, math.Inf(1)}, "Inf": {0, math.Inf(1)}, "-Inf": {0, math.Inf(-1)},
	"NaN": {c09NaN, 0}, "nan": {c09NaN, 0},
	"": {c09NonNumber, 0}, "abc": {c09NonNumber, 0}, "x": {c09NonNumber, 0}, "foo": {c09NonNumber, 0}, "zed": {c09NonNumber, 0}, "Q": {c09NonNumber, 0},
	// digit-free words with decimal points: no digit, so not a number under
	// any reading, however fuzzy (added after a seeded change read them as 0)
	".": {c09NonNumber, 0}, "..": {c09NonNumber, 0}, "file.go": {c09NonNumber, 0}, "a.b.c": {c09NonNumber, 0}, "v.": {c09NonNumber, 0},
}

var c09NumPool, c09NumPoolName []string // all spellings but ""; the name-safe ones (no '-')

var c09Words = []string{"a", "b", "B", "ab", "z", "Z", "10", "9", "aa", "é", "\xff", "a b", "x-y", "~"}
var c09WordsName = []string{"a", "b", "B", "ab", "z", "Z", "10", "9", "aa", "é", "\xff", "~"}

func init() {
	for s := range c09NumTable {
		if s == "" {
			continue
		}
		c09NumPool = append(c09NumPool, s)
		if !strings.Contains(s, "-") {
			c09NumPoolName = append(c09NumPoolName, s)
		}
	}
	sort.Strings(c09NumPool)
	sort.Strings(c09NumPoolName)
}

// ---------------------------------------------------------------------------
// Reference view of a result

func c09Name(r *c09Res) string {
	var sb strings.Builder
	sb.WriteString(string(r.Base))
	for _, p := range r.Parts {
		sb.WriteString("/" + string(p.K) + "=" + string(p.V))
	}
	return sb.String()
}

func c09Remaining(r *c09Res, sn map[string]bool) string {
	var sb strings.Builder
	if sn[".name"] {
		sb.WriteByte('*')
	} else {
		sb.WriteString(string(r.Base))
	}
	for _, p := range r.Parts {
		if sn["/"+string(p.K)] {
			continue
		}
		sb.WriteString("/" + string(p.K) + "=" + string(p.V))
	}
	return sb.String()
}

func c09Lookup(kvs []c09KV, k string) string {
	for _, kv := range kvs {
		if string(kv.K) == k {
			return string(kv.V)
		}
	}
	return ""
}

// c09Tuple is the expected tuple of one observation.
type c09Tuple struct {
	top   []string
	cfg   map[string]string
	unit  string
	canon string
}

func c09Expect(c *c09Case, r *c09Res, unit string, sc, sn map[string]bool) *c09Tuple {
	t := &c09Tuple{top: make([]string, len(c.Fields)), unit: unit}
	var sb strings.Builder
	for i, f := range c.Fields {
		k := string(f.Key)
		switch {
		case k == ".config":
			t.cfg = map[string]string{}
			var ks []string
			for _, kv := range r.Cfg {
				if !sc[string(kv.K)] && len(kv.V) > 0 {
					t.cfg[string(kv.K)] = string(kv.V)
					ks = append(ks, string(kv.K))
				}
			}
			sort.Strings(ks)
			for _, k := range ks {
				sb.WriteString(strconv.Quote(k) + "=" + strconv.Quote(t.cfg[k]) + ";")
			}
		case k == ".fullname":
			t.top[i] = c09Remaining(r, sn)
		case k == ".name":
			t.top[i] = string(r.Base)
		case strings.HasPrefix(k, "/"):
			t.top[i] = c09Lookup(r.Parts, k[1:])
		default:
			t.top[i] = c09Lookup(r.Cfg, k)
		}
		sb.WriteString(strconv.Quote(t.top[i]) + "|")
	}
	sb.WriteString(strconv.Quote(unit))
	t.canon = sb.String()
	return t
}

func c09Sets(c *c09Case) (sc, sn map[string]bool) {
	sc, sn = map[string]bool{}, map[string]bool{}
	for _, f := range c.Fields {
		k := string(f.Key)
		switch {
		case k == ".config" || k == ".fullname":
		case k == ".name" || strings.HasPrefix(k, "/"):
			sn[k] = true
		default:
			sc[k] = true
		}
	}
	return
}

// c09Sim is the reference history: the observations in stream order, the
// distinct tuples in order of first appearance, and per field the position of
// the first observation of each value.
type c09Sim struct {
	obs      []*c09Tuple               // every observation (result x value when WithUnit, else result)
	distinct []*c09Tuple               // distinct tuples in order of first appearance
	index    map[string]int            // canon -> index into distinct
	topRank  []map[string]int          // per top-level field: value -> first observation
	cfgRank  map[string]map[string]int // per .config key: value ("" = missing) -> first observation
	cfgBorn  map[string]int            // per .config key: first observation that has the key
	unitRank map[string]int
}

func c09Simulate(c *c09Case) *c09Sim {
	sc, sn := c09Sets(c)
	s := &c09Sim{index: map[string]int{}, cfgRank: map[string]map[string]int{}, cfgBorn: map[string]int{}, unitRank: map[string]int{}}
	s.topRank = make([]map[string]int, len(c.Fields))
	for i := range s.topRank {
		s.topRank[i] = map[string]int{}
	}
	for ri := range c.Stream {
		r := &c.Stream[ri]
		units := []string{""}
		if c.WithUnit {
			units = units[:0]
			for _, u := range r.Units {
				units = append(units, string(u))
			}
		}
		for _, u := range units {
			t := c09Expect(c, r, u, sc, sn)
			n := len(s.obs)
			s.obs = append(s.obs, t)
			if _, ok := s.index[t.canon]; !ok {
				s.index[t.canon] = len(s.distinct)
				s.distinct = append(s.distinct, t)
			}
			for i, v := range t.top {
				if _, ok := s.topRank[i][v]; !ok {
					s.topRank[i][v] = n
				}
			}
			if _, ok := s.unitRank[u]; !ok {
				s.unitRank[u] = n
			}
			for k := range t.cfg {
				if _, ok := s.cfgBorn[k]; !ok {
					s.cfgBorn[k] = n
					s.cfgRank[k] = map[string]int{}
				}
			}
		}
	}
	// Ranks inside .config: the missing value of a key is observed by every
	// result that lacks the key, from the start of the stream.
	for k, m := range s.cfgRank {
		for n, t := range s.obs {
			if t.cfg == nil {
				continue
			}
			v := t.cfg[k]
			if _, ok := m[v]; !ok {
				m[v] = n
			}
		}
	}
	return s
}

// ---------------------------------------------------------------------------
// Reference comparator

type c09Flat struct {
	name   string
	order  string // "", "alpha", "num", "fixed"
	fixed  map[string]int
	rank   map[string]int // for order ""
	get    func(t *c09Tuple) string
	cfgKey bool
	born   int
}

// c09CmpField compares two distinct values of one field: -1/+1 when the
// documented order decides, 0 when it does not (direction unspecified).
// ok=false: the pair is outside the claimed domain.
func c09CmpField(f *c09Flat, a, b string) (cmp int, ok bool) {
	sgn := func(x, y int) int {
		if x < y {
			return -1
		}
		return 1
	}
	switch f.order {
	case "":
		ra, oka := f.rank[a]
		rb, okb := f.rank[b]
		if !oka || !okb || ra == rb {
			return 0, false
		}
		return sgn(ra, rb), true
	case "alpha":
		return strings.Compare(a, b), true
	case "fixed":
		ia, oka := f.fixed[a]
		ib, okb := f.fixed[b]
		if !oka || !okb || ia == ib {
			return 0, false
		}
		return sgn(ia, ib), true
	case "num":
		na, oka := c09NumTable[a]
		nb, okb := c09NumTable[b]
		if !oka || !okb {
			return 0, false
		}
		if na.class != nb.class {
			// numbers < NaN < non-numbers
			return sgn(na.class, nb.class), true
		}
		if na.class == c09Number && na.v != nb.v {
			if na.v < nb.v {
				return -1, true
			}
			return 1, true
		}
		return 0, true // tie: direction not specified
	}
	return 0, false
}

// c09Ref compares two distinct tuples; fld is the deciding field.
func c09Ref(flat []*c09Flat, a, b *c09Tuple) (cmp int, ok bool, fld *c09Flat, va, vb string) {
	for _, f := range flat {
		va, vb = f.get(a), f.get(b)
		if va == vb {
			continue
		}
		cmp, ok = c09CmpField(f, va, vb)
		return cmp, ok, f, va, vb
	}
	return 0, false, nil, "", ""
}

func c09Sig(f *c09Flat, va, vb string) string {
	switch f.order {
	case "":
		if f.cfgKey {
			if (va == "" || vb == "") && f.born > 0 {
				return "config-missing-rank-late"
			}
			return "config-first-order-wrong"
		}
		return "first-order-wrong"
	case "alpha":
		return "alpha-order-wrong"
	case "fixed":
		return "fixed-order-wrong"
	}
	na, nb := c09NumTable[va], c09NumTable[vb]
	if na.class == c09NaN || nb.class == c09NaN {
		return "num-nan-order-wrong"
	}
	if na.class == c09NonNumber || nb.class == c09NonNumber {
		return "num-nonnumber-order-wrong"
	}
	return "num-order-wrong"
}

// ---------------------------------------------------------------------------
// The check

func c09Word(s string) string {
	if c09Bare(s) {
		return s
	}
	return strconv.Quote(s)
}

func c09Bare(s string) bool {
	if s == "" || s == "AND" || s == "OR" {
		return false
	}
	for i := 0; i < len(s); i++ {
		ch := s[i]
		switch {
		case ch >= 'a' && ch <= 'z', ch >= 'A' && ch <= 'Z', ch >= '0' && ch <= '9', ch == '_', ch == '.', ch == '/', ch == '=', ch == '+':
		case ch == '-' && i > 0:
		default:
			return false
		}
	}
	return true
}

func c09ExprText(c *c09Case) string {
	var parts []string
	for _, f := range c.Fields {
		s := c09Word(string(f.Key))
		switch f.Order {
		case "":
		case "fixed":
			ws := make([]string, len(f.Fixed))
			for i, w := range f.Fixed {
				ws[i] = c09Word(string(w))
			}
			s += "@(" + strings.Join(ws, " ") + ")"
		default:
			s += "@" + f.Order
		}
		parts = append(parts, s)
	}
	return strings.Join(parts, ",")
}

func c09Build(r *c09Res) *benchfmt.Result {
	res := &benchfmt.Result{Name: benchfmt.Name(c09Name(r)), Iters: 1}
	for _, kv := range r.Cfg {
		res.Config = append(res.Config, benchfmt.Config{Key: string(kv.K), Value: []byte(string(kv.V)), File: true})
	}
	for i, u := range r.Units {
		res.Values = append(res.Values, benchfmt.Value{Value: float64(i + 1), Unit: string(u)})
	}
	return res
}

func c09Valid(c *c09Case) bool {
	if len(c.Fields) == 0 || len(c.Stream) == 0 {
		return false
	}
	for i := range c.Stream {
		if len(c.Stream[i].Units) == 0 {
			return false
		}
	}
	return true
}

func c09Check(c c09Case) *kit.Fail {
	if !c09Valid(&c) {
		return nil
	}
	sim := c09Simulate(&c)
	text := c09ExprText(&c)

	var pp benchproc.ProjectionParser
	filter, err := benchproc.NewFilter("*")
	if err != nil {
		return kit.Failf("monitor-setup", "NewFilter: %v", err)
	}
	var proj *benchproc.Projection
	if c.WithUnit {
		proj, _, err = pp.ParseWithUnit(text, filter)
	} else {
		proj, err = pp.Parse(text, filter)
	}
	if err != nil {
		return kit.Failf("parse-rejected", "%q: %v", text, err)
	}

	// Drive the history.
	keys := make([]benchproc.Key, len(sim.distinct)) // key of each distinct tuple
	have := make([]bool, len(sim.distinct))
	byKey := map[benchproc.Key]int{}
	n := 0
	type midSort struct {
		after int
		seq   []benchproc.Key
	}
	var mids []midSort
	rrI := kit.NewRand(c.Seed, "c09-intersort", 0)
	pSort := 0.0
	if c.Inter > 0 {
		pSort = float64(c.Inter) / float64(len(c.Stream))
	}
	nSub := 0
	for ri := range c.Stream {
		res := c09Build(&c.Stream[ri])
		var ks []benchproc.Key
		if c.WithUnit {
			ks = proj.ProjectValues(res)
			if len(ks) != len(res.Values) {
				return kit.Failf("projectvalues-len", "%d keys for %d values", len(ks), len(res.Values))
			}
		} else {
			ks = []benchproc.Key{proj.Project(res)}
		}
		for _, k := range ks {
			di := sim.index[sim.obs[n].canon]
			n++
			if old, ok := byKey[k]; ok && old != di {
				return kit.Failf("key-identity", "%q: tuples %s and %s share a Key (C08's subject; the order cannot be checked)", text, sim.distinct[old].canon, sim.distinct[di].canon)
			}
			if have[di] && keys[di] != k {
				return kit.Failf("key-identity", "%q: tuple %s has two Keys (C08's subject; the order cannot be checked)", text, sim.distinct[di].canon)
			}
			byKey[k] = di
			keys[di], have[di] = k, true
		}
		if pSort == 0 || !rrI.Chance(pSort) {
			continue
		}
		// SortKeys in the middle of the history, on a random subset of the
		// keys seen so far (twice, from two arrangements).
		q := kit.Pick(rrI, []float64{0.3, 0.6, 1})
		var sub []benchproc.Key
		for di := range keys {
			if have[di] && rrI.Chance(q) {
				sub = append(sub, keys[di])
			}
		}
		if len(sub) < 2 {
			continue
		}
		if rrI.Chance(0.3) {
			sub = append(sub, sub[rrI.Intn(len(sub))])
		}
		s1 := append([]benchproc.Key(nil), sub...)
		s2 := append([]benchproc.Key(nil), sub...)
		kit.Shuffle(rrI, s1)
		kit.Shuffle(rrI, s2)
		benchproc.SortKeys(s1)
		benchproc.SortKeys(s2)
		when := fmt.Sprintf("SortKeys during the history (after result %d of %d, %d of the keys seen so far)", ri+1, len(c.Stream), len(sub))
		cnt := map[benchproc.Key]int{}
		for _, k := range sub {
			cnt[k]++
		}
		for _, k := range s1 {
			cnt[k]--
		}
		for k, d := range cnt {
			if d != 0 || len(s1) != len(sub) {
				return kit.Failf("sort-not-permutation", "%q: %s: key %q occurs %d times fewer after sorting", text, when, k.String(), d)
			}
		}
		for i := 0; i+1 < len(s1); i++ {
			if s1[i+1].Less(s1[i]) {
				return kit.Failf("sort-not-sorted", "%q: %s: position %d holds %q and position %d holds %q which is Less", text, when, i, s1[i].String(), i+1, s1[i+1].String())
			}
		}
		for i := range s1 {
			if s1[i] != s2[i] {
				return kit.Failf("sort-arrangement-dependent", "%q: %s: two arrangements sort to different sequences at position %d: %q vs %q", text, when, i, s1[i].String(), s2[i].String())
			}
		}
		mids = append(mids, midSort{ri + 1, s1})
		kit.Count("c09.sorts_during_history", 1)
		// evidence: a sort that follows an earlier sort and the birth of a
		// .config sub-field in between
		ns := 0
		for _, f := range proj.Fields() {
			ns += len(f.Sub)
		}
		if len(mids) > 1 && ns > nSub {
			kit.Count("c09.sorts_during_history_after_new_config_subfield", 1)
		}
		nSub = ns
	}

	// The flattened fields, interpreted through the case.
	var flat []*c09Flat
	fs := proj.Fields()
	wantTop := len(c.Fields)
	if c.WithUnit {
		wantTop++
	}
	if len(fs) != wantTop {
		return kit.Failf("fields-shape", "%q: %d top-level fields, want %d", text, len(fs), wantTop)
	}
	var flatNames []string
	for i, f := range c.Fields {
		i := i
		if fs[i].Name != string(f.Key) {
			return kit.Failf("fields-shape", "%q: field %d is %q", text, i, fs[i].Name)
		}
		mk := func(name string) *c09Flat {
			ff := &c09Flat{name: name, order: f.Order}
			if f.Order == "fixed" {
				ff.fixed = map[string]int{}
				for j, w := range f.Fixed {
					ff.fixed[string(w)] = j
				}
			}
			return ff
		}
		if string(f.Key) != ".config" {
			ff := mk(string(f.Key))
			ff.rank = sim.topRank[i]
			ff.get = func(t *c09Tuple) string { return t.top[i] }
			flat = append(flat, ff)
			flatNames = append(flatNames, ff.name)
			continue
		}
		if !fs[i].IsTuple {
			return kit.Failf("fields-shape", "%q: .config is not a tuple field", text)
		}
		for _, sub := range fs[i].Sub {
			name := sub.Name
			ff := mk(name)
			ff.cfgKey = true
			ff.rank = sim.cfgRank[name]
			ff.born = sim.cfgBorn[name]
			if ff.rank == nil {
				return kit.Failf("config-subfield-unknown", "%q: .config has a sub-field %q that no result carried as non-excluded file configuration", text, name)
			}
			ff.get = func(t *c09Tuple) string { return t.cfg[name] }
			flat = append(flat, ff)
			flatNames = append(flatNames, name)
		}
	}
	if c.WithUnit {
		ff := &c09Flat{name: ".unit", rank: sim.unitRank, get: func(t *c09Tuple) string { return t.unit }}
		flat = append(flat, ff)
		flatNames = append(flatNames, ".unit")
	}
	var gotNames []string
	for _, f := range proj.FlattenedFields() {
		gotNames = append(gotNames, f.Name)
	}
	if strings.Join(gotNames, "\x00") != strings.Join(flatNames, "\x00") {
		return kit.Failf("flattened-shape", "%q: FlattenedFields=%q, Fields expanded=%q", text, gotNames, flatNames)
	}
	// every .config key the stream carried must have its sub-field (else its
	// order could not be observed at all)
	if len(sim.cfgRank) != 0 {
		seen := map[string]bool{}
		for _, ff := range flat {
			if ff.cfgKey {
				seen[ff.name] = true
			}
		}
		for k := range sim.cfgRank {
			if !seen[k] {
				return kit.Failf("config-subfield-missing", "%q: no sub-field for file key %q", text, k)
			}
		}
	}

	// The sequences sorted during the history respect every claimed pair. (The
	// order of two keys does not depend on when it is asked: first-observation
	// ranks are facts of the past, and a field born later is missing in both.)
	for _, ms := range mids {
		for i := 0; i < len(ms.seq); i++ {
			for j := i + 1; j < len(ms.seq); j++ {
				if ms.seq[i] == ms.seq[j] {
					continue
				}
				cmp, ok, fld, va, vb := c09Ref(flat, sim.distinct[byKey[ms.seq[i]]], sim.distinct[byKey[ms.seq[j]]])
				if ok && cmp > 0 {
					return kit.Failf("sort-"+c09Sig(fld, vb, va), "%q: SortKeys during the history (after result %d) puts %q before %q but field %s (order %q) has %q before %q", text, ms.after, ms.seq[i].String(), ms.seq[j].String(), fld.name, fld.order, vb, va)
				}
			}
		}
	}

	// All pairs.
	N := len(keys)
	L := make([][]bool, N)
	for i := range L {
		L[i] = make([]bool, N)
		for j := range L[i] {
			L[i][j] = keys[i].Less(keys[j])
		}
	}
	desc := func(i int) string { return fmt.Sprintf("%q", keys[i].String()) }
	var definite, ties, unclaimed, cfgMissing int64
	for i := 0; i < N; i++ {
		if L[i][i] {
			return kit.Failf("less-not-irreflexive", "%q: %s < itself", text, desc(i))
		}
		for j := i + 1; j < N; j++ {
			if L[i][j] && L[j][i] {
				return kit.Failf("less-not-asymmetric", "%q: %s < %s and the converse", text, desc(i), desc(j))
			}
			if !L[i][j] && !L[j][i] {
				return kit.Failf("less-not-total", "%q: distinct keys %s and %s are not ordered either way", text, desc(i), desc(j))
			}
			cmp, ok, fld, va, vb := c09Ref(flat, sim.distinct[i], sim.distinct[j])
			if fld == nil {
				return kit.Failf("monitor-bug-equal-tuples", "distinct tuples compare equal")
			}
			switch {
			case !ok:
				unclaimed++
			case cmp == 0:
				ties++
			default:
				definite++
				if fld.cfgKey && (va == "" || vb == "") {
					cfgMissing++
				}
				if L[i][j] != (cmp < 0) {
					a, b := i, j
					if cmp > 0 {
						a, b = j, i
						va, vb = vb, va
					}
					return kit.Failf(c09Sig(fld, va, vb), "%q: want %s < %s because field %s (order %q) has %q before %q, but Less says the converse",
						text, desc(a), desc(b), fld.name, fld.order, va, vb)
				}
			}
		}
	}
	for i := 0; i < N; i++ {
		for j := 0; j < N; j++ {
			if !L[i][j] {
				continue
			}
			for k := 0; k < N; k++ {
				if L[j][k] && !L[i][k] {
					return kit.Failf("less-not-transitive", "%q: %s < %s < %s but not %s < %s", text, desc(i), desc(j), desc(k), desc(i), desc(k))
				}
			}
		}
	}
	kit.Count("c09.pairs_definite", definite)
	kit.Count("c09.pairs_tie_direction_unspecified", ties)
	kit.Count("c09.pairs_unclaimed", unclaimed)
	kit.Count("c09.pairs_config_missing_vs_value", cfgMissing)
	kit.Count("c09.triples", int64(N)*int64(N)*int64(N))

	// SortKeys on random arrangements (with duplicates).
	rr := kit.NewRand(c.Seed, "c09-sort", 0)
	base := append([]benchproc.Key(nil), keys...)
	for d := 0; d < c.Dup && N > 0; d++ {
		base = append(base, keys[rr.Intn(N)])
	}
	count := map[benchproc.Key]int{}
	for _, k := range base {
		count[k]++
	}
	var first []benchproc.Key
	for p := 0; p < c.Perms; p++ {
		s := append([]benchproc.Key(nil), base...)
		switch p {
		case 0: // as observed
		case 1: // reversed
			for i, j := 0, len(s)-1; i < j; i, j = i+1, j-1 {
				s[i], s[j] = s[j], s[i]
			}
		default:
			kit.Shuffle(rr, s)
		}
		benchproc.SortKeys(s)
		if len(s) != len(base) {
			return kit.Failf("sort-not-permutation", "%q: length changed", text)
		}
		got := map[benchproc.Key]int{}
		for _, k := range s {
			got[k]++
		}
		for k, n := range count {
			if got[k] != n {
				return kit.Failf("sort-not-permutation", "%q: key %q occurs %d times after sorting, %d before", text, k.String(), got[k], n)
			}
		}
		for i := 0; i+1 < len(s); i++ {
			if s[i+1].Less(s[i]) {
				return kit.Failf("sort-not-sorted", "%q: after SortKeys position %d holds %q and position %d holds %q which is Less", text, i, s[i].String(), i+1, s[i+1].String())
			}
		}
		if first == nil {
			first = s
			// the sorted sequence also respects every claimed pair
			for i := 0; i < len(s); i++ {
				for j := i + 1; j < len(s); j++ {
					if s[i] == s[j] {
						continue
					}
					cmp, ok, fld, va, vb := c09Ref(flat, sim.distinct[byKey[s[i]]], sim.distinct[byKey[s[j]]])
					if ok && cmp > 0 {
						return kit.Failf("sort-"+c09Sig(fld, vb, va), "%q: SortKeys puts %q before %q but field %s (order %q) has %q before %q", text, s[i].String(), s[j].String(), fld.name, fld.order, vb, va)
					}
				}
			}
			continue
		}
		for i := range s {
			if s[i] != first[i] {
				return kit.Failf("sort-arrangement-dependent", "%q: arrangement %d sorts to a different sequence at position %d: %q vs %q", text, p, i, s[i].String(), first[i].String())
			}
		}
	}
	kit.Count("c09.sorted_arrangements", int64(c.Perms))
	// Comparison is reproducible: sorting did not change it.
	for i := 0; i < N; i++ {
		j := (i*7 + 3) % N
		if keys[i].Less(keys[j]) != L[i][j] {
			return kit.Failf("less-not-reproducible", "%q: Less(%s,%s) changed after SortKeys", text, desc(i), desc(j))
		}
	}
	return nil
}

// ---------------------------------------------------------------------------
// Generator

func c09Pool(order string, fixed []kit.B, nameSafe bool) []string {
	switch order {
	case "num":
		if nameSafe {
			return c09NumPoolName
		}
		return c09NumPool
	case "fixed":
		out := make([]string, len(fixed))
		for i, w := range fixed {
			out[i] = string(w)
		}
		return out
	}
	if nameSafe {
		return c09WordsName
	}
	return c09Words
}

// Spellings the num order cannot separate (equal value, NaNs, non-numbers).
var c09NumClusters = [][]string{
	{"1", "1.0", "1e0"}, {"1000", "1e3", "1E3", "1k"}, {"1e6", "1M", "1000k", "1MB"}, {"1024", "1Ki", "1KiB"},
	{"1048576", "1Mi"}, {"1Ei", "1Zi", "2ZiB", "1Yi", "3YiB", "1Z", "1Y", "3YB", "1E", "1P", "1Pi", "1Ti"}, {"2k", "2kB"}, {"0.001", "1e-3"}, {"NaN", "nan"}, {"+Inf", "Inf"}, {"abc", "x", "foo", "zed", "Q"}, {".", "..", "file.go", "a.b.c", "v.", "abc"},
	{"9", "10", "100"}, {"-1", "-2.5", "-Inf"},
}

// c09NumSub draws a num sub-pool that contains one to three whole clusters
// plus a few other spellings.
func c09NumSub(r *kit.Rand, nameSafe bool) []string {
	seen := map[string]bool{}
	var out []string
	add := func(s string) {
		if seen[s] || (nameSafe && strings.Contains(s, "-")) {
			return
		}
		seen[s] = true
		out = append(out, s)
	}
	for n := r.Range(1, 3); n > 0; n-- {
		for _, s := range kit.Pick(r, c09NumClusters) {
			add(s)
		}
	}
	for n := r.Range(1, 5); n > 0; n-- {
		add(kit.Pick(r, c09NumPool))
	}
	if len(out) < 2 {
		add("1")
		add("2k")
	}
	kit.Shuffle(r, out)
	return out
}

// c09Sub draws a small sub-pool so that values repeat and tuples collide.
func c09Sub(r *kit.Rand, pool []string, lo, hi int) []string {
	p := append([]string(nil), pool...)
	kit.Shuffle(r, p)
	n := r.Range(lo, hi)
	if n > len(p) {
		n = len(p)
	}
	return p[:n]
}

func c09Gen(r *kit.Rand, i int) c09Case {
	c := c09Case{Seed: r.Uint64(), Perms: 12, Dup: r.Intn(6)}
	if kit.Thorough() {
		c.Perms = 50
	}
	if i%3 == 0 {
		c.Perms = 50
	}
	c.WithUnit = r.Chance(0.25)

	// Fields: each key at most once.
	cand := []string{".config", ".name", ".fullname", "/a", "/b", "k1", "k2"}
	kit.Shuffle(r, cand)
	nf := kit.Pick(r, []int{1, 2, 2, 2, 3, 3, 4})
	if r.Chance(0.6) {
		// make sure .config is there more often than chance alone gives
		for j, k := range cand {
			if k == ".config" {
				cand[0], cand[j] = cand[j], cand[0]
			}
		}
		kit.Shuffle(r, cand[:nf])
	}
	hasName := false
	for _, k := range cand[:nf] {
		if k == ".name" {
			hasName = true
		}
	}
	for _, k := range cand[:nf] {
		f := c09Field{Key: kit.B(k)}
		switch x := r.Intn(20); {
		case x < 8:
		case x < 11:
			f.Order = "alpha"
		case x < 17:
			f.Order = "num"
		default:
			f.Order = "fixed"
		}
		if k == ".config" && f.Order == "fixed" {
			f.Order = ""
		}
		if k == ".fullname" && hasName && (f.Order == "num" || f.Order == "fixed") {
			f.Order = "alpha"
		}
		if f.Order == "fixed" {
			for _, w := range c09Sub(r, c09WordsName, 2, 5) {
				f.Fixed = append(f.Fixed, kit.B(w))
			}
		}
		c.Fields = append(c.Fields, f)
	}
	field := map[string]*c09Field{}
	for j := range c.Fields {
		field[string(c.Fields[j].Key)] = &c.Fields[j]
	}

	// Value pools.
	always := map[string]bool{} // keys that must always be present (fixed order)
	poolFor := func(f *c09Field, nameSafe bool) []string {
		if f == nil {
			return c09Sub(r, c09Pool("", nil, nameSafe), 2, 5)
		}
		if f.Order == "fixed" {
			return c09Pool("fixed", f.Fixed, nameSafe)
		}
		if f.Order == "num" {
			return c09NumSub(r, nameSafe)
		}
		return c09Sub(r, c09Pool(f.Order, nil, nameSafe), 3, 9)
	}
	fullStrict := false // .fullname@num/fixed: its value must come from its pool
	var basePool []string
	if f := field[".name"]; f != nil {
		basePool = poolFor(f, true)
	} else if f := field[".fullname"]; f != nil && (f.Order == "num" || f.Order == "fixed") {
		basePool = poolFor(f, true)
		fullStrict = true
	} else {
		basePool = poolFor(nil, true)
	}
	partKeys := []string{"a", "b", "c"}
	partPool := map[string][]string{}
	for _, k := range partKeys {
		f := field["/"+k]
		if f == nil && fullStrict {
			continue // a non-projected part would end up inside .fullname
		}
		partPool[k] = poolFor(f, true)
		if f != nil && f.Order == "fixed" {
			always["/"+k] = true
		}
	}
	cfgKeys := []string{"k1", "k2", "k3", "k4", "k5", "k 6"}
	cfgPool := map[string][]string{}
	for _, k := range cfgKeys {
		f := field[k]
		if f == nil {
			f = field[".config"]
			if f == nil {
				continue // neither projected nor in a group: irrelevant
			}
			if f.Order == "num" {
				cfgPool[k] = c09NumSub(r, false)
			} else {
				cfgPool[k] = c09Sub(r, c09Pool(f.Order, nil, false), 2, 6)
			}
			continue
		}
		cfgPool[k] = poolFor(f, false)
		if f.Order == "fixed" {
			always[k] = true
		}
	}

	// Stream: configuration keys become available progressively.
	nres := r.Range(10, 160)
	capKeys := r.Range(25, 60)
	avail := map[string]int{}
	for j, k := range cfgKeys {
		switch {
		case j < 2 || r.Chance(0.3):
			avail[k] = 0
		default:
			avail[k] = r.Range(1, nres/2+1)
		}
	}
	pPart := r.Float64()*0.7 + 0.2
	pCfg := r.Float64()*0.7 + 0.2
	units := c09Sub(r, []string{"u1", "u2", "a", "b", "sec/op"}, 1, 4)
	seen := map[string]bool{}
	sc, sn := c09Sets(&c)
	for t := 0; t < nres; t++ {
		var res c09Res
		res.Base = kit.B(kit.Pick(r, basePool))
		if res.Base == "" {
			res.Base = "X"
		}
		ks := append([]string(nil), partKeys...)
		kit.Shuffle(r, ks)
		for _, k := range ks {
			p := partPool[k]
			if p == nil {
				continue
			}
			if always["/"+k] || r.Chance(pPart) {
				res.Parts = append(res.Parts, c09KV{kit.B(k), kit.B(kit.Pick(r, p))})
			}
		}
		cs := append([]string(nil), cfgKeys...)
		kit.Shuffle(r, cs)
		for _, k := range cs {
			p := cfgPool[k]
			if p == nil {
				continue
			}
			if always[k] || (avail[k] <= t && r.Chance(pCfg)) {
				v := kit.Pick(r, p)
				if v == "" {
					continue
				}
				res.Cfg = append(res.Cfg, c09KV{kit.B(k), kit.B(v)})
			}
		}
		nu := 1
		if c.WithUnit {
			nu = r.Range(1, 3)
		}
		for j := 0; j < nu; j++ {
			res.Units = append(res.Units, kit.B(kit.Pick(r, units)))
		}
		// stop before the number of distinct keys exceeds the cap
		add := 0
		us := []string{""}
		if c.WithUnit {
			us = us[:0]
			for _, u := range res.Units {
				us = append(us, string(u))
			}
		}
		var canons []string
		for _, u := range us {
			cn := c09Expect(&c, &res, u, sc, sn).canon
			if !seen[cn] {
				add++
				canons = append(canons, cn)
			}
		}
		if len(seen)+add > capKeys {
			if r.Chance(0.5) {
				break
			}
			continue
		}
		for _, cn := range canons {
			seen[cn] = true
		}
		c.Stream = append(c.Stream, res)
	}
	if i%4 != 0 {
		c.Inter = r.Range(2, 8)
	}
	return c
}

// c09GenInter: every case sorts during the history.
func c09GenInter(r *kit.Rand, i int) c09Case {
	c := c09Gen(r, i)
	if c.Inter == 0 {
		c.Inter = 5
	}
	return c
}

// c09NonTrivialInter: the plain rule, sorts during the history, a field after
// .config in the flattened order, and a .config key that is first seen after
// at least a quarter of the history.
func c09NonTrivialInter(c c09Case) bool {
	if c.Inter < 2 || !c09NonTrivial(c) {
		return false
	}
	ci := -1
	for i, f := range c.Fields {
		if string(f.Key) == ".config" {
			ci = i
		}
	}
	if ci < 0 || (ci == len(c.Fields)-1 && !c.WithUnit) {
		return false
	}
	sc, _ := c09Sets(&c)
	born := map[string]bool{}
	for ri := range c.Stream {
		for _, kv := range c.Stream[ri].Cfg {
			k := string(kv.K)
			if sc[k] || born[k] {
				continue
			}
			born[k] = true
			if ri >= len(c.Stream)/4 && ri > 0 {
				return true
			}
		}
	}
	return false
}

func c09NonTrivial(c c09Case) bool {
	if !c09Valid(&c) {
		return false
	}
	sim := c09Simulate(&c)
	if len(sim.distinct) < 10 {
		return false
	}
	kinds := map[string]bool{}
	cfg := false
	for _, f := range c.Fields {
		kinds[f.Order] = true
		if string(f.Key) == ".config" {
			cfg = true
		}
	}
	nflat := len(c.Fields) + len(sim.cfgRank)
	if c.WithUnit {
		nflat++
	}
	return nflat >= 2 && (len(kinds) >= 2 || cfg)
}

func TestVerifC09(t *testing.T) {
	inter := kit.Class[c09Case]{
		Name: "sorts-during-history", Quick: 4000, Thorough: 60000,
		Gen: c09GenInter, Check: c09Check, NonTrivial: c09NonTrivialInter, MinNonTrivial: 400,
		Rule: "same generator; every case calls SortKeys 2-8 times DURING the history on random subsets (30%/60%/all, sometimes with a duplicate) of the keys seen so far, each from two arrangements: permutation, adjacent elements by Key.Less at that moment, both arrangements identical, and (after the history) every claimed pair of the reference order; then the end-of-history checks as before; " +
			"non-trivial = the plain rule, .config is projected and not the last flattened field, and a non-excluded file key is first seen after >= 1/4 of the history",
	}
	kit.Run(t, "C09", inter, kit.Class[c09Case]{
		Name: "orders-x-histories", Quick: 9000, Thorough: 250000,
		Gen: c09Gen, Check: c09Check, NonTrivial: c09NonTrivial, MinNonTrivial: 1200,
		Rule: "one projection of 1-4 fields over {.config,.name,.fullname,/a,/b,k1,k2} with first/alpha/num/fixed orders (optionally ParseWithUnit), " +
			"a history of up to 160 results whose values come from small per-key pools (curated num spellings incl. SI/IEC suffixes, numerically equal spellings, NaN/nan, +-Inf, digit-free words; " +
			"words incl. upper/lower case, non-ASCII and 0xff; fixed lists) with missing values and file keys that become available progressively, capped at 25-60 distinct keys; " +
			"Less on all pairs and triples of the distinct keys, SortKeys on 12-50 arrangements with duplicates; non-trivial = >=10 distinct keys, >=2 flattened fields and (>=2 kinds of order or .config)",
	})
}
