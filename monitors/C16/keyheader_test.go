//go:build verif

package benchproc_test

// C16 unit 2: benchproc.NewKeyHeader builds, for a sequence of keys of one
// projection, a forest whose level-i nodes partition the key sequence into
// maximal runs of keys agreeing on fields 0..i. This is the structure the
// text table uses for its multi-level column header: every key column is
// under exactly one header cell per level.
//
// The oracle restates the doc comments of KeyHeader/KeyHeaderNode as
// constraints on the returned structure; it looks at values only through
// Key.Get.

import (
	"fmt"
	"strings"
	"sync"
	"testing"

	"golang.org/x/perf/benchfmt"
	"golang.org/x/perf/benchproc"
	kit "golang.org/x/perf/internal/verifkit"
)

type c16KHResult struct {
	Name kit.B      // full benchmark name
	Cfg  [][2]kit.B // file configuration in order
}

type c16KHCase struct {
	ID      int
	Proj    string
	Results []c16KHResult
	Sort    bool // SortKeys before building the header
	Dedup   bool // drop repeated keys (as table columns are distinct)
}

var c16KHNonTrivial sync.Map

func c16KHCheck(c c16KHCase) *kit.Fail {
	filter, err := benchproc.NewFilter("*")
	if err != nil {
		kit.Count("c16.kh.setup-failed", 1)
		return nil
	}
	var parser benchproc.ProjectionParser
	proj, err := parser.Parse(c.Proj, filter)
	if err != nil {
		kit.Count("c16.kh.setup-failed", 1)
		return nil
	}
	var keys []benchproc.Key
	seen := map[benchproc.Key]bool{}
	for _, r := range c.Results {
		res := &benchfmt.Result{Name: benchfmt.Name(r.Name), Iters: 1}
		for _, kv := range r.Cfg {
			res.Config = append(res.Config, benchfmt.Config{Key: string(kv[0]), Value: []byte(kv[1]), File: true})
		}
		k := proj.Project(res)
		if c.Dedup && seen[k] {
			continue
		}
		seen[k] = true
		keys = append(keys, k)
	}
	if c.Sort {
		benchproc.SortKeys(keys)
	}
	in := append([]benchproc.Key(nil), keys...)

	kh := benchproc.NewKeyHeader(keys)
	if kh == nil {
		return kit.Failf("kh-nil", "NewKeyHeader returned nil")
	}
	desc := func() string {
		var sb strings.Builder
		fmt.Fprintf(&sb, "\nprojection %q, keys:", c.Proj)
		for i, k := range in {
			fmt.Fprintf(&sb, "\n  K[%d] = %s", i, k)
		}
		var walk func(ns []*benchproc.KeyHeaderNode, ind string)
		walk = func(ns []*benchproc.KeyHeaderNode, ind string) {
			for _, n := range ns {
				if n == nil {
					fmt.Fprintf(&sb, "\n%s<nil>", ind)
					continue
				}
				fmt.Fprintf(&sb, "\n%slevel %d %q [%d,%d)", ind, n.Field, n.Value, n.Start, n.Start+n.Len)
				walk(n.Children, ind+"  ")
			}
		}
		sb.WriteString("\nheader:")
		walk(kh.Top, "  ")
		return sb.String()
	}
	if len(in) == 0 {
		if len(kh.Top) != 0 || len(kh.Keys) != 0 {
			return kit.Failf("kh-empty", "no keys but %d roots, %d keys", len(kh.Top), len(kh.Keys))
		}
		return nil
	}
	if len(kh.Keys) != len(in) {
		return kit.Failf("kh-keys", "Keys has %d entries for %d keys%s", len(kh.Keys), len(in), desc())
	}
	for i := range in {
		if kh.Keys[i] != in[i] {
			return kit.Failf("kh-keys", "Keys[%d] = %s, input key %s%s", i, kh.Keys[i], in[i], desc())
		}
	}
	fields := proj.FlattenedFields()
	if len(kh.Levels) != len(fields) {
		return kit.Failf("kh-levels", "%d levels for a projection of %d fields%s", len(kh.Levels), len(fields), desc())
	}
	for i := range fields {
		if kh.Levels[i] != fields[i] {
			return kit.Failf("kh-levels", "level %d is field %v, projection field %d is %v%s", i, kh.Levels[i], i, fields[i], desc())
		}
	}
	depth := len(fields)
	if depth == 0 {
		if len(kh.Top) != 0 {
			return kit.Failf("kh-depth", "projection without fields but %d roots%s", len(kh.Top), desc())
		}
		return nil
	}

	n := len(in)
	level := kh.Top
	maxChildren, acrossParents := 0, 0
	type rng struct{ start, end int }
	var parents []rng // range of the parent of each node of `level` (level 0: the whole sequence)
	for range level {
		parents = append(parents, rng{0, n})
	}
	for l := 0; l < depth; l++ {
		pos := 0
		var next []*benchproc.KeyHeaderNode
		var nextParents []rng
		for i, nd := range level {
			if nd == nil {
				return kit.Failf("kh-nil-node", "nil node at level %d%s", l, desc())
			}
			if nd.Field != l {
				return kit.Failf("kh-node-level", "node %q at depth %d has Field %d%s", nd.Value, l, nd.Field, desc())
			}
			if nd.Len < 1 {
				return kit.Failf("kh-partition", "level %d node %q has Len %d%s", l, nd.Value, nd.Len, desc())
			}
			if nd.Start != pos {
				return kit.Failf("kh-partition", "level %d: node %q starts at key %d, previous node ended at %d (nodes of a level must partition the keys contiguously)%s", l, nd.Value, nd.Start, pos, desc())
			}
			pos = nd.Start + nd.Len
			if pos > n {
				return kit.Failf("kh-partition", "level %d: node %q ends at key %d of %d%s", l, nd.Value, pos, n, desc())
			}
			if nd.Start < parents[i].start || pos > parents[i].end {
				return kit.Failf("kh-child-outside-parent", "level %d: node %q covers keys [%d,%d), its parent [%d,%d)%s", l, nd.Value, nd.Start, pos, parents[i].start, parents[i].end, desc())
			}
			for k := nd.Start; k < pos; k++ {
				if got := in[k].Get(fields[l]); got != nd.Value {
					return kit.Failf("kh-value", "level %d: node %q covers K[%d] whose %s is %q%s", l, nd.Value, k, fields[l].Name, got, desc())
				}
			}
			if i > 0 && parents[i] == parents[i-1] && level[i-1].Value == nd.Value {
				return kit.Failf("kh-equal-siblings", "level %d: adjacent siblings both %q%s", l, nd.Value, desc())
			}
			if i > 0 && parents[i] != parents[i-1] && level[i-1].Value == nd.Value {
				acrossParents++
			}
			// children
			if l+1 == depth {
				if len(nd.Children) != 0 {
					return kit.Failf("kh-depth", "leaf-level node %q has %d children%s", nd.Value, len(nd.Children), desc())
				}
				continue
			}
			if len(nd.Children) == 0 {
				return kit.Failf("kh-depth", "level %d node %q has no children but the projection has %d fields%s", l, nd.Value, depth, desc())
			}
			if len(nd.Children) > maxChildren {
				maxChildren = len(nd.Children)
			}
			cpos := nd.Start
			for _, ch := range nd.Children {
				if ch == nil {
					return kit.Failf("kh-nil-node", "nil child at level %d%s", l+1, desc())
				}
				if ch.Start != cpos {
					return kit.Failf("kh-child-outside-parent", "children of level %d node %q [%d,%d) do not tile it: child %q starts at %d, expected %d%s", l, nd.Value, nd.Start, pos, ch.Value, ch.Start, cpos, desc())
				}
				cpos = ch.Start + ch.Len
				next = append(next, ch)
				nextParents = append(nextParents, rng{nd.Start, pos})
			}
			if cpos != pos {
				return kit.Failf("kh-child-outside-parent", "children of level %d node %q [%d,%d) end at %d%s", l, nd.Value, nd.Start, pos, cpos, desc())
			}
		}
		if pos != n {
			return kit.Failf("kh-partition", "level %d nodes cover keys [0,%d) of %d%s", l, pos, n, desc())
		}
		level, parents = next, nextParents
	}
	if acrossParents > 0 {
		kit.Count("c16.kh.equal-values-under-different-parents", int64(acrossParents))
	}
	kit.Count("c16.kh.keys", int64(n))
	c16KHNonTrivial.Store(c.ID, depth >= 2 && n >= 3 && maxChildren >= 2 && acrossParents > 0)
	return nil
}

func c16KHGen(r *kit.Rand, id int) c16KHCase {
	c := c16KHCase{ID: id, Sort: r.Chance(0.8), Dedup: r.Chance(0.85)}
	// projection: 1-4 parts out of specific file keys, sub-name keys, .name, and the groups
	pool := []string{"a", "b", "c", "/x", "/y", ".name", ".config", ".fullname", "a@alpha", "b@num", "/x@num", "/y@alpha"}
	used := map[string]bool{}
	var parts []string
	for len(parts) < r.Range(1, 4) {
		p := kit.Pick(r, pool)
		base := strings.SplitN(p, "@", 2)[0]
		if used[base] {
			continue
		}
		used[base] = true
		parts = append(parts, p)
	}
	c.Proj = strings.Join(parts, kit.Pick(r, []string{",", " "}))
	nvals := r.Range(1, 3)
	val := func() string {
		return kit.Pick(r, []string{"1", "2", "1k", "1000", "v", "w", "é☃", ""}[:2+nvals*2])
	}
	cfgKeys := []string{"a", "b", "c", "d"}
	n := r.Range(0, 14)
	if r.Chance(0.05) {
		n = 0
	}
	for i := 0; i < n; i++ {
		var res c16KHResult
		name := kit.Pick(r, []string{"Foo", "Bar", "Baz"}[:r.Range(1, 3)])
		for _, k := range []string{"x", "y", "z"} {
			if r.Chance(0.7) {
				if v := val(); v != "" {
					name += "/" + k + "=" + v
				}
			}
		}
		if r.Chance(0.3) {
			name += "-" + kit.Pick(r, []string{"4", "8"})
		}
		res.Name = kit.B(name)
		for _, k := range cfgKeys {
			if r.Chance(0.75) {
				res.Cfg = append(res.Cfg, [2]kit.B{kit.B(k), kit.B(val())})
			}
		}
		c.Results = append(c.Results, res)
	}
	return c
}

func TestVerifC16KeyHeader(t *testing.T) {
	kit.Run(t, "C16", kit.Class[c16KHCase]{
		Name: "keyheader", Quick: 30000, Thorough: 800000,
		Gen:   c16KHGen,
		Check: c16KHCheck,
		NonTrivial: func(c c16KHCase) bool {
			v, ok := c16KHNonTrivial.Load(c.ID)
			return ok && v.(bool)
		},
		MinNonTrivial: 2000,
		Rule: "0-14 results with file keys a..d, sub-name keys x,y,z and 1-3 base names over 2-8 values (incl. empty and multi-byte) projected by 1-4 of {a,b,c,/x,/y,.name,.config,.fullname, @alpha/@num orders}, " +
			"usually deduplicated and sorted with SortKeys (20% unsorted, 15% with repeats); non-trivial = >= 2 levels, >= 3 keys, a node with >= 2 children and two adjacent equal values under different parents",
	})
}
