//go:build verif

package texttab_test

// C16 unit 1: the fixed-width layout engine (texttab) never truncates,
// reorders or overlaps cell texts, keeps every logical column at the same rune
// offsets on every line, and never ends a line in blanks.
//
// Method: a random table is described as a shadow list of cells, driven
// through the exported texttab API, and the rendered lines are tokenised (cell
// texts contain no blanks by construction). Token content, order and rune
// offsets are compared with what the shadow list says. The oracle knows
// nothing about how widths are computed; it only states constraints that any
// lossless, aligned layout satisfies.

import (
	"bytes"
	"fmt"
	"strings"
	"sync"
	"testing"
	"unicode/utf8"

	"golang.org/x/perf/cmd/benchstat/internal/texttab"
	kit "golang.org/x/perf/internal/verifkit"
)

type c16Cell struct {
	Col, Span int
	Text      kit.B
	Align     int // 0 left, 1 centre, 2 right
	HasMargin bool
	Margin    kit.B
}

type c16Table struct {
	ID     int
	Rows   [][]c16Cell
	Shrink []bool
	// ShrinkFirst: call SetShrink before adding the cells (else after).
	ShrinkFirst bool
}

func c16RuneLen(s string) int { return utf8.RuneCountInString(s) }

// c16EffMargin is the left margin the API documents for a cell: the explicit
// one, else one blank, except in column 0 and for empty cells.
func c16EffMargin(c c16Cell) string {
	if c.HasMargin {
		return string(c.Margin)
	}
	if c.Col == 0 || len(c.Text) == 0 {
		return ""
	}
	return " "
}

func c16Shrunk(t c16Table, col int) bool {
	return col < len(t.Shrink) && t.Shrink[col]
}

// c16InDomain reports whether the table is inside the documented domain of
// the monitor (see NOTES.md). allShrink additionally admits multi-column
// spans lying only on shrink columns.
func c16InDomain(t c16Table, allShrink bool) bool {
	if len(t.Rows) == 0 || len(t.Rows[0]) == 0 {
		return false
	}
	for _, row := range t.Rows {
		next := 0
		for _, c := range row {
			if c.Col < next || c.Span < 1 || c.Align < 0 || c.Align > 2 {
				return false
			}
			next = c.Col + c.Span
			txt := string(c.Text)
			if !utf8.ValidString(txt) || strings.ContainsAny(txt, " \t\n\r\v\f\u0085 ") {
				return false
			}
			m := c16EffMargin(c)
			if !utf8.ValidString(m) {
				return false
			}
			if txt == "" {
				// empty cell: left-aligned, margin without trailing blank
				if c.Align != 0 || strings.HasSuffix(m, " ") {
					return false
				}
				if m != "" && !strings.HasPrefix(m, " ") {
					return false
				}
			} else {
				// non-empty cell: margin is blank-delimited on both sides
				// unless it is the empty margin of column 0.
				if m == "" {
					if c.Col != 0 {
						return false
					}
				} else if !strings.HasPrefix(m, " ") || !strings.HasSuffix(m, " ") {
					return false
				}
			}
			if c.Span > 1 && !allShrink {
				ok := false
				for j := c.Col; j < c.Col+c.Span; j++ {
					if !c16Shrunk(t, j) {
						ok = true
					}
				}
				if !ok {
					return false
				}
			}
		}
	}
	return true
}

type c16Tok struct {
	s          string
	start, end int // rune offsets, end exclusive
}

func c16Tokens(line string) []c16Tok {
	var toks []c16Tok
	rs := []rune(line)
	i := 0
	for i < len(rs) {
		if rs[i] == ' ' {
			i++
			continue
		}
		j := i
		for j < len(rs) && rs[j] != ' ' {
			j++
		}
		toks = append(toks, c16Tok{string(rs[i:j]), i, j})
		i = j
	}
	return toks
}

type c16Placed struct {
	row       int
	cell      c16Cell
	a, b      int // rune offsets of the cell text
	marginLen int // rune length of this cell's own margin
}

type c16TTStats struct {
	spans, widerSpans, shrinkCols, emptyCells, skipped, multibyte int
	centreChecked, shrinkChecked, leftGroups, rightGroups         int
	visibleRows                                                   int
}

var c16TTNonTrivial sync.Map // ID -> bool

func c16Render(t c16Table) (string, error) {
	var tab texttab.Table
	setShrink := func() {
		for i, s := range t.Shrink {
			tab.SetShrink(i, s)
		}
	}
	if t.ShrinkFirst {
		setShrink()
	}
	for _, row := range t.Rows {
		tab.Row()
		for _, c := range row {
			if c.Col != tab.CurCol() {
				tab.Col(c.Col)
			}
			var opts []texttab.CellOption
			switch c.Align {
			case 0:
				if c.Col%2 == 0 {
					opts = append(opts, texttab.Left) // explicit and implicit default
				}
			case 1:
				opts = append(opts, texttab.Center)
			case 2:
				opts = append(opts, texttab.Right)
			}
			if c.HasMargin {
				opts = append(opts, texttab.LeftMargin(string(c.Margin)))
			}
			if c.Span == 1 {
				tab.Cell(string(c.Text), opts...)
			} else {
				tab.Span(c.Span, string(c.Text), opts...)
			}
		}
	}
	if !t.ShrinkFirst {
		setShrink()
	}
	var buf bytes.Buffer
	err := tab.Format(&buf)
	return buf.String(), err
}

// c16CheckTable is the oracle. allShrink: the table may contain spans over
// shrink-only columns (separate class, see NOTES.md).
func c16CheckTable(t c16Table, allShrink bool) *kit.Fail {
	if !c16InDomain(t, allShrink) {
		kit.Count("c16.tt.out-of-domain", 1)
		return nil
	}
	f, st := c16CheckTable1(t, allShrink)
	if f != nil && allShrink {
		if why := c16AllShrinkMustGrow(t); why != "" {
			return kit.Failf("tt-allshrink-span-cannot-grow", "%s; observed as [%s] %s", why, f.Sig, f.Msg)
		}
	}
	if f == nil {
		nt := st.visibleRows >= 2 && st.spans >= 1
		c16TTNonTrivial.Store(t.ID, nt)
		kit.Count("c16.tt.spans", int64(st.spans))
		kit.Count("c16.tt.spans-wider-than-columns-beneath", int64(st.widerSpans))
		kit.Count("c16.tt.shrink-columns", int64(st.shrinkCols))
		kit.Count("c16.tt.empty-cells", int64(st.emptyCells))
		kit.Count("c16.tt.skipped-columns", int64(st.skipped))
		kit.Count("c16.tt.cells-with-multibyte-runes", int64(st.multibyte))
		kit.Count("c16.tt.centre-checks", int64(st.centreChecked))
		kit.Count("c16.tt.shrink-width-checks", int64(st.shrinkChecked))
		kit.Count("c16.tt.left-start-groups", int64(st.leftGroups))
		kit.Count("c16.tt.right-end-groups", int64(st.rightGroups))
	}
	return f
}

// c16AllShrinkMustGrow returns a description of the first multi-column span
// that lies only on shrink columns and is wider than the single cells beneath
// it (so that no layout can honour both the shrink flags and the span).
func c16AllShrinkMustGrow(t c16Table) string {
	ncols := 0
	for _, row := range t.Rows {
		for _, c := range row {
			if c.Col+c.Span > ncols {
				ncols = c.Col + c.Span
			}
		}
	}
	lm := make([]int, ncols)
	for _, row := range t.Rows {
		for _, c := range row {
			if n := c16RuneLen(c16EffMargin(c)); n > lm[c.Col] {
				lm[c.Col] = n
			}
		}
	}
	minw := make([]int, ncols)
	for _, row := range t.Rows {
		for _, c := range row {
			if c.Span == 1 {
				if w := c16RuneLen(string(c.Text)) + lm[c.Col]; w > minw[c.Col] {
					minw[c.Col] = w
				}
			}
		}
	}
	for ri, row := range t.Rows {
		for _, c := range row {
			if c.Span < 2 {
				continue
			}
			all := true
			sum := 0
			for j := c.Col; j < c.Col+c.Span; j++ {
				if !c16Shrunk(t, j) {
					all = false
				}
				sum += minw[j]
			}
			if all && c16RuneLen(string(c.Text))+lm[c.Col] > sum {
				return fmt.Sprintf("row %d: span %q over shrink-only columns %d..%d needs %d runes, single cells beneath give %d", ri, c.Text, c.Col, c.Col+c.Span-1, c16RuneLen(string(c.Text))+lm[c.Col], sum)
			}
		}
	}
	return ""
}

func c16CheckTable1(t c16Table, allShrink bool) (*kit.Fail, c16TTStats) {
	var st c16TTStats
	out, err := c16Render(t)
	if err != nil {
		return kit.Failf("tt-format-error", "Format returned %v", err), st
	}
	show := func() string { return fmt.Sprintf("\noutput:\n%s", strings.ReplaceAll(out, " ", "·")) }

	// Shadow geometry facts that do not depend on the layout algorithm.
	ncols := 0
	for _, row := range t.Rows {
		for _, c := range row {
			if c.Col+c.Span > ncols {
				ncols = c.Col + c.Span
			}
		}
	}
	colMargin := make([]int, ncols) // widest margin among cells starting in the column
	for _, row := range t.Rows {
		for _, c := range row {
			if n := c16RuneLen(c16EffMargin(c)); n > colMargin[c.Col] {
				colMargin[c.Col] = n
			}
		}
	}

	lines := strings.Split(out, "\n")
	if out != "" {
		if !strings.HasSuffix(out, "\n") {
			return kit.Failf("tt-line-count", "output does not end in a newline%s", show()), st
		}
		lines = lines[:len(lines)-1]
	} else {
		lines = nil
	}
	for i, l := range lines {
		if strings.HasSuffix(l, " ") {
			return kit.Failf("tt-trailing-blank", "line %d ends in blanks: %q%s", i, l, show()), st
		}
	}

	visible := func(c c16Cell) bool {
		return strings.TrimSpace(string(c.Text)) != "" || strings.TrimSpace(c16EffMargin(c)) != ""
	}
	lastVisible := -1
	for ri, row := range t.Rows {
		for _, c := range row {
			if visible(c) {
				lastVisible = ri
			}
		}
	}
	if len(lines) < lastVisible+1 {
		return kit.Failf("tt-line-count", "%d lines for %d rows with content%s", len(lines), lastVisible+1, show()), st
	}
	for i := lastVisible + 1; i < len(lines); i++ {
		if lines[i] != "" {
			return kit.Failf("tt-line-count", "line %d %q has no row with content%s", i, lines[i], show()), st
		}
	}

	// Token content and order.
	var placed []c16Placed
	for ri := 0; ri <= lastVisible; ri++ {
		var want []string
		type ref struct {
			cell  c16Cell
			index int // token index of the cell text, -1 if empty
		}
		var refs []ref
		prevEnd := 0
		rowVisible := false
		for _, c := range t.Rows[ri] {
			st.skipped += c.Col - prevEnd
			prevEnd = c.Col + c.Span
			if c.Span > 1 {
				st.spans++
			}
			if c.Text == "" {
				st.emptyCells++
			}
			if len(c.Text) != c16RuneLen(string(c.Text)) {
				st.multibyte++
			}
			if !visible(c) {
				continue
			}
			rowVisible = true
			if m := strings.TrimSpace(c16EffMargin(c)); m != "" {
				want = append(want, strings.Fields(m)...)
			}
			if c.Text != "" {
				refs = append(refs, ref{c, len(want)})
				want = append(want, string(c.Text))
			}
		}
		if rowVisible {
			st.visibleRows++
		}
		toks := c16Tokens(lines[ri])
		got := make([]string, len(toks))
		for i, tk := range toks {
			got[i] = tk.s
		}
		if strings.Join(got, "\x00") != strings.Join(want, "\x00") {
			return kit.Failf("tt-tokens", "row %d: rendered tokens %q, cells (margins and texts in order) %q%s", ri, got, want, show()), st
		}
		for _, rf := range refs {
			tk := toks[rf.index]
			placed = append(placed, c16Placed{ri, rf.cell, tk.start, tk.end, c16RuneLen(c16EffMargin(rf.cell))})
		}
	}

	// Left-aligned cells (single or span) starting in a column start at one
	// offset; right-aligned cells ending in a column end at one offset.
	S := make([]int, ncols+1)
	E := make([]int, ncols+1)
	for i := range S {
		S[i], E[i] = -1, -1
	}
	for _, p := range placed {
		switch p.cell.Align {
		case 0:
			c := p.cell.Col
			if S[c] == -1 {
				S[c] = p.a
				st.leftGroups++
			} else if S[c] != p.a {
				return kit.Failf("tt-left-start", "left-aligned cells of column %d start at rune %d and %d (row %d, %q)%s", c, S[c], p.a, p.row, p.cell.Text, show()), st
			}
		case 2:
			e := p.cell.Col + p.cell.Span - 1
			if E[e] == -1 {
				E[e] = p.b
				st.rightGroups++
			} else if E[e] != p.b {
				return kit.Failf("tt-right-end", "right-aligned cells of column %d end at rune %d and %d (row %d, %q)%s", e, E[e], p.b, p.row, p.cell.Text, show()), st
			}
		}
	}

	// Columns are vertical bands: whatever lies in columns < j is left of
	// whatever (margin included) lies in columns >= j, on all lines.
	for j := 1; j < ncols; j++ {
		maxB, minA := -1, 1<<30
		var pb, pa c16Placed
		for _, p := range placed {
			if p.cell.Col+p.cell.Span <= j && p.b > maxB {
				maxB, pb = p.b, p
			}
			if p.cell.Col >= j && p.a-p.marginLen < minA {
				minA, pa = p.a-p.marginLen, p
			}
		}
		if maxB > minA {
			return kit.Failf("tt-column-overlap", "no common start for column %d: %q (row %d, columns %d..%d) ends at rune %d but %q (row %d, column %d) with its margin starts at rune %d%s",
				j, pb.cell.Text, pb.row, pb.cell.Col, pb.cell.Col+pb.cell.Span-1, maxB, pa.cell.Text, pa.row, pa.cell.Col, minA, show()), st
		}
	}

	// A cell lies inside [start of its first column, end of its last column];
	// a centred one has equal gaps up to rounding.
	for _, p := range placed {
		lo, hi := S[p.cell.Col], E[p.cell.Col+p.cell.Span-1]
		if lo != -1 && p.a < lo {
			return kit.Failf("tt-cell-outside-column", "%q (row %d) starts at rune %d, left of the start %d of column %d%s", p.cell.Text, p.row, p.a, lo, p.cell.Col, show()), st
		}
		if hi != -1 && p.b > hi {
			return kit.Failf("tt-cell-outside-column", "%q (row %d) ends at rune %d, right of the end %d of column %d%s", p.cell.Text, p.row, p.b, hi, p.cell.Col+p.cell.Span-1, show()), st
		}
		if p.cell.Align == 1 && lo != -1 && hi != -1 {
			st.centreChecked++
			d := (p.a - lo) - (hi - p.b)
			if d < -1 || d > 1 {
				return kit.Failf("tt-centre-off", "centred %q (row %d) occupies runes [%d,%d) of [%d,%d): gaps %d and %d%s", p.cell.Text, p.row, p.a, p.b, lo, hi, p.a-lo, hi-p.b, show()), st
			}
		}
	}

	// Spans wider than the single cells beneath them (evidence only).
	{
		minw := make([]int, ncols)
		for _, row := range t.Rows {
			for _, c := range row {
				if c.Span == 1 {
					if w := c16RuneLen(string(c.Text)) + colMargin[c.Col]; w > minw[c.Col] {
						minw[c.Col] = w
					}
				}
			}
		}
		for _, row := range t.Rows {
			for _, c := range row {
				if c.Span > 1 {
					sum := 0
					for j := c.Col; j < c.Col+c.Span; j++ {
						sum += minw[j]
					}
					if c16RuneLen(string(c.Text))+colMargin[c.Col] > sum {
						st.widerSpans++
					}
				}
			}
		}
		// SetShrink: "a shrink column ... will have minimum width". Where both
		// edges of a shrink column are pinned by aligned cells, it must not be
		// wider than its widest single cell plus the column's margin.
		// Exception: a span lying only on shrink columns still has to fit;
		// which of its columns grows then is not specified (a benign change
		// that grows the first instead of the last column fired here - false
		// alarm corrected, DESIGN.md 9.5), so every column under such a span
		// is exempt from the minimum-width check.
		covered := make([]bool, ncols)
		for _, row := range t.Rows {
			for _, c := range row {
				if c.Span < 2 {
					continue
				}
				all := true
				for j := c.Col; j < c.Col+c.Span; j++ {
					if !c16Shrunk(t, j) {
						all = false
					}
				}
				if all {
					for j := c.Col; j < c.Col+c.Span; j++ {
						covered[j] = true
					}
				}
			}
		}
		edge := func(j int) int { // start offset of column j including its margin, or -1
			l, r := -1, -1
			if j < ncols && S[j] != -1 {
				l = S[j] - colMargin[j]
			}
			if j > 0 && E[j-1] != -1 {
				r = E[j-1]
			}
			switch {
			case l != -1 && r != -1 && l != r:
				return -1
			case l != -1:
				return l
			}
			return r
		}
		for c := 0; c < ncols; c++ {
			if !c16Shrunk(t, c) {
				continue
			}
			st.shrinkCols++
			if minw[c] == 0 || covered[c] {
				continue
			}
			hasText := false
			for _, row := range t.Rows {
				for _, cl := range row {
					if cl.Col == c && cl.Span == 1 && cl.Text != "" {
						hasText = true
					}
				}
			}
			l, r := edge(c), edge(c+1)
			if !hasText || l == -1 || r == -1 {
				continue
			}
			st.shrinkChecked++
			if r-l > minw[c] {
				return kit.Failf("tt-shrink-grew", "shrink column %d occupies runes [%d,%d) = %d wide, its widest single cell with margin needs %d%s", c, l, r, r-l, minw[c], show()), st
			}
		}
	}
	return nil, st
}

// ---------------------------------------------------------------------------
// generator

var c16Alphabet = []rune("abcdefgXYZ0123456789%+-.()~?/=_µ±│é世☃∞¹²ßж")
var c16Wide = []rune("µ±│é世☃∞¹²ßжü€")

func c16Word(r *kit.Rand, n int) string {
	rs := make([]rune, n)
	al := c16Alphabet
	switch r.Intn(4) {
	case 0:
		al = c16Wide
	case 1:
		al = c16Alphabet[:20]
	}
	for i := range rs {
		rs[i] = al[r.Intn(len(al))]
	}
	return string(rs)
}

func c16GenTable(r *kit.Rand, id int, allShrink bool) c16Table {
	t := c16Table{ID: id, ShrinkFirst: r.Bool()}
	ncols := r.Range(1, 8)
	nrows := r.Range(1, 8)
	t.Shrink = make([]bool, r.Range(0, ncols))
	pShrink := kit.Pick(r, []float64{0.15, 0.35, 0.6})
	if allShrink {
		pShrink = 0.7
	}
	for i := range t.Shrink {
		t.Shrink[i] = r.Chance(pShrink)
	}
	pSkip := kit.Pick(r, []float64{0.05, 0.25, 0.5})
	pSpan := kit.Pick(r, []float64{0.1, 0.3, 0.5})
	short := r.Chance(0.3)
	for ri := 0; ri < nrows; ri++ {
		var row []c16Cell
		if ri > 0 && r.Chance(0.08) {
			t.Rows = append(t.Rows, row) // blank row
			continue
		}
		col := 0
		for col < ncols {
			if r.Chance(pSkip) {
				col++
				continue
			}
			c := c16Cell{Col: col, Span: 1}
			if col+1 < ncols && r.Chance(pSpan) {
				c.Span = r.Range(2, ncols-col)
				if !allShrink {
					ok := func() bool {
						for j := c.Col; j < c.Col+c.Span; j++ {
							if !c16Shrunk(t, j) {
								return true
							}
						}
						return false
					}
					for !ok() && c.Col+c.Span < ncols {
						c.Span++
					}
					if !ok() {
						c.Span = 1
					}
				}
			}
			if r.Chance(0.15) {
				// empty cell: left-aligned, margin without trailing blank
				if r.Chance(0.4) {
					c.HasMargin, c.Margin = true, " │"
				}
			} else {
				n := r.Range(1, 10)
				if short {
					n = r.Range(1, 3)
				}
				if c.Span > 1 {
					n = r.Range(1, 8*c.Span)
					if r.Chance(0.3) {
						n = r.Range(1, 4)
					}
				}
				c.Text = kit.B(c16Word(r, n))
				c.Align = kit.Pick(r, []int{0, 0, 1, 2, 2})
				switch r.Intn(9) {
				case 0, 1:
					c.HasMargin, c.Margin = true, " │ "
				case 2:
					c.HasMargin, c.Margin = true, " ± "
				case 3, 4:
					c.HasMargin, c.Margin = true, "  "
				}
			}
			row = append(row, c)
			col += c.Span
		}
		if ri == 0 && len(row) == 0 {
			row = append(row, c16Cell{Col: r.Intn(ncols), Span: 1, Text: kit.B(c16Word(r, r.Range(1, 6)))})
		}
		t.Rows = append(t.Rows, row)
	}
	if allShrink {
		// make sure there is a span on shrink-only columns
		for len(t.Shrink) < 2 {
			t.Shrink = append(t.Shrink, true)
		}
		a := r.Intn(len(t.Shrink) - 1)
		n := r.Range(2, len(t.Shrink)-a)
		for j := a; j < a+n; j++ {
			t.Shrink[j] = true
		}
		c := c16Cell{Col: a, Span: n, Text: kit.B(c16Word(r, r.Range(1, 12))), Align: r.Intn(3)}
		if a > 0 && r.Bool() {
			c.HasMargin, c.Margin = true, "  "
		}
		row := []c16Cell{c}
		if a+n < 8 && r.Bool() {
			row = append(row, c16Cell{Col: a + n, Span: 1, Text: kit.B(c16Word(r, 3)), Align: 2, HasMargin: true, Margin: " │ "})
		}
		t.Rows = append(t.Rows, row)
	}
	return t
}

func TestVerifC16Texttab(t *testing.T) {
	nonTrivial := func(c c16Table) bool {
		v, ok := c16TTNonTrivial.Load(c.ID)
		return ok && v.(bool)
	}
	main := kit.Class[c16Table]{
		Name: "texttab-layout", Quick: 20000, Thorough: 1200000,
		Gen:           func(r *kit.Rand, i int) c16Table { return c16GenTable(r, i, false) },
		Check:         func(c c16Table) *kit.Fail { return c16CheckTable(c, false) },
		NonTrivial:    nonTrivial,
		MinNonTrivial: 8000,
		Rule: "random table of 1-8 columns x 1-8 rows driven through Row/Col/Cell/Span/SetShrink: skipped columns, blank rows, spans of 2..n columns with texts of 1..8n runes, shrink columns, empty cells, " +
			"margins default/' │ '/' ± '/two blanks, texts without blanks over an alphabet with multi-byte runes, left/centre/right alignment; domain: empty cells left-aligned with a margin without trailing blank, " +
			"every multi-column span has a non-shrink column, first row not empty. non-trivial = fully checked table with >= 2 rendered rows and >= 1 multi-column span",
	}
	allShrink := kit.Class[c16Table]{
		Name: "texttab-allshrink-span", Quick: 3000, Thorough: 150000,
		Gen:           func(r *kit.Rand, i int) c16Table { return c16GenTable(r, 1<<40+i, true) },
		Check:         func(c c16Table) *kit.Fail { return c16CheckTable(c, true) },
		NonTrivial:    func(c c16Table) bool { return c16AllShrinkMustGrow(c) != "" },
		MinNonTrivial: 500,
		Rule: "as texttab-layout, plus at least one multi-column span lying only on shrink columns (the shape benchtab's 'vs base' header has); non-trivial = such a span is wider than the single cells beneath it. " +
			"A layout failure of a table with such a span is reported under the single signature tt-allshrink-span-cannot-grow",
	}
	kit.Run(t, "C16", main, allShrink)
}
