//go:build verif

package main

// C16 unit 3: `benchstat -format text` and `benchstat -format csv` describe
// the same tables for the same arguments.
//
// For generated input files and flags, benchstat() is run in-process once per
// format. The CSV (exact numbers, one field per cell) is parsed first and is
// the guide for reading the text: table key lines, column header levels (by
// the rune positions of the │ rules), unit row, one line per row, the summary
// row, footnotes. Compared: table key lines, row labels, column header labels
// per key column and level, presence of cells, scaled numbers (text value
// after applying its SI/IEC prefix within half a unit of its last printed digit
// of the CSV number), ± ranges, deltas, p/n annotations and warning texts per
// cell; and that every text cell lies between the rules of its own column on
// every header level.
//
// The parser is strict about what it understands. What it does not understand
// is counted (c16.bs.unparsed.*) and never reported as a violation; the class
// is INCONCLUSIVE through MinNonTrivial when too few pairs were compared
// completely.

import (
	"bytes"
	"encoding/csv"
	"fmt"
	"math"
	"os"
	"path/filepath"
	"regexp"
	"sort"
	"strconv"
	"strings"
	"sync"
	"testing"
	"unicode/utf8"

	kit "golang.org/x/perf/internal/verifkit"
)

type c16BSFile struct {
	Name    string // file name inside the scratch directory
	Label   string // if non-empty the argument is Label=path
	Content kit.B
}

type c16BSCase struct {
	ID    int
	Files []c16BSFile
	Flags []string // without -format
}

// ---------------------------------------------------------------------------
// outcome plumbing

type c16Unparsed struct{ why string }

func (u *c16Unparsed) Error() string { return u.why }

func c16Unp(format string, args ...any) error {
	return &c16Unparsed{fmt.Sprintf(format, args...)}
}

type c16BSStats struct {
	tables, multiCol, rows, numbers, ranges, deltas, pvalues int
	warnings, footnoteRefs, missingCells, geomeanRows        int
	multiLevel, wideHeaderCells, orphanCols                  int
	maxFoot, multiDigitRefs                                  int // most footnote lines under one table; marks of >= 2 digits resolved in cells
	worst                                                    float64
	sharedScaleRows                                          int // rows of >= 2 cells whose smallest non-zero magnitude was checked for >= 3 significant digits
}

var c16BSNonTrivial sync.Map

// ---------------------------------------------------------------------------
// CSV side

type c16CSVCell struct {
	present  bool
	center   string
	ci       string
	hasDelta bool
	delta, p string
}

type c16CSVRow struct {
	label string
	cells []c16CSVCell
	rec   int // 1-based record number in the CSV output
}

type c16CSVTable struct {
	hdr      []string
	colHdr   [][]string // [level][column]
	ncols    int
	unit     string
	rows     []c16CSVRow
	sumLbl   string
	sumCtr   []string // per column, "" if none
	sumRat   []string // per column, "" if none
	sumStray string   // non-empty: a summary-row value at a position that is neither centre nor delta
	sumRec   int
	sumSeen  bool
}

func c16SC(e int) int {
	if e == 0 {
		return 1
	}
	return 3 + 4*(e-1)
}

func c16ParseCSV(out string) ([]*c16CSVTable, error) {
	if out == "" {
		return nil, nil
	}
	if !strings.HasSuffix(out, "\n") {
		return nil, c16Unp("csv-newline")
	}
	// One record per line: the warnings on stderr refer to line numbers, and an
	// empty line separates tables (encoding/csv's reader would skip it).
	var recs [][]string
	for _, line := range strings.Split(strings.TrimSuffix(out, "\n"), "\n") {
		if line == "" {
			recs = append(recs, []string{""})
			continue
		}
		rd := csv.NewReader(strings.NewReader(line))
		rd.FieldsPerRecord = -1
		all, err := rd.ReadAll()
		if err != nil || len(all) != 1 {
			return nil, c16Unp("csv-syntax")
		}
		recs = append(recs, all[0])
	}
	var tables []*c16CSVTable
	start := 0
	flush := func(end int) error {
		block := recs[start:end]
		base := start // record number of block[i] is base+i+1
		t := &c16CSVTable{}
		i := 0
		for i < len(block) && len(block[i]) == 1 {
			if !strings.Contains(block[i][0], ": ") {
				break
			}
			t.hdr = append(t.hdr, block[i][0])
			i++
		}
		// column header rows, then the unit row
		var levels [][]string
		for {
			if i >= len(block) {
				return c16Unp("csv-no-unit-row")
			}
			rec := block[i]
			if len(rec) >= 3 && rec[0] == "" && rec[2] == "CI" {
				break
			}
			if len(rec) < 2 || rec[0] != "" {
				return c16Unp("csv-header-row")
			}
			levels = append(levels, rec)
			i++
		}
		urec := block[i]
		if (len(urec)-3)%4 != 0 {
			return c16Unp("csv-unit-row")
		}
		t.ncols = 1 + (len(urec)-3)/4
		t.unit = urec[1]
		for e := 0; e < t.ncols; e++ {
			s := c16SC(e)
			if urec[s] != t.unit || urec[s+1] != "CI" {
				return c16Unp("csv-unit-row")
			}
			if e > 0 && (urec[s+2] != "vs base" || urec[s+3] != "P") {
				return c16Unp("csv-unit-row")
			}
		}
		if t.unit == "" || strings.ContainsAny(t.unit, " │") {
			return c16Unp("csv-unit-name")
		}
		for _, rec := range levels {
			if len(rec) != c16SC(t.ncols-1)+1 {
				return c16Unp("csv-header-row")
			}
			vals := make([]string, t.ncols)
			isVal := map[int]bool{}
			for e := 0; e < t.ncols; e++ {
				vals[e] = rec[c16SC(e)]
				isVal[c16SC(e)] = true
				if strings.Contains(vals[e], "│") || strings.TrimSpace(vals[e]) != vals[e] {
					return c16Unp("csv-header-value")
				}
			}
			for j, f := range rec {
				if !isVal[j] && f != "" {
					return c16Unp("csv-header-row")
				}
			}
			t.colHdr = append(t.colHdr, vals)
		}
		i++
		if len(block)-i < 2 {
			return c16Unp("csv-rows")
		}
		for ; i < len(block)-1; i++ {
			rec := block[i]
			row := c16CSVRow{label: rec[0], rec: base + i + 1, cells: make([]c16CSVCell, t.ncols)}
			if len(rec) > c16SC(t.ncols-1)+4 || (t.ncols == 1 && len(rec) > 3) {
				return c16Unp("csv-row-length")
			}
			used := map[int]bool{0: true}
			for e := 0; e < t.ncols; e++ {
				s := c16SC(e)
				get := func(j int) string {
					used[j] = true
					if j < len(rec) {
						return rec[j]
					}
					return ""
				}
				c := &row.cells[e]
				c.center, c.ci = get(s), get(s+1)
				if c.center != "" {
					c.present = true
					if c.ci == "" {
						return c16Unp("csv-cell")
					}
				} else if c.ci != "" {
					return c16Unp("csv-cell")
				}
				if e > 0 {
					c.delta, c.p = get(s+2), get(s+3)
					if c.delta != "" || c.p != "" {
						if !c.present || c.delta == "" || c.p == "" {
							return c16Unp("csv-cell")
						}
						c.hasDelta = true
					}
				}
			}
			for j, f := range rec {
				if !used[j] && f != "" {
					return c16Unp("csv-row-field")
				}
			}
			if strings.Contains(row.label, "│") {
				return c16Unp("csv-label")
			}
			t.rows = append(t.rows, row)
		}
		// summary row
		rec := block[len(block)-1]
		t.sumLbl, t.sumRec, t.sumSeen = rec[0], base+len(block), true
		t.sumCtr = make([]string, t.ncols)
		t.sumRat = make([]string, t.ncols)
		used := map[int]bool{0: true}
		for e := 0; e < t.ncols; e++ {
			s := c16SC(e)
			if s < len(rec) {
				t.sumCtr[e] = rec[s]
				used[s] = true
			}
			if e > 0 && s+2 < len(rec) {
				t.sumRat[e] = rec[s+2]
				used[s+2] = true
			}
		}
		for j, f := range rec {
			if !used[j] && f != "" {
				// A value under the "CI" or "P" header of the summary row:
				// the text rendering never shows anything there, so the two
				// renderings disagree about what this value is (seeded change
				// C16 seed2 put the geomean delta under "CI").
				t.sumStray = fmt.Sprintf("csv summary row has %q in field %d, which is neither a centre nor a 'vs base' position", f, j)
			}
		}
		tables = append(tables, t)
		return nil
	}
	for i, rec := range recs {
		if len(rec) == 1 && rec[0] == "" {
			if err := flush(i); err != nil {
				return nil, err
			}
			start = i + 1
		}
	}
	if err := flush(len(recs)); err != nil {
		return nil, err
	}
	return tables, nil
}

type c16Warn struct {
	rec int
	col int // field index, -1 if the reference has more than one letter
	msg string
}

var c16WarnRe = regexp.MustCompile(`^([A-Z]+)([0-9]+): (.*)$`)

func c16ParseWarnings(text string) ([]c16Warn, error) {
	var ws []c16Warn
	if text == "" {
		return nil, nil
	}
	if !strings.HasSuffix(text, "\n") {
		return nil, c16Unp("stderr-newline")
	}
	for _, l := range strings.Split(strings.TrimSuffix(text, "\n"), "\n") {
		m := c16WarnRe.FindStringSubmatch(l)
		if m == nil {
			return nil, c16Unp("stderr-line")
		}
		n, err := strconv.Atoi(m[2])
		if err != nil {
			return nil, c16Unp("stderr-line")
		}
		col := -1
		if len(m[1]) == 1 {
			col = int(m[1][0] - 'A')
		}
		ws = append(ws, c16Warn{n, col, m[3]})
	}
	return ws, nil
}

// ---------------------------------------------------------------------------
// text side

type c16Tok struct {
	s          string
	start, end int
}

func c16Toks(rs []rune, from int) []c16Tok {
	var toks []c16Tok
	i := from
	for i < len(rs) {
		if rs[i] == ' ' {
			i++
			continue
		}
		j := i
		for j < len(rs) && rs[j] != ' ' {
			j++
		}
		toks = append(toks, c16Tok{string(rs[i:j]), i, j})
		i = j
	}
	return toks
}

func c16Bars(rs []rune) []int {
	var bars []int
	for i, r := range rs {
		if r == '│' {
			bars = append(bars, i)
		}
	}
	return bars
}

var c16Prefixes = map[string]float64{
	"": 1, "k": 1e3, "M": 1e6, "G": 1e9, "T": 1e12, "m": 1e-3, "µ": 1e-6, "n": 1e-9,
	"Ki": 1 << 10, "Mi": 1 << 20, "Gi": 1 << 30, "Ti": 1 << 40,
}

var c16NumRe = regexp.MustCompile(`^(-?[0-9]+\.([0-9]+))(k|M|G|T|m|µ|n|Ki|Mi|Gi|Ti)?$`)
var c16DeltaRe = regexp.MustCompile(`^([+-]?[0-9]+\.[0-9][0-9]%|~|\?)$`)
var c16CIRe = regexp.MustCompile(`^([0-9]+%|∞|\?)$`)

const c16Super = "⁰¹²³⁴⁵⁶⁷⁸⁹"

func c16SuperNum(s string) (int, bool) {
	n := 0
	if s == "" {
		return 0, false
	}
	for _, r := range s {
		d := strings.IndexRune(c16Super, r)
		if d < 0 {
			return 0, false
		}
		n = n*10 + utf8.RuneCountInString(c16Super[:d])
		if n > 1<<20 {
			return 0, false
		}
	}
	return n, true
}

// c16NumberAgrees compares a scaled text number with the CSV number. It
// returns the distance as a fraction of half a unit of the last printed digit.
// c16SigDigits counts the significant digits of a scaled text number: the
// digits from the first non-zero one to the last printed one.
func c16SigDigits(tok string) int {
	m := c16NumRe.FindStringSubmatch(tok)
	if m == nil {
		return 99
	}
	d := strings.TrimLeft(strings.ReplaceAll(strings.TrimPrefix(m[1], "-"), ".", ""), "0")
	return len(d)
}

func c16NumberAgrees(tok, csvNum string) (ok bool, frac float64, err error) {
	m := c16NumRe.FindStringSubmatch(tok)
	if m == nil {
		return false, 0, c16Unp("text-number")
	}
	mant, e1 := strconv.ParseFloat(m[1], 64)
	v, e2 := strconv.ParseFloat(csvNum, 64)
	if e1 != nil || e2 != nil || math.IsNaN(v) || math.IsInf(v, 0) || math.IsInf(mant, 0) {
		return false, 0, c16Unp("number-parse")
	}
	factor := c16Prefixes[m[3]]
	half := 0.5 * math.Pow(10, -float64(len(m[2])))
	q := v / factor
	d := math.Abs(q - mant)
	// slack: benchstat prints the correctly rounded decimal of fl(value/factor);
	// this quotient, the factor and the parsed mantissa are each good to an ulp
	// or two of q, so 4e-15*|q| (~18 ulps) covers them. It matters only where a
	// row's common scale prints huge quotients such as 1099511627776.0.
	tol := half*(1+1e-9) + math.Abs(q)*4e-15
	c16NoteWorst(d/half, tok, csvNum)
	return d <= tol, d / half, nil
}

var (
	c16WorstMu   sync.Mutex
	c16WorstFrac float64
)

// c16NoteWorst records the accepted or rejected number pair farthest from
// exact agreement (evidence only).
func c16NoteWorst(frac float64, tok, csvNum string) {
	c16WorstMu.Lock()
	defer c16WorstMu.Unlock()
	if frac > c16WorstFrac {
		c16WorstFrac = frac
		kit.Note("c16.bs.worst-number-pair", fmt.Sprintf("text %s csv %s: %.6f half-units", tok, csvNum, frac))
	}
}

type c16TextCellWarn struct {
	field int // CSV field index the warning belongs to
	msg   string
}

// c16CompareTable compares one text block with one CSV table.
func c16CompareTable(ti int, lines []string, t *c16CSVTable, warns map[int][]c16Warn, st *c16BSStats) (*kit.Fail, error) {
	ctx := func() string {
		return fmt.Sprintf("\ntable %d text:\n%s", ti, strings.Join(lines, "\n"))
	}
	h, L, R := len(t.hdr), len(t.colHdr), len(t.rows)
	need := h + L + 1 + R
	if R > 1 {
		need++
	}
	// table key lines
	for i := 0; i < h; i++ {
		if i >= len(lines) || lines[i] != t.hdr[i] {
			got := "<none>"
			if i < len(lines) {
				got = lines[i]
			}
			return kit.Failf("bs-table-key", "table %d key line %d: text %q, csv %q%s", ti, i, got, t.hdr[i], ctx()), nil
		}
	}
	if len(lines) < need {
		return kit.Failf("bs-row-count", "table %d: csv has %d key lines, %d header levels, %d rows; text block has only %d lines%s", ti, h, L, R, len(lines), ctx()), nil
	}
	// "no line ends in blanks" is stated for the table grid; a key line such as
	// "pkg: " (empty value) is only counted, see NOTES.md.
	for i := 0; i < len(lines); i++ {
		if strings.HasSuffix(lines[i], " ") {
			if i >= h && i < need {
				return kit.Failf("bs-trailing-blank", "table %d line %d ends in blanks: %q%s", ti, i, lines[i], ctx()), nil
			}
			kit.Count("c16.bs.line-outside-grid-ends-in-blank", 1)
		}
	}
	rl := make([][]rune, len(lines))
	for i, l := range lines {
		rl[i] = []rune(l)
	}
	// header lines and unit row must carry rules
	var bars [][]int
	for i := h; i <= h+L; i++ {
		b := c16Bars(rl[i])
		if len(b) < 2 {
			if len(b) == 0 && i < h+L && strings.Contains(lines[i], ": ") {
				// a table key line in the text where the CSV has a column header row
				return kit.Failf("bs-table-key", "table %d: text line %q where csv has a column header row%s", ti, lines[i], ctx()), nil
			}
			return nil, c16Unp("text-header-rules")
		}
		if b[len(b)-1] != len(rl[i])-1 {
			return nil, c16Unp("text-header-tail")
		}
		if strings.TrimSpace(string(rl[i][:b[0]])) != "" {
			return nil, c16Unp("text-header-lead")
		}
		bars = append(bars, b)
	}
	ubars := bars[L]
	cb := ubars // column boundaries
	if L > 0 {
		cb = bars[L-1]
	}
	if len(cb) != t.ncols+1 {
		return kit.Failf("bs-header-columns", "table %d: csv has %d key columns, the deepest text header line has %d cells%s", ti, t.ncols, len(cb)-1, ctx()), nil
	}
	colOf := map[int]int{}
	for i, b := range cb {
		colOf[b] = i
	}
	seg := func(line []rune, a, b int) string { return strings.TrimSpace(string(line[a+1 : b])) }
	if L > 1 {
		st.multiLevel++
	}
	for l := 0; l < L; l++ {
		b := bars[l]
		if b[0] != cb[0] || b[len(b)-1] != cb[t.ncols] {
			return kit.Failf("bs-header-span", "table %d header level %d spans runes [%d,%d], the key columns [%d,%d]%s", ti, l, b[0], b[len(b)-1], cb[0], cb[t.ncols], ctx()), nil
		}
		for k := 0; k+1 < len(b); k++ {
			c0, ok0 := colOf[b[k]]
			c1, ok1 := colOf[b[k+1]]
			if !ok0 || !ok1 {
				return kit.Failf("bs-header-span", "table %d header level %d: cell %q has rules at runes %d and %d, which are not column boundaries %v%s", ti, l, seg(rl[h+l], b[k], b[k+1]), b[k], b[k+1], cb, ctx()), nil
			}
			if c1-c0 > 1 {
				st.wideHeaderCells++
			}
			lab := seg(rl[h+l], b[k], b[k+1])
			for e := c0; e < c1; e++ {
				if t.colHdr[l][e] != lab {
					return kit.Failf("bs-column-header", "table %d header level %d: key column %d is under text header %q, csv says %q%s", ti, l, e, lab, t.colHdr[l][e], ctx()), nil
				}
			}
		}
	}
	// unit row
	var orphans []int // key columns > 0 without a comparison in any row
	for e := 1; e < t.ncols; e++ {
		any := false
		for _, r := range t.rows {
			if r.cells[e].hasDelta {
				any = true
			}
		}
		if !any {
			orphans = append(orphans, e)
		}
	}
	if len(orphans) > 0 {
		st.orphanCols++
	}
	same := len(ubars) == len(cb)
	if same {
		for i := range cb {
			if ubars[i] != cb[i] {
				same = false
			}
		}
	}
	if !same {
		// Root cause fixed in 93cdf18 (kept as its own signature): the "vs base"
		// header of a column without any comparison could not widen its
		// shrink-only columns, overflowed and displaced the rest of the unit row.
		for _, orphan := range orphans {
			narrow := len(ubars) == len(cb)
			for i := 0; narrow && i < len(cb); i++ {
				if i <= orphan && ubars[i] != cb[i] || i > orphan && ubars[i] <= cb[i] {
					narrow = false
				}
			}
			if narrow {
				return kit.Failf("bs-unitrow-vsbase-overflow", "table %d: key column %d has no comparison in any row and the unit row's rules %v are displaced to the right of the header's %v after it%s", ti, orphan, ubars, cb, ctx()), nil
			}
		}
		return kit.Failf("bs-unitrow-misaligned", "table %d: unit row has rules at runes %v, the column header at %v%s", ti, ubars, cb, ctx()), nil
	}
	for e := 0; e < t.ncols; e++ {
		want := t.unit
		if e > 0 {
			want += " vs base"
		}
		if got := strings.Join(strings.Fields(seg(rl[h+L], ubars[e], ubars[e+1])), " "); got != want {
			return kit.Failf("bs-unit-row", "table %d unit row, column %d: text %q, csv %q%s", ti, e, got, want, ctx()), nil
		}
	}

	// footnotes
	// Footnote marks are read as what they are: decimal numbers written in
	// superscript digits, most significant digit first, in the cells and in
	// front of the footnote lines alike. A mark in a cell denotes the footnote
	// line carrying the same NUMBER; the numbers need not be consecutive, but
	// one number in front of two different footnote texts leaves every cell
	// carrying it without a definite warning.
	fnStart := need
	foot := map[int]string{}
	for i := fnStart; i < len(lines); i++ {
		sp := strings.IndexByte(lines[i], ' ')
		if sp < 0 {
			return nil, c16Unp("text-footnote")
		}
		n, ok := c16SuperNum(lines[i][:sp])
		if !ok {
			return nil, c16Unp("text-footnote")
		}
		// the blanks between the mark and the text are layout (a benign change
		// that left-justifies the marks to a common width fired here - false
		// alarm corrected, DESIGN.md 9.5)
		txt := strings.TrimLeft(lines[i][sp+1:], " ")
		if prev, dup := foot[n]; dup && prev != txt {
			return kit.Failf("bs-footnote-number", "table %d: two footnote lines carry the number %d (%q): %q and %q, so the marks in the cells do not identify one warning%s", ti, n, lines[i][:sp], prev, txt, ctx()), nil
		}
		foot[n] = txt
	}
	if len(foot) > st.maxFoot {
		st.maxFoot = len(foot)
	}

	// rows
	bandToks := func(line []rune, what string) ([][]c16Tok, *kit.Fail) {
		out := make([][]c16Tok, t.ncols)
		for _, tk := range c16Toks(line, cb[0]) {
			e := -1
			for k := 0; k < t.ncols; k++ {
				if tk.start > cb[k] && tk.end <= cb[k+1] {
					e = k
				}
			}
			if e < 0 {
				return nil, kit.Failf("bs-cell-outside-column", "table %d %s: %q at runes [%d,%d) is not between the rules of one key column %v%s", ti, what, tk.s, tk.start, tk.end, cb, ctx())
			}
			out[e] = append(out[e], tk)
		}
		return out, nil
	}
	label := func(line []rune) string {
		n := cb[0]
		if n > len(line) {
			n = len(line)
		}
		return strings.TrimRight(string(line[:n]), " ")
	}
	takeNotes := func(toks []c16Tok, i int, field int, dst *[]c16TextCellWarn) (int, *kit.Fail) {
		for i < len(toks) {
			n, ok := c16SuperNum(toks[i].s)
			if !ok {
				break
			}
			msg, ok := foot[n]
			if !ok {
				return i, kit.Failf("bs-warning", "table %d: footnote mark %q (number %d) has no footnote line (%d footnotes)%s", ti, toks[i].s, n, len(foot), ctx())
			}
			*dst = append(*dst, c16TextCellWarn{field, msg})
			st.footnoteRefs++
			if n >= 10 {
				st.multiDigitRefs++
			}
			i++
		}
		return i, nil
	}
	compareWarns := func(what string, rec int, tw []c16TextCellWarn) *kit.Fail {
		cw := warns[rec]
		exact := true
		for _, w := range cw {
			if w.col < 0 {
				exact = false
			}
		}
		var a, b []string
		for _, w := range cw {
			if exact {
				a = append(a, fmt.Sprintf("field %d: %s", w.col, w.msg))
			} else {
				a = append(a, w.msg)
			}
		}
		for _, w := range tw {
			if exact {
				b = append(b, fmt.Sprintf("field %d: %s", w.field, w.msg))
			} else {
				b = append(b, w.msg)
			}
		}
		sort.Strings(a)
		sort.Strings(b)
		if strings.Join(a, "\n") != strings.Join(b, "\n") {
			return kit.Failf("bs-warning", "table %d %s (csv record %d): csv warnings %q, text footnotes %q%s", ti, what, rec, a, b, ctx())
		}
		st.warnings += len(a)
		return nil
	}

	for ri, row := range t.rows {
		line := rl[h+L+1+ri]
		what := fmt.Sprintf("row %d (%q)", ri, row.label)
		if got, want := label(line), strings.TrimRight(row.label, " "); got != want {
			return kit.Failf("bs-row-label", "table %d row %d: text label %q, csv label %q%s", ti, ri, got, want, ctx()), nil
		}
		bt, f := bandToks(line, what)
		if f != nil {
			return f, nil
		}
		var tw []c16TextCellWarn
		// the cell of the row whose value is closest to zero without being zero
		rowMin, rowMinTok, rowMinCol, rowCells, rowSub := 0.0, "", -1, 0, false
		for e := 0; e <= t.ncols; e++ {
			if e == t.ncols {
				// The cells of a row share one scale, the one appropriate to the
				// smallest non-zero magnitude among them: that cell keeps at least
				// three significant digits (for magnitudes down to 1e-8 of the
				// smallest prefix: 1e-9 for decimal units, recognised here by a
				// sub-unit prefix in the row, 1 otherwise).
				floor := 1.01e-8
				if rowSub {
					floor = 1.01e-17
				}
				if rowMinCol >= 0 && rowMin >= floor {
					if rowCells > 1 {
						st.sharedScaleRows++
					}
					if sd := c16SigDigits(rowMinTok); sd < 3 {
						return kit.Failf("bs-row-scale", "table %d %s column %d: %q shows %d significant digit(s) of %g, the smallest non-zero magnitude among the %d cells of its row: the row's scale is not the one appropriate to it%s", ti, what, rowMinCol, rowMinTok, sd, rowMin, rowCells, ctx()), nil
					}
				}
				break
			}
			c, toks := row.cells[e], bt[e]
			if c.present && len(toks) > 0 {
				if m := c16NumRe.FindStringSubmatch(toks[0].s); m != nil {
					if v, err := strconv.ParseFloat(c.center, 64); err == nil && !math.IsNaN(v) && !math.IsInf(v, 0) {
						rowCells++
						if m[3] == "m" || m[3] == "µ" || m[3] == "n" {
							rowSub = true
						}
						if a := math.Abs(v); a != 0 && (rowMinCol < 0 || a < rowMin) {
							rowMin, rowMinTok, rowMinCol = a, toks[0].s, e
						}
					}
				}
			}
			if !c.present {
				st.missingCells++
				if len(toks) > 0 {
					return kit.Failf("bs-cell-presence", "table %d %s column %d: csv has no cell, text has %q%s", ti, what, e, toks[0].s, ctx()), nil
				}
				continue
			}
			if len(toks) == 0 {
				return kit.Failf("bs-cell-presence", "table %d %s column %d: csv has %s, text has nothing%s", ti, what, e, c.center, ctx()), nil
			}
			ok, frac, err := c16NumberAgrees(toks[0].s, c.center)
			if err != nil {
				return nil, err
			}
			if !ok {
				return kit.Failf("bs-number", "table %d %s column %d: text %s, csv %s: off by %.3f half-units of the last printed digit%s", ti, what, e, toks[0].s, c.center, frac, ctx()), nil
			}
			st.numbers++
			if frac > st.worst {
				st.worst = frac
			}
			if len(toks) < 3 || toks[1].s != "±" || !c16CIRe.MatchString(toks[2].s) || !c16CIRe.MatchString(c.ci) {
				return nil, c16Unp("text-cell-structure")
			}
			if toks[2].s != c.ci {
				return kit.Failf("bs-range", "table %d %s column %d: text ± %s, csv %s%s", ti, what, e, toks[2].s, c.ci, ctx()), nil
			}
			st.ranges++
			i, f := takeNotes(toks, 3, c16SC(e), &tw)
			if f != nil {
				return f, nil
			}
			if !c.hasDelta {
				if i < len(toks) {
					if c16DeltaRe.MatchString(toks[i].s) {
						return kit.Failf("bs-delta-presence", "table %d %s column %d: csv has no comparison, text has %q%s", ti, what, e, toks[i].s, ctx()), nil
					}
					// A second centre / "±" / range between the rules of this key
					// column is a value the CSV does not have in this column
					// (e.g. the next column's cell written too far left).
					for _, tk := range toks[i:] {
						if tk.s == "±" || c16NumRe.MatchString(tk.s) {
							return kit.Failf("bs-cell-surplus-value", "table %d %s column %d: csv has one cell (%s ± %s, no comparison) in this key column, the text has the further value %q between its rules%s", ti, what, e, c.center, c.ci, tk.s, ctx()), nil
						}
					}
					return nil, c16Unp("text-cell-tail")
				}
				continue
			}
			if !c16DeltaRe.MatchString(c.delta) {
				return nil, c16Unp("csv-delta")
			}
			if i >= len(toks) {
				return kit.Failf("bs-delta-presence", "table %d %s column %d: csv has comparison %s %s, text has none%s", ti, what, e, c.delta, c.p, ctx()), nil
			}
			if !c16DeltaRe.MatchString(toks[i].s) {
				return nil, c16Unp("text-delta")
			}
			if toks[i].s != c.delta {
				return kit.Failf("bs-delta", "table %d %s column %d: text delta %s, csv delta %s%s", ti, what, e, toks[i].s, c.delta, ctx()), nil
			}
			st.deltas++
			i++
			var ps []string
			for i < len(toks) {
				ps = append(ps, toks[i].s)
				i++
				if strings.HasSuffix(ps[len(ps)-1], ")") {
					break
				}
			}
			p := strings.Join(ps, " ")
			if !strings.HasPrefix(p, "(") || !strings.HasSuffix(p, ")") || strings.Contains(c.p, "  ") || strings.TrimSpace(c.p) != c.p {
				return nil, c16Unp("text-pvalue")
			}
			if p[1:len(p)-1] != c.p {
				return kit.Failf("bs-pvalue", "table %d %s column %d: text %s, csv %q%s", ti, what, e, p, c.p, ctx()), nil
			}
			st.pvalues++
			i, f = takeNotes(toks, i, c16SC(e)+2, &tw)
			if f != nil {
				return f, nil
			}
			if i < len(toks) {
				return nil, c16Unp("text-cell-tail")
			}
		}
		if f := compareWarns(what, row.rec, tw); f != nil {
			return f, nil
		}
		st.rows++
	}

	// summary row: the text has it only for tables of more than one row
	if R > 1 {
		line := rl[h+L+1+R]
		if got, want := label(line), strings.TrimRight(t.sumLbl, " "); got != want {
			return kit.Failf("bs-row-label", "table %d summary row: text label %q, csv label %q%s", ti, got, want, ctx()), nil
		}
		bt, f := bandToks(line, "summary row")
		if f != nil {
			return f, nil
		}
		if t.sumStray != "" {
			return kit.Failf("bs-summary-misplaced", "table %d: %s; text summary row: %q%s", ti, t.sumStray, string(line), ctx()), nil
		}
		var tw []c16TextCellWarn
		for e := 0; e < t.ncols; e++ {
			toks := bt[e]
			i := 0
			var num, ratio string
			if i < len(toks) && c16NumRe.MatchString(toks[i].s) {
				num = toks[i].s
				i++
			}
			if i < len(toks) && c16DeltaRe.MatchString(toks[i].s) {
				ratio = toks[i].s
				i++
			}
			i, f := takeNotes(toks, i, c16SC(e), &tw)
			if f != nil {
				return f, nil
			}
			if i < len(toks) {
				return nil, c16Unp("text-summary-cell")
			}
			if (num != "") != (t.sumCtr[e] != "") {
				return kit.Failf("bs-cell-presence", "table %d summary row column %d: text %q, csv %q%s", ti, e, num, t.sumCtr[e], ctx()), nil
			}
			if num != "" {
				ok, frac, err := c16NumberAgrees(num, t.sumCtr[e])
				if err != nil {
					return nil, err
				}
				if !ok {
					return kit.Failf("bs-number", "table %d summary row column %d: text %s, csv %s: off by %.3f half-units of the last printed digit%s", ti, e, num, t.sumCtr[e], frac, ctx()), nil
				}
				st.numbers++
				if frac > st.worst {
					st.worst = frac
				}
			}
			if t.sumRat[e] != "" && !c16DeltaRe.MatchString(t.sumRat[e]) {
				return nil, c16Unp("csv-summary-ratio")
			}
			if ratio != t.sumRat[e] {
				return kit.Failf("bs-delta", "table %d summary row column %d: text ratio %q, csv ratio %q%s", ti, e, ratio, t.sumRat[e], ctx()), nil
			}
			if ratio != "" {
				st.deltas++
			}
		}
		if f := compareWarns("summary row", t.sumRec, tw); f != nil {
			return f, nil
		}
		st.geomeanRows++
	}
	st.tables++
	if t.ncols > 1 {
		st.multiCol++
	}
	return nil, nil
}

func c16RunBenchstat(c c16BSCase, dir, format string) (string, string, error) {
	args := append([]string{"-format", format}, c.Flags...)
	for _, f := range c.Files {
		p := filepath.Join(dir, f.Name)
		if f.Label != "" {
			p = f.Label + "=" + p
		}
		args = append(args, p)
	}
	var out, errOut bytes.Buffer
	err := benchstat(&out, &errOut, args)
	return out.String(), errOut.String(), err
}

func c16BSCheck(c c16BSCase) (fail *kit.Fail) {
	c16BSNonTrivial.Store(c.ID, false)
	if len(c.Files) == 0 {
		return nil
	}
	for _, fl := range c.Flags {
		// replayed cases only: never hand benchstat's ExitOnError flag set something it would exit on
		if fl == "-h" || fl == "-help" || fl == "--help" || fl == "-format" {
			return nil
		}
	}
	dir, err := os.MkdirTemp("/var/tmp", "verif-c16-")
	if err != nil {
		kit.Count("c16.bs.tempdir-failed", 1)
		return nil
	}
	defer os.RemoveAll(dir)
	for _, f := range c.Files {
		if f.Name == "" || strings.ContainsAny(f.Name, "/=") || strings.ContainsAny(f.Label, "=/") {
			return nil
		}
		if err := os.WriteFile(filepath.Join(dir, f.Name), []byte(f.Content), 0o644); err != nil {
			kit.Count("c16.bs.tempdir-failed", 1)
			return nil
		}
	}
	text, textErr, e1 := c16RunBenchstat(c, dir, "text")
	csvOut, csvErr, e2 := c16RunBenchstat(c, dir, "csv")
	if e1 != nil || e2 != nil {
		if (e1 == nil) != (e2 == nil) {
			kit.Count("c16.bs.error-in-one-format-only", 1)
		} else {
			kit.Count("c16.bs.benchstat-returned-error", 1)
		}
		return nil
	}
	var st c16BSStats
	f, perr := c16ComparePair(text, textErr, csvOut, csvErr, &st)
	if perr != nil {
		kit.Count("c16.bs.unparsed."+perr.Error(), 1)
		return nil
	}
	if f != nil {
		f.Msg += fmt.Sprintf("\nflags %q", c.Flags)
		return f
	}
	kit.Count("c16.bs.pairs-fully-compared", 1)
	kit.Count("c16.bs.tables", int64(st.tables))
	kit.Count("c16.bs.tables-with-2+-columns", int64(st.multiCol))
	kit.Count("c16.bs.tables-with-2+-header-levels", int64(st.multiLevel))
	kit.Count("c16.bs.header-cells-over-2+-columns", int64(st.wideHeaderCells))
	kit.Count("c16.bs.rows", int64(st.rows))
	kit.Count("c16.bs.numbers-compared", int64(st.numbers))
	kit.Count("c16.bs.ranges-compared", int64(st.ranges))
	kit.Count("c16.bs.deltas-compared", int64(st.deltas))
	kit.Count("c16.bs.pvalues-compared", int64(st.pvalues))
	kit.Count("c16.bs.warnings-compared", int64(st.warnings))
	kit.Count("c16.bs.footnote-marks", int64(st.footnoteRefs))
	kit.Count("c16.bs.missing-cells", int64(st.missingCells))
	kit.Count("c16.bs.rows-with-shared-scale-checked", int64(st.sharedScaleRows))
	kit.Count("c16.bs.summary-rows", int64(st.geomeanRows))
	kit.Count("c16.bs.tables-with-column-without-comparison", int64(st.orphanCols))
	kit.NoteMax("c16.bs.worst-number-distance-in-half-units", st.worst)
	kit.Count("c16.bs.footnote-marks-of-2+-digits", int64(st.multiDigitRefs))
	kit.NoteMax("c16.bs.most-footnotes-under-one-table", float64(st.maxFoot))
	if st.maxFoot >= 10 {
		kit.Count("c16.bs.pairs-with-10+-footnotes-under-one-table", 1)
	}
	if c.ID >= c16WarnIDBase {
		c16BSNonTrivial.Store(c.ID, st.maxFoot >= 10 && st.multiDigitRefs > 0)
	} else {
		c16BSNonTrivial.Store(c.ID, st.multiCol > 0 && st.deltas > 0)
	}
	return nil
}

func c16ComparePair(text, textErr, csvOut, csvErr string, st *c16BSStats) (*kit.Fail, error) {
	if !strings.HasPrefix(csvErr, textErr) {
		return nil, c16Unp("stderr-prefix")
	}
	tables, err := c16ParseCSV(csvOut)
	if err != nil {
		return nil, err
	}
	ws, err := c16ParseWarnings(csvErr[len(textErr):])
	if err != nil {
		return nil, err
	}
	warns := map[int][]c16Warn{}
	for _, w := range ws {
		warns[w.rec] = append(warns[w.rec], w)
	}
	// every CSV warning must point at a row of some table
	rowRec := map[int]bool{}
	for _, t := range tables {
		for _, r := range t.rows {
			rowRec[r.rec] = true
		}
		rowRec[t.sumRec] = true
	}
	for rec := range warns {
		if !rowRec[rec] {
			return nil, c16Unp("stderr-reference")
		}
	}
	// text blocks
	var blocks [][]string
	if text != "" {
		if !strings.HasSuffix(text, "\n") {
			return nil, c16Unp("text-newline")
		}
		var cur []string
		for _, l := range strings.Split(strings.TrimSuffix(text, "\n"), "\n") {
			if l == "" {
				blocks = append(blocks, cur)
				cur = nil
				continue
			}
			cur = append(cur, l)
		}
		blocks = append(blocks, cur)
	}
	if len(blocks) != len(tables) {
		return kit.Failf("bs-table-count", "text has %d tables, csv has %d\ntext:\n%s\ncsv:\n%s", len(blocks), len(tables), text, csvOut), nil
	}
	for i, t := range tables {
		// warnings of single-row tables' summary rows have no text counterpart
		if len(t.rows) == 1 {
			delete(warns, t.sumRec)
		}
		f, err := c16CompareTable(i, blocks[i], t, warns, st)
		if f != nil || err != nil {
			if f != nil {
				f.Msg += "\ncsv:\n" + csvOut + "\ncsv stderr:\n" + csvErr
			}
			return f, err
		}
	}
	return nil, nil
}

// ---------------------------------------------------------------------------
// generator

func c16FmtVal(r *kit.Rand, v float64) string {
	switch r.Intn(4) {
	case 0:
		return strconv.FormatFloat(v, 'g', 4, 64)
	case 1:
		return strconv.FormatFloat(v, 'f', 2, 64)
	case 2:
		return strconv.FormatFloat(math.Round(v), 'f', 0, 64)
	}
	return strconv.FormatFloat(v, 'g', -1, 64)
}

func c16BSGen(r *kit.Rand, id int) c16BSCase {
	c := c16BSCase{ID: id}

	// benchmark name pool
	bases := []string{"Foo", "Bar", "Enc", "Zé"}
	var names []string
	nNames := r.Range(2, 6)
	seen := map[string]bool{}
	suffix := kit.Pick(r, []string{"", "-8", "-4", "mixed"})
	for len(names) < nNames {
		n := kit.Pick(r, bases[:r.Range(1, 4)])
		if r.Chance(0.7) {
			n += "/k=" + kit.Pick(r, []string{"v1", "v2", "w"})
		}
		if r.Chance(0.5) {
			n += "/size=" + kit.Pick(r, []string{"10", "2k", "1M"})
		}
		s := suffix
		if s == "mixed" {
			s = kit.Pick(r, []string{"", "-4", "-8"})
		}
		n += s
		if !seen[n] {
			seen[n] = true
			names = append(names, n)
		}
	}
	unitPool := []string{"ns/op", "B/op", "MB/s", "widgets", "ns/frob", "allocs/op", "items/s", "µJ"}
	units := []string{"ns/op"}
	rest := append([]string(nil), unitPool[1:]...)
	kit.Shuffle(r, rest)
	units = append(units, rest[:r.Range(0, 2)]...)
	if r.Chance(0.2) {
		units = units[1:]
		if len(units) == 0 {
			units = []string{"B/op"}
		}
	}
	exact := map[string]bool{}
	for _, u := range units {
		if u != "ns/op" && r.Chance(0.3) {
			exact[u] = true
		}
	}
	// per (name, unit) magnitude
	type nu struct{ n, u string }
	mag := map[nu]float64{}
	for _, n := range names {
		for _, u := range units {
			m := r.LogUniform(-2, 11)
			switch {
			case r.Chance(0.08):
				m = 0
			case r.Chance(0.03):
				m = -m
			case r.Chance(0.1):
				m = math.Round(m) // small integers, frequent ties
			}
			mag[nu{n, u}] = m
		}
	}

	nFiles := r.Range(1, 3)
	disjoint := r.Chance(0.15) // files with (nearly) disjoint benchmark sets
	cfgVals := map[string][]string{
		"goos":   {"linux", "darwin"},
		"goarch": {"amd64", "arm64"},
		"pkg":    {"p1", "x/y"},
		"note":   {"hw accel on", "off", "é"},
	}
	cfgKeys := []string{"goos", "goarch", "pkg", "note"}
	fileNames := []string{"a.txt", "b.txt", "c.txt"}
	for fi := 0; fi < nFiles; fi++ {
		var sb strings.Builder
		nBlocks := r.Range(1, 3)
		if fi == 0 {
			for _, u := range units {
				if exact[u] {
					fmt.Fprintf(&sb, "Unit %s assume=exact\n", u)
				}
			}
		}
		for b := 0; b < nBlocks; b++ {
			if b == 0 {
				for _, k := range cfgKeys[:r.Range(0, 4)] {
					fmt.Fprintf(&sb, "%s: %s\n", k, cfgVals[k][0])
				}
			} else {
				k := kit.Pick(r, cfgKeys)
				fmt.Fprintf(&sb, "%s: %s\n", k, kit.Pick(r, cfgVals[k]))
			}
			if r.Chance(0.05) {
				sb.WriteString("BenchmarkBroken 10 x ns/op\n")
			}
			for ni, n := range names {
				if disjoint && ni%nFiles != fi && r.Chance(0.9) {
					continue
				}
				if r.Chance(0.2) {
					continue // missing in this block
				}
				samples := r.Range(1, 12)
				if r.Chance(0.3) {
					samples = r.Range(1, 3)
				}
				equal := r.Chance(0.15)
				noise := kit.Pick(r, []float64{0.001, 0.05, 0.5})
				shift := 1.0
				if fi > 0 && r.Chance(0.5) {
					shift = kit.Pick(r, []float64{0.5, 0.9, 1.1, 3, 100})
				}
				for s := 0; s < samples; s++ {
					fmt.Fprintf(&sb, "Benchmark%s\t%d", n, r.Range(1, 1000000))
					for _, u := range units {
						if r.Chance(0.1) {
							continue // unit missing in this line
						}
						v := mag[nu{n, u}] * shift
						if !equal && !exact[u] {
							v *= 1 + noise*(r.Float64()-0.5)
						} else if exact[u] && r.Chance(0.05) {
							v += 1
						}
						fmt.Fprintf(&sb, "\t%s %s", c16FmtVal(r, v), u)
					}
					sb.WriteString("\n")
				}
			}
		}
		f := c16BSFile{Name: fileNames[fi], Content: kit.B(sb.String())}
		if r.Chance(0.6) {
			f.Label = kit.Pick(r, []string{"old", "new", "exp é", "X", "a-much-longer-label-than-the-cells-beneath-it-need"})
			if fi > 0 && r.Chance(0.1) {
				f.Label = c.Files[0].Label // duplicate labels
			}
		}
		c.Files = append(c.Files, f)
	}

	// flags
	opt := func(name string, p float64, vals ...string) {
		if r.Chance(p) {
			c.Flags = append(c.Flags, name, kit.Pick(r, vals))
		}
	}
	opt("-col", 0.6, ".file", "/k", "note", ".file /k", "goos,.file", "/k@alpha", "pkg /size", "/k /size .file", ".file,note", "")
	opt("-row", 0.5, ".name", ".fullname", "/k", ".name /size", ".fullname@alpha", "/size@num", ".name,/k")
	opt("-table", 0.3, ".config", "goos", "pkg", "", "note,pkg")
	opt("-ignore", 0.3, "note", "/k", "goos", ".file", "pkg,note", "/size")
	opt("-filter", 0.25, "*", "/k:v1", "-/k:v1", ".name:Foo", "goos:linux", ".unit:ns/op", ".unit:(ns/op OR B/op)", "-.name:Bar")
	opt("-alpha", 0.3, "0.2", "1", "0.001", "0.05", "0")
	opt("-confidence", 0.3, "0.5", "0.99", "0.8", "0.95", "0", "1")
	return c
}

// c16WarnIDBase separates the case IDs of the many-warnings class from those of
// the main class (the IDs key the non-triviality side channel).
const c16WarnIDBase = 1 << 30

// c16BSGenWarn: "any number of warnings". 10-25 benchmarks measured in a unit
// declared assume=exact, each jittering over its own value range, give one
// distinct "exact distribution expected, but values range from A to B" warning
// per cell; with 1-3 files (columns) a table carries 10-60 distinct footnotes,
// some shared between cells, next to the usual sample-count, residue and
// geomean warnings.
func c16BSGenWarn(r *kit.Rand, id int) c16BSCase {
	c := c16BSCase{ID: c16WarnIDBase + id}
	nB := r.Range(10, 25)
	exactUnit := kit.Pick(r, []string{"B/op", "widgets", "allocs/op", "items/s", "MB/s"})
	withNs := r.Chance(0.4)
	nFiles := r.Range(1, 3)
	style := r.Intn(3)
	names := make([]string, nB)
	for i := range names {
		switch style {
		case 0:
			names[i] = fmt.Sprintf("Size%02d", i+1)
		case 1:
			names[i] = fmt.Sprintf("Foo/n=%d", i+1)
		default:
			names[i] = fmt.Sprintf("%s/k=%s/size=%d", kit.Pick(r, []string{"Enc", "Zé"}), kit.Pick(r, []string{"v1", "w"}), i+1)
		}
	}
	step := kit.Pick(r, []float64{1, 10, 1000, 1 << 20, 0.5})
	type rng struct{ lo, hi float64 }
	base := make([]rng, nB)
	for i := range base {
		lo := float64(i+1) * step * 16
		base[i] = rng{lo, lo + float64(r.Range(1, 9))*step}
	}
	fileNames := []string{"a.txt", "b.txt", "c.txt"}
	for fi := 0; fi < nFiles; fi++ {
		var sb strings.Builder
		if fi == 0 || r.Chance(0.3) {
			fmt.Fprintf(&sb, "Unit %s assume=exact\n", exactUnit)
		}
		if r.Chance(0.5) {
			sb.WriteString("goos: linux\n")
		}
		sameAsFirst := r.Chance(0.3) // the same ranges as the first file: footnotes shared between columns
		for i, n := range names {
			if r.Chance(0.08) {
				continue
			}
			rg := base[i]
			if fi > 0 && !sameAsFirst && r.Chance(0.8) {
				rg.lo += float64(fi) * step * 4
				rg.hi += float64(fi)*step*4 + float64(r.Range(0, 3))*step
			}
			samples := r.Range(2, 6)
			allEqual := r.Chance(0.12)
			for k := 0; k < samples; k++ {
				v := rg.lo
				switch {
				case allEqual:
				case k == 1:
					v = rg.hi
				case k > 1:
					v = kit.Pick(r, []float64{rg.lo, rg.hi, rg.lo, (rg.lo + rg.hi) / 2})
				}
				fmt.Fprintf(&sb, "Benchmark%s\t%d\t%s %s", n, r.Range(1, 1000), strconv.FormatFloat(v, 'g', -1, 64), exactUnit)
				if withNs {
					fmt.Fprintf(&sb, "\t%s ns/op", strconv.FormatFloat(float64(100*(i+1))*(1+0.1*r.Float64()), 'g', 6, 64))
				}
				sb.WriteString("\n")
			}
		}
		f := c16BSFile{Name: fileNames[fi], Content: kit.B(sb.String())}
		if r.Chance(0.4) {
			f.Label = kit.Pick(r, []string{"old", "new", "exp é"})
		}
		c.Files = append(c.Files, f)
	}
	opt := func(name string, p float64, vals ...string) {
		if r.Chance(p) {
			c.Flags = append(c.Flags, name, kit.Pick(r, vals))
		}
	}
	opt("-col", 0.4, ".file", "", "goos,.file", ".file")
	opt("-row", 0.3, ".fullname", ".fullname@alpha", ".name,/size")
	opt("-filter", 0.15, "*", ".unit:"+exactUnit)
	opt("-alpha", 0.2, "0.2", "0.05", "0.001")
	opt("-confidence", 0.2, "0.5", "0.99", "0.95")
	return c
}

func TestVerifC16Benchstat(t *testing.T) {
	nonTrivial := func(c c16BSCase) bool {
		v, ok := c16BSNonTrivial.Load(c.ID)
		return ok && v.(bool)
	}
	kit.Run(t, "C16", kit.Class[c16BSCase]{
		Name: "benchstat-many-warnings", Quick: 300, Thorough: 8000,
		Gen:           c16BSGenWarn,
		Check:         c16BSCheck,
		NonTrivial:    nonTrivial,
		MinNonTrivial: 150,
		Rule: "1-3 generated input files with 10-25 benchmarks measured in a unit declared assume=exact (optionally ns/op as well), every benchmark with its own value range (2-6 samples, some all equal, ranges partly shared between files), so that one table carries 10-60 distinct warnings; flags from -col/-row/-filter/-alpha/-confidence; same text-vs-CSV comparison as benchstat-text-vs-csv: each cell's footnote marks are read as decimal numbers in superscript digits, mapped through the numbered footnote lines to warning texts and compared with the CSV's warnings for the same row and field. " +
			"non-trivial = pair compared completely with >= 10 footnote lines under one table and >= 1 mark of two or more digits resolved in a cell",
	}, kit.Class[c16BSCase]{
		Name: "benchstat-text-vs-csv", Quick: 3000, Thorough: 80000,
		Gen:   c16BSGen,
		Check: c16BSCheck,
		NonTrivial: func(c c16BSCase) bool {
			v, ok := c16BSNonTrivial.Load(c.ID)
			return ok && v.(bool)
		},
		MinNonTrivial: 900,
		Rule: "1-3 generated input files (1-3 configuration blocks each, 2-6 benchmarks with /k, /size sub-name keys and -N suffixes, 1-3 units out of ns/op, B/op, MB/s, allocs/op and custom ones, some assume=exact, " +
			"1-12 unequal samples, missing benchmarks/units, zero, negative, tied and all-equal values, optional label=path, sometimes disjoint benchmark sets) and flags from a grammar of -table/-row/-col/-ignore/-filter/-alpha/-confidence; " +
			"benchstat() run with -format text and -format csv. non-trivial = pair compared completely (nothing unparsed) with a table of >= 2 key columns and >= 1 delta compared",
	})
}
