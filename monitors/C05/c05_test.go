//go:build verif

package benchproc_test

// C05: benchmark names decompose consistently (benchfmt.Name.Parts/Base/Full)
// and the keys usable in filters and projections (.name, .fullname, /k,
// /gomaxprocs, plain file keys) extract what that decomposition prescribes.
//
// Oracle: a reference decomposition on immutable strings (strip one trailing
// "-digits" at the very end of the name, split the rest at every '/'), written
// without looking at the bytes.Index/loop structure of the code under test.
// Observation points: Name.Parts/Base/Full/String, Key.Get on single-field
// projections, Filter.Match with literal terms.

import (
	"bytes"
	"fmt"
	"strconv"
	"strings"
	"testing"
	"unicode"
	"unicode/utf8"

	"golang.org/x/perf/benchfmt"
	"golang.org/x/perf/benchproc"
	kit "golang.org/x/perf/internal/verifkit"
)

type c05KV struct {
	K, V kit.B
	File bool
}

type c05Case struct {
	Name kit.B
	Cfg  []c05KV // distinct keys (a configuration map)
	Keys []kit.B // keys whose extraction is observed; nil = c05DefaultKeys
}

var c05DefaultKeys = []kit.B{".name", ".fullname", "/a", "/=", "/gomaxprocs", "/1", "/", "k"}

// ---------------------------------------------------------------------------
// Reference model (strings only)

// c05RefSplit returns the base name and the configuration parts the statement
// prescribes: the '/'-introduced segments plus an optional trailing "-N".
func c05RefSplit(n string) (base string, parts []string, gomaxprocs string, hasGmp bool) {
	rest := n
	j := len(n)
	for j > 0 && n[j-1] >= '0' && n[j-1] <= '9' {
		j--
	}
	// n[j:] is the maximal run of trailing digits.
	if j < len(n) && j > 0 && n[j-1] == '-' {
		rest, gomaxprocs, hasGmp = n[:j-1], n[j:], true
	}
	segs := strings.Split(rest, "/")
	base = segs[0]
	for _, s := range segs[1:] {
		parts = append(parts, "/"+s)
	}
	if hasGmp {
		parts = append(parts, "-"+gomaxprocs)
	}
	return
}

// c05RefGet returns the value key denotes for (name, cfg). alt, if non-nil, is
// a second admissible value (only for /gomaxprocs on names that carry both a
// trailing -N and an explicit /gomaxprocs= segment, which the statement leaves
// open).
func c05RefGet(key, name string, cfg []c05KV) (want string, alt *string) {
	base, parts, gmp, hasGmp := c05RefSplit(name)
	switch {
	case key == ".name":
		return base, nil
	case key == ".fullname":
		return name, nil
	case strings.HasPrefix(key, "/"):
		explicit, found := "", false
		for _, p := range parts {
			if p[0] != '/' {
				continue // the -N part is not a '/'-segment
			}
			if strings.HasPrefix(p, key+"=") {
				explicit, found = p[len(key)+1:], true
				break
			}
		}
		if key == "/gomaxprocs" && hasGmp {
			if found && explicit != gmp {
				return gmp, &explicit
			}
			return gmp, nil
		}
		return explicit, nil
	}
	for _, kv := range cfg {
		if string(kv.K) == key {
			return string(kv.V), nil
		}
	}
	return "", nil
}

// c05Word writes s as a word of the expression syntax: bare if the documented
// bareWord shape allows it (and it is not an operator word and, being used in
// key position only here, cannot be taken for a regexp), otherwise as a Go
// string literal.
func c05Word(s string) string {
	if s == "" || s == "AND" || s == "OR" || !utf8.ValidString(s) {
		return strconv.Quote(s)
	}
	if strings.ContainsAny(s[:1], `-*"():@,`) {
		return strconv.Quote(s)
	}
	for _, r := range s {
		if unicode.IsSpace(r) || strings.ContainsRune(`():@,"\`, r) || !unicode.IsPrint(r) {
			return strconv.Quote(s)
		}
	}
	return s
}

func c05Result(c c05Case) *benchfmt.Result {
	res := &benchfmt.Result{
		Name:   benchfmt.Name([]byte(string(c.Name))),
		Iters:  1,
		Values: []benchfmt.Value{{Value: 1, Unit: "sec/op"}},
	}
	for _, kv := range c.Cfg {
		res.Config = append(res.Config, benchfmt.Config{Key: string(kv.K), Value: []byte(string(kv.V)), File: kv.File})
	}
	return res
}

func c05Check(c c05Case) *kit.Fail {
	name := string(c.Name)
	n := benchfmt.Name([]byte(name))

	// --- decomposition -----------------------------------------------------
	wantBase, wantParts, _, hasGmp := c05RefSplit(name)
	gotBase, gotParts := n.Parts()
	if !bytes.Equal(n.Full(), []byte(name)) || n.String() != name {
		return kit.Failf("full-wrong", "Full()=%q String()=%q for name %q", n.Full(), n.String(), name)
	}
	var cat []byte
	cat = append(cat, gotBase...)
	for _, p := range gotParts {
		cat = append(cat, p...)
	}
	if string(cat) != name {
		return kit.Failf("parts-not-reassembling", "base %q + parts %q = %q, name is %q", gotBase, gotParts, cat, name)
	}
	if string(gotBase) != wantBase {
		return kit.Failf("parts-base-wrong", "Parts() base %q, want %q for name %q", gotBase, wantBase, name)
	}
	same := len(gotParts) == len(wantParts)
	for i := 0; same && i < len(gotParts); i++ {
		same = string(gotParts[i]) == wantParts[i]
	}
	if !same {
		return kit.Failf("parts-wrong", "Parts() of %q = %q, want %q", name, gotParts, wantParts)
	}
	if b := n.Base(); string(b) != wantBase {
		return kit.Failf("base-wrong", "Base() of %q = %q, Parts() base/reference %q", name, b, wantBase)
	}
	if string(n) != name {
		return kit.Failf("name-mutated", "name bytes changed to %q from %q", []byte(n), name)
	}
	if hasGmp {
		kit.Count("names with trailing -N part", 1)
	}

	// --- key extraction ----------------------------------------------------
	keys := c.Keys
	if keys == nil {
		keys = c05DefaultKeys
	}
	for _, kb := range keys {
		key := string(kb)
		if key == "" || key == ".config" || key == ".unit" {
			continue // not extractable keys (C07's subject)
		}
		want, alt := c05RefGet(key, name, c.Cfg)
		if alt != nil {
			kit.Count("names with both -N and /gomaxprocs= (either value admitted)", 1)
		}
		ok := func(got string) bool { return got == want || (alt != nil && got == *alt) }

		// through a single-field projection
		res := c05Result(c)
		var pp benchproc.ProjectionParser
		proj, err := pp.Parse(c05Word(key), nil)
		if err != nil {
			return kit.Failf("projection-rejected", "projection %s rejected: %v", c05Word(key), err)
		}
		fields := proj.Fields()
		if len(fields) != 1 || fields[0].Name != key {
			return kit.Failf("projection-fields", "projection %s has fields %v", c05Word(key), fields)
		}
		got := proj.Project(res).Get(fields[0])
		if !ok(got) {
			return kit.Failf(c05Sig(key, "projection"), "key %q of name %q cfg %v through projection = %q, want %q", key, name, c.Cfg, got, want)
		}

		// through literal filter terms: the extracted value must equal the
		// expected literal and must differ from near misses of it.
		if alt != nil {
			continue
		}
		lits := []struct {
			lit   string
			match bool
		}{{want, true}, {want + "x", false}, {"/" + want, false}}
		if want != "" {
			lits = append(lits, struct {
				lit   string
				match bool
			}{want[:len(want)-1], false}, struct {
				lit   string
				match bool
			}{"", false})
		}
		for _, l := range lits {
			expr := c05Word(key) + ":" + strconv.Quote(l.lit)
			f, err := benchproc.NewFilter(expr)
			if err != nil {
				return kit.Failf("filter-rejected", "filter %s rejected: %v", expr, err)
			}
			res := c05Result(c)
			m, _ := f.Match(res)
			if m.Test(0) != l.match || m.All() != l.match || m.Any() != l.match {
				return kit.Failf(c05Sig(key, "filter"), "filter %s on name %q cfg %v: Test(0)=%v All=%v Any=%v, want %v (key denotes %q)",
					expr, name, c.Cfg, m.Test(0), m.All(), m.Any(), l.match, want)
			}
		}
	}
	return nil
}

func c05Sig(key, via string) string {
	kind := "plainkey"
	switch {
	case key == ".name":
		kind = "name"
	case key == ".fullname":
		kind = "fullname"
	case key == "/gomaxprocs":
		kind = "gomaxprocs"
	case strings.HasPrefix(key, "/"):
		kind = "subname"
	}
	return fmt.Sprintf("extract-%s-%s-wrong", kind, via)
}

func c05NonTrivial(c c05Case) bool {
	n := 0
	for i := 0; i < len(c.Name); i++ {
		switch c.Name[i] {
		case '/', '=', '-':
			n++
		}
	}
	return n >= 2
}

// c05Configs are the configuration maps used round-robin by the exhaustive class.
var c05Configs = [][]c05KV{
	nil,
	{{K: "k", V: "v", File: true}},
	{{K: "k", V: "", File: true}, {K: "j", V: "k", File: true}},
	{{K: "a", V: "1", File: true}, {K: "/a", V: "no", File: false}, {K: ".name", V: "no", File: true}, {K: "k", V: "a/b=c-1", File: false}},
	{{K: "kk", V: "no", File: true}, {K: "K", V: "no", File: true}},
}

func c05GenRandom(r *kit.Rand, i int) c05Case {
	runes := []string{"a", "b", "Z", "9", "0", "é", "世", "\x80", "\xff", ".", "_", " ", "*", ":", "(", "@", ",", "\""}
	word := func(max int) string {
		var sb strings.Builder
		for k := r.Range(0, max); k > 0; k-- {
			switch r.Intn(8) {
			case 0:
				sb.WriteByte("-=-="[r.Intn(4)])
			case 1:
				sb.WriteString(strconv.Itoa(r.Intn(130)))
			default:
				sb.WriteString(kit.Pick(r, runes))
			}
		}
		return sb.String()
	}
	keyPool := []string{"a", "b", "size", "gomaxprocs", "", "é", "1", "a=b", "gomaxprocs=", "GOMAXPROCS", "a b", "-"}
	var sb strings.Builder
	var used []string
	if r.Chance(0.9) {
		sb.WriteString(word(4))
	}
	for k := r.Range(0, 5); k > 0; k-- {
		sb.WriteByte('/')
		switch r.Intn(6) {
		case 0: // positional
			sb.WriteString(word(3))
		case 1: // empty segment
		default:
			key := kit.Pick(r, keyPool)
			if len(used) > 0 && r.Chance(0.4) {
				key = kit.Pick(r, used) // repeated key
			}
			used = append(used, key)
			sb.WriteString(key)
			sb.WriteByte('=')
			if r.Chance(0.3) {
				sb.WriteString(strconv.Itoa(r.Intn(64)))
			} else {
				sb.WriteString(word(3))
			}
		}
	}
	switch r.Intn(10) {
	case 0, 1, 2, 3:
		sb.WriteString("-" + strconv.Itoa(r.Intn(200)))
	case 4:
		sb.WriteString("-")
	case 5:
		sb.WriteString("-" + strconv.Itoa(r.Intn(20)) + kit.Pick(r, []string{"a", "-", "/", "=", " ", "é"}))
	case 6:
		sb.WriteString("--" + strconv.Itoa(r.Intn(20)))
	case 7:
		sb.WriteString(strconv.Itoa(r.Intn(20)))
	case 8: // digit runs of any length (the statement puts no bound on N)
		sb.WriteString(kit.Pick(r, []string{"-", "-", "-", "--", "", "/"}) + c05Digits(r, r.Range(1, 30)))
	}
	c := c05Case{Name: kit.B(sb.String())}

	cfgPool := []string{"k", "goos", "pkg", ".file", "a", "é", "k k", "-k", "gomaxprocs", "name", "\xff", "size"}
	for _, j := range r.Perm(len(cfgPool))[:r.Range(0, 4)] {
		c.Cfg = append(c.Cfg, c05KV{K: kit.B(cfgPool[j]), V: kit.B(word(3)), File: r.Chance(0.7)})
	}
	keys := []string{".name", ".fullname", "/gomaxprocs", "/zz", "nokey"}
	for _, u := range used {
		keys = append(keys, "/"+u)
		if k := strings.IndexByte(u, '='); k >= 0 {
			keys = append(keys, "/"+u[:k])
		}
	}
	for _, kv := range c.Cfg {
		keys = append(keys, string(kv.K))
	}
	keys = append(keys, kit.Pick(r, cfgPool), "/"+kit.Pick(r, keyPool))
	seen := map[string]bool{}
	for _, k := range keys {
		if !seen[k] {
			seen[k] = true
			c.Keys = append(c.Keys, kit.B(k))
		}
	}
	return c
}

// c05Digits returns n decimal digits; leading zeros, all-nines and values
// around the powers of two occur.
func c05Digits(r *kit.Rand, n int) string {
	b := make([]byte, n)
	switch r.Intn(5) {
	case 0:
		for i := range b {
			b[i] = '9'
		}
	case 1:
		for i := range b {
			b[i] = '0'
		}
		if r.Bool() {
			b[n-1] = '1'
		}
	default:
		for i := range b {
			b[i] = byte('0' + r.Intn(10))
		}
		for i := 0; i < n-1 && r.Chance(0.4); i++ {
			b[i] = '0'
		}
	}
	return string(b)
}

// ---------------------------------------------------------------------------
// Digit tails of every length (enumerated)

func c05EnumDigitTails(thorough bool, yield func(c05Case)) {
	prefixes := []string{"", "a", "Hash", "a/b=1", "a/gomaxprocs=2", "a-", "a/", "a/-", "-", "a-1", "a=", "é", "a/b=1/c"}
	seps := []string{"-", "--", "/", "", "=", "-0-"}
	fixed := []string{
		"4294967295", "4294967296", "9223372036854775807", "9223372036854775808",
		"18446744073709551615", "18446744073709551616", "18446744073709551617",
		"018446744073709551616", "99999999999999999999", "340282366920938463463374607431768211456",
	}
	tails := []string{"", "a", "-", "/"}
	i := 0
	emit := func(digits string) {
		for _, p := range prefixes {
			for _, sep := range seps {
				for _, tl := range tails {
					yield(c05Case{Name: kit.B(p + sep + digits + tl), Cfg: c05Configs[i%len(c05Configs)]})
					i++
				}
			}
		}
	}
	for _, d := range fixed {
		emit(d)
	}
	for n := 1; n <= 30; n++ {
		emit(strings.Repeat("9", n))
		emit(strings.Repeat("0", n))
		emit("1" + strings.Repeat("0", n-1))
		emit(strings.Repeat("0", n-1) + "1")
		emit(("1234567890" + "1234567890" + "1234567890")[:n])
	}
}

// ---------------------------------------------------------------------------
// Histories: ONE projection and ONE filter per key applied to a sequence of
// names. What a key denotes for a name is a function of that name (and its
// configuration) alone, so it must not depend on the names seen before.

type c05HistCase struct {
	Names []kit.B
	Cfgs  [][]c05KV  // one configuration map per name
	Keys  []kit.B    // distinct keys; one reused single-field projection each
	Lits  [][2]kit.B // per key: the two literals of the filter key:"l0" OR key:"l1"
	// Mode 0: a fresh Result per step. Mode 1: ONE Result updated in place
	// from step to step (the name overwritten in its own buffer, the
	// configuration through SetConfig), as a streaming caller does. Mode 2:
	// as 1, but every step first replaces the Result by its Clone. Mode 3:
	// as 1, cloning before every odd step.
	Mode int `json:",omitempty"`
}

// c05GenInPlace derives an in-place history from c05GenHist: more
// configuration keys with values of varying length, and names that are
// same-length rearrangements of their predecessor (so that a reused name
// buffer holds a different decomposition at the same length).
func c05GenInPlace(r *kit.Rand, i int) c05HistCase {
	c := c05GenHist(r, i)
	c.Mode = 1 + r.Intn(3)
	cfgKeys := []string{"k", "goos", "goarch", "pkg"}
	cfgVals := []string{"1", "2", "x", "linux", "freebsd", "amd64", "arm64", "a=b", "3-4", "example.com/enc", "", "plan9"}
	for j := range c.Names {
		if j > 0 && r.Chance(0.6) {
			prev := []byte(string(c.Names[j-1]))
			for tries := 0; tries < 8 && len(prev) >= 2; tries++ {
				p := r.Intn(len(prev) - 1)
				if prev[p] != prev[p+1] && (strings.IndexByte("/=-", prev[p]) >= 0 || strings.IndexByte("/=-", prev[p+1]) >= 0 || tries >= 6) {
					prev[p], prev[p+1] = prev[p+1], prev[p]
					if r.Chance(0.6) {
						break
					}
				}
			}
			c.Names[j] = kit.B(prev)
		}
		var cfg []c05KV
		for _, ck := range cfgKeys {
			if r.Chance(0.7) {
				cfg = append(cfg, c05KV{K: kit.B(ck), V: kit.B(kit.Pick(r, cfgVals)), File: r.Bool()})
			}
		}
		c.Cfgs[j] = cfg
	}
	for _, k := range []string{"goarch", "pkg", "goos", "k"} {
		have := false
		for _, kb := range c.Keys {
			have = have || string(kb) == k
		}
		if !have && r.Chance(0.6) {
			c.Keys = append(c.Keys, kit.B(k))
			c.Lits = append(c.Lits, [2]kit.B{})
		}
	}
	for i, kb := range c.Keys {
		var seen []string
		for j, nm := range c.Names {
			v, _ := c05RefGet(string(kb), string(nm), c.Cfgs[j])
			seen = append(seen, v)
		}
		c.Lits[i] = [2]kit.B{kit.B(kit.Pick(r, seen)), kit.B(kit.Pick(r, seen))}
	}
	return c
}

// c05Step produces the Result of step j: fresh in mode 0, otherwise prev
// updated in place (optionally through a Clone first).
func c05Step(c c05HistCase, j int, prev *benchfmt.Result) *benchfmt.Result {
	cc := c05Case{Name: c.Names[j], Cfg: c.Cfgs[j]}
	if c.Mode == 0 || prev == nil {
		return c05Result(cc)
	}
	res := prev
	if c.Mode == 2 || (c.Mode == 3 && j%2 == 1) {
		res = prev.Clone()
	}
	res.Name = append(res.Name[:0], string(c.Names[j])...)
	want := map[string]string{}
	for _, kv := range c.Cfgs[j] {
		want[string(kv.K)] = string(kv.V)
	}
	var drop []string
	for _, cfg := range res.Config {
		if _, ok := want[cfg.Key]; !ok {
			drop = append(drop, cfg.Key)
		}
	}
	for _, k := range drop {
		res.SetConfig(k, "") // documented: deletes the key
	}
	for _, kv := range c.Cfgs[j] {
		res.SetConfig(string(kv.K), string(kv.V))
	}
	return res
}

func c05GenHist(r *kit.Rand, i int) c05HistCase {
	subKeys := []string{"k", "j", "gomaxprocs", ""}
	vals := []string{"1", "2", "x", "", "3-4", "a=b"}
	// A small pool of names with repeated keys at varying part positions.
	mkName := func() string {
		var sb strings.Builder
		sb.WriteString(kit.Pick(r, []string{"Scan", "B", "", "k=1"}))
		for n := r.Range(0, 5); n > 0; n-- {
			sb.WriteByte('/')
			switch r.Intn(8) {
			case 0:
				sb.WriteString(kit.Pick(r, vals)) // positional
			case 1: // empty
			default:
				key := subKeys[0]
				if r.Chance(0.45) {
					key = kit.Pick(r, subKeys)
				}
				sb.WriteString(key + "=" + kit.Pick(r, vals))
			}
		}
		switch r.Intn(6) {
		case 0, 1:
			sb.WriteString("-" + strconv.Itoa(r.Range(1, 16)))
		case 2:
			sb.WriteString("-" + c05Digits(r, r.Range(1, 25)))
		}
		return sb.String()
	}
	pool := make([]string, r.Range(2, 5))
	for k := range pool {
		pool[k] = mkName()
	}
	cfgKeys := []string{"k", "goos"}
	var c c05HistCase
	var seenVals []string
	for n := r.Range(2, 8); n > 0; n-- {
		name := kit.Pick(r, pool)
		c.Names = append(c.Names, kit.B(name))
		var cfg []c05KV
		for _, ck := range cfgKeys {
			if r.Chance(0.5) {
				cfg = append(cfg, c05KV{K: kit.B(ck), V: kit.B(kit.Pick(r, vals)), File: r.Bool()})
			}
		}
		c.Cfgs = append(c.Cfgs, cfg)
	}
	keys := []string{"/k"}
	for _, k := range []string{"/j", "/gomaxprocs", "/", ".name", ".fullname", "k", "goos", "/zz"} {
		if r.Chance(0.3) {
			keys = append(keys, k)
		}
	}
	kit.Shuffle(r, keys)
	for _, k := range keys {
		for j, nm := range c.Names {
			v, _ := c05RefGet(k, string(nm), c.Cfgs[j])
			seenVals = append(seenVals, v)
		}
		l0, l1 := kit.Pick(r, seenVals), kit.Pick(r, vals)
		if r.Chance(0.5) {
			l1 = kit.Pick(r, seenVals)
		}
		c.Keys = append(c.Keys, kit.B(k))
		c.Lits = append(c.Lits, [2]kit.B{kit.B(l0), kit.B(l1)})
	}
	return c
}

func c05HistCheck(c c05HistCase) *kit.Fail {
	if len(c.Keys) == 0 || len(c.Lits) != len(c.Keys) || len(c.Cfgs) != len(c.Names) {
		return nil
	}
	words := make([]string, len(c.Keys))
	for i, k := range c.Keys {
		words[i] = c05Word(string(k))
	}
	// One single-field projection per key, each from its own parser (in a
	// shared parser .fullname would leave out the other keys: C08's subject).
	projs := make([]*benchproc.Projection, len(c.Keys))
	fields := make([]*benchproc.Field, len(c.Keys))
	for i, w := range words {
		var pp benchproc.ProjectionParser
		proj, err := pp.Parse(w, nil)
		if err != nil {
			return kit.Failf("projection-rejected", "projection %s rejected: %v", w, err)
		}
		fs := proj.Fields()
		if len(fs) != 1 || fs[0].Name != string(c.Keys[i]) {
			return kit.Failf("projection-fields", "projection %s has fields %v", w, fs)
		}
		projs[i], fields[i] = proj, fs[0]
	}
	filters := make([]*benchproc.Filter, len(c.Keys))
	fexprs := make([]string, len(c.Keys))
	for i, w := range words {
		fexprs[i] = w + ":" + strconv.Quote(string(c.Lits[i][0])) + " OR " + w + ":" + strconv.Quote(string(c.Lits[i][1]))
		f, err := benchproc.NewFilter(fexprs[i])
		if err != nil {
			return kit.Failf("filter-rejected", "filter %s rejected: %v", fexprs[i], err)
		}
		filters[i] = f
	}
	var cur *benchfmt.Result
	for j, nb := range c.Names {
		name := string(nb)
		cc := c05Case{Name: nb, Cfg: c.Cfgs[j]}
		cur = c05Step(c, j, cur)
		for i, kb := range c.Keys {
			k := string(kb)
			want, alt := c05RefGet(k, name, c.Cfgs[j])
			pres := cur
			if c.Mode == 0 {
				pres = c05Result(cc)
			}
			got := projs[i].Project(pres).Get(fields[i])
			if got != want && (alt == nil || got != *alt) {
				return kit.Failf(c05Sig(k, "projection"), "history %q, step %d: key %q of name %q cfg %v through the reused projection = %q, want %q",
					c.Names[:j], j, k, name, c.Cfgs[j], got, want)
			}
			l0, l1 := string(c.Lits[i][0]), string(c.Lits[i][1])
			wantM := want == l0 || want == l1
			if alt != nil {
				if altM := *alt == l0 || *alt == l1; altM != wantM {
					continue // either value is admitted and they decide differently
				}
			}
			res := cur
			if c.Mode == 0 {
				res = c05Result(cc)
			}
			m, _ := filters[i].Match(res)
			if m.Test(0) != wantM || m.All() != wantM || m.Any() != wantM {
				return kit.Failf(c05Sig(k, "filter"), "history %q, step %d: reused filter %s on name %q cfg %v: Test(0)=%v All=%v Any=%v, want %v (key denotes %q)",
					c.Names[:j], j, fexprs[i], name, c.Cfgs[j], m.Test(0), m.All(), m.Any(), wantM, want)
			}
		}
	}
	return nil
}

// c05HistNonTrivial: at least two different names, and some name carries a
// projected sub-name key in two of its segments.
func c05HistNonTrivial(c c05HistCase) bool {
	distinct := map[string]bool{}
	dup := false
	for _, nb := range c.Names {
		distinct[string(nb)] = true
		_, parts, _, _ := c05RefSplit(string(nb))
		for _, kb := range c.Keys {
			k := string(kb)
			if !strings.HasPrefix(k, "/") {
				continue
			}
			n := 0
			for _, p := range parts {
				if strings.HasPrefix(p, k+"=") {
					n++
				}
			}
			if n >= 2 {
				dup = true
			}
		}
	}
	return dup && len(distinct) >= 2
}

func TestVerifC05(t *testing.T) {
	const alphabet = "a/=-1"
	exhaustive := kit.Class[c05Case]{
		Name: "exhaustive-names",
		Enum: func(thorough bool, yield func(c05Case)) {
			maxLen := 6
			if thorough {
				maxLen = 7
			}
			i := 0
			buf := make([]byte, 0, maxLen)
			var rec func()
			rec = func() {
				yield(c05Case{Name: kit.B(buf), Cfg: c05Configs[i%len(c05Configs)]})
				i++
				if len(buf) == maxLen {
					return
				}
				for k := 0; k < len(alphabet); k++ {
					buf = append(buf, alphabet[k])
					rec()
					buf = buf[:len(buf)-1]
				}
			}
			rec()
		},
		Check: c05Check, NonTrivial: c05NonTrivial, MinNonTrivial: 10000,
		Rule:            "every name over the alphabet {a,/,=,-,1} up to length 6 (quick) / 7 (thorough), each with one of five fixed configuration maps, keys {.name,.fullname,/a,/=,/gomaxprocs,/1,/,k} observed through a single-field projection and through literal filter terms (exact value and near misses); non-trivial = the name contains at least two of the separator characters '/', '=', '-'",
		HangIsViolation: true,
	}
	random := kit.Class[c05Case]{
		Name: "random-long-names", Quick: 30000, Thorough: 1500000,
		Gen: c05GenRandom, Check: c05Check, NonTrivial: c05NonTrivial, MinNonTrivial: 15000,
		Rule:            "random names of 0-6 segments over letters, digits, multi-byte runes, invalid UTF-8 bytes, blanks and expression operators, with key=value, positional and empty segments, repeated keys, explicit gomaxprocs= segments, and tails -N, '-', -Nx, --N, N; random configuration maps (file and internal); keys = .name,.fullname,/gomaxprocs, every sub-name key of the name, missing keys, every configuration key; non-trivial as above",
		HangIsViolation: true,
	}
	digitTails := kit.Class[c05Case]{
		Name: "digit-tails", Enum: c05EnumDigitTails,
		Check: c05Check, NonTrivial: func(c c05Case) bool { _, _, _, has := c05RefSplit(string(c.Name)); return has }, MinNonTrivial: 5000,
		Rule:            "13 prefixes x separators {-,--,/,none,=,-0-} x digit runs of every length 1..30 (all nines, all zeros, 1 followed by zeros, zeros followed by 1, 1234567890...) and the decimal values around 2^32, 2^63, 2^64, 2^128 x tails {none,a,-,/}; keys as in the exhaustive class; non-trivial = the reference decomposition has a trailing -N part",
		HangIsViolation: true,
	}
	history := kit.Class[c05HistCase]{
		Name: "reused-extractor-histories", Quick: 20000, Thorough: 600000,
		Gen: c05GenHist, Check: c05HistCheck, NonTrivial: c05HistNonTrivial, MinNonTrivial: 4000,
		Rule:            "sequences of 2-8 names drawn from a pool of 2-5 names (0-5 segments over sub-name keys {k,j,gomaxprocs,empty} with repeated keys at varying part positions, positional and empty segments, optional -N of 1-25 digits), each with its own configuration map; ONE single-field projection and ONE filter key:\"l0\" OR key:\"l1\" per key (literals drawn from the values occurring in the sequence) are reused over the whole sequence and every step is compared with the per-name reference; non-trivial = at least two distinct names and some name carries a projected sub-name key in two segments",
		HangIsViolation: true,
	}
	inPlace := kit.Class[c05HistCase]{
		Name: "in-place-result-histories", Quick: 20000, Thorough: 600000,
		Gen: c05GenInPlace, Check: c05HistCheck, NonTrivial: func(c c05HistCase) bool {
			for j := 1; j < len(c.Names); j++ {
				if len(c.Names[j]) == len(c.Names[j-1]) && string(c.Names[j]) != string(c.Names[j-1]) {
					return true
				}
			}
			return false
		}, MinNonTrivial: 4000,
		Rule:            "as reused-extractor-histories, but ONE Result is carried from step to step and updated in place the way a streaming caller does (name overwritten in its own buffer, configuration over keys {k,goos,goarch,pkg} changed through SetConfig, including deletions and values longer or shorter than the old ones), in three modes: never cloned, replaced by its Clone before every step, cloned before every odd step; 60% of the names are same-length rearrangements of their predecessor (two adjacent bytes swapped around a separator); non-trivial = two consecutive different names of equal length",
		HangIsViolation: true,
	}
	kit.Run(t, "C05", exhaustive, random, digitTails, history, inPlace)
}
