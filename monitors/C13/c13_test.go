//go:build verif

package benchmath_test

// C13: benchmath summaries and comparisons honour their contracts.
//
// Observation points: Assumption.Summary / Assumption.Compare of the three
// assumptions, Summary.PctRangeString, Comparison.String / FormatDelta.
//
// Oracles written here, independent of benchmath and of go-moremath:
//   - order statistics on a sorted copy, medians/means/variances in big.Rat,
//     exact binomial coverage sums in big.Rat;
//   - Student-t distribution function by Simpson quadrature of cos^(v-1);
//   - exact permutation p-value of the U statistic by brute force
//     (n1,n2 <= 7) and by a rank-sum counting recurrence in uint64
//     (untied, n1+n2 <= 60), cross-checked against each other;
//   - the string formulas, re-implemented on big.Rat.
//
// Recorded, not repairable inside golang/perf: AssumeNothing.Compare takes P
// from the external go-moremath U test, which is wrong for tied samples in
// its exact path (signature utest-exact-ties, see c13PSig).

import (
	"fmt"
	"math"
	"math/big"
	"regexp"
	"runtime/debug"
	"sort"
	"strconv"
	"strings"
	"testing"

	"golang.org/x/perf/benchmath"
	kit "golang.org/x/perf/internal/verifkit"
)

const (
	c13Tol      = 1e-12
	c13KnownSig = "utest-exact-ties"
	// go-moremath's stats.MannWhitneyTiesExactLimit (stats/utest.go in the
	// module cache); the module is not importable from golang.org/x/perf's
	// external tests without naming it, and benchmath does not re-export it.
	c13TiesExactLimit = 25
	// go-moremath's stats.MannWhitneyExactLimit: above it "small" ends and the
	// normal approximation is used even without ties.
	c13ExactLimit = 50
	c13Eps        = 2.220446049250313e-16
)

func c13Model(m int) benchmath.Assumption {
	switch m {
	case 0:
		return benchmath.AssumeNothing
	case 1:
		return benchmath.AssumeExact
	}
	return benchmath.AssumeNormal
}

func c13ModelName(m int) string { return [...]string{"nothing", "exact", "normal"}[m] }

func c13Copy(x []float64) []float64 { return append([]float64(nil), x...) }

func c13Sorted(x []float64) []float64 {
	s := c13Copy(x)
	sort.Float64s(s)
	return s
}

func c13Rat(f float64) *big.Rat {
	r := new(big.Rat)
	if r.SetFloat64(f) == nil {
		panic("c13 oracle: non-finite value in rational arithmetic")
	}
	return r
}

func c13RatFloat(r *big.Rat) float64 {
	f, _ := r.Float64()
	return f
}

func c13MaxAbs(xs []float64) float64 {
	m := 0.0
	for _, x := range xs {
		if math.Abs(x) > m {
			m = math.Abs(x)
		}
	}
	return m
}

func c13Distinct(sorted []float64) bool {
	for i := 1; i < len(sorted); i++ {
		if sorted[i] == sorted[i-1] {
			return false
		}
	}
	return true
}

// c13First returns the first failure that is not the recorded finding.
func c13First(fails []*kit.Fail) *kit.Fail {
	var known *kit.Fail
	for _, f := range fails {
		if f.Sig != c13KnownSig {
			return f
		}
		if known == nil {
			known = f
		}
	}
	return known
}

// ---------------------------------------------------------------------------
// Strings.

// c13ParsePct parses "<decimal>%" into a rational.
func c13ParsePct(s string) (*big.Rat, bool) {
	if !strings.HasSuffix(s, "%") {
		return nil, false
	}
	body := strings.TrimSuffix(s, "%")
	if body == "" || strings.ContainsAny(body, "eEnNiI/ ") {
		return nil, false
	}
	r, ok := new(big.Rat).SetString(body)
	return r, ok
}

func c13Sign(x float64) int {
	switch {
	case x > 0:
		return 1
	case x < 0:
		return -1
	}
	return 0
}

func c13RatAbs(r *big.Rat) *big.Rat { return new(big.Rat).Abs(r) }

func c13RatMax(a, b *big.Rat) *big.Rat {
	if a.Cmp(b) >= 0 {
		return a
	}
	return b
}

// c13Near reports |got-want| <= half + 1e-9*max(1,|want|).
func c13Near(got, want *big.Rat, half *big.Rat) bool {
	d := new(big.Rat).Sub(got, want)
	d.Abs(d)
	slack := c13RatMax(big.NewRat(1, 1), c13RatAbs(want))
	slack = new(big.Rat).Mul(slack, big.NewRat(1, 1000000000))
	slack.Add(slack, half)
	return d.Cmp(slack) <= 0
}

// c13CheckPctRange compares PctRangeString with the documented rules.
func c13CheckPctRange(center, lo, hi float64, got string) *kit.Fail {
	desc := fmt.Sprintf("Summary{Center:%v Lo:%v Hi:%v}.PctRangeString()=%q", center, lo, hi, got)
	if math.IsInf(lo, 0) || math.IsInf(hi, 0) {
		if got != "∞" {
			return kit.Failf("pctrange-marker", "%s, want \"∞\" (infinite end)", desc)
		}
		return nil
	}
	if c13Sign(center) != c13Sign(lo) || c13Sign(center) != c13Sign(hi) {
		if got != "?" {
			return kit.Failf("pctrange-marker", "%s, want \"?\" (signs differ)", desc)
		}
		return nil
	}
	if center == 0 {
		if got != "0%" {
			return kit.Failf("pctrange-marker", "%s, want \"0%%\"", desc)
		}
		return nil
	}
	c := c13Rat(center)
	dHi := new(big.Rat).Quo(new(big.Rat).Sub(c13Rat(hi), c), c) // (hi-c)/c
	dLo := new(big.Rat).Quo(new(big.Rat).Sub(c, c13Rat(lo)), c) // (c-lo)/c
	hundred := big.NewRat(100, 1)
	want := new(big.Rat).Mul(hundred, c13RatMax(c13RatAbs(dHi), c13RatAbs(dLo)))
	g, ok := c13ParsePct(got)
	half := big.NewRat(1, 2)
	if ok && c13Near(g, want, half) {
		return nil
	}
	// Repaired defect (fix 0a8a97a): for a negative centre the signed
	// formula max(hi/c-1, 1-lo/c) picked the smaller deviation, negated.
	if ok && center < 0 && lo < 0 && hi < 0 && lo <= center && center <= hi {
		signed := new(big.Rat).Mul(hundred, c13RatMax(dHi, dLo))
		if c13Near(g, signed, half) {
			return kit.Failf("pctrange-negative-centre", "%s, want %s%% (larger relative deviation), got the signed smaller one", desc, want.FloatString(1))
		}
	}
	return kit.Failf("pctrange-wrong", "%s, want %s%% rounded to an integer", desc, want.FloatString(3))
}

var c13CmpRe = regexp.MustCompile(`^(?:p=(\S+) )?n=(\d+)(?:\+(\d+))?$`)

func c13CheckString(c benchmath.Comparison) *kit.Fail {
	got := c.String()
	m := c13CmpRe.FindStringSubmatch(got)
	if m == nil {
		return kit.Failf("cmp-string", "Comparison{P:%v N1:%d N2:%d}.String()=%q: not of the form [p=0.PPP ]n=N1[+N2]", c.P, c.N1, c.N2, got)
	}
	a, _ := strconv.Atoi(m[2])
	if m[3] == "" {
		if a != c.N1 || c.N1 != c.N2 {
			return kit.Failf("cmp-string", "%q does not report sizes %d,%d", got, c.N1, c.N2)
		}
	} else {
		b, _ := strconv.Atoi(m[3])
		if a != c.N1 || b != c.N2 {
			return kit.Failf("cmp-string", "%q does not report sizes %d,%d", got, c.N1, c.N2)
		}
	}
	if m[1] == "" {
		if c.P != 0 {
			return kit.Failf("cmp-string", "%q omits p although P=%v", got, c.P)
		}
		return nil
	}
	p, err := strconv.ParseFloat(m[1], 64)
	if err != nil || math.IsNaN(p) || math.Abs(p-c.P) > 0.0005+1e-9 {
		return kit.Failf("cmp-string", "%q does not report P=%v to three decimals", got, c.P)
	}
	return nil
}

// c13CheckDelta compares FormatDelta with the documented rules.
func c13CheckDelta(c benchmath.Comparison, old, nw float64) *kit.Fail {
	got := c.FormatDelta(old, nw)
	desc := fmt.Sprintf("Comparison{P:%v Alpha:%v}.FormatDelta(%v,%v)=%q", c.P, c.Alpha, old, nw, got)
	if c.P > c.Alpha {
		if got != "~" {
			return kit.Failf("delta-threshold", "%s, want \"~\" because P > Alpha", desc)
		}
		return nil
	}
	if got == "~" {
		return kit.Failf("delta-threshold", "%s: \"~\" although P <= Alpha", desc)
	}
	if old == nw {
		g, ok := c13ParsePct(got)
		if !ok || g.Sign() != 0 {
			return kit.Failf("delta-marker", "%s, want a zero percentage", desc)
		}
		return nil
	}
	if old == 0 {
		if got != "?" {
			return kit.Failf("delta-marker", "%s, want \"?\" (old is zero)", desc)
		}
		return nil
	}
	want := new(big.Rat).Quo(c13Rat(nw), c13Rat(old))
	want.Sub(want, big.NewRat(1, 1))
	want.Mul(want, big.NewRat(100, 1))
	g, ok := c13ParsePct(got)
	if !ok || !c13Near(g, want, big.NewRat(1, 200)) {
		return kit.Failf("delta-wrong", "%s, want (new/old-1)*100 = %s%%", desc, want.FloatString(4))
	}
	return nil
}

// ---------------------------------------------------------------------------
// Student t distribution function, independent: with t = sqrt(v) tan(theta)
// the density is proportional to cos^(v-1)(theta) on [0, pi/2).

func c13Simpson(f func(float64) float64, a, b float64, n int) float64 {
	h := (b - a) / float64(n)
	s := f(a) + f(b)
	for i := 1; i < n; i++ {
		w := 4.0
		if i%2 == 0 {
			w = 2.0
		}
		s += w * f(a+float64(i)*h)
	}
	return s * h / 3
}

func c13TCDF(x float64, v int) float64 {
	f := func(th float64) float64 { return math.Pow(math.Cos(th), float64(v-1)) }
	th := math.Atan(math.Abs(x) / math.Sqrt(float64(v)))
	part := c13Simpson(f, 0, th, 4096)
	full := c13Simpson(f, 0, math.Pi/2, 4096)
	p := 0.5 + 0.5*part/full
	if x < 0 {
		return 1 - p
	}
	return p
}

// ---------------------------------------------------------------------------
// Summaries.

type c13Sum struct {
	Model int       // 0 nothing, 1 exact, 2 normal
	Vals  []float64 // in the order given to NewSample (a copy is passed)
	Conf  float64
	// Probe: additionally derive the number of samples needed for a finite
	// interval through AssumeNothing.Summary itself (samples of 2..50 distinct
	// values at the same confidence) and compare the warning with it.
	Probe bool `json:",omitempty"`
}

// c13DerivedNeed returns the least n in 2..50 for which the assume-nothing
// summary of n distinct values at this confidence has two finite ends (0 if
// there is none): "how many samples are needed", observed through the API.
func c13DerivedNeed(conf float64) int {
	thr := benchmath.DefaultThresholds
	for n := 2; n <= 50; n++ {
		vals := make([]float64, n)
		for i := range vals {
			vals[i] = float64(i + 1)
		}
		sm := benchmath.AssumeNothing.Summary(benchmath.NewSample(vals, &thr), conf)
		if !math.IsInf(sm.Lo, 0) && !math.IsInf(sm.Hi, 0) && !math.IsNaN(sm.Lo) && !math.IsNaN(sm.Hi) {
			return n
		}
	}
	return 0
}

var c13IntTok = regexp.MustCompile(`^[0-9]+$`)

// c13NeededSamples is the least n >= 2 whose tightest finite order-statistic
// interval [X(1), X(n)] covers the median with probability 1-2^(1-n) >= conf.
// near reports that conf is within 1e-9 of that boundary (n or n+1 accepted).
func c13NeededSamples(conf float64) (n int, near bool) {
	for n = 2; n < 200; n++ {
		cov := 1 - math.Ldexp(1, 1-n)
		if math.Abs(cov-conf) < 1e-9 {
			return n, true
		}
		if cov >= conf {
			return n, false
		}
	}
	return n, false
}

func c13CheckSummary(c c13Sum) *kit.Fail {
	n := len(c.Vals)
	if n < 1 || n > 70 || !(c.Conf > 0 && c.Conf < 1) || c.Model < 0 || c.Model > 2 {
		return nil
	}
	thr := benchmath.DefaultThresholds
	s := benchmath.NewSample(c13Copy(c.Vals), &thr)
	sm := c13Model(c.Model).Summary(s, c.Conf)
	sorted := c13Sorted(c.Vals)
	min, max := sorted[0], sorted[n-1]
	rng := max - min
	maxAbs := c13MaxAbs(sorted)
	name := c13ModelName(c.Model)
	desc := fmt.Sprintf("%s n=%d conf=%v summary={Center:%v Lo:%v Hi:%v Confidence:%v Warnings:%v}", name, n, c.Conf, sm.Center, sm.Lo, sm.Hi, sm.Confidence, sm.Warnings)

	member := func(v float64) int { // 1-based order of v in the sample, 0 if absent
		i := sort.SearchFloat64s(sorted, v)
		if i < n && sorted[i] == v {
			return i + 1
		}
		return 0
	}
	if math.IsNaN(sm.Center) || math.IsNaN(sm.Lo) || math.IsNaN(sm.Hi) || math.IsNaN(sm.Confidence) {
		return kit.Failf("summary-nan", "%s", desc)
	}
	if !(sm.Confidence >= c.Conf-c13Tol && sm.Confidence <= 1+c13Tol) {
		return kit.Failf("confidence-below-requested", "%s", desc)
	}
	centreTol := c13Tol*rng + 8*c13Eps*maxAbs*float64(n)
	if !(sm.Lo <= sm.Center+centreTol && sm.Center-centreTol <= sm.Hi) {
		return kit.Failf("not-bracketing", "%s", desc)
	}

	switch c.Model {
	case 0:
		// centre = sample median
		var med *big.Rat
		if n%2 == 1 {
			med = c13Rat(sorted[n/2])
		} else {
			med = new(big.Rat).Add(c13Rat(sorted[n/2-1]), c13Rat(sorted[n/2]))
			med.Quo(med, big.NewRat(2, 1))
		}
		if d := math.Abs(sm.Center - c13RatFloat(med)); d > c13Tol*rng+4*c13Eps*maxAbs {
			return kit.Failf("centre-not-median", "%s: median is %v", desc, c13RatFloat(med))
		}
		// ends are sample values or infinite
		l, r := 0, n+1
		if !math.IsInf(sm.Lo, -1) {
			if l = member(sm.Lo); l == 0 {
				return kit.Failf("end-not-sample-value", "%s: Lo is not a sample value", desc)
			}
		}
		if !math.IsInf(sm.Hi, 1) {
			if r = member(sm.Hi); r == 0 {
				return kit.Failf("end-not-sample-value", "%s: Hi is not a sample value", desc)
			}
		}
		// exact binomial coverage of [X(l), X(r)) for small distinct samples:
		// P(l <= #{values below the population median} < r), Bin(n, 1/2).
		if n <= 30 && c13Distinct(sorted) {
			cov := new(big.Int)
			for k := l; k <= r-1 && k <= n; k++ {
				cov.Add(cov, new(big.Int).Binomial(int64(n), int64(k)))
			}
			want := c13RatFloat(new(big.Rat).SetFrac(cov, new(big.Int).Lsh(big.NewInt(1), uint(n))))
			if math.Abs(sm.Confidence-want) > c13Tol {
				return kit.Failf("confidence-not-coverage", "%s: exact coverage of order statistics [%d,%d) is %v", desc, l, r, want)
			}
			kit.Count("nothing: exact coverage checked", 1)
		}
		inf := math.IsInf(sm.Lo, 0) || math.IsInf(sm.Hi, 0)
		if inf && len(sm.Warnings) == 0 {
			return kit.Failf("warning-missing", "%s: infinite end without warning", desc)
		}
		if !inf && len(sm.Warnings) != 0 {
			return kit.Failf("warning-spurious", "%s", desc)
		}
		if inf {
			kit.Count("nothing: infinite interval with warning", 1)
			if c.Conf <= 1-1e-6 {
				need, near := c13NeededSamples(c.Conf)
				ok := false
				for _, w := range sm.Warnings {
					for _, tok := range strings.Fields(w.Error()) {
						if c13IntTok.MatchString(tok) {
							v, _ := strconv.Atoi(tok)
							if v == need || near && v == need+1 {
								ok = true
							}
						}
					}
				}
				if !ok {
					return kit.Failf("warning-count-wrong", "%s: %d samples are needed for a finite interval", desc, need)
				}
				if n >= need && !near {
					return kit.Failf("warning-count-wrong", "%s: %d samples suffice for a finite interval, sample has %d", desc, need, n)
				}
			}
			if c.Probe {
				// The statement: "a warning saying how many samples are
				// needed". Needed = the least sample size for which Summary
				// itself reports a finite interval at this confidence.
				if need := c13DerivedNeed(c.Conf); need > 0 {
					ok := false
					for _, w := range sm.Warnings {
						for _, tok := range strings.Fields(w.Error()) {
							if c13IntTok.MatchString(tok) {
								if v, _ := strconv.Atoi(tok); v == need {
									ok = true
								}
							}
						}
					}
					if !ok {
						return kit.Failf("warning-count-wrong", "%s: Summary has a finite interval for %d distinct values at this confidence (and for no smaller sample)", desc, need)
					}
					kit.Count("nothing: warning count compared with the minimum derived through Summary", 1)
					if c.Conf > 1-1e-6 {
						kit.Count("nothing: ... of which confidence above 1-1e-6 (needs >= 22 samples)", 1)
					}
				} else {
					kit.Count("nothing: no sample size up to 50 gives a finite interval (count not compared)", 1)
				}
			}
		}
	case 1:
		// centre is a most frequent value; warning exactly when values differ
		best, cnt := 0, map[float64]int{}
		for _, v := range sorted {
			if v == 0 {
				v = 0 // -0 and 0 are one value
			}
			cnt[v]++
			if cnt[v] > best {
				best = cnt[v]
			}
		}
		cv := sm.Center
		if cv == 0 {
			cv = 0
		}
		if cnt[cv] != best {
			return kit.Failf("centre-not-mode", "%s: %v occurs %d times, the mode %d times", desc, sm.Center, cnt[cv], best)
		}
		differ := min != max
		if differ && len(sm.Warnings) == 0 {
			return kit.Failf("warning-missing", "%s: values differ", desc)
		}
		if !differ && len(sm.Warnings) != 0 {
			return kit.Failf("warning-spurious", "%s: all values equal", desc)
		}
	case 2:
		sum := new(big.Rat)
		for _, v := range sorted {
			sum.Add(sum, c13Rat(v))
		}
		mean := new(big.Rat).Quo(sum, big.NewRat(int64(n), 1))
		mf := c13RatFloat(mean)
		if math.Abs(sm.Center-mf) > 8*float64(n)*c13Eps*maxAbs {
			return kit.Failf("centre-not-mean", "%s: mean is %v", desc, mf)
		}
		if n >= 2 {
			ss := new(big.Rat)
			for _, v := range sorted {
				d := new(big.Rat).Sub(c13Rat(v), mean)
				ss.Add(ss, d.Mul(d, d))
			}
			ss.Quo(ss, big.NewRat(int64(n-1), 1))
			sd := math.Sqrt(c13RatFloat(ss))
			wLo, wHi := sm.Center-sm.Lo, sm.Hi-sm.Center
			if sd == 0 {
				if wLo != 0 || wHi != 0 {
					return kit.Failf("interval-not-t", "%s: zero variance but non-empty interval", desc)
				}
			} else if kappa := maxAbs / sd; kappa <= 1e9 {
				if math.Abs(wLo-wHi) > 16*c13Eps*(math.Abs(sm.Center)+wLo) {
					return kit.Failf("interval-not-t", "%s: not symmetric about the mean", desc)
				}
				w := (wLo + wHi) / 2
				q := w / (sd / math.Sqrt(float64(n)))
				got := c13TCDF(q, n-1)
				want := (1 + c.Conf) / 2
				tol := 1e-6 + 10*float64(n)*kappa*c13Eps + 4*c13Eps*math.Abs(sm.Center)/w
				if math.Abs(got-want) > tol {
					return kit.Failf("interval-not-t", "%s: half width is %v standard errors, t CDF(%d dof) there is %v, want %v", desc, q, n-1, got, want)
				}
				kit.Count("normal: t interval checked", 1)
				kit.NoteMax("normal: worst |tCDF(q)-(1+c)/2|", math.Abs(got-want))
			}
		}
	}
	if f := c13CheckPctRange(sm.Center, sm.Lo, sm.Hi, sm.PctRangeString()); f != nil {
		return f
	}
	if sm.Center < 0 && sm.Hi < 0 && !math.IsInf(sm.Lo, 0) {
		kit.Count("summary with all-negative interval rendered", 1)
	}
	return nil
}

func c13SumNonTrivial(c c13Sum) bool { return len(c.Vals) >= 2 }

// ---------------------------------------------------------------------------
// Value generators.

func c13GenValues(r *kit.Rand, n int, style int) []float64 { return c13GenValuesExp(r, n, style, 100) }

// c13GenValuesExp: style 4 draws the scale from 10^[-maxExp,maxExp].
func c13GenValuesExp(r *kit.Rand, n int, style int, maxExp int) []float64 {
	out := make([]float64, n)
	switch style {
	case 0: // positive, distinct-ish, benchmark-like
		mu := r.LogUniform(-3, 6)
		cv := kit.Pick(r, []float64{0.001, 0.01, 0.05, 0.3})
		for i := range out {
			out[i] = mu * (1 + cv*r.NormFloat64())
		}
	case 1: // small integers (ties)
		w := r.Range(1, 6)
		off := r.Range(-3, 3)
		for i := range out {
			out[i] = float64(r.Intn(w) + off)
		}
	case 2: // mixed sign around zero
		sc := r.LogUniform(-2, 3)
		for i := range out {
			out[i] = sc * r.NormFloat64()
		}
	case 3: // with zeros
		for i := range out {
			if r.Chance(0.3) {
				out[i] = 0
			} else {
				out[i] = float64(r.Range(-4, 9)) * 0.5
			}
		}
	case 4: // huge or tiny magnitudes
		sc := math.Pow(10, float64(r.Range(-maxExp, maxExp)))
		for i := range out {
			out[i] = sc * (1 + 0.2*r.NormFloat64())
		}
	case 5: // negative
		mu := -r.LogUniform(-2, 5)
		for i := range out {
			out[i] = mu * (1 + 0.1*r.NormFloat64())
		}
	case 6: // all equal
		v := kit.Pick(r, []float64{0, 1, -2.5, 1e100, 3e-100, 7})
		for i := range out {
			out[i] = v
		}
	case 7: // two values
		a, b := float64(r.Range(-5, 5)), float64(r.Range(-5, 5))
		for i := range out {
			if r.Bool() {
				out[i] = a
			} else {
				out[i] = b
			}
		}
	default: // distinct integers in random order
		p := r.Perm(n + r.Intn(n+1))
		for i := range out {
			out[i] = float64(p[i]) + 1
		}
	}
	return out
}

var c13ConfGrid = []float64{0.5, 0.75, 0.8, 0.875, 0.9, 0.95, 0.96875, 0.99, 0.999, 0.25, 0.1, 0.01, 0.6, 0.9999, 0.999999, 1e-6, 0.3, 0.984375}

func c13GenConf(r *kit.Rand) float64 {
	switch r.Intn(4) {
	case 0:
		return r.Float64()*0.998 + 0.001
	case 1:
		return 1 - r.LogUniform(-9, -0.5) // close to 1
	}
	return kit.Pick(r, c13ConfGrid)
}

func c13GenSum(model int) func(r *kit.Rand, i int) c13Sum {
	return func(r *kit.Rand, i int) c13Sum {
		var n int
		switch r.Intn(4) {
		case 0:
			n = r.Range(1, 8)
		case 1:
			n = r.Range(1, 30)
		case 2:
			n = r.Range(28, 34)
		default:
			n = r.Range(1, 70)
		}
		style := r.Intn(9)
		if model == 0 && r.Chance(0.4) {
			style = kit.Pick(r, []int{0, 2, 4, 5, 8})
		}
		return c13Sum{Model: model, Vals: c13GenValues(r, n, style), Conf: c13GenConf(r), Probe: model == 0 && i%8 == 0}
	}
}

// c13GenHighConf: confidence levels of the form 1-10^-k and 1-c*10^-k
// (k = 3..10) and values on / next to the coverage steps 1-2^(1-n) of the
// widest finite order-statistic interval.
func c13GenHighConf(r *kit.Rand) float64 {
	for {
		var conf float64
		switch r.Intn(4) {
		case 0:
			conf = 1 - math.Pow(10, -float64(r.Range(3, 10)))
		case 1:
			conf = 1 - float64(r.Range(1, 9))*math.Pow(10, -float64(r.Range(3, 10)))
		case 2:
			conf = 1 - float64(r.Range(10, 99))/10*math.Pow(10, -float64(r.Range(3, 10)))
		default:
			step := 1 - math.Ldexp(1, 1-r.Range(2, 40))
			switch r.Intn(7) {
			case 0:
				conf = step
			case 1:
				conf = math.Nextafter(step, 0)
			case 2:
				conf = math.Nextafter(step, 1)
			default:
				d := kit.Pick(r, []float64{1e-15, 1e-12, 3e-10, 1e-8})
				if r.Bool() {
					d = -d
				}
				conf = step + d
			}
		}
		if conf > 0 && conf < 1 {
			return conf
		}
	}
}

func c13GenSumHighConf(r *kit.Rand, i int) c13Sum {
	var n int
	switch r.Intn(4) {
	case 0:
		n = r.Range(1, 8)
	case 1:
		n = r.Range(1, 30)
	case 2:
		n = r.Range(24, 40)
	default:
		n = r.Range(1, 70)
	}
	style := kit.Pick(r, []int{0, 1, 2, 4, 5, 8, 8})
	return c13Sum{Model: 0, Vals: c13GenValues(r, n, style), Conf: c13GenHighConf(r), Probe: true}
}

// ---------------------------------------------------------------------------
// Exact permutation p-value of the two-sided U test (oracle).

// c13BruteP returns min(1, 2*min(P(U<=u), P(U>=u))) over all relabellings.
func c13BruteP(a, b []float64) float64 {
	pooled := append(c13Copy(a), b...)
	N, n1 := len(pooled), len(a)
	w := make([][]int, N)
	for i := range w {
		w[i] = make([]int, N)
		for j := range w[i] {
			switch {
			case pooled[i] > pooled[j]:
				w[i][j] = 2
			case pooled[i] == pooled[j]:
				w[i][j] = 1
			}
		}
	}
	stat := func(m uint32) int {
		tw := 0
		for i := 0; i < N; i++ {
			if m>>uint(i)&1 == 0 {
				continue
			}
			for j := 0; j < N; j++ {
				if m>>uint(j)&1 == 0 {
					tw += w[i][j]
				}
			}
		}
		return tw
	}
	obs := stat(uint32(1)<<uint(n1) - 1)
	var le, ge, total int64
	full := uint32(1)<<uint(N) - 1
	for m := uint32(1)<<uint(n1) - 1; m <= full; {
		tw := stat(m)
		total++
		if tw <= obs {
			le++
		}
		if tw >= obs {
			ge++
		}
		c := m & -m
		r := m + c
		m = (((r ^ m) >> 2) / c) | r
	}
	mn := le
	if ge < mn {
		mn = ge
	}
	p := new(big.Rat).SetFrac64(2*mn, total)
	if p.Cmp(big.NewRat(1, 1)) > 0 {
		return 1
	}
	return c13RatFloat(p)
}

// c13RankSumP: untied samples, n1+n2 <= 60. Number of n1-subsets of the ranks
// 1..N with a given rank sum, by the subset-sum recurrence in uint64.
func c13RankSumP(a, b []float64) float64 {
	n1, n2 := len(a), len(b)
	N := n1 + n2
	u := 0
	for _, x := range a {
		for _, y := range b {
			if x > y {
				u++
			}
		}
	}
	maxS := n1 * N
	ways := make([][]uint64, n1+1)
	for c := range ways {
		ways[c] = make([]uint64, maxS+1)
	}
	ways[0][0] = 1
	for rank := 1; rank <= N; rank++ {
		for c := n1; c >= 1; c-- {
			for s := maxS; s >= rank; s-- {
				ways[c][s] += ways[c-1][s-rank]
			}
		}
	}
	base := n1 * (n1 + 1) / 2
	le, ge, total := new(big.Int), new(big.Int), new(big.Int)
	for s, cnt := range ways[n1] {
		if cnt == 0 {
			continue
		}
		z := new(big.Int).SetUint64(cnt)
		total.Add(total, z)
		if s-base <= u {
			le.Add(le, z)
		}
		if s-base >= u {
			ge.Add(ge, z)
		}
	}
	if total.Cmp(new(big.Int).Binomial(int64(N), int64(n1))) != 0 {
		panic("c13 oracle: rank-sum recurrence total is not C(N,n1)")
	}
	mn := le
	if ge.Cmp(mn) < 0 {
		mn = ge
	}
	p := new(big.Rat).SetFrac(new(big.Int).Lsh(mn, 1), total)
	if p.Cmp(big.NewRat(1, 1)) > 0 {
		return 1
	}
	return c13RatFloat(p)
}

// ---------------------------------------------------------------------------
// Comparisons.

type c13Cmp struct {
	Model  int
	A, B   []float64
	Alpha  float64
	Mixed  bool    // second sample created with Alpha2 instead
	Alpha2 float64 //
	K      int     // common rescaling by 2^K
	Times3 bool    // also rescale by 3 (only where rank preserving)
	Seed   uint64  // shuffles
}

func c13Shuffle(xs []float64, seed uint64) []float64 {
	out := c13Copy(xs)
	s := seed*0x9E3779B97F4A7C15 + 0x1234567
	for i := len(out) - 1; i > 0; i-- {
		s ^= s << 13
		s ^= s >> 7
		s ^= s << 17
		j := int(s % uint64(i+1))
		out[i], out[j] = out[j], out[i]
	}
	return out
}

func c13Scale(xs []float64, f float64) []float64 {
	out := make([]float64, len(xs))
	for i, x := range xs {
		out[i] = x * f
	}
	return out
}

// c13RankPreserving reports whether y is x with the same order and tie
// pattern (x and y index-aligned).
func c13RankPreserving(x, y []float64) bool {
	idx := make([]int, len(x))
	for i := range idx {
		idx[i] = i
	}
	sort.Slice(idx, func(i, j int) bool { return x[idx[i]] < x[idx[j]] })
	for k := 1; k < len(idx); k++ {
		a, b := idx[k-1], idx[k]
		if (x[a] == x[b]) != (y[a] == y[b]) || (x[a] < x[b]) != (y[a] < y[b]) {
			return false
		}
	}
	for _, v := range y {
		if math.IsInf(v, 0) {
			return false
		}
	}
	return true
}

func c13Head(x []float64) []float64 {
	if len(x) > 3 {
		return x[:3]
	}
	return x
}

// c13DofState evaluates, independently, the float64 arithmetic of Welch's
// degrees of freedom (q1+q2)^2 / (q1^2/(n1-1) + q2^2/(n2-1)), q = variance/n:
// "overflow" when a square overflows to +Inf or the denominator underflows to
// zero (quotient NaN/Inf: go-moremath's incomplete beta function then
// panics), "subnormal" when a square is non-zero but below the smallest
// normal float64 (gradual underflow: digits of the degrees of freedom are
// lost), "ok" otherwise. Standard deviations above ~1e77 / below ~1e-73.
func c13DofState(a, b []float64) string {
	if len(a) < 2 || len(b) < 2 {
		return "ok"
	}
	q := func(x []float64) float64 {
		n := big.NewRat(int64(len(x)), 1)
		sum := new(big.Rat)
		for _, v := range x {
			sum.Add(sum, c13Rat(v))
		}
		mean := new(big.Rat).Quo(sum, n)
		ss := new(big.Rat)
		for _, v := range x {
			d := new(big.Rat).Sub(c13Rat(v), mean)
			ss.Add(ss, d.Mul(d, d))
		}
		ss.Quo(ss, big.NewRat(int64(len(x)-1), 1))
		ss.Quo(ss, n)
		f, _ := new(big.Float).SetRat(ss).Float64() // saturates to +Inf / 0
		return f
	}
	q1, q2 := q(a), q(b)
	if q1 == 0 && q2 == 0 {
		return "ok" // zero variance is reported as an error, not computed
	}
	num := (q1 + q2) * (q1 + q2)
	t1, t2 := q1*q1/float64(len(a)-1), q2*q2/float64(len(b)-1)
	den := t1 + t2
	if math.IsInf(num, 0) || math.IsInf(den, 0) || den == 0 || math.IsNaN(num/den) {
		return "overflow"
	}
	const minNormal = 2.2250738585072014e-308
	for _, v := range []float64{num, q1 * q1, q2 * q2, t1, t2, den} {
		if v != 0 && v < minNormal {
			return "subnormal"
		}
	}
	return "ok"
}

// c13PanicSig classifies a panic of Compare: only the recorded root cause
// gets the narrow signature; any other panic keeps the generic one.
func c13PanicSig(model int, a, b []float64) string {
	if model == 2 && c13DofState(a, b) == "overflow" {
		return "normal-compare-dof-overflow"
	}
	return "panic"
}

// c13ScaleSig classifies a scale dependence of P between (a,b) and (a2,b2).
func c13ScaleSig(model int, a, b, a2, b2 []float64) string {
	if model == 2 && (c13DofState(a, b) == "subnormal" || c13DofState(a2, b2) == "subnormal") {
		return "normal-compare-dof-subnormal"
	}
	return "p-scale-dependent"
}

func c13MinP(n1, n2 int) float64 { // smallest achievable two-sided p
	return c13RatFloat(new(big.Rat).SetFrac(big.NewInt(2), new(big.Int).Binomial(int64(n1+n2), int64(n1))))
}

func c13CheckCompare(c c13Cmp) *kit.Fail {
	n1, n2 := len(c.A), len(c.B)
	if n1 < 1 || n2 < 1 || n1 > 70 || n2 > 70 || c.Model < 0 || c.Model > 2 || !(c.Alpha >= 0 && c.Alpha <= 1) || !(c.Alpha2 >= 0 && c.Alpha2 <= 1) {
		return nil
	}
	model := c13Model(c.Model)
	name := c13ModelName(c.Model)
	var fails []*kit.Fail
	add := func(f *kit.Fail) {
		if f != nil {
			fails = append(fails, f)
		}
	}
	mk := func(vals []float64, alpha float64) *benchmath.Sample {
		t := benchmath.DefaultThresholds
		t.CompareAlpha = alpha
		return benchmath.NewSample(c13Copy(vals), &t)
	}
	alphaB := c.Alpha
	if c.Mixed {
		alphaB = c.Alpha2
	}
	pooled := c13Sorted(append(c13Copy(c.A), c.B...))
	tied := !c13Distinct(pooled)
	allEqual := pooled[0] == pooled[len(pooled)-1]
	tiedSmall := c.Model == 0 && tied && n1 <= c13TiesExactLimit && n2 <= c13TiesExactLimit
	// c13PSig: a mismatch confined to P on tied samples in go-moremath's
	// exact path is the recorded finding; everything else alarms.
	pSig := func(otherwise string) string {
		if tiedSmall {
			return c13KnownSig
		}
		return otherwise
	}
	desc := fmt.Sprintf("%s n1=%d n2=%d alpha=%v tied=%v", name, n1, n2, c.Alpha, tied)

	// compare runs Compare under recover: a panic inside the code under test
	// is classified (c13PanicSig) instead of being left to the kit.
	compare := func(a []float64, alA float64, b []float64, alB float64) (res benchmath.Comparison, ok bool) {
		defer func() {
			if r := recover(); r != nil {
				st := string(debug.Stack())
				if !kit.PanicInTarget(st) && !strings.Contains(st, "go-moremath") {
					panic(r) // the monitor's own bug
				}
				add(kit.Failf(c13PanicSig(c.Model, a, b), "%s: Compare panics: %v (first values %v | %v)", desc, r, c13Head(a), c13Head(b)))
				ok = false
			}
		}()
		return model.Compare(mk(a, alA), mk(b, alB)), true
	}
	c12, ok12 := compare(c.A, c.Alpha, c.B, alphaB)
	c21, ok21 := compare(c.B, alphaB, c.A, c.Alpha)
	if !ok12 || !ok21 {
		return c13First(fails)
	}

	if c12.N1 != n1 || c12.N2 != n2 || c21.N1 != n2 || c21.N2 != n1 {
		add(kit.Failf("n-wrong", "%s: Compare reports sizes %d,%d (swapped %d,%d)", desc, c12.N1, c12.N2, c21.N1, c21.N2))
	}
	if c.Model != 1 {
		// The testing models carry the threshold the samples were created
		// with (the first sample's when they differ, see NOTES.md).
		if c12.Alpha != c.Alpha {
			sig := "alpha-wrong"
			if c.Mixed {
				sig = "alpha-not-first-sample"
			}
			add(kit.Failf(sig, "%s: Comparison.Alpha=%v, samples were created with %v", desc, c12.Alpha, c.Alpha))
		}
		if !c.Mixed && c21.Alpha != c.Alpha {
			add(kit.Failf("alpha-wrong", "%s: swapped Comparison.Alpha=%v, samples were created with %v", desc, c21.Alpha, c.Alpha))
		}
	}
	inRange := func(p float64) bool { return p >= -c13Tol && p <= 1+c13Tol }
	if !inRange(c12.P) || !inRange(c21.P) {
		add(kit.Failf(pSig("p-out-of-range"), "%s: P=%v swapped P=%v", desc, c12.P, c21.P))
	}
	if !(math.Abs(c12.P-c21.P) <= c13Tol) {
		add(kit.Failf(pSig("p-asymmetric"), "%s: P(a,b)=%v P(b,a)=%v", desc, c12.P, c21.P))
	}
	// reordering each sample
	cs, okS := compare(c13Shuffle(c.A, c.Seed), c.Alpha, c13Shuffle(c.B, c.Seed+1), alphaB)
	if okS && (!(math.Abs(cs.P-c12.P) <= c13Tol) || cs.N1 != c12.N1 || cs.N2 != c12.N2) {
		add(kit.Failf("p-order-dependent", "%s: P=%v, after shuffling both samples P=%v", desc, c12.P, cs.P))
	}
	// common positive rescaling (rank preserving by construction)
	if c.K != 0 {
		f := math.Ldexp(1, c.K)
		a2, b2 := c13Scale(c.A, f), c13Scale(c.B, f)
		if c13RankPreserving(append(c13Copy(c.A), c.B...), append(c13Copy(a2), b2...)) {
			ck, okK := compare(a2, c.Alpha, b2, alphaB)
			if okK && !(math.Abs(ck.P-c12.P) <= c13Tol) {
				add(kit.Failf(c13ScaleSig(c.Model, c.A, c.B, a2, b2), "%s: P=%v, after scaling by 2^%d P=%v (first values %v | %v)", desc, c12.P, c.K, ck.P, c13Head(c.A), c13Head(c.B)))
			}
			kit.Count("rescaled by 2^k", 1)
		}
	}
	if c.Times3 {
		a3, b3 := c13Scale(c.A, 3), c13Scale(c.B, 3)
		if c13RankPreserving(append(c13Copy(c.A), c.B...), append(c13Copy(a3), b3...)) {
			tol := c13Tol
			ok := true
			if c.Model == 2 {
				// not exact in floating point: only well-conditioned samples
				tol = 1e-9
				for _, xs := range [][]float64{c.A, c.B} {
					s := c13Sorted(xs)
					if len(s) >= 2 && s[len(s)-1]-s[0] < 1e-3*c13MaxAbs(s) && s[len(s)-1] != s[0] {
						ok = false
					}
				}
				ma, mb := 0.0, 0.0
				for _, x := range c.A {
					ma += x / float64(n1)
				}
				for _, x := range c.B {
					mb += x / float64(n2)
				}
				if d := math.Abs(ma - mb); d != 0 && d < 1e-3*math.Max(c13MaxAbs(c.A), c13MaxAbs(c.B)) {
					ok = false
				}
			}
			if ok {
				c3, ok3 := compare(a3, c.Alpha, b3, alphaB)
				if ok3 && !(math.Abs(c3.P-c12.P) <= tol) {
					add(kit.Failf(c13ScaleSig(c.Model, c.A, c.B, a3, b3), "%s: P=%v, after scaling by 3 P=%v (first values %v | %v)", desc, c12.P, c3.P, c13Head(c.A), c13Head(c.B)))
				}
				kit.Count("rescaled by 3", 1)
			}
		}
	}
	// exact permutation p-value for small untied samples
	if c.Model == 0 && !tied {
		want, have := 0.0, false
		if n1 <= 7 && n2 <= 7 {
			want, have = c13BruteP(c.A, c.B), true
			if dp := c13RankSumP(c.A, c.B); math.Abs(dp-want) > 1e-15 {
				panic(fmt.Sprintf("c13 oracle: brute force %v and recurrence %v disagree", want, dp))
			}
			kit.Count("untied, brute-force exact p", 1)
		} else if n1+n2 <= 60 && n1 <= c13ExactLimit && n2 <= c13ExactLimit {
			want, have = c13RankSumP(c.A, c.B), true
			kit.Count("untied, recurrence exact p", 1)
		}
		if have && !(math.Abs(c12.P-want) <= c13Tol) {
			add(kit.Failf("p-not-exact", "%s: P=%v, exact permutation p-value is %v", desc, c12.P, want))
		}
	}
	if tiedSmall {
		kit.Count("tied, both sizes <= 25 (recorded finding region)", 1)
	}
	// sample-size warning of the U test (AssumeNothing): present only if no
	// pair of samples of these sizes could reach Alpha, and present whenever
	// equal sizes (<= 9, the library's table) cannot.
	if c.Model == 0 && !allEqual {
		warned := len(c12.Warnings) > 0
		if warned && !(c12.P > c12.Alpha) {
			add(kit.Failf("cmp-warning-spurious", "%s: warning %v although P=%v <= Alpha=%v", desc, c12.Warnings, c12.P, c12.Alpha))
		}
		if warned && c13MinP(n1, n2) <= c12.Alpha {
			add(kit.Failf("cmp-warning-spurious", "%s: warning %v although sizes %d,%d can reach p=%v <= Alpha=%v", desc, c12.Warnings, n1, n2, c13MinP(n1, n2), c12.Alpha))
		}
		if !warned && c12.P > c12.Alpha && n1 == n2 && n1 <= 9 && c13MinP(n1, n2) > c12.Alpha {
			add(kit.Failf("cmp-warning-missing", "%s: no warning although two samples of %d cannot reach Alpha=%v (min p %v)", desc, n1, c12.Alpha, c13MinP(n1, n2)))
		}
		if warned {
			kit.Count("nothing: too-few-samples warning", 1)
		}
	}
	// rendering, with the centres of the two samples
	sa := model.Summary(mk(c.A, c.Alpha), 0.95)
	sb := model.Summary(mk(c.B, alphaB), 0.95)
	add(c13CheckDelta(c12, sa.Center, sb.Center))
	add(c13CheckDelta(c21, sb.Center, sa.Center))
	add(c13CheckString(c12))
	// threshold exactly at the returned P: P does not exceed it => percentage;
	// one ulp below => "~".
	if c.Model != 1 && c12.P >= 0 && c12.P <= 1 {
		ce, okE := compare(c.A, c12.P, c.B, c12.P)
		if okE && ce.Alpha != c12.P {
			add(kit.Failf("alpha-wrong", "%s: samples created with threshold %v, Comparison.Alpha=%v", desc, c12.P, ce.Alpha))
		} else if okE && ce.P == c12.P {
			if got := ce.FormatDelta(sa.Center, sb.Center); got == "~" {
				add(kit.Failf("delta-threshold", "%s: P=%v equals the threshold but FormatDelta shows \"~\"", desc, ce.P))
			}
			kit.Count("threshold == P", 1)
		}
		if c12.P > 0 {
			below := math.Nextafter(c12.P, -1)
			cb, okB := compare(c.A, below, c.B, below)
			if okB && cb.P == c12.P && cb.Alpha == below {
				if got := cb.FormatDelta(sa.Center, sb.Center); got != "~" {
					add(kit.Failf("delta-threshold", "%s: P=%v exceeds the threshold %v but FormatDelta shows %q", desc, cb.P, below, got))
				}
			}
		}
	}
	if c12.P <= c12.Alpha {
		kit.Count("difference shown (P <= Alpha)", 1)
	} else {
		kit.Count("no difference shown (P > Alpha)", 1)
	}
	return c13First(fails)
}

func c13CmpNonTrivial(c c13Cmp) bool {
	p := c13Sorted(append(c13Copy(c.A), c.B...))
	return len(p) >= 2 && p[0] != p[len(p)-1]
}

var c13AlphaGrid = []float64{0.05, 0.05, 0.01, 0.1, 0.001, 0.5, 0, 1, 0.2, 0.025,
	// smallest achievable p for equal sizes 1..9 (boundaries of the warning)
	1, 1.0 / 3, 0.1, 2.0 / 70, 2.0 / 252, 2.0 / 924, 2.0 / 3432, 2.0 / 12870, 2.0 / 48620}

func c13GenAlpha(r *kit.Rand) float64 {
	if r.Chance(0.3) {
		return r.Float64()
	}
	return kit.Pick(r, c13AlphaGrid)
}

func c13GenCmp(model int, kind string) func(r *kit.Rand, i int) c13Cmp {
	return func(r *kit.Rand, i int) c13Cmp {
		c := c13Cmp{Model: model, Alpha: c13GenAlpha(r), Seed: r.Uint64() >> 12, K: kit.Pick(r, []int{1, -1, 3, 10, -20, 40, -40, 7}), Times3: r.Chance(0.5)}
		var n1, n2 int
		switch kind {
		case "untied-small":
			n1, n2 = r.Range(1, 7), r.Range(1, 7)
		case "untied-medium":
			n1, n2 = r.Range(1, 30), r.Range(1, 30)
		case "tied-small":
			n1, n2 = r.Range(1, 25), r.Range(1, 25)
			if r.Chance(0.5) {
				n1, n2 = r.Range(1, 8), r.Range(1, 8)
			}
		case "large":
			n1, n2 = r.Range(26, 70), r.Range(1, 70)
			if r.Bool() {
				n1, n2 = n2, n1
			}
		case "extreme":
			n1, n2 = r.Range(2, 12), r.Range(2, 12)
		default:
			n1, n2 = r.Range(1, 70), r.Range(1, 70)
			if r.Chance(0.5) {
				n1, n2 = r.Range(1, 12), r.Range(1, 12)
			}
		}
		N := n1 + n2
		var pool []float64
		switch kind {
		case "untied-small", "untied-medium":
			p := r.Perm(N + r.Intn(N+1))
			pool = make([]float64, N)
			sc := kit.Pick(r, []float64{1, 0.5, 1e-3, 1e50, -1, 3e-80})
			off := float64(r.Range(-N, N))
			for j := range pool {
				pool[j] = (float64(p[j]) + off) * sc
			}
			// a location shift that keeps values distinct
			if r.Chance(0.5) {
				sh := (float64(r.Range(0, N)) + 0.5) * sc
				for j := 0; j < n1; j++ {
					pool[j] += sh
				}
				seen := map[float64]bool{}
				for _, v := range pool {
					if seen[v] {
						for j := 0; j < n1; j++ {
							pool[j] -= sh
						}
						break
					}
					seen[v] = true
				}
			}
		case "tied-small":
			w := r.Range(2, 8)
			off := r.Range(-3, 3)
			sh := r.Range(0, 3)
			pool = make([]float64, N)
			for j := range pool {
				pool[j] = float64(r.Intn(w) + off)
				if j < n1 {
					pool[j] += float64(sh)
				}
			}
		default:
			style := r.Intn(9)
			maxExp := 100
			if model == 2 {
				// Welch's degrees of freedom square the variances: the
				// bulk of normal-model pairs stays where that is harmless;
				// the class compare-normal-extreme covers the rest.
				maxExp = 30
			}
			if kind == "extreme" {
				style = 4
			}
			a := c13GenValuesExp(r, n1, style, maxExp)
			if kind == "extreme" {
				// standard deviations 1e-100..1e100, dense around the two
				// edges (~1e77 and ~1e-81) of the safe range
				e := kit.Pick(r, []int{r.Range(-100, 100), r.Range(70, 84), -r.Range(70, 86)})
				sc := math.Pow(10, float64(e))
				for j := range a {
					a[j] = sc * (1 + 0.2*r.NormFloat64())
				}
			}
			if r.Chance(0.3) && kind != "extreme" {
				style = r.Intn(9)
			}
			b := c13GenValuesExp(r, n2, style, maxExp)
			if kind == "extreme" && r.Chance(0.7) {
				f := kit.Pick(r, []float64{1, 1.5, 0.5, 10, 1e-3})
				b = c13GenValuesExp(r, n2, 0, 1)
				m := c13MaxAbs(a)
				for j := range b {
					b[j] = m * f * (1 + 0.2*r.NormFloat64())
				}
			}
			if r.Chance(0.5) && style != 4 {
				d := kit.Pick(r, []float64{0.5, 1, -1, 2, 10})
				for j := range b {
					b[j] += d
				}
			}
			pool = append(a, b...)
		}
		c.A, c.B = c13Copy(pool[:n1]), c13Copy(pool[n1:])
		if r.Chance(0.03) {
			c.B = c13Copy(c.A) // identical samples
		}
		return c
	}
}

// ---------------------------------------------------------------------------
// Direct rendering of hand-built Summary / Comparison values.

type c13Fmt struct {
	Center, Lo, Hi kit.F
	P, Alpha       kit.F
	Old, New       kit.F
	N1, N2         int
}

func c13CheckFmt(c c13Fmt) *kit.Fail {
	for _, v := range []kit.F{c.Center, c.Lo, c.Hi, c.P, c.Alpha, c.Old, c.New} {
		if math.IsNaN(float64(v)) {
			return nil
		}
	}
	if math.IsInf(float64(c.Center), 0) || math.IsInf(float64(c.Old), 0) || math.IsInf(float64(c.New), 0) || math.IsInf(float64(c.P), 0) || math.IsInf(float64(c.Alpha), 0) {
		return nil
	}
	sm := benchmath.Summary{Center: float64(c.Center), Lo: float64(c.Lo), Hi: float64(c.Hi)}
	if f := c13CheckPctRange(sm.Center, sm.Lo, sm.Hi, sm.PctRangeString()); f != nil {
		return f
	}
	cmp := benchmath.Comparison{P: float64(c.P), Alpha: float64(c.Alpha), N1: c.N1, N2: c.N2}
	if f := c13CheckDelta(cmp, float64(c.Old), float64(c.New)); f != nil {
		return f
	}
	if c.P == c.Alpha {
		kit.Count("format: P == Alpha", 1)
	}
	return c13CheckString(cmp)
}

func c13GenMag(r *kit.Rand) float64 {
	switch r.Intn(6) {
	case 0:
		return float64(r.Range(1, 20)) * 0.5
	case 1:
		return r.LogUniform(-100, 100)
	case 2:
		return 1
	case 3:
		return 1 + r.LogUniform(-15, -1)
	default:
		return r.LogUniform(-3, 4)
	}
}

func c13GenFmt(r *kit.Rand, i int) c13Fmt {
	var c c13Fmt
	sg := func() float64 {
		if r.Chance(0.3) {
			return -1
		}
		return 1
	}
	// Summary
	ce := c13GenMag(r) * sg()
	switch r.Intn(10) {
	case 0:
		ce = 0
	case 1:
		ce = math.Copysign(0, -1)
	}
	c.Center = kit.F(ce)
	end := func() float64 {
		switch r.Intn(12) {
		case 0:
			return math.Inf(1)
		case 1:
			return math.Inf(-1)
		case 2:
			return 0
		case 3:
			return ce
		case 4:
			return -ce
		case 5:
			return c13GenMag(r) * sg()
		case 6:
			return ce * (1 + r.LogUniform(-3, 2)) // further from zero
		}
		return ce * (1 + kit.Pick(r, []float64{-1, 1})*r.Float64()*0.6) // near the centre, either side
	}
	c.Lo, c.Hi = kit.F(end()), kit.F(end())
	if r.Chance(0.6) && c.Lo > c.Hi {
		c.Lo, c.Hi = c.Hi, c.Lo
	}
	// Comparison
	al := c13GenAlpha(r)
	var p float64
	switch r.Intn(8) {
	case 0:
		p = al
	case 1:
		p = math.Nextafter(al, 2)
	case 2:
		p = math.Nextafter(al, -1)
		if p < 0 {
			p = 0
		}
	case 3:
		p = 0
	case 4:
		p = 1
	case 5:
		p = r.LogUniform(-12, 0)
	default:
		p = r.Float64()
	}
	c.P, c.Alpha = kit.F(p), kit.F(al)
	old := c13GenMag(r) * sg()
	nw := c13GenMag(r) * sg()
	switch r.Intn(10) {
	case 0:
		old = 0
	case 1:
		nw = 0
	case 2:
		nw = old
	case 3:
		old, nw = 0, 0
	case 4:
		nw = old * (1 + r.LogUniform(-6, 0)*sg())
	case 5:
		nw = old * 1.00005
	}
	c.Old, c.New = kit.F(old), kit.F(nw)
	c.N1, c.N2 = r.Range(0, 70), r.Range(0, 70)
	if r.Chance(0.3) {
		c.N2 = c.N1
	}
	return c
}

// ---------------------------------------------------------------------------

// ---------------------------------------------------------------------------
// Near-overflow magnitudes ("any magnitude"): the assume-nothing centre must
// be the sample median also where sums or differences of two sample values
// leave the float64 range. Judged exactly in big.Rat.

// c13HugeMedianSig is the recorded finding: go-moremath's Quantile
// interpolates as lo + frac*(hi-lo); when hi-lo overflows (the two order
// statistics around the median position have opposite signs and huge
// magnitudes) the centre becomes +-Inf (even n) or NaN (odd n: 0*Inf).
const c13HugeMedianSig = "median-interpolation-overflow"

func c13CheckHuge(c c13Sum) *kit.Fail {
	n := len(c.Vals)
	if n < 1 || n > 70 || !(c.Conf > 0 && c.Conf < 1) {
		return nil
	}
	for _, v := range c.Vals {
		if math.IsNaN(v) || math.IsInf(v, 0) {
			return nil
		}
	}
	thr := benchmath.DefaultThresholds
	s := benchmath.NewSample(c13Copy(c.Vals), &thr)
	sm := benchmath.AssumeNothing.Summary(s, c.Conf)
	sorted := c13Sorted(c.Vals)
	var med *big.Rat
	var a, b float64 // the order statistics the library interpolates between
	if n%2 == 1 {
		med = c13Rat(sorted[n/2])
		a, b = sorted[n/2], sorted[n/2]
		if n >= 3 {
			b = sorted[n/2+1]
		}
	} else {
		a, b = sorted[n/2-1], sorted[n/2]
		med = new(big.Rat).Add(c13Rat(a), c13Rat(b))
		med.Quo(med, big.NewRat(2, 1))
	}
	want, _ := med.Float64()
	desc := fmt.Sprintf("nothing n=%d conf=%v summary={Center:%v Lo:%v Hi:%v} middle order statistics %v, %v", n, c.Conf, sm.Center, sm.Lo, sm.Hi, a, b)
	tol := 1e-13 * math.Max(math.Abs(a), math.Abs(b))
	if !(math.Abs(sm.Center-want) <= tol) {
		sig := "centre-not-median"
		if math.IsInf(b-a, 0) && (math.IsInf(sm.Center, 0) || math.IsNaN(sm.Center)) {
			sig = c13HugeMedianSig
		}
		return kit.Failf(sig, "%s: the median is %v", desc, want)
	}
	if math.IsNaN(sm.Lo) || math.IsNaN(sm.Hi) || !(sm.Lo <= sm.Center && sm.Center <= sm.Hi) {
		return kit.Failf("not-bracketing", "%s", desc)
	}
	kit.Count("C13 medians of near-overflow samples checked exactly", 1)
	return nil
}

func c13GenHuge(r *kit.Rand, i int) c13Sum {
	n := r.Range(1, 12)
	if r.Chance(0.3) {
		n = r.Range(1, 70)
	}
	vals := make([]float64, n)
	mode := r.Intn(4) // 0 positive, 1 negative, 2 mixed signs, 3 huge and ordinary mixed
	for j := range vals {
		v := math.MaxFloat64 * (0.3 + 0.7*r.Float64())
		if r.Chance(0.2) {
			v = math.MaxFloat64 * (0.95 + 0.05*r.Float64())
		}
		switch mode {
		case 1:
			v = -v
		case 2:
			if r.Bool() {
				v = -v
			}
		case 3:
			switch r.Intn(3) {
			case 0:
				v = -v
			case 1:
				v = r.LogUniform(-3, 6)
			}
		}
		vals[j] = v
	}
	return c13Sum{Model: 0, Vals: vals, Conf: c13GenConf(r)}
}

func TestVerifC13(t *testing.T) {
	sumRule := "samples of 1..70 finite values (benchmark-like positive, small integers with ties, mixed sign, zeros, 1e-100..1e100, negative, all equal, two values, distinct integers), " +
		"confidence from a grid incl. coverage boundaries 1-2^(1-n), uniform in (0.001,0.999) and 1-10^-x; values handed to NewSample in random order; non-trivial = at least two values"
	sumClass := func(name string, model, quick, thorough, minNT int) kit.Runner {
		return kit.Class[c13Sum]{Name: name, Quick: quick, Thorough: thorough, Gen: c13GenSum(model), Check: c13CheckSummary,
			NonTrivial: c13SumNonTrivial, Rule: sumRule, MinNonTrivial: minNT}
	}
	cmpRule := "pairs of samples (sizes 1..70) compared as (A,B), (B,A), after shuffling, after x2^k and x3 (where rank preserving), with the threshold set to the returned P and one ulp below; " +
		"thresholds from a grid incl. 0, 1 and the smallest achievable p for equal sizes, or uniform; non-trivial = pooled values not all equal"
	cmpClass := func(name string, model int, kind string, quick, thorough, minNT int) kit.Runner {
		return kit.Class[c13Cmp]{Name: name, Quick: quick, Thorough: thorough, Gen: c13GenCmp(model, kind), Check: c13CheckCompare,
			NonTrivial: c13CmpNonTrivial, Rule: kind + ": " + cmpRule, MinNonTrivial: minNT}
	}
	mixed := func(model int) func(r *kit.Rand, i int) c13Cmp {
		g := c13GenCmp(model, "any")
		return func(r *kit.Rand, i int) c13Cmp {
			c := g(r, i)
			c.Mixed = true
			c.Alpha2 = c13GenAlpha(r)
			for c.Alpha2 == c.Alpha {
				c.Alpha2 = r.Float64()
			}
			return c
		}
	}
	kit.Run(t, "C13",
		kit.Class[c13Sum]{Name: "summary-nothing-near-overflow", Quick: 8000, Thorough: 300000, Gen: c13GenHuge, Check: c13CheckHuge,
			NonTrivial: c13SumNonTrivial, MinNonTrivial: 5000,
			Rule: "samples of 1..70 values with magnitudes in [0.3,1] x MaxFloat64 (20% within 5% of it): all positive, all negative, mixed signs, or mixed with ordinary magnitudes; the assume-nothing centre against the exact rational median (relative 1e-13), bracketing by the interval ends"},
		sumClass("summary-nothing", 0, 40000, 1800000, 30000),
		kit.Class[c13Sum]{Name: "summary-nothing-high-confidence", Quick: 12000, Thorough: 300000, Gen: c13GenSumHighConf, Check: c13CheckSummary,
			NonTrivial: c13SumNonTrivial, MinNonTrivial: 9000,
			Rule: "assume-nothing summaries of 1..70 values at confidence 1-10^-k, 1-c*10^-k (c = 1..9 and 1.0..9.9, k = 3..10) and on / one ulp / 1e-15..1e-8 either side of the coverage steps 1-2^(1-n), n = 2..40; " +
				"all summary-nothing checks, and for every infinite interval the count in the warning must equal the least sample size (2..50 distinct values) for which AssumeNothing.Summary itself returns a finite interval at that confidence; non-trivial = at least two values"},
		sumClass("summary-exact", 1, 8000, 300000, 6000),
		sumClass("summary-normal", 2, 10000, 400000, 8000),
		cmpClass("compare-nothing-untied-small", 0, "untied-small", 12000, 600000, 9000),
		cmpClass("compare-nothing-untied-medium", 0, "untied-medium", 4000, 160000, 3000),
		cmpClass("compare-nothing-tied-small", 0, "tied-small", 9000, 400000, 6000),
		cmpClass("compare-nothing-large", 0, "large", 3000, 120000, 2400),
		cmpClass("compare-nothing-any", 0, "any", 6000, 300000, 4000),
		cmpClass("compare-normal", 2, "any", 9000, 400000, 6000),
		cmpClass("compare-exact", 1, "any", 2000, 100000, 1500),
		cmpClass("compare-normal-extreme", 2, "extreme", 400, 20000, 300),
		kit.Class[c13Cmp]{Name: "compare-mixed-thresholds-nothing", Quick: 1500, Thorough: 40000, Gen: mixed(0), Check: c13CheckCompare,
			NonTrivial: c13CmpNonTrivial, MinNonTrivial: 1000,
			Rule: "as compare-nothing-any but the two samples are created with different thresholds; Comparison.Alpha must be the first sample's"},
		kit.Class[c13Cmp]{Name: "compare-mixed-thresholds-normal", Quick: 1500, Thorough: 40000, Gen: mixed(2), Check: c13CheckCompare,
			NonTrivial: c13CmpNonTrivial, MinNonTrivial: 1000,
			Rule: "as compare-normal but the two samples are created with different thresholds; Comparison.Alpha must be the first sample's"},
		kit.Class[c13Fmt]{Name: "format-direct", Quick: 100000, Thorough: 4000000, Gen: c13GenFmt, Check: c13CheckFmt,
			NonTrivial: func(c c13Fmt) bool { return true }, MinNonTrivial: 80000,
			Rule: "hand-built Summary{Center,Lo,Hi} (zero, -0, infinite ends, ends on either side, sign mixes, 1e-100..1e100) and Comparison{P,Alpha,N1,N2} (P equal to, one ulp above and below Alpha; 0; 1) with old/new centres (zero, equal, nearly equal, opposite signs) rendered and compared with the documented formulas in big.Rat"},
	)
}
