//go:build verif

package db_test

// C20, upload IDs and all-or-nothing at the database level under concurrency:
// N goroutines run NewUpload -> InsertRecord* -> Commit/Abort on ONE
// file-backed sqlite database (several connections, short busy timeout, so
// creations really collide), after a sequential prefix that optionally closes
// and reopens the database. Every call is recorded with stamps from one
// monotonic counter. Run under the race detector.
//
// Oracle (kit/idhist): ID shape YYYYMMDD.N with the UTC day of the call, no ID
// issued twice, within a day N grows with real-time creation order (direct
// check of the partial order, and porcupine per day with the model "state =
// largest N issued; N legal iff N > state"). Failed creations are no-ops.
// Afterwards every committed upload is completely visible (query on its
// unique label, listing newest first) and every aborted or failed one is not
// visible at all.

import (
	"context"
	"fmt"
	"os"
	"sort"
	"strings"
	"sync"
	"sync/atomic"
	"testing"
	"time"

	kit "golang.org/x/perf/internal/verifkit"
	"golang.org/x/perf/internal/verifkit/idhist"
	"golang.org/x/perf/storage/benchfmt"
	"golang.org/x/perf/storage/db"
	_ "golang.org/x/perf/storage/db/sqlite3"
)

type c20IDCase struct {
	ID      uint64
	Seed    uint64
	Clients int
	Iters   int
	BusyMS  int  // sqlite busy timeout of the concurrent phase
	Pre     int  // uploads created one after the other before the concurrent phase
	Reopen  bool // close and reopen the database in the middle of the sequential prefix
	Two     bool // two db.DB handles on the same file (two server processes), used alternately
}

type c20Made struct {
	op        idhist.Op
	tag       string
	nrec      int
	committed bool
}

func c20InsertAndFinish(u *db.Upload, tag string, nrec int, commit bool) (committed bool, err error) {
	for i := 0; i < nrec; i++ {
		r := &benchfmt.Result{
			Labels:     benchfmt.Labels{"upload": u.ID, "u": tag, "i": fmt.Sprint(i)},
			NameLabels: benchfmt.Labels{"name": "X"},
			Content:    fmt.Sprintf("BenchmarkX 1 %d ns/op", i),
		}
		if err := u.InsertRecord(r); err != nil {
			u.Abort()
			return false, err
		}
	}
	if !commit {
		return false, u.Abort()
	}
	if err := u.Commit(); err != nil {
		u.Abort() // "the Upload has failed and u.Abort() must be called"
		return false, err
	}
	return true, nil
}

var c20IDOutcomes sync.Map

func c20IDCheck(c c20IDCase) *kit.Fail {
	dir, err := os.MkdirTemp("/var/tmp", "verif-c20ids-")
	if err != nil {
		panic("c20 monitor: " + err.Error())
	}
	defer os.RemoveAll(dir)
	dsn := func(busy int) string { return fmt.Sprintf("file:%s/ids.db?_busy_timeout=%d&_sync=0", dir, busy) }
	d, err := db.OpenSQL("sqlite3", dsn(10000))
	if err != nil {
		panic("c20 monitor: open: " + err.Error())
	}
	defer func() { d.Close() }()
	// optional second handle on the same database file, as a second server
	// process would have; handles[i%len] is used for operation i
	handles := func(busy int) []*db.DB {
		hs := []*db.DB{d}
		if c.Two {
			d2, err := db.OpenSQL("sqlite3", dsn(busy))
			if err != nil {
				panic("c20 monitor: open second handle: " + err.Error())
			}
			hs = append(hs, d2)
		}
		return hs
	}
	closeExtra := func(hs []*db.DB) {
		for _, h := range hs[1:] {
			h.Close()
		}
	}
	hs := handles(10000)
	ctx := context.Background()
	var clock atomic.Int64
	var mu sync.Mutex
	var made []c20Made
	dayLo := time.Now().UTC().Format("20060102")

	// ---- sequential prefix: no contention, so every creation must succeed
	r := kit.NewRand(c.Seed, "c20-ids-seq", 0)
	for i := 0; i < c.Pre; i++ {
		if c.Reopen && i == c.Pre/2 {
			closeExtra(hs)
			if err := d.Close(); err != nil {
				panic("c20 monitor: close: " + err.Error())
			}
			if d, err = db.OpenSQL("sqlite3", dsn(10000)); err != nil {
				panic("c20 monitor: reopen: " + err.Error())
			}
			hs = handles(10000)
		}
		call := clock.Add(1)
		u, err := hs[i%len(hs)].NewUpload(ctx)
		ret := clock.Add(1)
		if err != nil {
			return kit.Failf("newupload-failed-without-contention", "sequential creation %d of %d (database reopened: %v) failed: %v; IDs so far: %s", i+1, c.Pre, c.Reopen && i >= c.Pre/2, err, c20IDList(made))
		}
		tag := fmt.Sprintf("s%d", i)
		nrec := r.Intn(3)
		commit := r.Chance(0.7)
		ok, err := c20InsertAndFinish(u, tag, nrec, commit)
		if err != nil {
			return kit.Failf("commit-failed-without-contention", "sequential upload %s: %v", u.ID, err)
		}
		made = append(made, c20Made{idhist.Op{Client: 0, Call: call, Ret: ret, ID: u.ID}, tag, nrec, ok})
	}

	// ---- concurrent phase on handles with a short busy timeout
	closeExtra(hs)
	if err := d.Close(); err != nil {
		panic("c20 monitor: close: " + err.Error())
	}
	if d, err = db.OpenSQL("sqlite3", dsn(c.BusyMS)); err != nil {
		panic("c20 monitor: reopen: " + err.Error())
	}
	hs = handles(c.BusyMS)
	var wg sync.WaitGroup
	var createErrs, finishErrs atomic.Int64
	for cl := 0; cl < c.Clients; cl++ {
		wg.Add(1)
		go func(cl int) {
			defer wg.Done()
			r := kit.NewRand(c.Seed, "c20-ids-client", uint64(cl))
			for i := 0; i < c.Iters; i++ {
				call := clock.Add(1)
				u, err := hs[(cl+i)%len(hs)].NewUpload(ctx)
				ret := clock.Add(1)
				if err != nil {
					createErrs.Add(1) // a failed creation is a no-op
					continue
				}
				tag := fmt.Sprintf("c%di%d", cl, i)
				nrec := r.Intn(4)
				commit := r.Chance(0.7)
				ok, err := c20InsertAndFinish(u, tag, nrec, commit)
				if err != nil {
					finishErrs.Add(1)
				}
				mu.Lock()
				made = append(made, c20Made{idhist.Op{Client: cl + 1, Call: call, Ret: ret, ID: u.ID}, tag, nrec, ok})
				mu.Unlock()
			}
		}(cl)
	}
	wg.Wait()
	dayHi := time.Now().UTC().Format("20060102")

	// ---- IDs
	ops := make([]idhist.Op, len(made))
	for i, m := range made {
		ops[i] = m.op
		day, _, ok := idhist.Parse(m.op.ID)
		if ok && (day < dayLo || day > dayHi) {
			return kit.Failf("upload-id-day", "upload ID %s created between UTC days %s and %s", m.op.ID, dayLo, dayHi)
		}
	}
	res := idhist.Check(ops, 20*time.Second)
	if res.Sig != "" {
		return kit.Failf(res.Sig, "%s (clients %d, iterations %d, busy timeout %d ms, %d sequential first)", res.Msg, c.Clients, c.Iters, c.BusyMS, c.Pre)
	}
	kit.Count("c20_ids_created", int64(len(made)))
	kit.Count("c20_ids_creation_errors_noop", createErrs.Load())
	kit.Count("c20_ids_commit_or_abort_errors", finishErrs.Load())
	kit.Count("c20_ids_overlapping_pairs", int64(res.Overlapping))
	kit.Count("c20_porcupine_ok_partitions", int64(res.PorcupineOK))
	kit.Count("porcupine_unknown", int64(res.PorcupineUnknown))

	// ---- all-or-nothing per upload, on a quiet database
	closeExtra(hs)
	if err := d.Close(); err != nil {
		panic("c20 monitor: close: " + err.Error())
	}
	if d, err = db.OpenSQL("sqlite3", dsn(10000)); err != nil {
		panic("c20 monitor: reopen: " + err.Error())
	}
	type listed struct {
		day string
		n   uint64
		id  string
		cnt int
	}
	var want []listed
	for _, m := range made {
		q := d.Query("u:" + m.tag)
		var lines []string
		for q.Next() {
			res := q.Result()
			if res.Labels["upload"] != m.op.ID || res.Labels["u"] != m.tag {
				q.Close()
				return kit.Failf("record-of-other-upload", "query u:%s returned a record with labels %v", m.tag, res.Labels)
			}
			lines = append(lines, res.Content)
			if len(lines) > 1000 {
				break
			}
		}
		err := q.Err()
		q.Close()
		if err != nil {
			return kit.Failf("query-error", "query u:%s: %v", m.tag, err)
		}
		sort.Strings(lines)
		switch {
		case !m.committed && len(lines) > 0:
			return kit.Failf("failed-upload-visible", "upload %s was aborted (or its commit failed) but a query returns %d of its records: %q", m.op.ID, len(lines), lines)
		case m.committed:
			var exp []string
			for i := 0; i < m.nrec; i++ {
				exp = append(exp, fmt.Sprintf("BenchmarkX 1 %d ns/op", i))
			}
			sort.Strings(exp)
			if strings.Join(exp, "\n") != strings.Join(lines, "\n") {
				return kit.Failf("committed-upload-incomplete", "upload %s was committed with %d records, a query returns %q", m.op.ID, m.nrec, lines)
			}
			if m.nrec > 0 {
				day, n, _ := idhist.Parse(m.op.ID)
				want = append(want, listed{day, n, m.op.ID, m.nrec})
			}
		}
	}
	sort.Slice(want, func(i, j int) bool {
		if want[i].day != want[j].day {
			return want[i].day > want[j].day
		}
		return want[i].n > want[j].n
	})
	ul := d.ListUploads("", nil, 0)
	var got []string
	for ul.Next() {
		got = append(got, fmt.Sprintf("%s:%d", ul.Info().UploadID, ul.Info().Count))
		if len(got) > 100000 {
			break
		}
	}
	err = ul.Err()
	ul.Close()
	if err != nil {
		return kit.Failf("listing-error", "ListUploads: %v", err)
	}
	var exp []string
	for _, w := range want {
		exp = append(exp, fmt.Sprintf("%s:%d", w.id, w.cnt))
	}
	if strings.Join(got, " ") != strings.Join(exp, " ") {
		return kit.Failf("listing-mismatch", "ListUploads = %v, want the committed uploads newest first %v", got, exp)
	}
	conc := len(made) - c.Pre
	c20IDOutcomes.Store(c.ID, conc >= c.Clients && res.Overlapping > 0 && res.PorcupineUnknown == 0)
	return nil
}

func c20IDList(ms []c20Made) string {
	var ids []string
	for _, m := range ms {
		ids = append(ids, m.op.ID)
	}
	return strings.Join(ids, " ")
}

func c20IDGen(r *kit.Rand, i int) c20IDCase {
	c := c20IDCase{ID: r.Uint64(), Seed: r.Uint64()}
	c.Clients = kit.Pick(r, []int{2, 3, 4, 8, 16})
	c.Iters = r.Range(10, 30)
	if c.Clients == 16 {
		c.Iters = r.Range(10, 16)
	}
	if kit.Thorough() {
		c.Iters = r.Range(10, 50)
	}
	c.BusyMS = kit.Pick(r, []int{0, 1, 5, 20, 50})
	c.Pre = r.Range(0, 14)
	if r.Chance(0.3) {
		c.Pre = r.Range(11, 25) // past N=10: ".10" must follow ".9"
	}
	c.Reopen = r.Bool()
	c.Two = r.Bool()
	return c
}

func TestVerifC20IDs(t *testing.T) {
	kit.Run(t, "C20", kit.Class[c20IDCase]{
		Name: "c20-concurrent-ids", Quick: 30, Thorough: 600,
		Gen: c20IDGen, Check: c20IDCheck, MinNonTrivial: 18,
		// Serial: every case opens the database several times and concurrent
		// db.OpenSQL calls write the shared sqlite3 driver's ConnectHook
		// (outside this property); the concurrency under test is inside a case.
		Serial:     true,
		NonTrivial: func(c c20IDCase) bool { v, ok := c20IDOutcomes.Load(c.ID); return ok && v.(bool) },
		Rule:       "0-25 sequential uploads (database optionally closed and reopened half way; optionally through two db.DB handles on the same file used alternately), then 2-16 goroutines x 10-30 (thorough 10-50) iterations of NewUpload -> 0-3 InsertRecord -> Commit (70%) / Abort on one file-backed sqlite database with a busy timeout of 0-50 ms; recorded {client, call stamp, returned ID or error, return stamp}; -race. Non-trivial: at least as many successful concurrent creations as clients, some overlapping in time, porcupine decided every day partition.",
	})
}
