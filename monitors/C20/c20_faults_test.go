//go:build verif

package app_test

// C20, fault enumeration: uploads are all-or-nothing with respect to what can
// be queried, under every position of one fault.
//
// A case is one scenario (history of good uploads, the attempt, one more good
// upload afterwards) plus ONE fault position:
//
//	store    the k-th operation on the file store (NewWriter / Write / Close /
//	         CloseWithError, counted in call order) fails, for every k
//	cut      the request body ends after Pos bytes (raw TCP, full Content-Length)
//	field    an unexpected form field before / between / after the files
//	abort    storage.Client Abort() before, inside, between, after the files
//	nobench  file Pos has no benchmark line
//	collide  file Pos sets a file label that collides with a name-derived label
//	none     control
//
// The file store is fs.MemFS or storage/fs/local on a temp dir behind a
// fault-injecting, event-logging wrapper; the HTTP handler is wrapped so the
// monitor knows when the server side has finished. After the attempt a fixed
// probe set runs (query on a label unique to the attempt, full dump, listing -
// each at db.DB and through storage.Client - and the store listing), then one
// more good upload, then the probes again.
//
// The record model and the query/listing comparison are those of the C19
// monitor (C19/c19_store_test.go is part of this unit).

import (
	"bytes"
	"context"
	"encoding/json"
	"errors"
	"fmt"
	"io"
	"log"
	"net"
	"net/http"
	"net/http/httptest"
	"os"
	"path/filepath"
	"regexp"
	"sort"
	"strconv"
	"strings"
	"sync"
	"testing"
	"time"

	kit "golang.org/x/perf/internal/verifkit"
	"golang.org/x/perf/storage"
	"golang.org/x/perf/storage/app"
	"golang.org/x/perf/storage/db"
	"golang.org/x/perf/storage/fs"
	"golang.org/x/perf/storage/fs/local"
)

// ---------------------------------------------------------------------------
// Fault-injecting, event-logging file store

type c20Writer struct {
	fs      *c20FS
	idx     int
	name    string
	inner   fs.Writer
	data    []byte   // bytes the store accepted
	closes  []string // "close:ok", "close:fail", "closeerr" in call order
	faulted bool     // an injected fault hit this writer
}

type c20FS struct {
	inner   fs.FS
	mu      sync.Mutex
	ops     int // operations so far (1-based position of the last one)
	failAt  int // 0 = no fault
	fired   string
	writers []*c20Writer
	newFail int // NewWriter calls that failed by injection
	opKinds []string
}

var errC20Injected = errors.New("verif: injected store fault")

// step counts one store operation and reports whether it must fail.
func (f *c20FS) step(kind string) bool {
	f.mu.Lock()
	defer f.mu.Unlock()
	f.ops++
	f.opKinds = append(f.opKinds, kind)
	if f.failAt != 0 && f.ops == f.failAt {
		f.fired = kind
		return true
	}
	return false
}

func (f *c20FS) NewWriter(ctx context.Context, name string, meta map[string]string) (fs.Writer, error) {
	if f.step("new") {
		f.mu.Lock()
		f.newFail++
		f.mu.Unlock()
		return nil, errC20Injected
	}
	w, err := f.inner.NewWriter(ctx, name, meta)
	if err != nil {
		return nil, err
	}
	f.mu.Lock()
	defer f.mu.Unlock()
	cw := &c20Writer{fs: f, idx: len(f.writers), name: name, inner: w}
	f.writers = append(f.writers, cw)
	return cw, nil
}

func (w *c20Writer) Write(p []byte) (int, error) {
	if w.fs.step("write") {
		w.faulted = true
		return 0, errC20Injected
	}
	n, err := w.inner.Write(p)
	w.data = append(w.data, p[:n]...)
	return n, err
}

func (w *c20Writer) Close() error {
	if w.fs.step("close") {
		// a failing Close is modelled as "the store did not keep the file"
		w.faulted = true
		w.inner.CloseWithError(errC20Injected)
		w.closes = append(w.closes, "close:fail")
		return errC20Injected
	}
	err := w.inner.Close()
	if err != nil {
		w.closes = append(w.closes, "close:fail")
	} else {
		w.closes = append(w.closes, "close:ok")
	}
	return err
}

func (w *c20Writer) CloseWithError(e error) error {
	inj := w.fs.step("closeerr")
	w.closes = append(w.closes, "closeerr")
	err := w.inner.CloseWithError(e)
	if inj {
		w.faulted = true
		return errC20Injected
	}
	return err
}

// ---------------------------------------------------------------------------
// Handler gate: lets the monitor wait until the server side has finished

type c20Gate struct {
	mu       sync.Mutex
	cond     *sync.Cond
	started  int
	finished int
	h        http.Handler
}

func (g *c20Gate) ServeHTTP(w http.ResponseWriter, r *http.Request) {
	g.mu.Lock()
	g.started++
	g.mu.Unlock()
	defer func() {
		g.mu.Lock()
		g.finished++
		g.cond.Broadcast()
		g.mu.Unlock()
	}()
	g.h.ServeHTTP(w, r)
}

func (g *c20Gate) count() int {
	g.mu.Lock()
	defer g.mu.Unlock()
	return g.started
}

// waitIdle blocks until at least min requests have started and all started
// requests have finished.
func (g *c20Gate) waitIdle(min int) {
	g.mu.Lock()
	for g.started < min || g.finished != g.started {
		g.cond.Wait()
	}
	g.mu.Unlock()
}

// ---------------------------------------------------------------------------
// System

type c20Sys struct {
	*c19Sys
	ffs  *c20FS
	mem  *fs.MemFS
	root string // local store root ("" for mem)
	gate *c20Gate
}

func c20NewSys(store string) (*c20Sys, error) {
	c19LogOnce.Do(func() { log.SetOutput(io.Discard) })
	dir, err := os.MkdirTemp("/var/tmp", "verif-c20-")
	if err != nil {
		return nil, err
	}
	d, err := db.OpenSQL("sqlite3", "file:"+dir+"/c20.db?_busy_timeout=20000&_sync=0&_journal=MEMORY")
	if err != nil {
		os.RemoveAll(dir)
		return nil, err
	}
	s := &c20Sys{c19Sys: &c19Sys{dir: dir, d: d}}
	var inner fs.FS
	if store == "local" {
		s.root = filepath.Join(dir, "store")
		if err := os.Mkdir(s.root, 0o777); err != nil {
			s.c19Sys.close()
			return nil, err
		}
		inner = local.NewFS(s.root)
	} else {
		s.mem = fs.NewMemFS()
		inner = s.mem
	}
	s.ffs = &c20FS{inner: inner}
	a := &app.App{DB: d, FS: s.ffs, Auth: func(http.ResponseWriter, *http.Request) (string, error) {
		s.userMu.Lock()
		defer s.userMu.Unlock()
		return s.user, nil
	}}
	mux := http.NewServeMux()
	a.RegisterOnMux(mux)
	s.gate = &c20Gate{h: mux}
	s.gate.cond = sync.NewCond(&s.gate.mu)
	s.srv = httptest.NewServer(s.gate)
	s.cl = &storage.Client{BaseURL: s.srv.URL, HTTPClient: s.srv.Client()}
	return s, nil
}

// c20Closers tracks test servers that are still shutting down: after a cut
// body net/http lingers 500 ms on the connection before closing it, and
// httptest.Server.Close waits for that. Nothing is decided by that wait, so it
// happens in the background; the test function waits for all of them at the end.
var c20Closers sync.WaitGroup

func (s *c20Sys) close() {
	s.gate.waitIdle(0)
	c20Closers.Add(1)
	go func() {
		defer c20Closers.Done()
		s.srv.Close()
	}()
	s.d.Close()
	os.RemoveAll(s.dir)
}

func (s *c20Sys) setUser(u string) {
	s.userMu.Lock()
	s.user = u
	s.userMu.Unlock()
}

// storeNames lists what the store holds now.
func (s *c20Sys) storeNames() ([]string, map[string][]byte) {
	if s.mem != nil {
		return s.mem.Files(), nil
	}
	var names []string
	content := map[string][]byte{}
	filepath.Walk(s.root, func(p string, info os.FileInfo, err error) error {
		if err != nil || info.IsDir() {
			return nil
		}
		rel, _ := filepath.Rel(s.root, p)
		rel = filepath.ToSlash(rel)
		names = append(names, rel)
		b, _ := os.ReadFile(p)
		content[rel] = b
		return nil
	})
	sort.Strings(names)
	return names, content
}

// ---------------------------------------------------------------------------
// Request bodies

const c20Boundary = "verifC20boundary7MA4YWxkTrZu0gW"

type c20Part struct {
	Field    string
	FileName string // used when Field == "file"
	Content  string
}

type c20Body struct {
	Bytes []byte
	// per part: offset of the part's first byte, of its content, of the end
	// of its content, and of the end of the delimiter prefix "\r\n--boundary"
	// that terminates it
	Start, ContentStart, ContentEnd, Terminated []int
	Marks                                       []int // every structural offset, for the quick cut enumeration
}

func c20Quote(s string) string {
	return strings.NewReplacer("\\", "\\\\", `"`, "\\\"").Replace(s)
}

func c20Build(parts []c20Part) c20Body {
	var b c20Body
	var buf bytes.Buffer
	for i, p := range parts {
		b.Start = append(b.Start, buf.Len())
		if i > 0 {
			// (the CRLF before the delimiter belongs to the delimiter of the previous part)
		}
		buf.WriteString("--" + c20Boundary + "\r\n")
		if p.Field == "file" {
			fmt.Fprintf(&buf, "Content-Disposition: form-data; name=\"file\"; filename=\"%s\"\r\n", c20Quote(p.FileName))
			buf.WriteString("Content-Type: application/octet-stream\r\n")
		} else {
			fmt.Fprintf(&buf, "Content-Disposition: form-data; name=\"%s\"\r\n", c20Quote(p.Field))
		}
		buf.WriteString("\r\n")
		b.ContentStart = append(b.ContentStart, buf.Len())
		buf.WriteString(p.Content)
		b.ContentEnd = append(b.ContentEnd, buf.Len())
		buf.WriteString("\r\n")
		b.Terminated = append(b.Terminated, buf.Len()+len("--"+c20Boundary))
	}
	buf.WriteString("--" + c20Boundary + "--\r\n")
	b.Bytes = buf.Bytes()
	for i := range parts {
		b.Marks = append(b.Marks, b.Start[i], b.ContentStart[i], b.ContentEnd[i], b.Terminated[i])
	}
	b.Marks = append(b.Marks, 0, len(b.Bytes), len(b.Bytes)-2, len(b.Bytes)-4)
	return b
}

func c20UploadParts(u c19Upload) []c20Part {
	var ps []c20Part
	for _, f := range u.Files {
		ps = append(ps, c20Part{Field: "file", FileName: string(f.Name), Content: f.text()})
	}
	return append(ps, c20Part{Field: "commit", Content: "1"})
}

type c20Status struct {
	UploadID string   `json:"uploadid"`
	FileIDs  []string `json:"fileids"`
}

// post sends a complete body with net/http and waits for the server side.
func (s *c20Sys) post(body []byte) (int, c20Status, error) {
	n0 := s.gate.count()
	resp, err := s.srv.Client().Post(s.srv.URL+"/upload", "multipart/form-data; boundary="+c20Boundary, bytes.NewReader(body))
	if err != nil {
		return 0, c20Status{}, err
	}
	data, _ := io.ReadAll(resp.Body)
	resp.Body.Close()
	s.gate.waitIdle(n0 + 1)
	var st c20Status
	if resp.StatusCode == 200 {
		if err := json.Unmarshal(data, &st); err != nil {
			return resp.StatusCode, st, fmt.Errorf("status 200 with undecodable body %q: %v", data, err)
		}
	}
	return resp.StatusCode, st, nil
}

// postCut sends the first cut bytes of body over a raw TCP connection that
// announces the full Content-Length, half-closes, and reads whatever the
// server answers. status 0 = no parsable answer.
func (s *c20Sys) postCut(body []byte, cut int) (int, c20Status) {
	return s.postCutLen(body, cut, len(body))
}

// postCutLen is postCut with the announced Content-Length given explicitly:
// with announce == cut the HTTP request is well formed and carries a
// multipart body that simply ends early (a clean EOF for the server).
func (s *c20Sys) postCutLen(body []byte, cut, announce int) (int, c20Status) {
	n0 := s.gate.count()
	addr := s.srv.Listener.Addr().String()
	conn, err := net.Dial("tcp", addr)
	if err != nil {
		panic("c20 monitor: dial: " + err.Error())
	}
	defer conn.Close()
	req := fmt.Sprintf("POST /upload HTTP/1.1\r\nHost: %s\r\nContent-Type: multipart/form-data; boundary=%s\r\nContent-Length: %d\r\nConnection: close\r\n\r\n", addr, c20Boundary, announce)
	if _, err := conn.Write(append([]byte(req), body[:cut]...)); err != nil {
		panic("c20 monitor: write: " + err.Error())
	}
	if tc, ok := conn.(*net.TCPConn); ok {
		tc.CloseWrite()
	}
	data, _ := io.ReadAll(conn)
	s.gate.waitIdle(n0 + 1)
	var st c20Status
	status := 0
	if i := bytes.Index(data, []byte("\r\n\r\n")); i >= 0 && bytes.HasPrefix(data, []byte("HTTP/1.1 ")) && len(data) >= 12 {
		status, _ = strconv.Atoi(string(data[9:12]))
		if status == 200 {
			payload := data[i+4:]
			if j := bytes.IndexByte(payload, '{'); j >= 0 { // tolerate chunked framing
				if k := bytes.LastIndexByte(payload, '}'); k > j {
					json.Unmarshal(payload[j:k+1], &st)
				}
			}
		}
	}
	return status, st
}

// ---------------------------------------------------------------------------
// Cases

type c20Case struct {
	ID      uint64
	Store   string // "mem" | "local"
	History []c19Upload
	Attempt c19Upload
	After   c19Upload
	Token   kit.B  // value of the label `attempt` in every file of the attempt
	Kind    string // store | cut | field | abort | none
	Pos     int    // store: k; cut: byte offset; field: insertion index; abort: index of the abort point
	Field   kit.B  // field: its name
	Invalid int    // -1, or the index of the attempt's file that is invalid by content
	InvKind string // "nobench" | "collide"
}

// abort points of an attempt: before any file, and per file after 0 bytes,
// after about half of it, after all of it.
type c20AbortPoint struct{ File, Off int }

func c20AbortPoints(u c19Upload) []c20AbortPoint {
	ps := []c20AbortPoint{{-1, 0}}
	for i, f := range u.Files {
		n := len(f.text())
		ps = append(ps, c20AbortPoint{i, 0}, c20AbortPoint{i, n / 2}, c20AbortPoint{i, n})
	}
	return ps
}

// c20HasBench: a reference for "the text has a benchmark line": some line
// whose first blank-delimited field starts with "Benchmark" and is followed
// by a blank (ASCII texts only, as generated here).
func c20HasBench(text string) bool {
	for _, l := range strings.Split(text, "\n") {
		i := strings.IndexAny(l, " \t")
		if i >= 0 && strings.HasPrefix(l[:i], "Benchmark") {
			return true
		}
	}
	return false
}

var c20IDRe = regexp.MustCompile(`^([0-9]{8})\.([1-9][0-9]*)$`)

func c20CheckID(id string, before, after time.Time) *kit.Fail {
	m := c20IDRe.FindStringSubmatch(id)
	if m == nil {
		return kit.Failf("upload-id-shape", "upload ID %q is not of the form YYYYMMDD.N", id)
	}
	day, err := time.Parse("20060102", m[1])
	if err != nil {
		return kit.Failf("upload-id-shape", "upload ID %q: %v", id, err)
	}
	lo := before.UTC().Truncate(24 * time.Hour)
	hi := after.UTC().Truncate(24 * time.Hour)
	if day.Before(lo) || day.After(hi) {
		return kit.Failf("upload-id-day", "upload ID %q created between %s and %s (UTC)", id, before.UTC().Format(time.RFC3339), after.UTC().Format(time.RFC3339))
	}
	return nil
}

// c20Header parses the metadata header of a stored file: "key: value" lines up
// to the first blank line.
func c20Header(data []byte) (map[string]string, []byte, bool) {
	h := map[string]string{}
	rest := data
	for {
		i := bytes.IndexByte(rest, '\n')
		if i < 0 {
			return nil, nil, false
		}
		line := string(rest[:i])
		rest = rest[i+1:]
		if line == "" {
			return h, rest, true
		}
		j := strings.Index(line, ": ")
		if j <= 0 {
			return nil, nil, false
		}
		if _, dup := h[line[:j]]; dup {
			return nil, nil, false
		}
		h[line[:j]] = line[j+2:]
	}
}

type c20Run struct {
	c     c20Case
	s     *c20Sys
	m     *c19Model
	ups   []c19Upload
	nar   *c19Narrow
	names map[string]bool // names the store must hold: writers that were closed successfully
	ids   []string
}

func (r *c20Run) wantHeader(u c19Upload, fi int, sv c19Server) map[string]string {
	h := map[string]string{"upload": sv.ID, "upload-part": fmt.Sprintf("%s/%d", sv.ID, fi)}
	if b := c19BaseName(string(u.Files[fi].Name)); b != "" {
		h["upload-file"] = b
	}
	if u.User != "" {
		h["by"] = string(u.User)
	}
	return h
}

// good performs an upload that must succeed and checks its files.
func (r *c20Run) good(what string, u c19Upload) *kit.Fail {
	r.s.ffs.mu.Lock()
	r.s.ffs.failAt = 0
	w0 := len(r.s.ffs.writers)
	r.s.ffs.mu.Unlock()
	r.s.setUser(string(u.User))
	before := time.Now()
	status, st, err := r.s.post(c20Build(c20UploadParts(u)).Bytes)
	if err != nil {
		return kit.Failf("good-upload-failed", "%s: %v", what, err)
	}
	if status != 200 {
		return kit.Failf("good-upload-failed", "%s: an upload of valid files without any injected fault was refused with HTTP %d", what, status)
	}
	return r.accepted(what, u, st, w0, before)
}

// accepted records a successful upload in the model and checks ID and files.
func (r *c20Run) accepted(what string, u c19Upload, st c20Status, w0 int, before time.Time) *kit.Fail {
	if f := c20CheckID(st.UploadID, before, time.Now()); f != nil {
		return f
	}
	for _, old := range r.ids {
		if old == st.UploadID {
			return kit.Failf("upload-id-reused", "%s: upload ID %s was already given to an earlier upload", what, st.UploadID)
		}
		mo, mn := c20IDRe.FindStringSubmatch(old), c20IDRe.FindStringSubmatch(st.UploadID)
		if mo[1] == mn[1] {
			a, _ := strconv.ParseUint(mo[2], 10, 64)
			b, _ := strconv.ParseUint(mn[2], 10, 64)
			if b <= a {
				return kit.Failf("upload-id-not-increasing", "%s: upload ID %s follows %s", what, st.UploadID, old)
			}
		}
	}
	r.ids = append(r.ids, st.UploadID)
	if len(st.FileIDs) != len(u.Files) {
		return kit.Failf("upload-status-fileids", "%s: %d files sent, server reports file IDs %q", what, len(u.Files), st.FileIDs)
	}
	sv := c19Server{ID: st.UploadID, FileIDs: st.FileIDs}
	// files: one writer per file, closed successfully once, header + content
	r.s.ffs.mu.Lock()
	ws := append([]*c20Writer(nil), r.s.ffs.writers[w0:]...)
	r.s.ffs.mu.Unlock()
	if len(ws) != len(u.Files) {
		return kit.Failf("stored-file-count", "%s: %d files uploaded, %d store writers created", what, len(u.Files), len(ws))
	}
	for fi, w := range ws {
		if len(w.closes) != 1 || w.closes[0] != "close:ok" {
			return kit.Failf("stored-file-not-closed-once", "%s: writer of %s saw close calls %v, want exactly one successful Close", what, w.name, w.closes)
		}
		if want := "uploads/" + st.FileIDs[fi] + ".txt"; w.name != want {
			return kit.Failf("stored-file-name", "%s: file %d stored as %q, want %q", what, fi, w.name, want)
		}
		h, rest, ok := c20Header(w.data)
		if !ok {
			return kit.Failf("stored-file-header", "%s: stored file %s does not start with a key: value header and a blank line: %q", what, w.name, c20Trunc(w.data))
		}
		if _, err := time.Parse(time.RFC3339, h["upload-time"]); err != nil {
			return kit.Failf("stored-file-header", "%s: stored file %s has upload-time %q", what, w.name, h["upload-time"])
		}
		delete(h, "upload-time")
		if want := r.wantHeader(u, fi, sv); !c19EqualMaps(h, want) {
			return kit.Failf("stored-file-header", "%s: stored file %s has header %v, want %v (+ upload-time)", what, w.name, h, want)
		}
		if string(rest) != u.Files[fi].text() {
			return kit.Failf("stored-file-content", "%s: stored file %s holds %q after the header, uploaded %q", what, w.name, c20Trunc(rest), c20Trunc([]byte(u.Files[fi].text())))
		}
		r.names[w.name] = true
	}
	r.m.ups = append(r.m.ups, sv)
	r.ups = append(r.ups, u)
	// complete the model for this upload (upload-time is read back from the server)
	m2 := &c19Model{ups: r.m.ups}
	if f := m2.finish(r.s.c19Sys, r.ups); f != nil {
		return f
	}
	*r.m = *m2
	return nil
}

func c20Trunc(b []byte) string {
	if len(b) > 300 {
		return string(b[:300]) + "…"
	}
	return string(b)
}

// probes compares every observation point with the model of successful uploads.
func (r *c20Run) probes(when string) *kit.Fail {
	n := len(r.m.ups)
	bound := 4*r.m.totalLines() + 100
	type probe struct {
		text string
		ts   []c19ResolvedTerm
	}
	ps := []probe{
		{"attempt:" + string(r.c.Token), []c19ResolvedTerm{{"attempt", ":", string(r.c.Token)}}},
		{"upload>", []c19ResolvedTerm{{"upload", ">", ""}}},
	}
	o, complete := r.s.queryDB("", bound)
	if f := r.m.judgeResults(when+" db", "", nil, o, complete, n, r.nar); f != nil {
		return f
	}
	for _, p := range ps {
		o, complete := r.s.queryDB(p.text, bound)
		if f := r.m.judgeResults(when+" db", p.text, p.ts, o, complete, n, r.nar); f != nil {
			return f
		}
		o, complete = r.s.queryHTTP(p.text, bound)
		if f := r.m.judgeResults(when+" http", p.text, p.ts, o, complete, n, r.nar); f != nil {
			return f
		}
		if f := r.m.judgeListing(when+" db", p.text, p.ts, 0, r.s.listDB(p.text, nil, 0), n, r.nar); f != nil {
			return f
		}
	}
	if f := r.m.judgeListing(when+" db", "", nil, 0, r.s.listDB("", nil, 0), n, r.nar); f != nil {
		return f
	}
	if f := r.m.judgeListing(when+" http", "", nil, 0, r.s.listHTTP("", nil, 0), n, r.nar); f != nil {
		return f
	}
	// store: exactly the files whose writer was closed successfully
	names, content := r.s.storeNames()
	var want []string
	for k := range r.names {
		want = append(want, k)
	}
	sort.Strings(want)
	if strings.Join(names, "\n") != strings.Join(want, "\n") {
		return kit.Failf("store-listing", "%s: store holds %q; files whose writer was closed successfully: %q", when, names, want)
	}
	if content != nil {
		r.s.ffs.mu.Lock()
		defer r.s.ffs.mu.Unlock()
		for _, w := range r.s.ffs.writers {
			if r.names[w.name] && !bytes.Equal(content[w.name], w.data) {
				return kit.Failf("store-content", "%s: file %s on disk holds %q, the writer accepted %q", when, w.name, c20Trunc(content[w.name]), c20Trunc(w.data))
			}
		}
	}
	return nil
}

var c20Outcomes sync.Map // case ID -> bool (the fault took effect)

func c20Check(c c20Case) *kit.Fail {
	s, err := c20NewSys(c.Store)
	if err != nil {
		panic("c20 monitor: cannot set up: " + err.Error())
	}
	defer s.close()
	r := &c20Run{c: c, s: s, m: &c19Model{}, nar: &c19Narrow{}, names: map[string]bool{}}
	for i, u := range c.History {
		if f := r.good(fmt.Sprintf("history upload %d", i), u); f != nil {
			return f
		}
	}
	if f := r.probes("before the attempt"); f != nil {
		return f
	}

	// ---- the attempt
	u := c.Attempt
	s.setUser(string(u.User))
	s.ffs.mu.Lock()
	w0 := len(s.ffs.writers)
	ops0 := s.ffs.ops
	s.ffs.failAt = 0
	if c.Kind == "store" {
		s.ffs.failAt = ops0 + c.Pos
	}
	s.ffs.mu.Unlock()
	before := time.Now()

	nfiles := len(u.Files)
	sent := make([]string, nfiles)     // content of file i as far as it was sent
	terminated := make([]bool, nfiles) // its closing delimiter was sent
	mustFail := c.Invalid >= 0 && c.InvKind == "nobench"
	mayFail := c.Invalid >= 0 // a label collision may be refused
	status := 0
	var st c20Status
	effect := true
	switch c.Kind {
	case "none", "store":
		body := c20Build(c20UploadParts(u))
		for i := range sent {
			sent[i], terminated[i] = u.Files[i].text(), true
		}
		var err error
		status, st, err = s.post(body.Bytes)
		if err != nil {
			return kit.Failf("upload-transport-error", "attempt: %v", err)
		}
	case "field":
		parts := c20UploadParts(u)
		ins := c.Pos
		if ins > nfiles {
			ins = nfiles
		}
		parts = append(parts[:ins:ins], append([]c20Part{{Field: string(c.Field), Content: "1"}}, parts[ins:]...)...)
		for i := range sent {
			sent[i], terminated[i] = u.Files[i].text(), true
		}
		mustFail = true
		var err error
		status, st, err = s.post(c20Build(parts).Bytes)
		if err != nil {
			return kit.Failf("upload-transport-error", "attempt: %v", err)
		}
	case "cut", "cutlen":
		body := c20Build(c20UploadParts(u))
		cut := c.Pos
		if cut > len(body.Bytes) {
			cut = len(body.Bytes)
		}
		for i := range sent {
			switch {
			case cut >= body.ContentEnd[i]:
				sent[i] = u.Files[i].text()
			case cut > body.ContentStart[i]:
				sent[i] = u.Files[i].text()[:cut-body.ContentStart[i]]
			}
			terminated[i] = cut >= body.Terminated[i]
		}
		// Before the end of the closing boundary the body is incomplete and
		// the upload must fail; from there on either outcome is accepted.
		if cut < len(body.Bytes)-2 {
			mustFail = true
		} else {
			mayFail = true
			effect = cut < len(body.Bytes)
		}
		if c.Kind == "cutlen" {
			status, st = s.postCutLen(body.Bytes, cut, cut)
		} else {
			status, st = s.postCut(body.Bytes, cut)
		}
	case "abort":
		pts := c20AbortPoints(u)
		pt := pts[c.Pos%len(pts)]
		n0 := s.gate.count()
		up := s.cl.NewUpload(context.Background())
		for i := 0; i <= pt.File && i < nfiles; i++ {
			w, err := up.CreateFile(string(u.Files[i].Name))
			if err != nil {
				return kit.Failf("upload-transport-error", "attempt: CreateFile: %v", err)
			}
			text := u.Files[i].text()
			if i == pt.File {
				text = text[:pt.Off]
			}
			if _, err := io.WriteString(w, text); err != nil {
				return kit.Failf("upload-transport-error", "attempt: write: %v", err)
			}
			sent[i], terminated[i] = text, true
		}
		if err := up.Abort(); err == nil {
			return kit.Failf("abort-reported-success", "storage.Client Upload.Abort returned nil: the server accepted an aborted upload")
		}
		s.gate.waitIdle(n0 + 1)
		mustFail = true
		status = 500
	default:
		panic("c20 monitor: unknown kind " + c.Kind)
	}

	s.ffs.mu.Lock()
	fired := s.ffs.fired
	ws := append([]*c20Writer(nil), s.ffs.writers[w0:]...)
	newFail := s.ffs.newFail
	s.ffs.failAt = 0
	s.ffs.mu.Unlock()
	if c.Kind == "store" {
		if fired != "" {
			mustFail = true
			kit.Count("c20_fault_store_"+fired, 1)
		} else {
			effect = false
			kit.Count("c20_fault_store_beyond_last_operation", 1)
		}
	} else {
		kit.Count("c20_fault_"+c.Kind, 1)
	}
	if c.Invalid >= 0 {
		kit.Count("c20_invalid_"+c.InvKind, 1)
	}

	// ---- store events of the attempt
	for _, w := range ws {
		if len(w.closes) == 0 {
			return kit.Failf("writer-left-open", "attempt (%s): the writer of %s was neither closed nor closed with error", c20Desc(c), w.name)
		}
		if len(w.closes) > 1 {
			return kit.Failf("writer-closed-twice", "attempt (%s): the writer of %s saw %v", c20Desc(c), w.name, w.closes)
		}
	}
	_ = newFail

	switch {
	case status == 200:
		if mustFail && c.Kind == "cutlen" {
			// Known finding `cutlen-clean-eof-in-part-headers`: a WELL-FORMED request
			// (Content-Length = bytes sent) whose multipart body ends inside the
			// header block of part p >= 1. Go's mime/multipart then reports a bare
			// io.EOF from NextPart and processUpload takes it for the end of the
			// form: the files of the parts before p are committed. The signature is
			// given only if the cut really lies in such a header block, every earlier
			// part had arrived completely, at least one of them is a file, and the
			// committed upload is exactly and atomically those earlier files.
			body := c20Build(c20UploadParts(u))
			cut := c.Pos
			pidx := -1
			for pi := range body.Start {
				if pi >= 1 && cut >= body.Start[pi]+len("--"+c20Boundary+"\r\n") && cut < body.ContentStart[pi] {
					pidx = pi
				}
			}
			if pidx >= 1 {
				early := u
				nf := pidx
				if nf > len(u.Files) {
					nf = len(u.Files)
				}
				early.Files = append([]c19File(nil), u.Files[:nf]...)
				if nf >= 1 {
					if f := r.accepted("attempt ("+c20Desc(c)+"), taken as its first "+strconv.Itoa(nf)+" file(s)", early, st, w0, before); f != nil {
						return f
					}
					if f := r.probes("after the attempt (" + c20Desc(c) + ")"); f != nil {
						return f
					}
					if f := r.good("upload after the attempt ("+c20Desc(c)+")", c.After); f != nil {
						return f
					}
					if f := r.probes("after one more good upload"); f != nil {
						return f
					}
					if r.nar.f != nil {
						return r.nar.f
					}
					c20Outcomes.Store(c.ID, effect)
					if nf < len(u.Files) {
						kit.Count("c20_cutlen_partial_upload_committed", 1)
					} else {
						kit.Count("c20_cutlen_committed_without_commit_field", 1)
					}
					return kit.Failf("cutlen-clean-eof-in-part-headers", "attempt (%s): body ends cleanly inside the headers of part %d; HTTP 200, upload %s committed with the first %d of %d file(s)", c20Desc(c), pidx, st.UploadID, nf, len(u.Files))
				}
			}
		}
		if mustFail {
			return kit.Failf("committed-despite-"+c20FaultName(c, fired), "attempt (%s) was answered with HTTP 200 (upload %s)", c20Desc(c), st.UploadID)
		}
		if c.Invalid >= 0 {
			// a colliding label was accepted: the statement does not say what
			// is stored then; nothing further is compared for this case
			kit.Count("c20_collision_accepted", 1)
			return nil
		}
		if f := r.accepted("attempt ("+c20Desc(c)+")", u, st, w0, before); f != nil {
			return f
		}
	default:
		if status == 0 && !mustFail && !mayFail {
			return kit.Failf("upload-transport-error", "attempt (%s): no HTTP answer", c20Desc(c))
		}
		if status != 0 && !mustFail && !mayFail {
			return kit.Failf("good-upload-failed", "attempt (%s): refused with HTTP %d although no fault took effect", c20Desc(c), status)
		}
		if status == 0 {
			// no answer could be read (cut bodies): decide by what is visible - all or nothing
			o, _ := s.queryDB("attempt:"+string(c.Token), 100000)
			if o.err == nil && len(o.res) > 0 {
				if mustFail {
					return kit.Failf("failed-upload-visible", "attempt (%s): %d of its records are returned by a query", c20Desc(c), len(o.res))
				}
				kit.Count("c20_cut_after_closing_boundary_committed", 1)
				// committed without an answer we could read: learn the ID from the records
				return nil
			}
		}
		// The upload failed. A writer that was closed successfully must belong
		// to a part that had arrived completely (content and terminating
		// delimiter), with at least one benchmark line, untouched by the fault:
		// only then was it not "the file being written when the failure happened".
		for k, w := range ws {
			if w.closes[0] != "close:ok" {
				continue
			}
			ok := k < nfiles && terminated[k] && !w.faulted && c20HasBench(sent[k])
			if ok {
				_, rest, hok := c20Header(w.data)
				ok = hok && string(rest) == sent[k]
			}
			if !ok {
				return kit.Failf("failed-upload-kept-file-being-written", "attempt (%s) failed (HTTP %d) but the writer of %s - the file being written when the failure happened - was closed successfully instead of with an error; it holds %q", c20Desc(c), status, w.name, c20Trunc(w.data))
			}
			r.names[w.name] = true // a completed file of a failed upload may stay
			kit.Count("c20_completed_files_left_by_failed_uploads", 1)
		}
	}

	if f := r.probes("after the attempt (" + c20Desc(c) + ")"); f != nil {
		if status != 200 && (f.Sig == "query-result-mismatch" || f.Sig == "listing-mismatch" || f.Sig == "listing-count-wrong") {
			f.Sig = "failed-upload-visible"
		}
		return f
	}
	if f := r.good("upload after the attempt ("+c20Desc(c)+")", c.After); f != nil {
		return f
	}
	if f := r.probes("after one more good upload"); f != nil {
		return f
	}
	c20Outcomes.Store(c.ID, effect)
	return r.nar.f
}

func c20FaultName(c c20Case, fired string) string {
	switch {
	case c.Kind == "store" && fired != "":
		return "store-" + fired + "-fault"
	case c.Invalid >= 0:
		return c.InvKind
	}
	return c.Kind
}

func c20Desc(c c20Case) string {
	s := fmt.Sprintf("%s store, %d files, fault %s at %d", c.Store, len(c.Attempt.Files), c.Kind, c.Pos)
	if c.Kind == "field" {
		s += fmt.Sprintf(" name %q", string(c.Field))
	}
	if c.Invalid >= 0 {
		s += fmt.Sprintf(", file %d invalid (%s)", c.Invalid, c.InvKind)
	}
	return s
}

// ---------------------------------------------------------------------------
// Enumeration

func c20Tag(u c19Upload, tok string) c19Upload {
	out := c19Upload{User: u.User}
	for _, f := range u.Files {
		g := c19File{Name: f.Name}
		g.Lines = append([]c19Line{c19SetL("attempt", tok)}, f.Lines...)
		out.Files = append(out.Files, g)
	}
	return out
}

func c20Invalidate(u c19Upload, fi int, kind string) c19Upload {
	out := c19Upload{User: u.User}
	for i, f := range u.Files {
		g := c19File{Name: f.Name}
		for _, l := range f.Lines {
			if i == fi && kind == "nobench" && l.K == c19Bench {
				l = c19Line{K: c19Junk, Junk: "PASS"}
			}
			g.Lines = append(g.Lines, l)
		}
		if i == fi && kind == "collide" {
			g.Lines = append([]c19Line{c19SetL("name", "zzz")}, g.Lines...)
		}
		out.Files = append(out.Files, g)
	}
	return out
}

// c20Big: an attempt large enough that the server flushes rows to the
// database before the upload ends (every result has its own label, so no two
// results coalesce).
func c20Big(r *kit.Rand) c19Upload {
	var f c19File
	f.Name = "big.txt"
	for i := 0; i < 45; i++ {
		f.Lines = append(f.Lines, c19SetL("i", strconv.Itoa(i)))
		if i == 0 {
			for k := 0; k < 5; k++ {
				f.Lines = append(f.Lines, c19SetL(fmt.Sprintf("k%d", k), "v"))
			}
		}
		f.Lines = append(f.Lines, c19BenchL("Big", fmt.Sprintf(" 1 %d ns/op", r.Intn(1000))))
	}
	small := c19File{Name: "small.txt", Lines: []c19Line{c19SetL("k", "s"), c19BenchL("Small", " 1 1 ns/op")}}
	return c19Upload{User: "user", Files: []c19File{f, small}}
}

// c20CountOps runs the attempt once without a fault and returns the number of
// store operations it performs.
func c20CountOps(c c20Case) int {
	s, err := c20NewSys(c.Store)
	if err != nil {
		// the cases themselves will report the set-up problem (inconclusive);
		// the enumeration must not bring the process down
		return 12
	}
	defer s.close()
	s.setUser(string(c.Attempt.User))
	s.post(c20Build(c20UploadParts(c.Attempt)).Bytes)
	s.ffs.mu.Lock()
	defer s.ffs.mu.Unlock()
	return s.ffs.ops
}

func c20Enum(thorough bool, yield func(c20Case)) {
	seed := kit.Seed()
	nscen := 7
	if thorough {
		nscen = 55
	}
	id := uint64(0)
	emit := func(c c20Case) {
		id++
		c.ID = id
		yield(c)
	}
	for sc := 0; sc < nscen; sc++ {
		r := kit.NewRand(seed, "c20-scenario", uint64(sc))
		g := c19NewGen(r)
		g.emptyNameVals = false
		tok := fmt.Sprintf("tok%d", sc)
		base := c20Case{Invalid: -1, Token: kit.B(tok)}
		base.Store = []string{"mem", "local"}[sc%2]
		for h := r.Intn(3); h > 0; h-- {
			base.History = append(base.History, c20Tag(g.upload(2, 5), fmt.Sprintf("h%d", h)))
		}
		big := sc == 3 || (thorough && sc%10 == 3)
		nf := 1 + sc%3
		var att c19Upload
		if big {
			att = c20Big(r)
		} else {
			att = g.upload(1, 6)
			for len(att.Files) < nf {
				att.Files = append(att.Files, g.file(5))
			}
		}
		base.Attempt = c20Tag(att, tok)
		base.After = c20Tag(g.upload(2, 4), "after")
		nfiles := len(base.Attempt.Files)

		// control
		c := base
		c.Kind = "none"
		emit(c)

		// invalid content at every file position, alone and (below) with store faults
		var variants []c20Case
		variants = append(variants, base)
		for fi := 0; fi < nfiles; fi++ {
			for _, k := range []string{"nobench", "collide"} {
				v := base
				v.Attempt = c20Invalidate(base.Attempt, fi, k)
				v.Invalid, v.InvKind = fi, k
				c := v
				c.Kind = "none"
				emit(c)
				if k == "nobench" && (fi == nfiles-1 || thorough) {
					variants = append(variants, v)
				}
			}
		}

		// store faults: every operation of the attempt, on both stores
		for _, v := range variants {
			for _, store := range []string{"mem", "local"} {
				c := v
				c.Store = store
				c.Kind = "store"
				n := c20CountOps(c)
				for k := 1; k <= n+1; k++ {
					c.Pos = k
					emit(c)
				}
			}
		}

		// unexpected fields before / between / after the files
		for pos := 0; pos <= nfiles; pos++ {
			for _, name := range []string{"abort", "foo", "File"} {
				c := base
				c.Kind, c.Pos, c.Field = "field", pos, kit.B(name)
				emit(c)
			}
		}

		// client aborts
		for p := range c20AbortPoints(base.Attempt) {
			c := base
			c.Kind, c.Pos = "abort", p
			emit(c)
		}

		// body cut at byte offsets
		body := c20Build(c20UploadParts(base.Attempt))
		step := 5
		if big {
			step = 97
		}
		if thorough {
			step = 1
			if big {
				step = 7
			}
		}
		offs := map[int]bool{}
		for o := 0; o <= len(body.Bytes); o += step {
			offs[o] = true
		}
		for _, m := range body.Marks {
			for d := -3; d <= 3; d++ {
				if o := m + d; o >= 0 && o <= len(body.Bytes) {
					offs[o] = true
				}
			}
		}
		var sorted []int
		for o := range offs {
			sorted = append(sorted, o)
		}
		sort.Ints(sorted)
		for _, o := range sorted {
			c := base
			c.Kind, c.Pos = "cut", o
			emit(c)
			// the same cut inside a well-formed request (Content-Length = cut)
			c.Kind = "cutlen"
			emit(c)
		}
	}
}

// ---------------------------------------------------------------------------
// Large file (fault-free): "if it succeeds, every record of every file is
// queryable and each file is stored once" must not depend on the size of a file.

type c20LargeCase struct {
	ID      uint64
	Store   string // "mem" | "local"
	Lines   int    // benchmark lines of the large file
	LineLen int    // bytes per benchmark line (below the 64 KiB line limit of the readers)
	Block   int    // a label block (two label lines) precedes every Block-th line
}

// c20LargeUpload builds the upload: one file of Lines benchmark lines of
// LineLen bytes each - every line has its own name, so no two results form one
// record - plus a small second file. The length is in the rest of the line
// (value/unit pairs), not in labels.
func c20LargeUpload(c c20LargeCase) c19Upload {
	f := c19File{Name: "large.txt"}
	f.Lines = append(f.Lines, c19SetL("attempt", "large"))
	for i := 0; i < c.Lines; i++ {
		if i%c.Block == 0 {
			f.Lines = append(f.Lines, c19SetL("block", strconv.Itoa(i/c.Block)), c19SetL("first", strconv.Itoa(i)))
		}
		l := c19BenchL("Large", "", c19Sub{Key: "i", Val: kit.B(strconv.Itoa(i))})
		rest := fmt.Sprintf(" 1 %d ns/op", i)
		pad := c.LineLen - len(l.text()) - len(rest)
		unit := " 1 pad/op"
		rest += strings.Repeat(unit, pad/len(unit))
		l.Rest = kit.B(rest)
		f.Lines = append(f.Lines, l)
	}
	tail := c19File{Name: "tail.txt", Lines: []c19Line{c19SetL("attempt", "large"), c19SetL("k", "t"), c19BenchL("Tail", " 1 1 ns/op")}}
	return c19Upload{User: "user", Files: []c19File{f, tail}}
}

var c20LargeOK sync.Map // case ID -> bool

// c20LargeCheck shortens messages: they quote lines of about 60 KB.
func c20LargeCheck(c c20LargeCase) *kit.Fail {
	f := c20LargeRun(c)
	if f != nil && len(f.Msg) > 1500 {
		f.Msg = f.Msg[:1500] + "…"
	}
	return f
}

func c20LargeRun(c c20LargeCase) *kit.Fail {
	s, err := c20NewSys(c.Store)
	if err != nil {
		panic("c20 monitor: cannot set up: " + err.Error())
	}
	defer s.close()
	r := &c20Run{c: c20Case{Token: "large"}, s: s, m: &c19Model{}, nar: &c19Narrow{}, names: map[string]bool{}}
	small := func(tok string) c19Upload {
		return c19Upload{Files: []c19File{{Name: "s.txt", Lines: []c19Line{c19SetL("attempt", tok), c19SetL("k", "s"), c19BenchL("Small", " 1 1 ns/op"), c19BenchL("Small", " 1 2 ns/op")}}}}
	}
	if f := r.good("history upload", small("h")); f != nil {
		return f
	}
	u := c20LargeUpload(c)
	kit.NoteMax("c20_large_file_bytes", float64(len(u.Files[0].text())))
	// good() requires HTTP 200 and compares every stored file with header + the
	// bytes uploaded; the probes compare the full dump, the attempt's records and
	// the listing (db and HTTP) with the model of all uploaded lines.
	if f := r.good("upload with a large file", u); f != nil {
		return f
	}
	if f := r.probes("after the upload with a large file"); f != nil {
		return f
	}
	// the records at the very end of the large file, and the file after it
	last := strconv.Itoa(c.Lines - 1)
	bound := 4*r.m.totalLines() + 100
	for _, ts := range [][]c19ResolvedTerm{
		{{"i", ":", last}},
		{{"block", ":", strconv.Itoa((c.Lines - 1) / c.Block)}, {"upload-file", ":", "large.txt"}},
		{{"k", ":", "t"}, {"attempt", ":", "large"}},
	} {
		var words []string
		for _, t := range ts {
			words = append(words, t.Key+t.Op+t.Val)
		}
		text := strings.Join(words, " ")
		o, complete := s.queryDB(text, bound)
		if f := r.m.judgeResults("large db", text, ts, o, complete, len(r.m.ups), r.nar); f != nil {
			return f
		}
		if len(o.res) == 0 {
			return kit.Failf("query-result-mismatch", "large db Query(%q) returns nothing", text)
		}
		o, complete = s.queryHTTP(text, bound)
		if f := r.m.judgeResults("large http", text, ts, o, complete, len(r.m.ups), r.nar); f != nil {
			return f
		}
		if f := r.m.judgeListing("large http", text, ts, 0, s.listHTTP(text, nil, 0), len(r.m.ups), r.nar); f != nil {
			return f
		}
	}
	if f := r.good("upload after the large one", small("after")); f != nil {
		return f
	}
	if f := r.probes("after one more good upload"); f != nil {
		return f
	}
	c20LargeOK.Store(c.ID, true)
	return r.nar.f
}

func c20LargeEnum(thorough bool, yield func(c20LargeCase)) {
	r := kit.NewRand(kit.Seed(), "c20-large", 0)
	stores := []string{[]string{"mem", "local"}[r.Intn(2)]}
	if thorough {
		stores = []string{"mem", "local"}
	}
	for i, st := range stores {
		// 17-19 MiB in 280-330 lines of 56-62 KB
		ll := r.Range(56000, 62000)
		total := r.Range(17<<20, 19<<20)
		yield(c20LargeCase{ID: uint64(i + 1), Store: st, Lines: total/ll + 1, LineLen: ll, Block: r.Range(20, 60)})
	}
}


// ---------------------------------------------------------------------------
// Record-count sweep (fault-free): "if it succeeds, every record of every file
// is queryable" must not depend on how many records and labels an upload has,
// in particular not on where the server's batched inserts happen to be cut.

type c20SweepCase struct {
	ID       uint64
	Store    string
	From, To int // uploads of From..To records, one after the other on one database
	Extra    int // additional file labels per record
}

var c20SweepOK sync.Map

func c20SweepUpload(n, extra int) c19Upload {
	f := c19File{Name: "sweep.txt"}
	f.Lines = append(f.Lines, c19SetL("attempt", "sweep"))
	for e := 0; e < extra; e++ {
		f.Lines = append(f.Lines, c19SetL("e"+strconv.Itoa(e), "v"+strconv.Itoa(e)))
	}
	for i := 0; i < n; i++ {
		f.Lines = append(f.Lines, c19BenchL("Sweep", fmt.Sprintf(" 1 %d ns/op", i), c19Sub{Key: "i", Val: kit.B(strconv.Itoa(i))}))
	}
	return c19Upload{User: "user", Files: []c19File{f}}
}

func c20SweepCheck(c c20SweepCase) *kit.Fail {
	s, err := c20NewSys(c.Store)
	if err != nil {
		panic("c20 monitor: cannot set up: " + err.Error())
	}
	defer s.close()
	r := &c20Run{c: c20Case{Token: "sweep"}, s: s, m: &c19Model{}, nar: &c19Narrow{}, names: map[string]bool{}}
	for n := c.From; n <= c.To; n++ {
		if f := r.good(fmt.Sprintf("upload of %d records with %d extra labels", n, c.Extra), c20SweepUpload(n, c.Extra)); f != nil {
			return f
		}
	}
	if f := r.probes("after the sweep uploads"); f != nil {
		return f
	}
	bound := 4*r.m.totalLines() + 100
	queries := 0
	for ui, sv := range r.m.ups {
		recs := r.m.recs[ui]
		if len(recs) == 0 {
			return kit.Failf("monitor-model", "no model records for upload %s", sv.ID)
		}
		// the first and the last record of the upload, through each of their labels
		for _, ri := range []int{0, len(recs) - 1} {
			rec := recs[ri]
			var keys []string
			for k := range c19Union(rec.Labels, rec.Name) {
				if k != "upload-time" && k != "upload" {
					keys = append(keys, k)
				}
			}
			sort.Strings(keys)
			for _, k := range keys {
				v := c19Union(rec.Labels, rec.Name)[k]
				ts := []c19ResolvedTerm{{k, ":", v}, {"upload", ":", sv.ID}, {"i", ":", rec.Name["i"]}}
				text := k + ":" + v + " upload:" + sv.ID + " i:" + rec.Name["i"]
				o, complete := s.queryDB(text, bound)
				if f := r.m.judgeResults("sweep db", text, ts, o, complete, len(r.m.ups), r.nar); f != nil {
					return f
				}
				if len(o.res) != 1 {
					return kit.Failf("query-result-mismatch", "sweep db Query(%q) returns %d records, want the one record of upload %s (%d records, %d extra labels) it describes", text, len(o.res), sv.ID, len(recs), c.Extra)
				}
				queries++
			}
			if ri == len(recs)-1 {
				text := "upload:" + sv.ID
				o, complete := s.queryHTTP(text, bound)
				if f := r.m.judgeResults("sweep http", text, []c19ResolvedTerm{{"upload", ":", sv.ID}}, o, complete, len(r.m.ups), r.nar); f != nil {
					return f
				}
			}
		}
	}
	kit.Count("C20 sweep: single-record queries through each label of an upload's first and last record", int64(queries))
	c20SweepOK.Store(c.ID, true)
	return r.nar.f
}

func c20SweepEnum(thorough bool, yield func(c20SweepCase)) {
	r := kit.NewRand(kit.Seed(), "c20-sweep", 0)
	extras := []int{0, r.Range(1, 6)}
	maxN, step := 96, 24
	if thorough {
		extras = []int{0, 1, 2, 3, 4, 5, 6}
		maxN = 320
	}
	id := uint64(1)
	for _, e := range extras {
		for from := 1; from <= maxN; from += step {
			st := []string{"mem", "local"}[r.Intn(2)]
			yield(c20SweepCase{ID: id, Store: st, From: from, To: from + step - 1, Extra: e})
			id++
		}
	}
}

func TestVerifC20Faults(t *testing.T) {
	defer c20Closers.Wait()
	kit.Run(t, "C20", kit.Class[c20SweepCase]{
		Name: "c20-record-count-sweep", Enum: c20SweepEnum, Check: c20SweepCheck, MinNonTrivial: 4,
		NonTrivial: func(c c20SweepCase) bool { v, ok := c20SweepOK.Load(c.ID); return ok && v.(bool) },
		Rule:       "fault-free: uploads of EVERY record count 1..96 (thorough 1..320), each record with 9 labels plus 0 or 1-6 (thorough: each of 0..6) extra file labels, 24 consecutive counts per database on fs.MemFS or fs/local; every upload must be accepted and stored; full dump, the attempt's records and the listings must equal the model; the first and the last record of every upload must be the single answer of a query through each one of its labels, and upload:ID over HTTP must return all records of the upload.",
	}, kit.Class[c20LargeCase]{
		Name: "c20-large-file", Enum: c20LargeEnum, Check: c20LargeCheck, MinNonTrivial: 1, Serial: true,
		NonTrivial: func(c c20LargeCase) bool { v, ok := c20LargeOK.Load(c.ID); return ok && v.(bool) },
		Rule:       "fault-free: one upload whose first file holds 17-19 MiB in about 300 benchmark lines of 56-62 KB (below the readers' 64 KiB line limit; every line its own name and label blocks every 20-60 lines, so about 300 records) and a small second file, between two small uploads, on fs.MemFS or fs/local (thorough: both). The upload must be accepted; each stored file must be header + exactly the uploaded bytes; full dump, the upload's records, the records of the last line / last label block / second file and the listings (db.DB and storage.Client) must equal the model of all uploaded lines.",
	}, kit.Class[c20Case]{
		Name: "c20-fault-enumeration", Enum: c20Enum, Check: c20Check, MinNonTrivial: 600,
		NonTrivial: func(c c20Case) bool {
			v, ok := c20Outcomes.Load(c.ID)
			return ok && v.(bool) && (c.Kind != "none" || c.Invalid >= 0)
		},
		Rule: "7 (thorough 55) seeded scenarios: 0-2 earlier good uploads, an attempt of 1-3 files (one scenario large enough to make the server flush rows before the end), one more good upload; for each scenario EVERY position of one fault: each store operation (NewWriter/Write/Close/CloseWithError in call order, k = 1..n+1) on fs.MemFS and fs/local, also on top of a file without benchmark lines; body cut at every 5th byte offset plus +-3 around every part boundary (thorough: every offset) over raw TCP with the full Content-Length; unexpected fields abort/foo/File before, between, after the files; storage.Client Abort() before any file and after 0 / half / all bytes of each file; a file without benchmark lines or with a colliding label at each position. Non-trivial: the fault took effect (a store operation was hit, the body was really shortened, ...).",
	})
}
