//go:build verif

package app_test

// C20 through the full stack under concurrency and the race detector: 2-4
// storage.Client goroutines upload to ONE server (one db.DB on a file-backed
// sqlite database, one file store) at the same time; each upload is committed,
// aborted by the client at some point, or invalid (a file without benchmark
// lines). Under contention sqlite may refuse a creation ("database is
// locked"): such an upload simply failed and must be invisible like any other
// failed one.
//
// Oracle: IDs of the committed uploads have the right shape, are distinct and
// ordered consistently with real time (kit/idhist, stamps taken before
// NewUpload and after Commit returned); afterwards the full dump, the
// listing and a query per upload token equal the model of the committed
// uploads in ID order; failed / aborted uploads are invisible; the store
// holds exactly the files whose writer was closed successfully, and every
// writer was closed exactly once.

import (
	"context"
	"fmt"
	"io"
	"sort"
	"strings"
	"sync"
	"sync/atomic"
	"testing"
	"time"

	kit "golang.org/x/perf/internal/verifkit"
	"golang.org/x/perf/internal/verifkit/idhist"
)

type c20ConcUpload struct {
	Up    c19Upload
	Token kit.B
	Mode  string // commit | abort | nobench
	Abort int    // index of the abort point
}

type c20ConcCase struct {
	ID      uint64
	Store   string
	Clients [][]c20ConcUpload
}

var c20ConcOutcomes sync.Map

func c20ConcCheck(c c20ConcCase) *kit.Fail {
	s, err := c20NewSys(c.Store)
	if err != nil {
		panic("c20 monitor: cannot set up: " + err.Error())
	}
	defer s.close()
	s.setUser("user")
	type done struct {
		u  c20ConcUpload
		op idhist.Op
		sv c19Server
	}
	var mu sync.Mutex
	var committed []done
	var failedTokens []string
	var refused atomic.Int64
	var stamp atomic.Int64
	var wg sync.WaitGroup
	var transport atomic.Value
	for cl, ups := range c.Clients {
		wg.Add(1)
		go func(cl int, ups []c20ConcUpload) {
			defer wg.Done()
			for _, cu := range ups {
				call := stamp.Add(1)
				up := s.cl.NewUpload(context.Background())
				files := cu.Up.Files
				stopFile, stopOff := len(files), 0
				if cu.Mode == "abort" {
					pts := c20AbortPoints(cu.Up)
					pt := pts[cu.Abort%len(pts)]
					stopFile, stopOff = pt.File, pt.Off
				}
				failed := false
				for i := 0; i < len(files) && (cu.Mode != "abort" || i <= stopFile); i++ {
					w, err := up.CreateFile(string(files[i].Name))
					if err != nil {
						failed = true
						break
					}
					text := files[i].text()
					if cu.Mode == "abort" && i == stopFile {
						text = text[:stopOff]
					}
					if _, err := io.WriteString(w, text); err != nil {
						failed = true
						break
					}
				}
				if cu.Mode == "abort" || failed {
					if err := up.Abort(); err == nil && cu.Mode == "abort" {
						transport.Store("storage.Client Upload.Abort returned nil: the server accepted an aborted upload")
					}
					mu.Lock()
					failedTokens = append(failedTokens, string(cu.Token))
					mu.Unlock()
					continue
				}
				st, err := up.Commit()
				ret := stamp.Add(1)
				if err != nil {
					if cu.Mode == "commit" {
						refused.Add(1)
					}
					mu.Lock()
					failedTokens = append(failedTokens, string(cu.Token))
					mu.Unlock()
					continue
				}
				if cu.Mode == "nobench" {
					transport.Store(fmt.Sprintf("an upload with a file without benchmark lines was committed as %s", st.UploadID))
				}
				mu.Lock()
				committed = append(committed, done{cu, idhist.Op{Client: cl, Call: call, Ret: ret, ID: st.UploadID}, c19Server{ID: st.UploadID, FileIDs: st.FileIDs}})
				mu.Unlock()
			}
		}(cl, ups)
	}
	wg.Wait()
	s.gate.waitIdle(0)
	if v := transport.Load(); v != nil {
		return kit.Failf("failed-upload-committed", "%s", v.(string))
	}

	// ---- IDs
	ops := make([]idhist.Op, len(committed))
	for i, d := range committed {
		ops[i] = d.op
	}
	res := idhist.Check(ops, 20*time.Second)
	if res.Sig != "" {
		return kit.Failf(res.Sig, "%s (%d concurrent HTTP clients)", res.Msg, len(c.Clients))
	}
	kit.Count("c20_http_concurrent_committed", int64(len(committed)))
	kit.Count("c20_http_concurrent_failed_or_aborted", int64(len(failedTokens)))
	kit.Count("c20_http_concurrent_refused_under_contention", refused.Load())
	kit.Count("c20_http_overlapping_pairs", int64(res.Overlapping))
	kit.Count("c20_porcupine_ok_partitions", int64(res.PorcupineOK))
	kit.Count("porcupine_unknown", int64(res.PorcupineUnknown))

	// ---- model: committed uploads in creation (= ID) order
	sort.Slice(committed, func(i, j int) bool {
		di, ni, _ := idhist.Parse(committed[i].op.ID)
		dj, nj, _ := idhist.Parse(committed[j].op.ID)
		if di != dj {
			return di < dj
		}
		return ni < nj
	})
	m := &c19Model{}
	var ups []c19Upload
	for _, d := range committed {
		if len(d.sv.FileIDs) != len(d.u.Up.Files) {
			return kit.Failf("upload-status-fileids", "upload %s: %d files sent, server reports file IDs %q", d.sv.ID, len(d.u.Up.Files), d.sv.FileIDs)
		}
		m.ups = append(m.ups, d.sv)
		ups = append(ups, d.u.Up)
	}
	if f := m.finish(s.c19Sys, ups); f != nil {
		return f
	}
	nar := &c19Narrow{}
	n := len(m.ups)
	bound := 4*m.totalLines() + 100
	o, complete := s.queryDB("", bound)
	if f := m.judgeResults("after concurrent uploads, db", "", nil, o, complete, n, nar); f != nil {
		return c20Visible(f)
	}
	o, complete = s.queryHTTP("upload>", bound)
	if f := m.judgeResults("after concurrent uploads, http", "upload>", []c19ResolvedTerm{{"upload", ">", ""}}, o, complete, n, nar); f != nil {
		return c20Visible(f)
	}
	if f := m.judgeListing("after concurrent uploads, db", "", nil, 0, s.listDB("", nil, 0), n, nar); f != nil {
		return c20Visible(f)
	}
	if f := m.judgeListing("after concurrent uploads, http", "", nil, 0, s.listHTTP("", nil, 0), n, nar); f != nil {
		return c20Visible(f)
	}
	for _, d := range committed {
		ts := []c19ResolvedTerm{{"attempt", ":", string(d.u.Token)}}
		o, complete := s.queryDB("attempt:"+string(d.u.Token), bound)
		if f := m.judgeResults("committed upload "+d.sv.ID+", db", "attempt:"+string(d.u.Token), ts, o, complete, n, nar); f != nil {
			return f
		}
	}
	for _, tok := range failedTokens {
		o, _ := s.queryHTTP("attempt:"+tok, bound)
		if o.err != nil {
			return kit.Failf("query-error", "query attempt:%s: %v", tok, o.err)
		}
		if len(o.res) > 0 {
			return kit.Failf("failed-upload-visible", "upload with token %s failed or was aborted, but a query returns %d of its records", tok, len(o.res))
		}
	}

	// ---- store
	s.ffs.mu.Lock()
	want := map[string]bool{}
	for _, w := range s.ffs.writers {
		if len(w.closes) != 1 {
			s.ffs.mu.Unlock()
			return kit.Failf("writer-not-closed-once", "the writer of %s saw close calls %v", w.name, w.closes)
		}
		if w.closes[0] == "close:ok" {
			want[w.name] = true
		}
	}
	s.ffs.mu.Unlock()
	for _, d := range committed {
		for _, fid := range d.sv.FileIDs {
			if !want["uploads/"+fid+".txt"] {
				return kit.Failf("stored-file-missing", "committed upload %s: no successfully closed writer for uploads/%s.txt", d.sv.ID, fid)
			}
		}
	}
	names, _ := s.storeNames()
	var wl []string
	for k := range want {
		wl = append(wl, k)
	}
	sort.Strings(wl)
	if strings.Join(names, "\n") != strings.Join(wl, "\n") {
		return kit.Failf("store-listing", "store holds %q; files whose writer was closed successfully: %q", names, wl)
	}
	c20ConcOutcomes.Store(c.ID, len(committed) >= 2 && res.Overlapping > 0 && res.PorcupineUnknown == 0)
	return nar.f
}

func c20Visible(f *kit.Fail) *kit.Fail {
	return f
}

func c20ConcGen(r *kit.Rand, i int) c20ConcCase {
	c := c20ConcCase{ID: r.Uint64(), Store: kit.Pick(r, []string{"mem", "local"})}
	g := c19NewGen(r)
	g.emptyNameVals = false
	ncl := r.Range(2, 4)
	for cl := 0; cl < ncl; cl++ {
		var ups []c20ConcUpload
		for it := r.Range(3, 7); it > 0; it-- {
			tok := fmt.Sprintf("c%dx%d", cl, it)
			cu := c20ConcUpload{Token: kit.B(tok), Mode: "commit"}
			u := g.upload(2, 5)
			u.User = "user"
			cu.Up = c20Tag(u, tok)
			switch x := r.Intn(10); {
			case x < 2:
				cu.Mode = "abort"
				cu.Abort = r.Intn(20)
			case x < 3:
				cu.Mode = "nobench"
				cu.Up = c20Invalidate(cu.Up, r.Intn(len(cu.Up.Files)), "nobench")
			}
			ups = append(ups, cu)
		}
		c.Clients = append(c.Clients, ups)
	}
	return c
}

func TestVerifC20HTTPConc(t *testing.T) {
	defer c20Closers.Wait()
	kit.Run(t, "C20", kit.Class[c20ConcCase]{
		Name: "c20-concurrent-http", Quick: 12, Thorough: 300,
		Gen: c20ConcGen, Check: c20ConcCheck, MinNonTrivial: 8,
		Serial:     true, // concurrent db.OpenSQL calls write the shared sqlite3 driver's ConnectHook (outside this property)
		NonTrivial: func(c c20ConcCase) bool { v, ok := c20ConcOutcomes.Load(c.ID); return ok && v.(bool) },
		Rule:       "2-4 storage.Client goroutines x 3-7 uploads of 1-2 files against one server (file-backed sqlite, fs.MemFS or fs/local behind the event-logging wrapper): 70% committed, 20% aborted by the client before / inside / between files, 10% with a file without benchmark lines; -race. Non-trivial: at least two uploads committed, some overlapping in time, porcupine decided every partition.",
	})
}
