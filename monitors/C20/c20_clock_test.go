//go:build verif

package db

// C20, upload IDs across midnight. This file is in package db because the
// clock of NewUpload is the unexported variable `now`. It is replaced ONCE,
// before any goroutine starts, by a function that reads an atomic fake clock,
// so that moving the clock while uploads are being created is not itself a
// data race.
//
// Phase 1 (sequential): creations interleaved with forward clock jumps across
// one or more midnights, more than ten uploads on some days, optionally with
// the database closed and reopened. Every creation must succeed, carry the
// fake clock's UTC day and an N larger than every earlier N of that day.
// Phase 2 (concurrent, -race): goroutines create uploads while each of them
// occasionally advances the clock, so midnight passes in the middle of
// concurrent creations. Oracle: kit/idhist per day (direct order check and
// porcupine), ID day between the clock's day at call and at return.
//
// storage/db/sqlite3 cannot be imported here (it imports this package), so the
// driver's foreign-key hook is registered by hand exactly as that package does.

import (
	"context"
	"database/sql"
	"fmt"
	"os"
	"sync"
	"sync/atomic"
	"testing"
	"time"

	sqlite3 "github.com/mattn/go-sqlite3"
	kit "golang.org/x/perf/internal/verifkit"
	"golang.org/x/perf/internal/verifkit/idhist"
)

func init() {
	RegisterOpenHook("sqlite3", func(db *sql.DB) error {
		db.Driver().(*sqlite3.SQLiteDriver).ConnectHook = func(c *sqlite3.SQLiteConn) error {
			_, err := c.Exec("PRAGMA foreign_keys = ON;", nil)
			return err
		}
		return nil
	})
}

var c20FakeNanos atomic.Int64

func c20FakeNow() time.Time { return time.Unix(0, c20FakeNanos.Load()).UTC() }

func c20Day(nanos int64) string { return time.Unix(0, nanos).UTC().Format("20060102") }

type c20ClockCase struct {
	ID      uint64
	Seed    uint64
	Start   int64 // fake clock start, seconds since the epoch
	SeqOps  int   // sequential creations
	Clients int
	Iters   int
	BusyMS  int
	Reopen  bool
}

var c20ClockOutcomes sync.Map

func c20ClockCheck(c c20ClockCase) *kit.Fail {
	dir, err := os.MkdirTemp("/var/tmp", "verif-c20clock-")
	if err != nil {
		panic("c20 monitor: " + err.Error())
	}
	defer os.RemoveAll(dir)
	dsn := func(busy int) string { return fmt.Sprintf("file:%s/clock.db?_busy_timeout=%d&_sync=0", dir, busy) }
	d, err := OpenSQL("sqlite3", dsn(10000))
	if err != nil {
		panic("c20 monitor: open: " + err.Error())
	}
	defer func() { d.Close() }()
	ctx := context.Background()
	c20FakeNanos.Store(c.Start * 1e9)
	var stamp atomic.Int64
	var ops []idhist.Op
	maxN := map[string]uint64{}
	r := kit.NewRand(c.Seed, "c20-clock-seq", 0)
	midnights := 0

	// ---- phase 1: sequential, forward jumps
	for i := 0; i < c.SeqOps; i++ {
		if c.Reopen && i == c.SeqOps/2 {
			d.Close()
			if d, err = OpenSQL("sqlite3", dsn(10000)); err != nil {
				panic("c20 monitor: reopen: " + err.Error())
			}
		}
		before := c20FakeNanos.Load()
		switch x := r.Intn(10); {
		case x < 5: // stay on this day
			c20FakeNanos.Add(int64(r.Intn(60)) * 1e9)
		case x < 8: // a few hours
			c20FakeNanos.Add(int64(r.Range(1, 9)) * 3600e9)
		case x < 9: // to one second before midnight, then over it with the next jump
			t := time.Unix(0, before).UTC()
			next := time.Date(t.Year(), t.Month(), t.Day()+1, 0, 0, 0, 0, time.UTC)
			c20FakeNanos.Store(next.UnixNano() - 1e9*int64(r.Intn(2)))
		default: // several days
			c20FakeNanos.Add(int64(r.Range(1, 40)) * 86400e9)
		}
		nowN := c20FakeNanos.Load()
		if c20Day(nowN) != c20Day(before) {
			midnights++
		}
		call := stamp.Add(1)
		u, err := d.NewUpload(ctx)
		ret := stamp.Add(1)
		if err != nil {
			return kit.Failf("newupload-failed-without-contention", "sequential creation %d at fake time %s failed: %v", i+1, time.Unix(0, nowN).UTC().Format(time.RFC3339), err)
		}
		if r.Chance(0.5) {
			err = u.Commit()
		} else {
			err = u.Abort()
		}
		if err != nil {
			return kit.Failf("commit-failed-without-contention", "upload %s: %v", u.ID, err)
		}
		day, n, ok := idhist.Parse(u.ID)
		if !ok {
			return kit.Failf("upload-id-shape", "upload ID %q is not of the form YYYYMMDD.N", u.ID)
		}
		if day != c20Day(nowN) {
			return kit.Failf("upload-id-day", "upload created at fake time %s got ID %s", time.Unix(0, nowN).UTC().Format(time.RFC3339), u.ID)
		}
		if n <= maxN[day] {
			return kit.Failf("upload-id-not-increasing", "upload ID %s follows an upload of the same day with N=%d", u.ID, maxN[day])
		}
		maxN[day] = n
		ops = append(ops, idhist.Op{Client: 0, Call: call, Ret: ret, ID: u.ID})
	}

	// ---- phase 2: concurrent creations while the clock passes midnight
	d.Close()
	if d, err = OpenSQL("sqlite3", dsn(c.BusyMS)); err != nil {
		panic("c20 monitor: reopen: " + err.Error())
	}
	{
		// start shortly before a midnight so that it is crossed early
		t := c20FakeNow()
		next := time.Date(t.Year(), t.Month(), t.Day()+1, 0, 0, 0, 0, time.UTC)
		c20FakeNanos.Store(next.UnixNano() - int64(r.Range(1, 90))*60e9)
	}
	type rec struct {
		op              idhist.Op
		dayCall, dayRet string
	}
	var mu sync.Mutex
	var recs []rec
	var errs atomic.Int64
	var wg sync.WaitGroup
	for cl := 0; cl < c.Clients; cl++ {
		wg.Add(1)
		go func(cl int) {
			defer wg.Done()
			r := kit.NewRand(c.Seed, "c20-clock-client", uint64(cl))
			for i := 0; i < c.Iters; i++ {
				if r.Chance(0.5) {
					c20FakeNanos.Add(int64(r.Range(1, 15)) * 60e9) // 1-15 minutes forward
				}
				dc := c20Day(c20FakeNanos.Load())
				call := stamp.Add(1)
				u, err := d.NewUpload(ctx)
				ret := stamp.Add(1)
				dr := c20Day(c20FakeNanos.Load())
				if err != nil {
					errs.Add(1)
					continue
				}
				if r.Chance(0.5) {
					u.Commit()
				} else {
					u.Abort()
				}
				mu.Lock()
				recs = append(recs, rec{idhist.Op{Client: cl + 1, Call: call, Ret: ret, ID: u.ID}, dc, dr})
				mu.Unlock()
			}
		}(cl)
	}
	wg.Wait()
	days := map[string]bool{}
	for _, rc := range recs {
		day, _, ok := idhist.Parse(rc.op.ID)
		if !ok {
			return kit.Failf("upload-id-shape", "upload ID %q is not of the form YYYYMMDD.N", rc.op.ID)
		}
		if day < rc.dayCall || day > rc.dayRet {
			return kit.Failf("upload-id-day", "upload ID %s: the clock's day was %s at the call and %s at the return", rc.op.ID, rc.dayCall, rc.dayRet)
		}
		days[day] = true
		ops = append(ops, rc.op)
	}
	res := idhist.Check(ops, 20*time.Second)
	if res.Sig != "" {
		return kit.Failf(res.Sig, "%s (%d sequential creations, then %d clients x %d, busy timeout %d ms, clock crossing midnight)", res.Msg, c.SeqOps, c.Clients, c.Iters, c.BusyMS)
	}
	kit.Count("c20_clock_sequential_midnights_crossed", int64(midnights))
	kit.Count("c20_clock_ids_created", int64(len(ops)))
	kit.Count("c20_clock_creation_errors_noop", errs.Load())
	kit.Count("c20_clock_concurrent_days", int64(len(days)))
	kit.Count("c20_clock_overlapping_pairs", int64(res.Overlapping))
	kit.Count("c20_porcupine_ok_partitions", int64(res.PorcupineOK))
	kit.Count("porcupine_unknown", int64(res.PorcupineUnknown))
	c20ClockOutcomes.Store(c.ID, midnights > 0 && len(days) >= 2 && res.PorcupineUnknown == 0 && len(recs) >= c.Clients)
	return nil
}

func c20ClockGen(r *kit.Rand, i int) c20ClockCase {
	c := c20ClockCase{ID: r.Uint64(), Seed: r.Uint64()}
	c.Start = int64(r.Range(0, 20000)) * 86400 // some day between 1970 and 2024
	if r.Chance(0.3) {
		c.Start = time.Date(r.Range(1999, 2030), 12, 31, 23, 0, 0, 0, time.UTC).Unix() // year end
	}
	c.SeqOps = r.Range(15, 40)
	c.Clients = kit.Pick(r, []int{2, 4, 8})
	c.Iters = r.Range(20, 40)
	c.BusyMS = kit.Pick(r, []int{1, 5, 20, 50, 100})
	c.Reopen = r.Bool()
	return c
}

func TestVerifC20Clock(t *testing.T) {
	old := now
	now = c20FakeNow
	defer func() { now = old }()
	kit.Run(t, "C20", kit.Class[c20ClockCase]{
		Name: "c20-ids-across-midnight", Quick: 30, Thorough: 600,
		Gen: c20ClockGen, Check: c20ClockCheck, MinNonTrivial: 15,
		Serial:     true, // one process-wide fake clock
		NonTrivial: func(c c20ClockCase) bool { v, ok := c20ClockOutcomes.Load(c.ID); return ok && v.(bool) },
		Rule:       "fake clock (unexported db.now replaced once by an atomic reader): 15-40 sequential creations with forward jumps of seconds, hours, to the last second before midnight, and days (more than ten uploads on some days, database optionally reopened) - each must succeed with the clock's day and a larger N than before on that day; then 2-8 goroutines x 20-40 creations starting 1-90 minutes before a midnight, each goroutine advancing the clock 1-15 minutes before half of its creations; idhist per day; -race. Non-trivial: a midnight was crossed sequentially, the concurrent phase produced IDs of at least two days, porcupine decided every partition.",
	})
}
