//go:build verif

package benchproc_test

// C06: filters keep exactly the measurements their boolean meaning denotes;
// Match leaves the result untouched; Apply keeps the matching measurements in
// order and reports whether any remain; a projection with a fixed value list
// additionally removes exactly the results whose value is not listed.
//
// Oracle: the generator produces an abstract syntax tree together with a
// grammar-legal spelling of it; the oracle evaluates the tree directly, per
// measurement, with ordinary boolean semantics, a string reference for key
// extraction and a tiny backtracking matcher for the (structured) regular
// expressions. Nothing of benchproc or of package regexp is used to compute
// the expected value.

import (
	"fmt"
	"math"
	"regexp"
	"strconv"
	"strings"
	"testing"
	"unicode"
	"unicode/utf8"

	"golang.org/x/perf/benchfmt"
	"golang.org/x/perf/benchproc"
	kit "golang.org/x/perf/internal/verifkit"
)

// ---------------------------------------------------------------------------
// Case types (JSON round-trippable)

type c06KV struct {
	K, V kit.B
	File bool
}

type c06Meas struct {
	Unit kit.B // base (tidied) unit
	Orig kit.B // written unit, "" if the measurement was not rescaled
	V    kit.F
	OV   kit.F
}

type c06Res struct {
	Name  kit.B
	Iters int
	Cfg   []c06KV
	Vals  []c06Meas
}

// c06Atom is one element of a structured regular expression.
type c06Atom struct {
	K int   // 0 literal text, 1 character class (any one of the bytes of S), 2 ".*", 3 "."
	S kit.B // ASCII only
}

type c06Re struct {
	Start, End bool        // ^ and $ around the whole alternation
	Alts       [][]c06Atom // at least one alternative (possibly empty = matches the empty string)
}

type c06Value struct {
	Re  *c06Re // nil: literal
	Lit kit.B
}

type c06Node struct {
	Op   string // "and" "or" "not" "star" "term" (one value) "list" (key:(v OR v ...))
	Kids []c06Node
	Key  kit.B
	Vals []c06Value
}

type c06Case struct {
	Text kit.B   // the spelling of Expr handed to NewFilter
	Expr c06Node // what Text means
	Res  c06Res
	// Pre: results the SAME Filter object is applied to (and judged on)
	// before Res, as a command streaming a file through one filter does. What
	// a filter selects from a result is a function of that result alone.
	Pre []c06Res `json:",omitempty"`
}

// ---------------------------------------------------------------------------
// Reference semantics

func c06RefSplit(n string) (base string, segs []string, gmp string, hasGmp bool) {
	rest := n
	j := len(n)
	for j > 0 && n[j-1] >= '0' && n[j-1] <= '9' {
		j--
	}
	if j < len(n) && j > 0 && n[j-1] == '-' {
		rest, gmp, hasGmp = n[:j-1], n[j:], true
	}
	parts := strings.Split(rest, "/")
	base = parts[0]
	for _, s := range parts[1:] {
		segs = append(segs, "/"+s)
	}
	return
}

// c06Extract is the value a whole-result key denotes (see C05).
func c06Extract(key string, r *c06Res) string {
	name := string(r.Name)
	base, segs, gmp, hasGmp := c06RefSplit(name)
	switch {
	case key == ".name":
		return base
	case key == ".fullname":
		return name
	case strings.HasPrefix(key, "/"):
		if key == "/gomaxprocs" && hasGmp {
			return gmp
		}
		for _, s := range segs {
			if strings.HasPrefix(s, key+"=") {
				return s[len(key)+1:]
			}
		}
		return ""
	}
	for _, kv := range r.Cfg {
		if string(kv.K) == key {
			return string(kv.V)
		}
	}
	return ""
}

func c06Runes(s string) []rune {
	var rs []rune
	for len(s) > 0 {
		r, n := utf8.DecodeRuneInString(s)
		rs = append(rs, r)
		s = s[n:]
	}
	return rs
}

func c06Seq(atoms []c06Atom, rs []rune, p int, end bool) bool {
	if len(atoms) == 0 {
		return !end || p == len(rs)
	}
	a := atoms[0]
	switch a.K {
	case 0:
		lit := string(a.S)
		if p+len(lit) > len(rs) {
			return false
		}
		for k := 0; k < len(lit); k++ {
			if rs[p+k] != rune(lit[k]) {
				return false
			}
		}
		return c06Seq(atoms[1:], rs, p+len(lit), end)
	case 1:
		if p >= len(rs) || rs[p] >= 0x80 || !strings.ContainsRune(string(a.S), rs[p]) {
			return false
		}
		return c06Seq(atoms[1:], rs, p+1, end)
	case 2:
		for q := p; ; q++ {
			if c06Seq(atoms[1:], rs, q, end) {
				return true
			}
			if q >= len(rs) || rs[q] == '\n' {
				return false
			}
		}
	default:
		if p >= len(rs) || rs[p] == '\n' {
			return false
		}
		return c06Seq(atoms[1:], rs, p+1, end)
	}
}

// c06ReMatch: the value contains a match of the expression (the usual meaning
// of "matches a regular expression" in Go; explicit ^/$ anchor it).
func c06ReMatch(re *c06Re, s string) bool {
	rs := c06Runes(s)
	for start := 0; start <= len(rs); start++ {
		for _, alt := range re.Alts {
			if c06Seq(alt, rs, start, re.End) {
				return true
			}
		}
		if re.Start {
			break
		}
	}
	return false
}

func c06ValMatch(v c06Value, s string) bool {
	if v.Re != nil {
		return c06ReMatch(v.Re, s)
	}
	return string(v.Lit) == s
}

// c06Eval is ⟦e⟧(r, i).
func c06Eval(e *c06Node, r *c06Res, i int) bool {
	switch e.Op {
	case "star":
		return true
	case "not":
		return !c06Eval(&e.Kids[0], r, i)
	case "and":
		for k := range e.Kids {
			if !c06Eval(&e.Kids[k], r, i) {
				return false
			}
		}
		return true
	case "or":
		for k := range e.Kids {
			if c06Eval(&e.Kids[k], r, i) {
				return true
			}
		}
		return false
	case "term", "list":
		key := string(e.Key)
		for _, v := range e.Vals {
			if key == ".unit" {
				m := r.Vals[i]
				if c06ValMatch(v, string(m.Unit)) || (m.Orig != "" && c06ValMatch(v, string(m.Orig))) {
					return true
				}
			} else if c06ValMatch(v, c06Extract(key, r)) {
				return true
			}
		}
		return false
	}
	panic("c06: bad node " + e.Op)
}

// ---------------------------------------------------------------------------
// Observations

func c06Build(r *c06Res) *benchfmt.Result {
	res := &benchfmt.Result{Name: benchfmt.Name([]byte(string(r.Name))), Iters: r.Iters}
	for _, kv := range r.Cfg {
		res.Config = append(res.Config, benchfmt.Config{Key: string(kv.K), Value: []byte(string(kv.V)), File: kv.File})
	}
	res.Values = make([]benchfmt.Value, 0, len(r.Vals)+3)
	for _, m := range r.Vals {
		res.Values = append(res.Values, benchfmt.Value{Value: float64(m.V), Unit: string(m.Unit), OrigValue: float64(m.OV), OrigUnit: string(m.Orig)})
	}
	return res
}

func c06ValStr(v benchfmt.Value) string {
	return fmt.Sprintf("%016x %q %016x %q", math.Float64bits(v.Value), v.Unit, math.Float64bits(v.OrigValue), v.OrigUnit)
}

// c06Snap serialises the observable state of a result: name, iterations,
// measurements, configuration entries in order. Unexported fields (the lazily
// built key index) are deliberately not part of it.
func c06Snap(res *benchfmt.Result, withValues bool) string {
	var sb strings.Builder
	fmt.Fprintf(&sb, "name=%q iters=%d\n", []byte(res.Name), res.Iters)
	for _, c := range res.Config {
		fmt.Fprintf(&sb, "cfg %q=%q file=%v\n", c.Key, c.Value, c.File)
	}
	if withValues {
		fmt.Fprintf(&sb, "nvalues=%d\n", len(res.Values))
		for _, v := range res.Values {
			sb.WriteString(c06ValStr(v))
			sb.WriteByte('\n')
		}
	}
	return sb.String()
}

func c06Bits(b []bool) string {
	var sb strings.Builder
	for _, x := range b {
		if x {
			sb.WriteByte('1')
		} else {
			sb.WriteByte('0')
		}
	}
	return sb.String()
}

// c06Observe compares Match/Test/All/Any/Apply of filter f on the result with
// the expected per-measurement truth values.
func c06Observe(f *benchproc.Filter, r *c06Res, want []bool, what string) *kit.Fail {
	n := len(r.Vals)
	wantAll, wantAny := true, false
	for _, w := range want {
		wantAll = wantAll && w
		wantAny = wantAny || w
	}

	switch {
	case n == 0:
	case wantAll:
		kit.Count("truth: all measurements match", 1)
	case !wantAny:
		kit.Count("truth: no measurement matches", 1)
	default:
		kit.Count("truth: some but not all measurements match", 1)
	}

	res := c06Build(r)
	before := c06Snap(res, true)
	for round := 0; round < 2; round++ {
		m, _ := f.Match(res)
		if after := c06Snap(res, true); after != before {
			return kit.Failf("match-mutated-result", "%s: observable state of the result changed by Match\nbefore:\n%s\nafter:\n%s", what, before, after)
		}
		got := make([]bool, n)
		for i := range got {
			got[i] = m.Test(i)
		}
		if c06Bits(got) != c06Bits(want) {
			sig := "match-test-wrong"
			if round == 1 {
				sig = "match-test-wrong-on-second-match"
			}
			return kit.Failf(sig, "%s: n=%d\n Test: %s\n want: %s", what, n, c06Bits(got), c06Bits(want))
		}
		if n > 0 {
			if m.All() != wantAll {
				return kit.Failf("all-wrong", "%s: n=%d All()=%v, want %v (truth %s)", what, n, m.All(), wantAll, c06Bits(want))
			}
			if m.Any() != wantAny {
				return kit.Failf("any-wrong", "%s: n=%d Any()=%v, want %v (truth %s)", what, n, m.Any(), wantAny, c06Bits(want))
			}
		}
	}

	// Apply on a fresh copy.
	res2 := c06Build(r)
	rest := c06Snap(res2, false)
	var keep []string
	for i, v := range res2.Values {
		if want[i] {
			keep = append(keep, c06ValStr(v))
		}
	}
	remain, _ := f.Apply(res2)
	var got []string
	for _, v := range res2.Values {
		got = append(got, c06ValStr(v))
	}
	if strings.Join(got, "\n") != strings.Join(keep, "\n") {
		sig := "apply-kept-wrong-measurements"
		if len(got) == len(keep) {
			a := append([]string(nil), got...)
			b := append([]string(nil), keep...)
			c06SortStrings(a)
			c06SortStrings(b)
			if strings.Join(a, "\n") == strings.Join(b, "\n") {
				sig = "apply-reordered"
			}
		}
		return kit.Failf(sig, "%s: n=%d truth %s\nApply left %d values:\n%s\nwant %d:\n%s", what, n, c06Bits(want), len(got), strings.Join(got, "\n"), len(keep), strings.Join(keep, "\n"))
	}
	if n > 0 && remain != wantAny {
		return kit.Failf("apply-return-wrong", "%s: n=%d Apply returned %v, %d measurements remain (truth %s)", what, n, remain, len(keep), c06Bits(want))
	}
	if after := c06Snap(res2, false); after != rest {
		return kit.Failf("apply-changed-other-state", "%s: Apply changed name/iters/config\nbefore:\n%s\nafter:\n%s", what, rest, after)
	}
	return nil
}

func c06SortStrings(a []string) {
	for i := 1; i < len(a); i++ {
		for j := i; j > 0 && a[j] < a[j-1]; j-- {
			a[j], a[j-1] = a[j-1], a[j]
		}
	}
}

func c06Check(c c06Case) *kit.Fail {
	text := string(c.Text)
	f, err := benchproc.NewFilter(text)
	if err != nil {
		return kit.Failf("valid-filter-rejected", "NewFilter(%q): %v", text, err)
	}
	for k := range c.Pre {
		pr := &c.Pre[k]
		want := make([]bool, len(pr.Vals))
		for i := range want {
			want[i] = c06Eval(&c.Expr, pr, i)
		}
		if fl := c06Observe(f, pr, want, fmt.Sprintf("filter %q reused, result %d of %d: %q cfg %v", text, k+1, len(c.Pre)+1, pr.Name, pr.Cfg)); fl != nil {
			fl.Sig = "reused-filter-" + fl.Sig
			return fl
		}
	}
	n := len(c.Res.Vals)
	want := make([]bool, n)
	for i := range want {
		want[i] = c06Eval(&c.Expr, &c.Res, i)
	}
	c06CountCase(&c)
	what := fmt.Sprintf("filter %q on %q cfg %v", text, c.Res.Name, c.Res.Cfg)
	if len(c.Pre) > 0 {
		kit.Count("C06 cases with one Filter applied to several results in turn", 1)
		what = fmt.Sprintf("filter %q reused, result %d of %d (earlier: %d results with the same units): %q cfg %v", text, len(c.Pre)+1, len(c.Pre)+1, len(c.Pre), c.Res.Name, c.Res.Cfg)
	}
	fl := c06Observe(f, &c.Res, want, what)
	if fl != nil && len(c.Pre) > 0 {
		fl.Sig = "reused-filter-" + fl.Sig
	}
	return fl
}

// ---------------------------------------------------------------------------
// Statistics / non-triviality

type c06Stats struct{ unitTerms, resultTerms, ops, regexps, lists int }

func c06Walk(e *c06Node, st *c06Stats) {
	switch e.Op {
	case "term", "list":
		if e.Key == ".unit" {
			st.unitTerms++
		} else {
			st.resultTerms++
		}
		if e.Op == "list" {
			st.lists++
		}
		for _, v := range e.Vals {
			if v.Re != nil {
				st.regexps++
			}
		}
	case "and", "or", "not":
		st.ops++
	}
	for k := range e.Kids {
		c06Walk(&e.Kids[k], st)
	}
}

func c06NonTrivial(c c06Case) bool {
	var st c06Stats
	c06Walk(&c.Expr, &st)
	return (st.unitTerms >= 1 && st.resultTerms >= 1 && st.ops >= 2) || len(c.Res.Vals) > 32
}

func c06CountCase(c *c06Case) {
	var st c06Stats
	c06Walk(&c.Expr, &st)
	n := len(c.Res.Vals)
	switch {
	case n == 0:
		kit.Count("results with 0 measurements", 1)
	case n > 64:
		kit.Count("results with >64 measurements", 1)
	case n > 32:
		kit.Count("results with 33..64 measurements", 1)
	}
	if n == 32 || n == 64 {
		kit.Count("results with exactly 32 or 64 measurements", 1)
	}
	if st.unitTerms >= 1 && st.resultTerms >= 1 && st.ops >= 2 {
		kit.Count("expressions mixing .unit and whole-result terms under >=2 operators", 1)
	}
	if st.regexps > 0 {
		kit.Count("expressions with regexp values", 1)
	}
	if st.lists > 0 {
		kit.Count("expressions with key:(a OR b) lists", 1)
	}
	for _, m := range c.Res.Vals {
		if m.Orig != "" {
			kit.Count("results with rescaled units", 1)
			break
		}
	}
}

// ---------------------------------------------------------------------------
// Generation: results

var c06UnitPairs = [][2]string{ // written unit -> base unit
	{"ns/op", "sec/op"}, {"MB/s", "B/s"}, {"ns/GC", "sec/GC"}, {"ns", "sec"}, {"MB", "B"},
}

var c06PlainUnits = []string{"sec/op", "B/op", "allocs/op", "B/s", "sec", "x/op", "u0", "u1", "u2", "u3", "u4", "u5", "u6", "u7", "ns-ish", "é/op"}

var c06Sizes = []int{0, 1, 1, 2, 2, 3, 5, 31, 32, 33, 63, 64, 65, 100}

func c06GenRes(r *kit.Rand, n int) c06Res {
	var res c06Res
	base := kit.Pick(r, []string{"Foo", "Bar", "Foo", "FooBar", "X", "", "Foo-2", "é"})
	var sb strings.Builder
	sb.WriteString(base)
	for _, j := range r.Perm(6)[:r.Range(0, 3)] {
		switch j {
		case 0:
			sb.WriteString("/size=" + kit.Pick(r, []string{"1", "2", "4k", "", "1MiB"}))
		case 1:
			sb.WriteString("/k=" + kit.Pick(r, []string{"v", "w", "v w", "", "a=b"}))
		case 2:
			sb.WriteString("/" + kit.Pick(r, []string{"pos", "Foo", "", "1"}))
		case 3:
			sb.WriteString("/size=" + kit.Pick(r, []string{"9", "1"})) // possibly a repeated key
		case 4:
			sb.WriteString("/é=" + kit.Pick(r, []string{"世", "v"}))
		case 5:
			if r.Bool() {
				sb.WriteString("/gomaxprocs=" + kit.Pick(r, []string{"4", "8"}))
			}
		}
	}
	if !strings.Contains(sb.String(), "/gomaxprocs=") && r.Chance(0.5) {
		sb.WriteString("-" + kit.Pick(r, []string{"4", "8", "16"}))
	}
	res.Name = kit.B(sb.String())
	res.Iters = r.Range(1, 1000)
	cfgKeys := []string{"goos", "pkg", "k", ".file", "cpu name", "é"}
	cfgVals := map[string][]string{
		"goos": {"linux", "darwin", ""}, "pkg": {"a/b", "x", "golang.org/x/perf"}, "k": {"v", "w", "Foo"},
		".file": {"old.txt", "new.txt"}, "cpu name": {"Intel(R) \"X\"", "arm 64"}, "é": {"世", "\xff"},
	}
	for _, j := range r.Perm(len(cfgKeys))[:r.Range(0, 4)] {
		k := cfgKeys[j]
		res.Cfg = append(res.Cfg, c06KV{K: kit.B(k), V: kit.B(kit.Pick(r, cfgVals[k])), File: r.Chance(0.75)})
	}
	few := r.Chance(0.5) // draw units from a small sub-pool so that lists can cover all of them
	for i := 0; i < n; i++ {
		var m c06Meas
		ov := float64(r.Range(1, 100000)) / 8
		if r.Chance(0.35) {
			p := kit.Pick(r, c06UnitPairs)
			if few {
				p = c06UnitPairs[r.Intn(2)]
			}
			f := 1e-9
			if strings.HasPrefix(p[0], "MB") {
				f = 1e6
			}
			m = c06Meas{Unit: kit.B(p[1]), Orig: kit.B(p[0]), V: kit.F(ov * f), OV: kit.F(ov)}
		} else {
			u := kit.Pick(r, c06PlainUnits)
			if few {
				u = c06PlainUnits[r.Intn(3)]
			}
			m = c06Meas{Unit: kit.B(u), V: kit.F(ov)}
		}
		res.Vals = append(res.Vals, m)
	}
	return res
}

// ---------------------------------------------------------------------------
// Generation: expressions

var c06ResultKeys = []string{".name", ".fullname", "/size", "/k", "/gomaxprocs", "/é", "/missing", "goos", "pkg", "k", ".file", "cpu name", "é", "missing"}

func c06GenRe(r *kit.Rand, actual string, pool []string) *c06Re {
	ascii := func(s string) string {
		var sb strings.Builder
		for i := 0; i < len(s); i++ {
			if s[i] >= 0x20 && s[i] < 0x7f {
				sb.WriteByte(s[i])
			}
		}
		return sb.String()
	}
	a := ascii(actual)
	lit := func(s string) c06Atom { return c06Atom{K: 0, S: kit.B(s)} }
	re := &c06Re{}
	switch r.Intn(9) {
	case 0: // exact
		re.Start, re.End = true, true
		re.Alts = [][]c06Atom{{lit(a)}}
	case 1: // prefix
		re.Start = true
		re.Alts = [][]c06Atom{{lit(a[:r.Intn(len(a)+1)])}}
	case 2: // suffix
		re.End = true
		re.Alts = [][]c06Atom{{lit(a[r.Intn(len(a)+1):])}}
	case 3: // substring, unanchored
		i := r.Intn(len(a) + 1)
		j := i + r.Intn(len(a)-i+1)
		re.Alts = [][]c06Atom{{lit(a[i:j])}}
	case 4: // alternation of pool values, anchored or not
		re.Start, re.End = r.Bool(), r.Bool()
		for k := r.Range(2, 3); k > 0; k-- {
			re.Alts = append(re.Alts, []c06Atom{lit(ascii(kit.Pick(r, pool)))})
		}
	case 5: // class for one character
		if len(a) == 0 {
			re.Alts = [][]c06Atom{{{K: 1, S: "abF"}}}
			break
		}
		i := r.Intn(len(a))
		cls := string(a[i]) + "q"
		if r.Chance(0.3) || !(a[i] >= '0' && a[i] <= '9' || a[i] >= 'a' && a[i] <= 'z' || a[i] >= 'A' && a[i] <= 'Z' || a[i] == '/') {
			cls = "qz"
		}
		re.Start, re.End = true, true
		re.Alts = [][]c06Atom{{lit(a[:i]), {K: 1, S: kit.B(cls)}, lit(a[i+1:])}}
	case 6: // prefix .* suffix
		i := r.Intn(len(a) + 1)
		j := i + r.Intn(len(a)-i+1)
		re.Start, re.End = r.Bool(), r.Bool()
		re.Alts = [][]c06Atom{{lit(a[:i]), {K: 2}, lit(a[j:])}}
	case 7: // dots
		re.Start, re.End = true, true
		var alt []c06Atom
		for k := 0; k < len(c06Runes(actual)); k++ {
			alt = append(alt, c06Atom{K: 3})
		}
		if r.Chance(0.3) {
			alt = append(alt, c06Atom{K: 3})
		}
		re.Alts = [][]c06Atom{alt}
	default: // near miss of the exact value
		re.Start, re.End = true, true
		re.Alts = [][]c06Atom{{lit(a + kit.Pick(r, []string{"x", "/", " "}))}, {lit("zz")}}
	}
	return re
}

func c06GenValue(r *kit.Rand, actual string, pool []string) c06Value {
	s := actual
	if r.Chance(0.45) {
		s = kit.Pick(r, pool)
	}
	switch r.Intn(10) {
	case 0, 1, 2:
		return c06Value{Re: c06GenRe(r, s, pool)}
	case 3:
		// near misses of a literal
		return c06Value{Lit: kit.B(s + kit.Pick(r, []string{" ", "x", "/op"}))}
	}
	return c06Value{Lit: kit.B(s)}
}

func c06GenLeaf(r *kit.Rand, res *c06Res) c06Node {
	if r.Chance(0.06) {
		return c06Node{Op: "star"}
	}
	var key, actual string
	var pool []string
	if r.Chance(0.45) {
		key = ".unit"
		pool = append(pool, c06PlainUnits...)
		for _, p := range c06UnitPairs {
			pool = append(pool, p[0], p[1])
		}
		actual = kit.Pick(r, pool)
		if len(res.Vals) > 0 {
			m := kit.Pick(r, res.Vals)
			actual = string(m.Unit)
			if m.Orig != "" && r.Bool() {
				actual = string(m.Orig)
			}
		}
	} else {
		key = kit.Pick(r, c06ResultKeys)
		actual = c06Extract(key, res)
		pool = []string{"Foo", "Bar", "1", "2", "4k", "v", "w", "linux", "a/b", "x", "", "4", "8", "old.txt", "AND", "OR", "-v", "*", "v w", "世", string(res.Name)}
	}
	n := 1
	op := "term"
	if r.Chance(0.3) {
		op = "list"
		n = r.Range(1, 4)
	}
	node := c06Node{Op: op, Key: kit.B(key)}
	for ; n > 0; n-- {
		node.Vals = append(node.Vals, c06GenValue(r, actual, pool))
	}
	return node
}

func c06GenExpr(r *kit.Rand, res *c06Res, depth int) c06Node {
	if depth == 0 || r.Chance(0.25) {
		return c06GenLeaf(r, res)
	}
	switch r.Intn(10) {
	case 0, 1, 2:
		return c06Node{Op: "not", Kids: []c06Node{c06GenExpr(r, res, depth-1)}}
	case 3, 4, 5, 6:
		n := c06Node{Op: "and"}
		for k := r.Range(2, 4); k > 0; k-- {
			n.Kids = append(n.Kids, c06GenExpr(r, res, depth-1))
		}
		return n
	default:
		n := c06Node{Op: "or"}
		for k := r.Range(2, 4); k > 0; k-- {
			n.Kids = append(n.Kids, c06GenExpr(r, res, depth-1))
		}
		return n
	}
}

// ---------------------------------------------------------------------------
// Rendering an expression tree to grammar-legal text
//
//	expr     = andExpr {"OR" andExpr}
//	andExpr  = match {"AND"? match}
//	match    = "(" expr ")" | "-" match | "*" | key ":" value | key ":" "(" value {"OR" value} ")"
//	word     = bareWord | double-quoted Go string ;  bareWord = [^-*"():@,][^ ():@,]*

// c06BareOK reports whether s may be written as a bare word in the given
// position (value position excludes a leading '/', which starts a regexp).
func c06BareOK(s string, value bool) bool {
	if s == "" || s == "AND" || s == "OR" || !utf8.ValidString(s) {
		return false
	}
	if strings.ContainsAny(s[:1], `-*"():@,`) || (value && s[0] == '/') {
		return false
	}
	for _, r := range s {
		if unicode.IsSpace(r) || strings.ContainsRune(`():@,`, r) || !unicode.IsPrint(r) {
			return false
		}
	}
	return true
}

func c06Word(r *kit.Rand, s string, value bool) string {
	if c06BareOK(s, value) && r.Chance(0.75) {
		return s
	}
	return strconv.Quote(s)
}

func c06RenderRe(r *kit.Rand, re *c06Re) string {
	alts := make([]string, len(re.Alts))
	for i, alt := range re.Alts {
		var sb strings.Builder
		for _, a := range alt {
			switch a.K {
			case 0:
				q := regexp.QuoteMeta(string(a.S))
				if r.Bool() {
					q = strings.ReplaceAll(q, "/", `\/`)
				} else {
					q = strings.ReplaceAll(q, "/", `[/]`)
				}
				sb.WriteString(q)
			case 1:
				sb.WriteString("[" + string(a.S) + "]")
			case 2:
				sb.WriteString(".*")
			default:
				sb.WriteString(".")
			}
		}
		alts[i] = sb.String()
	}
	body := strings.Join(alts, "|")
	if len(alts) > 1 && (re.Start || re.End || r.Bool()) {
		if r.Bool() {
			body = "(?:" + body + ")"
		} else {
			body = "(" + body + ")"
		}
	}
	if re.Start {
		body = "^" + body
	}
	if re.End {
		body += "$"
	}
	return "/" + body + "/"
}

// A c06Tok is one token of the rendered text. kind: 'w' bare word (also AND/OR),
// 'q' quoted word, 'r' regexp, or the operator character itself.
type c06Tok struct {
	kind byte
	s    string
}

func c06RenderValue(r *kit.Rand, v c06Value) c06Tok {
	if v.Re != nil {
		return c06Tok{'r', c06RenderRe(r, v.Re)}
	}
	w := c06Word(r, string(v.Lit), true)
	if w[0] == '"' {
		return c06Tok{'q', w}
	}
	return c06Tok{'w', w}
}

// level: 0 = expr allowed, 1 = andExpr allowed, 2 = match required.
func c06Render(r *kit.Rand, e *c06Node, level int, out *[]c06Tok) {
	emit := func(k byte, s string) { *out = append(*out, c06Tok{k, s}) }
	paren := func(f func()) {
		emit('(', "(")
		f()
		emit(')', ")")
	}
	if r.Chance(0.08) { // redundant parentheses
		paren(func() { c06Render(r, e, 0, out) })
		return
	}
	switch e.Op {
	case "star":
		emit('*', "*")
	case "not":
		emit('-', "-")
		c06Render(r, &e.Kids[0], 2, out)
	case "and":
		body := func() {
			for k := range e.Kids {
				if k > 0 && r.Chance(0.4) {
					emit('w', "AND")
				}
				// a nested conjunction may be spelled flat (associativity
				// of the denoted meaning), otherwise it is parenthesised
				lv := 2
				if e.Kids[k].Op == "and" && r.Bool() {
					lv = 1
				}
				c06Render(r, &e.Kids[k], lv, out)
			}
		}
		if level >= 2 {
			paren(body)
		} else {
			body()
		}
	case "or":
		body := func() {
			for k := range e.Kids {
				if k > 0 {
					emit('w', "OR")
				}
				lv := 1
				if e.Kids[k].Op == "or" && r.Bool() {
					lv = 0
				}
				c06Render(r, &e.Kids[k], lv, out)
			}
		}
		if level >= 1 {
			paren(body)
		} else {
			body()
		}
	case "term", "list":
		kw := c06Word(r, string(e.Key), false)
		if kw[0] == '"' {
			emit('q', kw)
		} else {
			emit('w', kw)
		}
		emit(':', ":")
		if e.Op == "term" {
			*out = append(*out, c06RenderValue(r, e.Vals[0]))
			return
		}
		emit('(', "(")
		for k, v := range e.Vals {
			if k > 0 {
				emit('w', "OR")
			}
			*out = append(*out, c06RenderValue(r, v))
		}
		emit(')', ")")
	default:
		panic("c06: bad node")
	}
}

// c06Join concatenates tokens. A blank is mandatory between two tokens unless
// one of them is a parenthesis or the ':' of a term; around ':' and after '-'
// there is never a blank (the documented forms are key:value and -x).
func c06Join(r *kit.Rand, toks []c06Tok) string {
	var sb strings.Builder
	for i, t := range toks {
		if i > 0 {
			p := toks[i-1]
			switch {
			case p.kind == ':' || t.kind == ':' || p.kind == '-':
				// no blank
			case p.kind == '(' || t.kind == ')':
				if r.Chance(0.15) {
					sb.WriteString(" ")
				}
			case p.kind == ')' && t.kind == '(', p.kind == ')' && (t.kind == 'q' || t.kind == '-' || t.kind == '*'), (p.kind == 'q' || p.kind == '*') && t.kind == '(':
				// delimited by the operator character itself
				if r.Chance(0.8) {
					sb.WriteString(" ")
				}
			default:
				sb.WriteString(" ")
				if r.Chance(0.1) {
					sb.WriteString(strings.Repeat(" ", r.Range(1, 2)))
				}
			}
		} else if r.Chance(0.05) {
			sb.WriteString(" ")
		}
		sb.WriteString(t.s)
	}
	if r.Chance(0.05) {
		sb.WriteString(" ")
	}
	return sb.String()
}

func c06Spell(r *kit.Rand, e *c06Node) string {
	var toks []c06Tok
	c06Render(r, e, 0, &toks)
	return c06Join(r, toks)
}

func c06Gen(r *kit.Rand, i int) c06Case {
	n := c06Sizes[i%len(c06Sizes)]
	if r.Chance(0.2) {
		n = r.Range(1, 8)
	}
	if r.Chance(0.03) {
		n = r.Range(66, 130)
	}
	var c c06Case
	c.Res = c06GenRes(r, n)
	c.Expr = c06GenExpr(r, &c.Res, r.Range(0, 5))
	c.Text = kit.B(c06Spell(r, &c.Expr))
	if r.Chance(0.35) {
		// earlier results through the same Filter: other names and
		// configurations, mostly the SAME sequence of units
		for k := r.Range(1, 3); k > 0; k-- {
			pr := c06GenRes(r, n)
			if r.Chance(0.8) {
				pr.Vals = append([]c06Meas(nil), c.Res.Vals...)
			}
			c.Pre = append(c.Pre, pr)
		}
	}
	return c
}

// ---------------------------------------------------------------------------
// Fixed-list projections

type c06Field struct {
	Key   kit.B
	Order string  // "" (first), "alpha", "num", or "fixed"
	Fixed []kit.B // for "fixed"
}

type c06ProjCase struct {
	Exprs   [][]c06Field // one or two projection expressions parsed by the same ProjectionParser
	Texts   []kit.B      // their spellings
	User    c06Node      // the caller's filter
	UserTxt kit.B
	Results []c06Res
	// Rejected are expressions that are not projections (their last-validated
	// field is invalid); each is handed to Parse with the same parser and the
	// same *Filter before Texts[Pos] (after all of them if Pos == len(Texts)).
	// The oracle ignores them: only a projection removes results.
	Rejected []c06Rej
}

type c06Rej struct {
	Pos    int
	Text   kit.B
	Fields []c06Field // the valid fields spelled in Text (documentation of the case; unused by the oracle)
}

func c06ProjCheck(c c06ProjCase) *kit.Fail {
	f, err := benchproc.NewFilter(string(c.UserTxt))
	if err != nil {
		return kit.Failf("valid-filter-rejected", "NewFilter(%q): %v", c.UserTxt, err)
	}
	var pp benchproc.ProjectionParser
	type fixedField struct {
		proj  *benchproc.Projection
		field *benchproc.Field
		spec  c06Field
	}
	var all []fixedField
	rejected := func(pos int) (accepted bool) {
		for _, rj := range c.Rejected {
			if rj.Pos != pos {
				continue
			}
			if _, err := pp.Parse(string(rj.Text), f); err == nil {
				// Whether this text is a projection is C07's subject; if it
				// is one, its effect on the filter is unknown to this oracle.
				kit.Count("fixed-list: expression meant to be rejected was accepted (case skipped)", 1)
				return true
			}
			kit.Count("fixed-list: rejected Parse calls on the caller's filter", 1)
		}
		return false
	}
	for i, text := range c.Texts {
		if rejected(i) {
			return nil
		}
		proj, err := pp.Parse(string(text), f)
		if err != nil {
			return kit.Failf("valid-projection-rejected", "Parse(%q): %v", text, err)
		}
		fields := proj.Fields()
		if len(fields) != len(c.Exprs[i]) {
			return kit.Failf("projection-fields", "Parse(%q): %d fields, want %d", text, len(fields), len(c.Exprs[i]))
		}
		for j, spec := range c.Exprs[i] {
			if fields[j].Name != string(spec.Key) {
				return kit.Failf("projection-fields", "Parse(%q): field %d is %q, want %q", text, j, fields[j].Name, spec.Key)
			}
			all = append(all, fixedField{proj, fields[j], spec})
		}
	}
	if rejected(len(c.Texts)) {
		return nil
	}
	what := fmt.Sprintf("projections %q with filter %q", c.Texts, c.UserTxt)
	if len(c.Rejected) > 0 {
		var rj []string
		for _, x := range c.Rejected {
			rj = append(rj, fmt.Sprintf("%d:%q", x.Pos, x.Text))
		}
		what += fmt.Sprintf(" and rejected Parse calls (before index) %v", rj)
	}
	for ri := range c.Results {
		r := &c.Results[ri]
		// The value of each field is what the projection itself reports for
		// the result (for .fullname it excludes the more specific keys); for
		// every other key it must also be what the key denotes.
		listed := true
		res := c06Build(r)
		for _, ff := range all {
			val := ff.proj.Project(res).Get(ff.field)
			if key := string(ff.spec.Key); key != ".fullname" {
				if want := c06Extract(key, r); val != want {
					return kit.Failf("projection-value-wrong", "%s: field %q of %q = %q, want %q", what, key, r.Name, val, want)
				}
			}
			if ff.spec.Order != "fixed" {
				continue
			}
			in := false
			for _, x := range ff.spec.Fixed {
				in = in || string(x) == val
			}
			listed = listed && in
		}
		n := len(r.Vals)
		want := make([]bool, n)
		for i := range want {
			want[i] = listed && c06Eval(&c.User, r, i)
		}
		if listed {
			kit.Count("fixed-list: result listed in every fixed field", 1)
		} else {
			kit.Count("fixed-list: result not listed in some fixed field", 1)
		}
		if fail := c06Observe(f, r, want, fmt.Sprintf("%s on %q cfg %v (listed=%v)", what, r.Name, r.Cfg, listed)); fail != nil {
			fail.Sig = "fixedlist-" + fail.Sig
			return fail
		}
	}
	return nil
}

func c06SpellProj(r *kit.Rand, fields []c06Field) string {
	var sb strings.Builder
	for i, f := range fields {
		if i > 0 {
			sb.WriteString(kit.Pick(r, []string{",", " ", ", ", " , "}))
		}
		sb.WriteString(c06Word(r, string(f.Key), false))
		switch f.Order {
		case "":
		case "fixed":
			sb.WriteString("@(")
			for j, v := range f.Fixed {
				if j > 0 {
					sb.WriteString(" ")
				}
				sb.WriteString(c06Word(r, string(v), false))
			}
			sb.WriteString(")")
		default:
			sb.WriteString("@" + f.Order)
		}
	}
	return sb.String()
}

func c06ProjGen(r *kit.Rand, i int) c06ProjCase {
	var c c06ProjCase
	nres := r.Range(2, 6)
	for k := 0; k < nres; k++ {
		c.Results = append(c.Results, c06GenRes(r, kit.Pick(r, []int{1, 2, 3, 33, 65})))
	}
	keys := []string{".name", ".fullname", "/size", "/k", "/gomaxprocs", "/é", "goos", "pkg", "k", ".file", "missing"}
	kit.Shuffle(r, keys)
	if i%3 == 0 { // make the group key with exclusions frequent
		for j, k := range keys {
			if k == ".fullname" {
				keys[0], keys[j] = keys[j], keys[0]
			}
		}
	}
	nexpr := r.Range(1, 2)
	used := 0
	haveFixed := false
	for e := 0; e < nexpr; e++ {
		var fields []c06Field
		for k := r.Range(1, 3); k > 0 && used < len(keys); k-- {
			key := keys[used]
			used++
			f := c06Field{Key: kit.B(key)}
			if r.Chance(0.6) || (!haveFixed && e == nexpr-1 && k == 1) {
				f.Order = "fixed"
				haveFixed = true
				// values: what some of the results really have, plus strangers
				for m := r.Range(1, 4); m > 0; m-- {
					var v string
					if r.Chance(0.75) {
						res := &c.Results[r.Intn(len(c.Results))]
						v = c06Extract(key, res)
						if key == ".fullname" && r.Chance(0.7) {
							// the reduced name is what the projection reports when
							// sub-name keys are projected too; offer the base as a guess
							v = c06Extract(".name", res)
						}
					} else {
						v = kit.Pick(r, []string{"Foo", "1", "v", "", "linux", "x", "Foo/size=1", "-4", "AND"})
					}
					f.Fixed = append(f.Fixed, kit.B(v))
				}
			} else if r.Chance(0.4) {
				f.Order = kit.Pick(r, []string{"alpha", "num"})
			}
			fields = append(fields, f)
		}
		c.Exprs = append(c.Exprs, fields)
		c.Texts = append(c.Texts, kit.B(c06SpellProj(r, fields)))
	}
	if r.Chance(0.4) {
		c.User = c06Node{Op: "star"}
	} else {
		c.User = c06GenExpr(r, &c.Results[0], r.Range(0, 2))
	}
	c.UserTxt = kit.B(c06Spell(r, &c.User))
	return c
}

// c06FixedValues draws the values of a fixed list for key: what some of the
// results really have, plus strangers.
func c06FixedValues(r *kit.Rand, key string, results []c06Res) []kit.B {
	var out []kit.B
	for m := r.Range(1, 4); m > 0; m-- {
		var v string
		if r.Chance(0.75) {
			res := &results[r.Intn(len(results))]
			v = c06Extract(key, res)
			if key == ".fullname" && r.Chance(0.7) {
				v = c06Extract(".name", res)
			}
		} else {
			v = kit.Pick(r, []string{"Foo", "1", "v", "", "linux", "x", "Foo/size=1", "-4", "AND"})
		}
		out = append(out, kit.B(v))
	}
	return out
}

// c06ProjGenRejected is c06ProjGen plus 1-3 rejected Parse calls. A rejected
// expression consists of valid fields (at least one with a fixed value list)
// on keys that no valid expression of the case uses, and one field that the
// syntax document rules out: .unit ("only in filters"), an order that is
// neither alpha nor num nor a list, a fixed list on the tuple-valued .config,
// or a malformed token (unclosed list, missing order, unterminated string).
func c06ProjGenRejected(r *kit.Rand, i int) c06ProjCase {
	c := c06ProjGen(r, i)
	usedKeys := map[string]bool{}
	for _, e := range c.Exprs {
		for _, f := range e {
			usedKeys[string(f.Key)] = true
		}
	}
	var free []string
	for _, k := range []string{".name", ".fullname", "/size", "/k", "/gomaxprocs", "/é", "goos", "pkg", "k", ".file", "missing"} {
		if !usedKeys[k] {
			free = append(free, k)
		}
	}
	for n := r.Range(1, 3); n > 0; n-- {
		kit.Shuffle(r, free)
		nf := r.Range(1, 3)
		var fields []c06Field
		for _, key := range free[:nf] {
			f := c06Field{Key: kit.B(key)}
			if len(fields) == 0 || r.Chance(0.5) {
				f.Order = "fixed"
				f.Fixed = c06FixedValues(r, key, c.Results)
			} else if r.Chance(0.4) {
				f.Order = kit.Pick(r, []string{"alpha", "num"})
			}
			fields = append(fields, f)
		}
		badKey := free[nf] // len(free) >= 5 > nf
		bad := kit.Pick(r, []string{
			".unit", ".unit@alpha", ".unit@(ns/op)",
			badKey + "@alhpa", badKey + "@numeric", badKey + "@ALPHA", badKey + "@x",
			".config@(x y)",
			badKey + "@(a b", badKey + "@", "\"abc",
		})
		// Mostly after all valid fields, sometimes earlier.
		at := len(fields)
		if r.Chance(0.25) && !strings.HasSuffix(bad, "@(a b") && !strings.HasSuffix(bad, "@") && bad != "\"abc" {
			at = r.Intn(len(fields) + 1) // (malformed tokens stay last: followed by more text they may become well-formed)
		}
		sep := func() string { return kit.Pick(r, []string{",", " ", ", "}) }
		var parts []string
		if at > 0 {
			parts = append(parts, c06SpellProj(r, fields[:at]))
		}
		parts = append(parts, bad)
		if at < len(fields) {
			parts = append(parts, c06SpellProj(r, fields[at:]))
		}
		text := parts[0]
		for _, p := range parts[1:] {
			text += sep() + p
		}
		c.Rejected = append(c.Rejected, c06Rej{Pos: r.Intn(len(c.Texts) + 1), Text: kit.B(text), Fields: fields})
	}
	return c
}

// c06ProjRejNonTrivial: some rejected expression carries a fixed list that
// would remove at least one of the results if it were (wrongly) installed.
func c06ProjRejNonTrivial(c c06ProjCase) bool {
	if !c06ProjNonTrivial(c) {
		return false
	}
	for _, rj := range c.Rejected {
		for _, f := range rj.Fields {
			if f.Order != "fixed" || string(f.Key) == ".fullname" {
				continue
			}
			for ri := range c.Results {
				v := c06Extract(string(f.Key), &c.Results[ri])
				in := false
				for _, x := range f.Fixed {
					in = in || string(x) == v
				}
				if !in {
					return true
				}
			}
		}
	}
	return false
}

func c06ProjNonTrivial(c c06ProjCase) bool {
	nf := 0
	for _, e := range c.Exprs {
		for _, f := range e {
			if f.Order == "fixed" {
				nf++
			}
		}
	}
	return nf >= 1 && len(c.Results) >= 2
}

// ---------------------------------------------------------------------------

func TestVerifC06(t *testing.T) {
	filters := kit.Class[c06Case]{
		Name: "filter-semantics", Quick: 40000, Thorough: 3000000,
		Gen: c06Gen, Check: c06Check, NonTrivial: c06NonTrivial, MinNonTrivial: 8000,
		Rule: "random expression trees (depth <= 5) over NOT/AND/OR/*/key:value/key:(a OR b) with bare, quoted and regexp values on .name, .fullname, /k, /gomaxprocs, file keys and .unit, spelled with random grammar-legal choices (juxtaposition or AND, redundant parentheses, quoting, blanks); results with 0,1,2,3,5,31,32,33,63,64,65,100 and random measurement counts, rescaled units (base and written unit differ), missing keys; values in terms drawn from the result's actual values and near misses; non-trivial = expression mixes >=1 .unit term with >=1 whole-result term under >=2 operators, or the result has >32 measurements",
		HangIsViolation: true,
	}
	projs := kit.Class[c06ProjCase]{
		Name: "fixed-list-projections", Quick: 8000, Thorough: 400000,
		Gen: c06ProjGen, Check: c06ProjCheck, NonTrivial: c06ProjNonTrivial, MinNonTrivial: 4000,
		Rule:            "one or two projection expressions parsed by one ProjectionParser with a caller filter ('*' or a random expression), at least one field with a fixed value list (listed values drawn from the results' actual values and strangers; .fullname together with sub-name keys in 1/3 of the cases); 2-6 results each; a result must be kept iff the caller's filter holds and every fixed field's projected value (Key.Get) is listed; non-trivial = >=1 fixed list and >=2 results",
		HangIsViolation: true,
	}
	projsRej := kit.Class[c06ProjCase]{
		Name: "fixed-list-projections-with-rejected-parses", Quick: 6000, Thorough: 300000,
		Gen: c06ProjGenRejected, Check: c06ProjCheck, NonTrivial: c06ProjRejNonTrivial, MinNonTrivial: 2500,
		Rule:            "as fixed-list-projections, plus 1-3 Parse calls with the same parser and the same *Filter on expressions that are not projections (valid fields with fixed lists on keys no valid expression uses, and one field the syntax document rules out: .unit, an order other than alpha/num/list, a list on .config, an unclosed list, a missing order, an unterminated string), placed before, between or after the valid Parse calls; the oracle ignores them (only a projection removes results); a case whose 'invalid' expression is accepted is skipped and counted; non-trivial = as above and some rejected expression carries a fixed list that does not list the value of at least one result",
		HangIsViolation: true,
	}
	kit.Run(t, "C06", filters, projs, projsRej)
}
