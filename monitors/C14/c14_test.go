//go:build verif

package main

// C14: benchstat puts each measurement in exactly one cell and reports that
// cell's true statistics.
//
// Reference pipeline (independent of benchfmt/benchproc/benchtab): the case is
// a structured model (bsgen.Case) from which both the input text and the
// expected cell multisets are derived; the statistics of a cell are what
// benchmath yields for the oracle's own sample (the statement defines them
// that way; benchmath itself is C13's subject). The real entry point
// benchstat() is run in-process with -format csv and its stdout/stderr are
// parsed back into an order-free map of cells.

import (
	"bytes"
	"fmt"
	"math"
	"os"
	"path/filepath"
	"regexp"
	"sort"
	"strconv"
	"strings"
	"testing"

	"golang.org/x/perf/benchmath"
	kit "golang.org/x/perf/internal/verifkit"
	"golang.org/x/perf/internal/verifkit/bsgen"
)

type c14Case struct {
	C *bsgen.Case
}

// ---- reference pipeline --------------------------------------------------

type c14Rec struct {
	label string
	cfg   map[string]string
	name  *bsgen.Name
	vals  []c14Val
}

type c14Val struct {
	v          float64
	unit, orig string
}

type c14Cell struct {
	values  []float64
	residue []map[string]string
}

type c14Table struct {
	unit string
	// row set -> col set -> cell
	cells map[string]map[string]*c14Cell
}

type c14Expect struct {
	tables map[string]*c14Table // by ConfigID
	exact  map[string]bool
	alpha  float64
	conf   float64
}

func c14FilterEval(f *bsgen.Filter, r *c14Rec, vi int) bool {
	switch f.Op {
	case "all":
		return true
	case "not":
		return !c14FilterEval(f.Kids[0], r, vi)
	case "and":
		for _, k := range f.Kids {
			if !c14FilterEval(k, r, vi) {
				return false
			}
		}
		return true
	case "or":
		for _, k := range f.Kids {
			if c14FilterEval(k, r, vi) {
				return true
			}
		}
		return false
	case "term":
		if f.Key == ".unit" {
			for _, v := range f.Vals {
				if v == r.vals[vi].unit || v == r.vals[vi].orig {
					return true
				}
			}
			return false
		}
		got := c14Extract(f.Key, r)
		for _, v := range f.Vals {
			if v == got {
				return true
			}
		}
		return false
	}
	panic("bad filter")
}

func c14Extract(key string, r *c14Rec) string {
	switch {
	case key == ".name":
		return r.name.Base
	case key == ".file":
		return r.label
	case strings.HasPrefix(key, "/"):
		return r.name.Sub(key[1:])
	}
	return r.cfg[key]
}

func c14Expected(c *bsgen.Case, labels []string) *c14Expect {
	ex := &c14Expect{tables: map[string]*c14Table{}, exact: map[string]bool{}, alpha: c.Flags.EffAlpha(), conf: c.Flags.EffConfidence()}
	var recs []*c14Rec
	for fi := range c.Files {
		cfg := map[string]string{}
		for _, l := range c.Content(fi) {
			switch l.K {
			case bsgen.KCfg:
				if l.Val == "" {
					delete(cfg, l.Key)
				} else {
					cfg[l.Key] = l.Val
				}
			case bsgen.KUnit:
				if l.MKey == "assume" && l.MVal == "exact" {
					_, tu := bsgen.Val{V: 1, U: l.Unit}.Tidy()
					ex.exact[tu] = true
				}
			case bsgen.KBench:
				r := &c14Rec{label: labels[fi], cfg: map[string]string{}, name: l.Name}
				for k, v := range cfg {
					r.cfg[k] = v
				}
				for _, v := range l.Vals {
					tv, tu := v.Tidy()
					r.vals = append(r.vals, c14Val{tv, tu, v.U})
				}
				recs = append(recs, r)
			}
		}
	}

	table, row, col, ignore := c.Flags.Effective()
	cfgKeys, nameKeys := map[string]bool{}, map[string]bool{}
	haveConfig, haveFullname := false, false
	for _, its := range [][]bsgen.Item{table, row, col, ignore} {
		for _, it := range its {
			switch {
			case it.Key == ".config":
				haveConfig = true
			case it.Key == ".fullname":
				haveFullname = true
			case it.Key == ".name" || strings.HasPrefix(it.Key, "/"):
				nameKeys[it.Key] = true
			default:
				cfgKeys[it.Key] = true
			}
		}
	}
	exclSub := map[string]bool{}
	for k := range nameKeys {
		if strings.HasPrefix(k, "/") {
			exclSub[k[1:]] = true
		}
	}
	reduced := func(r *c14Rec) string { return r.name.Reduced(nameKeys[".name"], exclSub) }
	// project returns field name -> value for a projection.
	project := func(its []bsgen.Item, r *c14Rec) map[string]string {
		m := map[string]string{}
		for _, it := range its {
			switch it.Key {
			case ".config":
				for k, v := range r.cfg {
					if !cfgKeys[k] {
						m[k] = v
					}
				}
			case ".fullname":
				m[".fullname"] = reduced(r)
			default:
				m[it.Key] = c14Extract(it.Key, r)
			}
		}
		return m
	}
	valueSet := func(m map[string]string) string {
		var vs []string
		for _, v := range m {
			vs = append(vs, v)
		}
		return bsgen.ValueSet(vs...)
	}

	for _, r := range recs {
		// Fixed-list projections filter whole results.
		keep := true
		for _, its := range [][]bsgen.Item{table, row, col} {
			for _, it := range its {
				if it.Order != "fixed" {
					continue
				}
				v := c14Extract(it.Key, r)
				in := false
				for _, f := range it.Fixed {
					if f == v {
						in = true
					}
				}
				if !in {
					keep = false
				}
			}
		}
		if !keep {
			continue
		}
		tproj := project(table, r)
		rowID := valueSet(project(row, r))
		colID := valueSet(project(col, r))
		res := map[string]string{}
		if !haveConfig {
			for k, v := range r.cfg {
				if !cfgKeys[k] {
					res[k] = v
				}
			}
		}
		if !haveFullname {
			res[".fullname"] = reduced(r)
		}
		for vi, v := range r.vals {
			if c.Flags.Filter != nil && !c14FilterEval(c.Flags.Filter, r, vi) {
				continue
			}
			tid := bsgen.ConfigID(tproj, v.unit)
			t := ex.tables[tid]
			if t == nil {
				t = &c14Table{unit: v.unit, cells: map[string]map[string]*c14Cell{}}
				ex.tables[tid] = t
			}
			if t.cells[rowID] == nil {
				t.cells[rowID] = map[string]*c14Cell{}
			}
			cell := t.cells[rowID][colID]
			if cell == nil {
				cell = &c14Cell{}
				t.cells[rowID][colID] = cell
			}
			cell.values = append(cell.values, v.v)
			cell.residue = append(cell.residue, res)
		}
	}
	return ex
}

func c14NonSingular(cell *c14Cell) []string {
	keys := map[string]bool{}
	for _, m := range cell.residue {
		for k := range m {
			keys[k] = true
		}
	}
	var out []string
	for k := range keys {
		first := cell.residue[0][k]
		for _, m := range cell.residue[1:] {
			if m[k] != first {
				out = append(out, k)
				break
			}
		}
	}
	sort.Strings(out)
	return out
}

// ---- comparison ----------------------------------------------------------

var c14PosRe = regexp.MustCompile(`:([0-9]+): `)

func c14NormWarn(ws []string) []string {
	var out []string
	for _, w := range ws {
		if rest, ok := strings.CutPrefix(w, "benchmarks vary in "); ok {
			parts := strings.Split(rest, ", ")
			sort.Strings(parts)
			w = "benchmarks vary in " + strings.Join(parts, ", ")
		}
		out = append(out, w)
	}
	sort.Strings(out)
	return out
}

func c14ErrStrings(es []error) []string {
	var out []string
	for _, e := range es {
		out = append(out, e.Error())
	}
	return out
}

func c14SameStrings(a, b []string) bool {
	if len(a) != len(b) {
		return false
	}
	for i := range a {
		if a[i] != b[i] {
			return false
		}
	}
	return true
}

// c14MultisetDiff returns the elements of got not matched in want, and of
// want not matched in got.
func c14MultisetDiff(got, want []string) (extra, missing []string) {
	n := map[string]int{}
	for _, w := range want {
		n[w]++
	}
	for _, g := range got {
		if n[g] > 0 {
			n[g]--
		} else {
			extra = append(extra, g)
		}
	}
	for w, k := range n {
		for ; k > 0; k-- {
			missing = append(missing, w)
		}
	}
	sort.Strings(extra)
	sort.Strings(missing)
	return
}

// c14KeysNamed returns the sorted set of candidate key names that occur in the
// text as whole words (words are separated by blanks, commas, semicolons).
func c14KeysNamed(text string, candidates map[string]bool) []string {
	seen := map[string]bool{}
	for _, w := range strings.FieldsFunc(text, func(r rune) bool { return r == ' ' || r == ',' || r == ';' || r == '\t' }) {
		w = strings.Trim(w, "\"'()")
		if candidates[w] {
			seen[w] = true
		}
	}
	var out []string
	for w := range seen {
		out = append(out, w)
	}
	sort.Strings(out)
	return out
}

func c14Geomean(xs []float64) float64 {
	if len(xs) == 0 {
		return math.NaN()
	}
	s := 0.0
	for _, x := range xs {
		if x <= 0 {
			return math.NaN()
		}
		s += math.Log(x)
	}
	return math.Exp(s / float64(len(xs)))
}

func c14Close(a, b float64) bool {
	if a == b {
		return true
	}
	return math.Abs(a-b) <= 1e-11*math.Max(math.Abs(a), math.Abs(b))
}

func c14Check(cs c14Case) *kit.Fail {
	c := cs.C
	dir, err := os.MkdirTemp("/var/tmp", "verif-c14-")
	if err != nil {
		panic(err)
	}
	defer os.RemoveAll(dir)
	paths := make([]string, len(c.Files))
	for i := range c.Files {
		if c.Files[i].SameAs >= 0 {
			continue
		}
		paths[i] = filepath.Join(dir, fmt.Sprintf("f%d.txt", i))
		if err := os.WriteFile(paths[i], []byte(c.Files[i].Text()), 0o644); err != nil {
			panic(err)
		}
	}
	fargs, labels := c.PathArgs(paths)
	args := append([]string{"-format", "csv"}, c.Flags.Args()...)
	args = append(args, fargs...)
	var out, errOut bytes.Buffer
	if err := benchstat(&out, &errOut, args); err != nil {
		return kit.Failf("benchstat-error", "benchstat %q returned error: %v", args, err)
	}
	parsed, perr := bsgen.ParseCSV(out.String(), errOut.String())
	if perr != nil {
		return kit.Failf("csv-shape", "cannot interpret csv output: %v\nargs %q\n%s\nstderr:\n%s", perr, args, out.String(), errOut.String())
	}
	if len(parsed.OtherStderr) > 0 {
		// Unit lines that contradict earlier metadata are complained about,
		// once per reading, with their position; whether and how is C02's
		// subject. Anything else on stderr is unexpected.
		want := map[int]int{}
		for _, ln := range c.ConflictLines() {
			want[ln]++
		}
		var other []string
		for _, l := range parsed.OtherStderr {
			m := c14PosRe.FindStringSubmatch(l)
			ln, _ := strconv.Atoi(append(m, "", "")[1])
			if m != nil && want[ln] > 0 {
				want[ln]--
				kit.Count("reader complaints about contradicting Unit lines (tolerated, positioned)", 1)
				continue
			}
			other = append(other, l)
		}
		if len(other) > 0 {
			return kit.Failf("unexpected-stderr", "unexpected stderr lines %q (args %q)", other, args)
		}
	}
	ex := c14Expected(c, labels)
	thr := benchmath.DefaultThresholds
	thr.CompareAlpha = ex.alpha
	ctx := func() string {
		return fmt.Sprintf("\nargs %q\nstdout:\n%s\nstderr:\n%s", args, out.String(), errOut.String())
	}

	// Tables.
	got := map[string]*bsgen.ParsedTable{}
	for _, t := range parsed.Tables {
		id := bsgen.ConfigID(t.Config, t.Unit)
		if got[id] != nil {
			return kit.Failf("duplicate-table", "two tables with identical key %q%s", id, ctx())
		}
		got[id] = t
	}
	for id := range ex.tables {
		if got[id] == nil {
			return kit.Failf("table-missing", "expected table %q is missing%s", id, ctx())
		}
	}
	for id := range got {
		if ex.tables[id] == nil {
			return kit.Failf("table-spurious", "table %q has no measurements under it%s", id, ctx())
		}
	}
	residueCells := 0
	residueNames := map[string]bool{".fullname": true}
	for _, k := range bsgen.CfgKeys {
		residueNames[k] = true
	}
	for id, et := range ex.tables {
		gt := got[id]
		var assumption benchmath.Assumption = benchmath.AssumeNothing
		if ex.exact[et.unit] {
			assumption = benchmath.AssumeExact
		}
		// Columns.
		colIDs := make([]string, len(gt.Cols))
		colIdx := map[string]int{}
		for e, vals := range gt.Cols {
			colIDs[e] = bsgen.ValueSet(vals...)
			if _, dup := colIdx[colIDs[e]]; dup {
				return kit.Failf("duplicate-column", "table %q: two columns %q%s", id, colIDs[e], ctx())
			}
			colIdx[colIDs[e]] = e
		}
		wantCols := map[string]bool{}
		for _, cols := range et.cells {
			for cid := range cols {
				wantCols[cid] = true
			}
		}
		for cid := range wantCols {
			if _, ok := colIdx[cid]; !ok {
				return kit.Failf("column-missing", "table %q: expected column %q missing (have %q)%s", id, cid, colIDs, ctx())
			}
		}
		for cid := range colIdx {
			if !wantCols[cid] {
				return kit.Failf("column-spurious", "table %q: column %q has no measurements%s", id, cid, ctx())
			}
		}
		baseID := colIDs[0]
		// Rows.
		gotRows := map[string]*bsgen.ParsedRow{}
		for _, r := range gt.Rows {
			rid := bsgen.ValueSet(r.Label)
			if gotRows[rid] != nil {
				return kit.Failf("duplicate-row", "table %q: two rows %q%s", id, rid, ctx())
			}
			gotRows[rid] = r
		}
		for rid := range et.cells {
			if gotRows[rid] == nil {
				return kit.Failf("row-missing", "table %q: expected row %q missing%s", id, rid, ctx())
			}
		}
		for rid := range gotRows {
			if et.cells[rid] == nil {
				return kit.Failf("row-spurious", "table %q: row %q has no measurements%s", id, rid, ctx())
			}
		}
		if gt.GeoLabel != "geomean" {
			return kit.Failf("geomean-label", "table %q: last row is %q%s", id, gt.GeoLabel, ctx())
		}
		// Cells.
		type stat struct {
			sample *benchmath.Sample
			sum    benchmath.Summary
		}
		stats := map[string]map[string]*stat{}
		for rid, cols := range et.cells {
			stats[rid] = map[string]*stat{}
			for cid, cell := range cols {
				vals := append([]float64(nil), cell.values...)
				s := benchmath.NewSample(vals, &thr)
				stats[rid][cid] = &stat{s, assumption.Summary(s, ex.conf)}
			}
		}
		for rid, cols := range et.cells {
			grow := gotRows[rid]
			for e, cid := range colIDs {
				ecell, want := cols[cid]
				gcell := grow.Cells[e]
				if want != (gcell != nil) {
					if want {
						return kit.Failf("cell-missing", "table %q row %q col %q: %d measurements fall here but there is no cell%s", id, rid, cid, len(ecell.values), ctx())
					}
					return kit.Failf("cell-spurious", "table %q row %q col %q: a cell without measurements%s", id, rid, cid, ctx())
				}
				if !want {
					continue
				}
				st := stats[rid][cid]
				where := fmt.Sprintf("table %q row %q col %q (n=%d, values %v)", id, rid, cid, len(ecell.values), ecell.values)
				gc, perr := strconv.ParseFloat(gcell.Center, 64)
				if perr != nil {
					return kit.Failf("csv-shape", "%s: centre %q not a number%s", where, gcell.Center, ctx())
				}
				if math.Float64bits(gc) != math.Float64bits(st.sum.Center) && !(math.IsNaN(gc) && math.IsNaN(st.sum.Center)) {
					return kit.Failf("cell-centre", "%s: centre %v, expected %v%s", where, gc, st.sum.Center, ctx())
				}
				if gcell.CI != st.sum.PctRangeString() {
					return kit.Failf("cell-interval", "%s: range %q, expected %q%s", where, gcell.CI, st.sum.PctRangeString(), ctx())
				}
				wantDelta, wantP := "", ""
				var wantDeltaWarn []string
				if e > 0 {
					if base := stats[rid][baseID]; base != nil {
						cmp := assumption.Compare(base.sample, st.sample)
						wantDelta = cmp.FormatDelta(base.sum.Center, st.sum.Center)
						wantP = cmp.String()
						wantDeltaWarn = c14ErrStrings(cmp.Warnings)
					}
				}
				if gcell.Delta != wantDelta {
					return kit.Failf("cell-delta", "%s: delta %q, expected %q against first column %q%s", where, gcell.Delta, wantDelta, baseID, ctx())
				}
				if gcell.P != wantP {
					return kit.Failf("cell-pvalue", "%s: p/n %q, expected %q against first column %q%s", where, gcell.P, wantP, baseID, ctx())
				}
				// Warnings of the summary come from benchmath (same call in the
				// oracle, so their wording is shared). The residue warning is
				// recognised by the KEYS it names, not by its wording: it is the
				// one warning left over, and the set of residue key names that
				// occur in it as words must be exactly the keys that differ.
				wantWarn := c14ErrStrings(st.sum.Warnings)
				extra, missing := c14MultisetDiff(gcell.CenterWarn, wantWarn)
				if len(missing) > 0 {
					return kit.Failf("cell-warning", "%s: warnings %q lack %q%s", where, gcell.CenterWarn, missing, ctx())
				}
				ns := c14NonSingular(ecell)
				if len(ns) > 0 {
					residueCells++
				}
				switch {
				case len(ns) == 0 && len(extra) > 0:
					return kit.Failf("cell-residue-warning", "%s: spurious warning(s) %q: all results of the cell agree in every key that is neither projected nor ignored%s", where, extra, ctx())
				case len(ns) > 0 && len(extra) != 1:
					return kit.Failf("cell-residue-warning", "%s: results differ in %q, expected exactly one warning naming them, got %q%s", where, ns, extra, ctx())
				case len(ns) > 0:
					named := c14KeysNamed(extra[0], residueNames)
					if !c14SameStrings(named, ns) {
						return kit.Failf("cell-residue-warning", "%s: warning %q names %q, but the results differ in exactly %q%s", where, extra[0], named, ns, ctx())
					}
				}
				if g, w := c14NormWarn(gcell.DeltaWarn), c14NormWarn(wantDeltaWarn); !c14SameStrings(g, w) {
					return kit.Failf("cell-compare-warning", "%s: comparison warnings %q, expected %q%s", where, g, w, ctx())
				}
			}
		}
		// Geomean row.
		nBase := 0
		for rid := range et.cells {
			if stats[rid][baseID] != nil {
				nBase++
			}
		}
		for e, cid := range colIDs {
			var centres, ratios []float64
			zeroBase := false
			for rid := range et.cells {
				st := stats[rid][cid]
				if st == nil {
					continue
				}
				centres = append(centres, st.sum.Center)
				if base := stats[rid][baseID]; e > 0 && base != nil {
					if base.sum.Center == 0 {
						zeroBase = true
						ratios = append(ratios, 0)
					} else {
						ratios = append(ratios, st.sum.Center/base.sum.Center)
					}
				}
			}
			where := fmt.Sprintf("table %q geomean of column %q", id, cid)
			// The statement fixes WHEN the geomean row carries warnings (benchmark
			// sets differ; centres not positive; ratios not positive), not their
			// wording. The present wording is recognised; a warning with another
			// wording is attributed to the expected conditions by count.
			const wDiffer = "benchmark set differs from baseline; geomeans may not be comparable"
			const wSum = "summaries must be >0 to compute geomean"
			const wRatio = "ratios must be >0 to compute geomean"
			warn := map[string]bool{}
			unknown := 0
			for _, w := range gt.GeoWarn[e] {
				if w == wDiffer || w == wSum || w == wRatio {
					warn[w] = true
				} else {
					unknown++
				}
			}
			if unknown > 0 {
				// expected number of warnings for this column
				wantN := 0
				if math.IsNaN(c14Geomean(centres)) {
					wantN++
				}
				if e > 0 {
					if nBase != len(ratios) {
						wantN++
					}
					if !zeroBase && math.IsNaN(c14Geomean(ratios)) {
						wantN++
					}
				}
				if zeroBase {
					kit.Count("geomean_zero_base_skipped", 1)
				} else if len(gt.GeoWarn[e]) != wantN {
					return kit.Failf("geomean-warning", "%s: %d warning(s) %q, expected %d (sets differ: %v, centres %v, ratios %v)%s", where, len(gt.GeoWarn[e]), gt.GeoWarn[e], wantN, e > 0 && nBase != len(ratios), centres, ratios, ctx())
				}
				kit.Count("geomean_warnings_with_unknown_wording", int64(unknown))
				// numbers are still checked below where they do not depend on the wording
				if g := c14Geomean(centres); !math.IsNaN(g) {
					v, perr := strconv.ParseFloat(gt.GeoCenter[e], 64)
					if perr != nil || !c14Close(v, g) {
						return kit.Failf("geomean-centre", "%s: shows %q, geometric mean of %v is %v%s", where, gt.GeoCenter[e], centres, g, ctx())
					}
				} else if gt.GeoCenter[e] != "" {
					return kit.Failf("geomean-nonpositive", "%s: centres %v are not all positive but row shows %q%s", where, centres, gt.GeoCenter[e], ctx())
				}
				continue
			}
			gm := c14Geomean(centres)
			if math.IsNaN(gm) {
				if gt.GeoCenter[e] != "" || !warn[wSum] {
					return kit.Failf("geomean-nonpositive", "%s: centres %v are not all positive but row shows %q, warnings %q%s", where, centres, gt.GeoCenter[e], gt.GeoWarn[e], ctx())
				}
			} else {
				g, perr := strconv.ParseFloat(gt.GeoCenter[e], 64)
				if perr != nil || !c14Close(g, gm) {
					return kit.Failf("geomean-centre", "%s: shows %q, geometric mean of %v is %v%s", where, gt.GeoCenter[e], centres, gm, ctx())
				}
				if warn[wSum] {
					return kit.Failf("geomean-warning", "%s: spurious %q%s", where, wSum, ctx())
				}
			}
			if e == 0 {
				if gt.GeoDelta[e] != "" || warn[wDiffer] || warn[wRatio] {
					return kit.Failf("geomean-base", "%s: first column has delta %q / warnings %q%s", where, gt.GeoDelta[e], gt.GeoWarn[e], ctx())
				}
				continue
			}
			if (nBase != len(ratios)) != warn[wDiffer] {
				return kit.Failf("geomean-set-warning", "%s: %d rows have a first-column cell, %d of this column's cells have one, but 'differs' warning present=%v%s", where, nBase, len(ratios), warn[wDiffer], ctx())
			}
			if zeroBase {
				kit.Count("geomean_zero_base_skipped", 1)
				continue
			}
			rm := c14Geomean(ratios)
			if math.IsNaN(rm) {
				if gt.GeoDelta[e] != "?" || !warn[wRatio] {
					return kit.Failf("geomean-ratio-nonpositive", "%s: ratios %v are not all positive (or none) but row shows %q, warnings %q%s", where, ratios, gt.GeoDelta[e], gt.GeoWarn[e], ctx())
				}
				continue
			}
			if warn[wRatio] {
				return kit.Failf("geomean-warning", "%s: spurious %q%s", where, wRatio, ctx())
			}
			d := gt.GeoDelta[e]
			pct, perr := strconv.ParseFloat(strings.TrimSuffix(d, "%"), 64)
			if perr != nil || !strings.HasSuffix(d, "%") || math.Abs(pct-(rm-1)*100) > 0.005+1e-7*math.Abs(rm*100) {
				return kit.Failf("geomean-ratio", "%s: shows %q, geometric mean of ratios %v is %v (%+.4f%%)%s", where, d, ratios, rm, (rm-1)*100, ctx())
			}
		}
	}
	kit.Count("tables", int64(len(ex.tables)))
	kit.Count("cells_with_residue_warning", int64(residueCells))
	if c.Flags.Filter != nil {
		kit.Count("cases_with_filter", 1)
	}
	if len(c.Flags.Ignore) > 0 {
		kit.Count("cases_with_ignore", 1)
	}
	return nil
}

func c14NonTrivial(cs c14Case) bool {
	// >= 2 input files and at least one non-default projection or filter.
	f := cs.C.Flags
	return len(cs.C.Files) >= 2 && (f.HasTable || f.HasRow || f.HasCol || f.Filter != nil || len(f.Ignore) > 0)
}

func TestVerifC14(t *testing.T) {
	kit.Run(t, "C14",
		kit.Class[c14Case]{
			Name: "cells", Quick: 12000, Thorough: 300000,
			Gen: func(r *kit.Rand, i int) c14Case {
				return c14Case{C: bsgen.Gen(r, bsgen.DefaultOpts)}
			},
			Check:         c14Check,
			NonTrivial:    c14NonTrivial,
			MinNonTrivial: 4000,
			Rule:          "structured benchstat inputs (1-4 files incl. duplicate and label=path arguments, 1-3 config blocks with set/change/delete, 2-6 benchmarks with sub-name keys and -N, 1-3 units incl. assume=exact metadata, unequal and missing samples, occasional zero/negative metrics) x flag combinations of -table/-row/-col/-ignore/-filter/-alpha/-confidence (orders @alpha and fixed lists incl.); non-trivial = >= 2 files and at least one non-default projection, ignore or filter",
		},
		kit.Class[c14Case]{
			Name: "many-units", Quick: 600, Thorough: 20000,
			Gen: func(r *kit.Rand, i int) c14Case {
				n := []int{31, 32, 33, 63, 64, 65, 96, 1, 2}[i%9]
				return c14Case{C: bsgen.GenManyUnits(r, n)}
			},
			Check:         c14Check,
			NonTrivial:    func(cs c14Case) bool { return len(cs.C.Files[0].Lines) > 0 },
			MinNonTrivial: 300,
			Rule:          "benchmark lines with exactly 31/32/33/63/64/65/96 measurements (units m0/op..) and -filter expressions with .unit terms, alone, negated, and combined with whole-result terms: each unit's table must hold exactly the measurements the filter keeps (added after seeding round 2: a match mask whose size is a multiple of 32)",
		},
	)
}
