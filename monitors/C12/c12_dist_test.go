//go:build verif

package stats_test

// C12, part 1: Student-t and normal distributions (range, monotonicity,
// symmetry, agreement with quadrature of an independently coded density,
// inverse). Only exported API of internal/stats is used.

import (
	"math"

	"golang.org/x/perf/internal/stats"
	kit "golang.org/x/perf/internal/verifkit"
)

const c12Eps = 1.0 / (1 << 52) // 2^-52

// ---------------------------------------------------------------------------
// reference: densities and composite Gauss-Legendre quadrature

// 16-point Gauss-Legendre nodes/weights on [-1,1] (positive half).
var c12glX = [8]float64{
	0.0950125098376374401853193, 0.2816035507792589132304605, 0.4580167776572273863424194, 0.6178762444026437484466718,
	0.7554044083550030338951012, 0.8656312023878317438804679, 0.9445750230732325760779884, 0.9894009349916499325961542,
}
var c12glW = [8]float64{
	0.1894506104550684962853967, 0.1826034150449235888667637, 0.1691565193950025381893121, 0.1495959888165767320815017,
	0.1246289712555338720524763, 0.0951585116824927848099251, 0.0622535239386478928628438, 0.0271524594117540948517806,
}

func c12gl(f func(float64) float64, a, b float64) float64 {
	c, h := (a+b)/2, (b-a)/2
	s := 0.0
	for i := 0; i < 8; i++ {
		d := h * c12glX[i]
		s += c12glW[i] * (f(c-d) + f(c+d))
	}
	return s * h
}

// c12Integrate integrates f over [0,x], x >= 0: panels of width 1/4 up to 8,
// then geometrically growing panels (ratio 1.5). f must be analytic with no
// singularity closer to the real axis than max(1, distance from 0)/1.
func c12Integrate(f func(float64) float64, x float64) float64 {
	s := 0.0
	a := 0.0
	for a < x && a < 8 {
		b := math.Min(a+0.25, x)
		s += c12gl(f, a, b)
		a = b
	}
	for a < x {
		b := math.Min(a*1.5, x)
		s += c12gl(f, a, b)
		a = b
	}
	return s
}

// logarithm of the normalising constant of the t density,
// ln Γ((v+1)/2) − ln Γ(v/2) − ½ ln(vπ). For large v the difference of the two
// log-gammas is evaluated with the asymptotic series of ln Γ(z+½) − ln Γ(z)
// (so that no cancellation of two numbers of size 5e5 is involved).
func c12TLogNorm(v float64) float64 {
	z := v / 2
	var d float64
	if z < 20 {
		a, _ := math.Lgamma(z + 0.5)
		b, _ := math.Lgamma(z)
		d = a - b
	} else {
		// ln Γ(z+½) − ln Γ(z) = ½ ln z − 1/(8z) + 1/(192 z³) − 1/(640 z⁵) + 17/(14336 z⁷) − …
		z2 := z * z
		d = 0.5*math.Log(z) - 1/(8*z) + 1/(192*z*z2) - 1/(640*z*z2*z2) + 17/(14336*z*z2*z2*z2)
	}
	return d - 0.5*math.Log(v*math.Pi)
}

func c12TPDF(v, x float64) float64 {
	return math.Exp(c12TLogNorm(v) - (v+1)/2*math.Log1p(x*x/v))
}

// c12TCDF is the reference t distribution function: ½ ± ∫0^|x| density.
func c12TCDF(v, x float64) float64 {
	ln := c12TLogNorm(v)
	h := (v + 1) / 2
	f := func(t float64) float64 { return math.Exp(ln - h*math.Log1p(t*t/v)) }
	s := c12Integrate(f, math.Abs(x))
	if x < 0 {
		return 0.5 - s
	}
	return 0.5 + s
}

const c12InvSqrt2Pi = 0.398942280401432677939946059934381868

func c12NPDF(z float64) float64 { return c12InvSqrt2Pi * math.Exp(-z*z/2) }

// c12NCDF is the reference standard normal distribution function.
func c12NCDF(z float64) float64 {
	a := math.Abs(z)
	if a > 40 {
		a = 40
	}
	s := c12Integrate(c12NPDF, a)
	if s > 0.5 {
		s = 0.5
	}
	if z < 0 {
		return 0.5 - s
	}
	return 0.5 + s
}

// c12TTol is the agreement tolerance between the library's t CDF and the
// reference: the library evaluates 1 − ½·I_z(v/2, ½) with z = v/(v+x²), which
// cannot resolve 1−z below 2^-53; near x = 0 the result is therefore a
// staircase whose steps have height ≈ pdf(0)·sqrt(v·2^-52) ≤ 0.4·sqrt(v·2^-52).
// Allowed: 1e-9 + 2·sqrt(v·2^-52), capped by the design's 1e-5.
func c12TTol(v float64) float64 {
	t := 1e-9 + 2*math.Sqrt(v*c12Eps)
	if t > 1e-5 {
		t = 1e-5
	}
	return t
}

// c12TTolAt is the pointwise version: away from x = 0 the error of the
// library's formula is |dF/dz|·δz with z = V/(V+x²), δz ≈ 3 roundings·2^-53·z and
// dF/dz = ½ z^(V/2-1) (1-z)^(-1/2) / B(V/2,½), (1-z)^(-1/2) = sqrt(V+x²)/|x|,
// 1/B ≈ sqrt(V/2π): δF ≲ 0.2·2^-52·V/|x|. In addition the prefactor
// exp(lnΓ(…) − …) carries a relative error of a few ulp(lnΓ((V+1)/2)) (1e-10 at
// V = 1e5), and the continued fraction stops at 3e-14. Allowed:
// 2e-12 + 8·ulp(lnΓ((V+1)/2)) + 4·2^-52·V/|x|, never more than c12TTol(V).
func c12TTolAt(v, x float64) float64 {
	lg, _ := math.Lgamma((v + 1) / 2)
	t := 2e-12 + 8*c12Ulp(lg)
	if x != 0 {
		t += 4 * c12Eps * v / math.Abs(x)
	}
	if c := c12TTol(v); x == 0 || t > c {
		t = c
	}
	return t
}

func c12Ulp(x float64) float64 {
	x = math.Abs(x)
	return math.Nextafter(x, math.Inf(1)) - x
}

// ---------------------------------------------------------------------------
// class: t CDF / PDF at a point

type c12TPoint struct {
	V, X kit.F
}

var c12Dofs = []float64{1, 2, 3, 5, 10, 30, 100, 1e3, 1e4, 1e5}

func c12GenDof(r *kit.Rand) float64 {
	switch r.Intn(4) {
	case 0:
		return kit.Pick(r, c12Dofs)
	case 1: // Welch-like non-integers of small samples
		return 1 + 30*r.Float64()
	case 2:
		return float64(r.Range(1, 600))
	}
	return r.LogUniform(0, 5)
}

func c12GenX(r *kit.Rand) float64 {
	var x float64
	switch r.Intn(5) {
	case 0: // log grid 1e-8 … 1e3
		x = math.Pow(10, float64(r.Range(-32, 12))/4)
	case 1:
		x = r.LogUniform(-8, 3)
	case 2:
		x = 6 * r.Float64()
	case 3:
		x = math.Abs(r.NormFloat64()) * 2
	default:
		x = r.LogUniform(-3, 1.5)
	}
	if r.Bool() {
		x = -x
	}
	return x
}

func c12CheckTPoint(c c12TPoint) *kit.Fail {
	v, x := float64(c.V), float64(c.X)
	d := stats.TDist{V: v}
	f := d.CDF(x)
	if math.IsNaN(f) || f < 0 || f > 1 {
		return kit.Failf("t-cdf-range", "TDist{%v}.CDF(%v) = %v", v, x, f)
	}
	g := d.CDF(-x)
	if e := math.Abs(f + g - 1); e > 1e-12 || math.IsNaN(g) {
		return kit.Failf("t-cdf-symmetry", "TDist{%v}: CDF(%v)=%v CDF(%v)=%v, sum-1 = %g", v, x, f, -x, g, f+g-1)
	} else {
		kit.NoteMax("t: worst |F(x)+F(-x)-1| (allowed 1e-12)", e)
	}
	if x == 0 && f != 0.5 {
		return kit.Failf("t-cdf-symmetry", "TDist{%v}.CDF(0) = %v", v, f)
	}
	tol := c12TTolAt(v, x)
	ref := c12TCDF(v, x)
	e := math.Abs(f - ref)
	kit.NoteMax("t: worst |CDF - quadrature| (absolute)", e)
	kit.NoteMax("t: worst |CDF - quadrature| / staircase bound(V)", e/c12TTol(v))
	kit.NoteMax("t: worst |CDF - quadrature| / pointwise tolerance(V,x)", e/tol)
	if v <= 100 && math.Abs(x) >= 0.01 {
		kit.NoteMax("t: worst |CDF - quadrature| for V <= 100, |x| >= 0.01", e)
	}
	if e > tol {
		return kit.Failf("t-cdf-vs-quadrature", "TDist{%v}.CDF(%v) = %.17g, quadrature of the density gives %.17g (diff %g, allowed %g)", v, x, f, ref, f-ref, tol)
	}
	// closed forms
	var cf float64
	switch v {
	case 1:
		cf = 0.5 + math.Atan(x)/math.Pi
	case 2:
		cf = 0.5 + x/(2*math.Sqrt(2+x*x))
	}
	if cf != 0 {
		kit.Count("t CDF points compared with a closed form (dof 1, 2)", 1)
		if e := math.Abs(f - cf); e > tol {
			return kit.Failf("t-cdf-vs-closed-form", "TDist{%v}.CDF(%v) = %.17g, closed form %.17g (allowed %g)", v, x, f, cf, tol)
		}
	}
	// density
	p, pr := d.PDF(x), c12TPDF(v, x)
	if math.IsNaN(p) || p < 0 || math.Abs(p-pr) > 1e-8*pr+1e-300 {
		return kit.Failf("t-pdf", "TDist{%v}.PDF(%v) = %.17g, reference %.17g", v, x, p, pr)
	} else if pr > 1e-290 {
		kit.NoteMax("t: worst relative PDF error (allowed 1e-8)", math.Abs(p-pr)/pr)
	}
	if q := d.PDF(-x); q != p {
		return kit.Failf("t-pdf", "TDist{%v}.PDF(%v) = %v but PDF(%v) = %v", v, x, p, -x, q)
	}
	// monotone: a few steps to the right of x
	for _, y := range []float64{math.Nextafter(x, math.Inf(1)), x + 4*c12Ulp(x), x + 1e-9*math.Abs(x), x + 1e-4*math.Abs(x) + 1e-12, x + 0.01, x + 1} {
		if y <= x {
			continue
		}
		fy := d.CDF(y)
		if !(fy >= f-1e-14) {
			return kit.Failf("t-cdf-decreasing", "TDist{%v}: CDF(%v)=%.17g > CDF(%v)=%.17g", v, x, f, y, fy)
		}
		if fy < f {
			kit.NoteMax("t: worst decrease of the CDF between x < y (noise allowed 1e-14)", f-fy)
		}
	}
	return nil
}

func c12EnumTGrid(thorough bool, yield func(c12TPoint)) {
	step := 8
	if thorough {
		step = 64
	}
	for _, v := range append(append([]float64(nil), c12Dofs...), 1.5, 2.5, 7.3, 47.9, 99999.5, 31622.7) {
		yield(c12TPoint{kit.F(v), 0})
		for i := -8 * step; i <= 3*step; i++ {
			x := math.Pow(10, float64(i)/float64(step))
			yield(c12TPoint{kit.F(v), kit.F(x)})
			yield(c12TPoint{kit.F(v), kit.F(-x)})
		}
	}
}

// ---------------------------------------------------------------------------
// class: inverse of the t CDF (generic numerical inverse of the package)

type c12TInv struct {
	V, P kit.F
}

func c12GenP(r *kit.Rand) float64 {
	var p float64
	switch r.Intn(6) {
	case 0:
		p = kit.Pick(r, []float64{1e-12, 1e-9, 1e-6, 1e-3, 0.01, 0.025, 0.05, 0.1, 0.25, 0.5})
	case 1:
		p = r.LogUniform(-12, -0.302)
	case 2:
		p = 0.5 + (r.Float64()-0.5)*r.LogUniform(-9, 0) // near the median, where the t CDF is a staircase
	default:
		p = 0.5 * r.Float64()
	}
	if r.Bool() {
		p = 1 - p
	}
	if p <= 0 || p >= 1 {
		p = 0.5
	}
	return p
}

func c12CheckTInv(c c12TInv) *kit.Fail {
	v, p := float64(c.V), float64(c.P)
	d := stats.TDist{V: v}
	inv := stats.InvCDF(d)
	x := inv(p)
	if math.IsNaN(x) || math.IsInf(x, 0) {
		return kit.Failf("t-inverse-not-finite", "InvCDF(TDist{%v})(%v) = %v", v, p, x)
	}
	// x is where the (computed) distribution function reaches p
	delta := math.Max(2e-16, 2*c12Ulp(x))
	fx, fb := d.CDF(x), d.CDF(x-delta)
	if !(fx >= p-1e-14) || !(fb <= p+1e-14) {
		return kit.Failf("t-inverse-not-crossing", "InvCDF(TDist{%v})(%.17g) = %.17g but CDF there = %.17g and CDF(x-%g) = %.17g: not the point where the CDF reaches p", v, p, x, fx, delta, fb)
	}
	tol := 2 * c12TTolAt(v, x)
	ref := c12TCDF(v, x)
	e := math.Abs(ref - p)
	kit.NoteMax("t inverse: worst |quadrature(InvCDF(p)) - p| / (2·pointwise tolerance(V,x))", e/tol)
	kit.NoteMax("t inverse: worst |quadrature(InvCDF(p)) - p| (absolute)", e)
	if e > tol {
		return kit.Failf("t-inverse-vs-quadrature", "InvCDF(TDist{%v})(%.17g) = %.17g, where the reference distribution function is %.17g (diff %g, allowed %g)", v, p, x, ref, ref-p, tol)
	}
	// round trip x -> CDF -> InvCDF: the smallest point with the same CDF value
	y := inv(fx)
	dy := math.Max(2e-16, 2*c12Ulp(y))
	if fy, fyb := d.CDF(y), d.CDF(y-dy); math.IsNaN(y) || !(fy >= fx-1e-14) || !(fyb <= fx+1e-14) {
		return kit.Failf("t-inverse-roundtrip", "TDist{%v}: x=%.17g, CDF=%.17g, InvCDF(CDF(x)) = %.17g where the CDF is %.17g (and %.17g just below)", v, x, fx, y, fy, fyb)
	}
	if e := math.Abs(c12TCDF(v, y) - ref); e > tol {
		return kit.Failf("t-inverse-roundtrip", "TDist{%v}: x=%.17g, InvCDF(CDF(x)) = %.17g: %g apart in probability (allowed %g)", v, x, y, e, tol)
	} else {
		kit.NoteMax("t inverse: worst distance of InvCDF(CDF(x)) from x in probability / (2·pointwise tolerance(V,x))", e/tol)
		if math.Abs(ref-0.5) < 0.49 {
			kit.NoteMax("t inverse: worst |InvCDF(CDF(x)) - x| for 0.01 < F < 0.99", math.Abs(x-y))
		}
	}
	return nil
}

// ---------------------------------------------------------------------------
// class: normal distribution

type c12Norm struct {
	Mu, Sigma, Z, P kit.F
}

func c12GenNorm(r *kit.Rand, i int) c12Norm {
	c := c12Norm{Mu: 0, Sigma: 1}
	switch r.Intn(4) {
	case 0:
	case 1:
		c.Sigma = kit.F(r.LogUniform(-6, 6))
	default:
		s := r.LogUniform(-6, 6)
		c.Sigma = kit.F(s)
		c.Mu = kit.F(s * r.LogUniform(-3, 3) * float64(1-2*r.Intn(2)))
	}
	z := 0.0
	switch r.Intn(4) {
	case 0:
		z = r.LogUniform(-8, 1.55)
	case 1:
		z = 8.5 * r.Float64()
	default:
		z = math.Abs(r.NormFloat64()) * 1.5
	}
	if r.Bool() {
		z = -z
	}
	c.Z = kit.F(z)
	c.P = kit.F(c12GenP(r))
	return c
}

func c12CheckNorm(c c12Norm) *kit.Fail {
	mu, sg, z, p := float64(c.Mu), float64(c.Sigma), float64(c.Z), float64(c.P)
	d := stats.NormalDist{Mu: mu, Sigma: sg}
	dd := sg * z
	x1, x2 := mu+dd, mu-dd
	// conditioning: x is formed and standardised in float64; an error of
	// eps·(|mu|+|d|) in x moves the probability by at most pdf·that/sigma.
	cond := 4 * c12Eps * (math.Abs(mu)/sg + math.Abs(z)) * 0.4
	f1, f2 := d.CDF(x1), d.CDF(x2)
	for _, f := range []float64{f1, f2} {
		if math.IsNaN(f) || f < 0 || f > 1 {
			return kit.Failf("normal-cdf-range", "NormalDist{%v,%v}.CDF = %v", mu, sg, f)
		}
	}
	if e := math.Abs(f1 + f2 - 1); e > 1e-12+2*cond {
		return kit.Failf("normal-cdf-symmetry", "NormalDist{%v,%v}: CDF(%v)=%v, CDF(%v)=%v, sum-1=%g", mu, sg, x1, f1, x2, f2, f1+f2-1)
	} else if mu == 0 {
		kit.NoteMax("normal (mu=0): worst |F(x)+F(-x)-1| (allowed 1e-12)", e)
	}
	zz := (x1 - mu) / sg
	ref := c12NCDF(zz)
	e := math.Abs(f1 - ref)
	if e > 1e-13+cond {
		return kit.Failf("normal-cdf-vs-quadrature", "NormalDist{%v,%v}.CDF(%v) = %.17g, quadrature %.17g (diff %g)", mu, sg, x1, f1, ref, f1-ref)
	}
	kit.NoteMax("normal: worst |CDF - quadrature| beyond the conditioning term (allowed 1e-13)", math.Max(0, e-cond))
	pd, pr := d.PDF(x1), c12NPDF(zz)/sg
	if math.IsNaN(pd) || math.Abs(pd-pr) > pr*(1e-12+8*c12Eps*zz*zz+4*c12Eps*math.Abs(zz)*math.Abs(mu)/sg)+1e-300/sg {
		return kit.Failf("normal-pdf", "NormalDist{%v,%v}.PDF(%v) = %.17g, reference %.17g", mu, sg, x1, pd, pr)
	}
	for _, y := range []float64{math.Nextafter(x1, math.Inf(1)), x1 + 4*c12Ulp(x1), x1 + 1e-9*sg, x1 + 1e-3*sg, x1 + sg} {
		if y <= x1 {
			continue
		}
		if fy := d.CDF(y); !(fy >= f1-1e-14) {
			return kit.Failf("normal-cdf-decreasing", "NormalDist{%v,%v}: CDF(%v)=%.17g > CDF(%v)=%.17g", mu, sg, x1, f1, y, fy)
		}
	}
	// inverse at p
	inv := stats.InvCDF(d)
	xq := inv(p)
	if math.IsNaN(xq) || math.IsInf(xq, 0) {
		return kit.Failf("normal-inverse-not-finite", "InvCDF(NormalDist{%v,%v})(%v) = %v", mu, sg, p, xq)
	}
	zq := (xq - mu) / sg
	condq := 4 * c12Eps * (math.Abs(mu)/sg + math.Abs(zq)) * 0.4
	pm := math.Min(p, 1-p)
	tolp := 1e-15 + 1e-11*pm + condq
	if e := math.Abs(d.CDF(xq) - p); e > tolp {
		return kit.Failf("normal-inverse", "InvCDF(NormalDist{%v,%v})(%.17g) = %.17g but CDF there = %.17g (diff %g, allowed %g)", mu, sg, p, xq, d.CDF(xq), d.CDF(xq)-p, tolp)
	} else {
		kit.NoteMax("normal: worst |CDF(InvCDF(p)) - p| relative to its allowance (1e-15 + 1e-11·min(p,1-p) + conditioning)", e/tolp)
	}
	if e := math.Abs(c12NCDF(zq) - p); e > 1e-13+1e-11*pm+condq {
		return kit.Failf("normal-inverse-vs-quadrature", "InvCDF(NormalDist{%v,%v})(%.17g) = %.17g, reference distribution function there %.17g", mu, sg, p, xq, c12NCDF(zq))
	}
	// round trip from x1 (only where the CDF still resolves x: |z| <= 8)
	if math.Abs(zz) <= 8 {
		back := inv(f1)
		zb := (back - mu) / sg
		pmf := math.Min(f1, 1-f1)
		tolz := (4e-16+1e-11*pmf)/c12NPDF(zz) + 8*c12Eps*(math.Abs(mu)/sg+math.Abs(zz)) + 1e-12
		if !(math.Abs(zb-zz) <= tolz) {
			return kit.Failf("normal-inverse-roundtrip", "NormalDist{%v,%v}: x=%.17g CDF=%.17g InvCDF(CDF(x))=%.17g: %g standard deviations apart (allowed %g)", mu, sg, x1, f1, back, zb-zz, tolz)
		}
		kit.NoteMax("normal: worst |InvCDF(CDF(x)) - x|/sigma relative to its allowance", math.Abs(zb-zz)/tolz)
	}
	return nil
}
