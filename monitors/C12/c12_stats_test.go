//go:build verif

package stats_test

// C12, part 2: t-tests against textbook formulas evaluated exactly
// (big.Rat/big.Float), descriptive statistics against exact rational
// evaluation of their definitions, and the test entry point.

import (
	"fmt"
	"math"
	"math/big"
	"sort"
	"testing"

	"golang.org/x/perf/internal/stats"
	kit "golang.org/x/perf/internal/verifkit"
)

const c12U = 1.0 / (1 << 53) // unit roundoff 2^-53
const c12Prec = 320

func c12Floats(fs []kit.F) []float64 {
	out := make([]float64, len(fs))
	for i, f := range fs {
		out[i] = float64(f)
	}
	return out
}

func c12Fs(xs []float64) []kit.F {
	out := make([]kit.F, len(xs))
	for i, x := range xs {
		out[i] = kit.F(x)
	}
	return out
}

// exact moments of a sample
type c12Mom struct {
	n     int
	mean  *big.Rat // nil if n == 0
	vari  *big.Rat // sample variance, nil if n < 2
	scale float64  // max |x|
}

func c12Moments(xs []float64) c12Mom {
	m := c12Mom{n: len(xs)}
	if m.n == 0 {
		return m
	}
	// every x is an integer multiple of 2^E, E the smallest binary exponent
	// present: exact integer sums, converted to rationals once.
	type me struct {
		mant int64
		exp  int
	}
	parts := make([]me, len(xs))
	E := 0
	first := true
	for i, x := range xs {
		if a := math.Abs(x); a > m.scale {
			m.scale = a
		}
		if x == 0 {
			continue
		}
		fr, e := math.Frexp(x)
		parts[i] = me{int64(math.Ldexp(fr, 53)), e - 53} // x = mant·2^exp exactly
		if first || e-53 < E {
			E, first = e-53, false
		}
	}
	sum, sq, t := new(big.Int), new(big.Int), new(big.Int)
	for _, p := range parts {
		if p.mant == 0 {
			continue
		}
		t.SetInt64(p.mant)
		t.Lsh(t, uint(p.exp-E))
		sum.Add(sum, t)
		sq.Add(sq, t.Mul(t, t))
	}
	scale := func(num *big.Int, den int64, e int) *big.Rat {
		d := big.NewInt(den)
		n := new(big.Int).Set(num)
		if e >= 0 {
			n.Lsh(n, uint(e))
		} else {
			d.Lsh(d, uint(-e))
		}
		return new(big.Rat).SetFrac(n, d)
	}
	n := int64(m.n)
	m.mean = scale(sum, n, E)
	if m.n >= 2 {
		// Σ(x-mean)² = (n·Σx² − (Σx)²)/n, exactly
		ss := new(big.Int).Mul(big.NewInt(n), sq)
		ss.Sub(ss, new(big.Int).Mul(sum, sum))
		m.vari = scale(ss, n*(n-1), 2*E)
	}
	return m
}

func c12BF(r *big.Rat) *big.Float { return new(big.Float).SetPrec(c12Prec).SetRat(r) }
func c12F64(f *big.Float) float64 { x, _ := f.Float64(); return x }
func c12RatF(r *big.Rat) float64  { x, _ := r.Float64(); return x }

// statement-level allowances: mean within 8·n·u·scale, variance within
// 8·n·u·scale² ("a few ulps of the data's scale", times the number of
// accumulation steps).
func c12MeanTol(n int, scale float64) float64 {
	return 8*float64(n)*c12U*scale + 4*math.SmallestNonzeroFloat64
}
func c12VarTol(n int, scale float64) float64 { return 8 * float64(n) * c12U * scale * scale }

// ---------------------------------------------------------------------------
// class: t-tests

type c12TT struct {
	Kind int // 0 Welch, 1 pooled, 2 paired, 3 one-sample
	X1   []kit.F
	X2   []kit.F
	Mu0  kit.F
}

var c12KindName = []string{"TwoSampleWelchTTest", "TwoSampleTTest", "PairedTTest", "OneSampleTTest"}

func c12RunTT(c c12TT, alt stats.LocationHypothesis) (*stats.TTestResult, error) {
	x1, x2 := c12Floats(c.X1), c12Floats(c.X2)
	switch c.Kind {
	case 0:
		return stats.TwoSampleWelchTTest(stats.Sample{Xs: x1}, stats.Sample{Xs: x2}, alt)
	case 1:
		return stats.TwoSampleTTest(stats.Sample{Xs: x1}, stats.Sample{Xs: x2}, alt)
	case 2:
		return stats.PairedTTest(x1, x2, float64(c.Mu0), alt)
	}
	return stats.OneSampleTTest(stats.Sample{Xs: x1}, float64(c.Mu0), alt)
}

// textbook expectations
type c12TExp struct {
	undersized, zeroVar bool
	t, dof              float64
	tTol, dofTol        float64
	illConditioned      bool
}

func c12Textbook(c c12TT) c12TExp {
	var e c12TExp
	x1, x2 := c12Floats(c.X1), c12Floats(c.X2)
	mu0 := new(big.Rat).SetFloat64(float64(c.Mu0))
	one := func(xs []float64, extraU float64) c12TExp {
		// one-sample t of xs against mu0; extraU = additional relative data perturbation (paired differences)
		var e c12TExp
		m := c12Moments(xs)
		if m.n < 2 {
			e.undersized = true
			return e
		}
		if m.vari.Sign() == 0 {
			e.zeroVar = true
			return e
		}
		n := float64(m.n)
		D := new(big.Rat).Sub(m.mean, mu0)
		s2 := new(big.Rat).Quo(m.vari, big.NewRat(int64(m.n), 1))
		s := new(big.Float).SetPrec(c12Prec).Sqrt(c12BF(s2))
		t := new(big.Float).SetPrec(c12Prec).Quo(c12BF(D), s)
		e.t, e.dof = c12F64(t), n-1
		dD := c12MeanTol(m.n, m.scale) + extraU*m.scale + 2*c12U*math.Abs(float64(c.Mu0))
		dS2 := (c12VarTol(m.n, m.scale) + 4*extraU*m.scale*m.scale) / n
		s2f, sf := c12RatF(s2), c12F64(s)
		if dS2 > s2f/8 {
			e.illConditioned = true
			return e
		}
		e.tTol = 2*(dD/sf+math.Abs(e.t)*dS2/(2*s2f)) + 32*c12U*math.Abs(e.t)
		return e
	}
	switch c.Kind {
	case 3:
		return one(x1, 0)
	case 2:
		if len(x1) != len(x2) {
			panic("c12: paired case with different lengths is outside the domain")
		}
		// textbook: one-sample test of the exact differences; the library forms
		// them in float64 (relative perturbation u each). Differences are
		// generated exactly representable or nearly so; the perturbation is
		// carried into the allowance.
		d := make([]float64, len(x1))
		exact := true
		for i := range x1 {
			d[i] = x1[i] - x2[i]
			if new(big.Rat).Sub(new(big.Rat).SetFloat64(x1[i]), new(big.Rat).SetFloat64(x2[i])).Cmp(new(big.Rat).SetFloat64(d[i])) != 0 {
				exact = false
			}
		}
		if exact {
			return one(d, 0)
		}
		return one(d, 2*c12U)
	}
	m1, m2 := c12Moments(x1), c12Moments(x2)
	if c.Kind == 0 && (m1.n < 2 || m2.n < 2) || c.Kind == 1 && (m1.n < 1 || m2.n < 1 || m1.n+m2.n < 3) {
		e.undersized = true
		return e
	}
	v1, v2 := new(big.Rat), new(big.Rat)
	if m1.vari != nil {
		v1 = m1.vari
	}
	if m2.vari != nil {
		v2 = m2.vari
	}
	if v1.Sign() == 0 && v2.Sign() == 0 {
		e.zeroVar = true
		return e
	}
	n1, n2 := float64(m1.n), float64(m2.n)
	r1, r2 := big.NewRat(int64(m1.n), 1), big.NewRat(int64(m2.n), 1)
	D := new(big.Rat).Sub(m1.mean, m2.mean)
	dD := c12MeanTol(m1.n, m1.scale) + c12MeanTol(m2.n, m2.scale)
	dv1, dv2 := c12VarTol(m1.n, m1.scale), c12VarTol(m2.n, m2.scale)
	var s2 *big.Rat
	var dS2 float64
	if c.Kind == 0 {
		A, B := new(big.Rat).Quo(v1, r1), new(big.Rat).Quo(v2, r2)
		s2 = new(big.Rat).Add(A, B)
		dA, dB := dv1/n1, dv2/n2
		dS2 = dA + dB
		num := new(big.Rat).Mul(s2, s2)
		den := new(big.Rat).Add(
			new(big.Rat).Quo(new(big.Rat).Mul(A, A), big.NewRat(int64(m1.n-1), 1)),
			new(big.Rat).Quo(new(big.Rat).Mul(B, B), big.NewRat(int64(m2.n-1), 1)))
		e.dof = c12RatF(new(big.Rat).Quo(num, den))
		Af, Bf, denf := c12RatF(A), c12RatF(B), c12RatF(den)
		rel := 2*(dA+dB)/(Af+Bf) + 2*(Af*dA/(n1-1)+Bf*dB/(n2-1))/denf
		e.dofTol = e.dof * (2*rel + 64*c12U)
	} else {
		dofI := int64(m1.n + m2.n - 2)
		vp := new(big.Rat).Add(new(big.Rat).Mul(big.NewRat(int64(m1.n-1), 1), v1), new(big.Rat).Mul(big.NewRat(int64(m2.n-1), 1), v2))
		vp.Quo(vp, big.NewRat(dofI, 1))
		f := new(big.Rat).Add(new(big.Rat).Inv(r1), new(big.Rat).Inv(r2))
		s2 = new(big.Rat).Mul(vp, f)
		dS2 = ((n1-1)*dv1 + (n2-1)*dv2) / float64(dofI) * (1/n1 + 1/n2)
		e.dof = float64(dofI)
	}
	s := new(big.Float).SetPrec(c12Prec).Sqrt(c12BF(s2))
	e.t = c12F64(new(big.Float).SetPrec(c12Prec).Quo(c12BF(D), s))
	s2f, sf := c12RatF(s2), c12F64(s)
	if dS2 > s2f/8 {
		e.illConditioned = true
		return e
	}
	e.tTol = 2*(dD/sf+math.Abs(e.t)*dS2/(2*s2f)) + 32*c12U*math.Abs(e.t)
	return e
}

func c12CheckTT(c c12TT) *kit.Fail {
	name := c12KindName[c.Kind]
	exp := c12Textbook(c)
	alts := []stats.LocationHypothesis{stats.LocationLess, stats.LocationDiffers, stats.LocationGreater}
	var res [3]*stats.TTestResult
	for i, alt := range alts {
		r, err := c12RunTT(c, alt)
		if exp.undersized || exp.zeroVar {
			if err == nil {
				sig, why := "ttest-missing-error-undersized", "undersized"
				if exp.zeroVar {
					sig, why = "ttest-missing-error-zero-variance", "zero-variance"
				}
				return kit.Failf(sig, "%s(n1=%d, n2=%d, alt=%v) on %s input returned no error (result %+v)", name, len(c.X1), len(c.X2), alt, why, r)
			}
			if exp.zeroVar && err != stats.ErrZeroVariance {
				return kit.Failf("ttest-wrong-error", "%s on adequately sized zero-variance input: error %v", name, err)
			}
			continue
		}
		if err != nil || r == nil {
			return kit.Failf("ttest-spurious-error", "%s(n1=%d, n2=%d): error %v on adequately sized input with non-zero variance (textbook t=%g)", name, len(c.X1), len(c.X2), err, exp.t)
		}
		res[i] = r
	}
	if exp.undersized {
		kit.Count("t-test cases: undersized input (error required)", 1)
		return nil
	}
	if exp.zeroVar {
		kit.Count("t-test cases: zero variance (error required)", 1)
		return nil
	}
	if exp.illConditioned {
		kit.Count("t-test cases skipped: variance not resolved at the statement's tolerance (ill-conditioned)", 1)
		return nil
	}
	r := res[0]
	for _, q := range res[1:] {
		if math.Float64bits(q.T) != math.Float64bits(r.T) || math.Float64bits(q.DoF) != math.Float64bits(r.DoF) {
			return kit.Failf("ttest-alt-changes-statistic", "%s: T/DoF differ between alternatives: %+v vs %+v", name, r, q)
		}
	}
	if !(math.Abs(r.T-exp.t) <= exp.tTol) {
		return kit.Failf("ttest-statistic", "%s(n1=%d,n2=%d): T = %.17g, textbook %.17g (diff %g, allowed %g)", name, len(c.X1), len(c.X2), r.T, exp.t, r.T-exp.t, exp.tTol)
	}
	if exp.t != 0 && exp.tTol < math.Abs(exp.t) {
		kit.NoteMax("t-tests: worst relative error of T (well-conditioned cases)", math.Abs(r.T-exp.t)/math.Abs(exp.t))
	}
	if c.Kind == 0 {
		if !(math.Abs(r.DoF-exp.dof) <= exp.dofTol) {
			return kit.Failf("ttest-dof", "%s(n1=%d,n2=%d): DoF = %.17g, Welch-Satterthwaite %.17g (allowed %g)", name, len(c.X1), len(c.X2), r.DoF, exp.dof, exp.dofTol)
		}
		kit.NoteMax("t-tests: worst relative error of the Welch DoF", math.Abs(r.DoF-exp.dof)/exp.dof)
	} else if r.DoF != exp.dof {
		return kit.Failf("ttest-dof", "%s(n1=%d,n2=%d): DoF = %v, textbook %v", name, len(c.X1), len(c.X2), r.DoF, exp.dof)
	}
	pl, pd, pg := res[0].P, res[1].P, res[2].P
	for _, p := range []float64{pl, pd, pg} {
		if math.IsNaN(p) || p < 0 || p > 1+1e-15 {
			return kit.Failf("ttest-p-range", "%s: P = %v (less %v, differs %v, greater %v)", name, p, pl, pd, pg)
		}
	}
	if math.Abs(pl+pg-1) > 1e-12 {
		return kit.Failf("ttest-tails", "%s: P(less)=%v + P(greater)=%v != 1", name, pl, pg)
	}
	if math.Abs(pd-2*math.Min(pl, pg)) > 1e-12 {
		return kit.Failf("ttest-tails", "%s: two-sided P=%v is not twice the smaller tail (less %v, greater %v), T=%v", name, pd, pl, pg, r.T)
	}
	if r.DoF >= 1 && r.DoF <= 1e5 {
		ref := c12TCDF(r.DoF, r.T)
		tol := c12TTolAt(r.DoF, r.T)
		if math.Abs(pl-ref) > tol {
			return kit.Failf("ttest-tails", "%s: P(less) = %.17g but the t distribution function (dof %v) at T=%v is %.17g", name, pl, r.DoF, r.T, ref)
		}
		if math.Abs(pg-(1-ref)) > tol {
			return kit.Failf("ttest-tails", "%s: P(greater) = %.17g but the upper tail (dof %v) at T=%v is %.17g", name, pg, r.DoF, r.T, 1-ref)
		}
		kit.NoteMax("t-tests: worst |P(less) - quadrature| / tolerance(dof)", math.Abs(pl-ref)/tol)
	}
	return nil
}

func c12TTNonTrivial(c c12TT) bool {
	// cheap version of "adequately sized, not constant" (the exact decision is made in the check)
	varies := func(xs []kit.F) bool {
		for _, x := range xs {
			if x != xs[0] {
				return true
			}
		}
		return false
	}
	switch c.Kind {
	case 0:
		return len(c.X1) >= 2 && len(c.X2) >= 2 && (varies(c.X1) || varies(c.X2))
	case 1:
		return len(c.X1) >= 1 && len(c.X2) >= 1 && (varies(c.X1) || varies(c.X2))
	case 2:
		if len(c.X1) < 2 || len(c.X1) != len(c.X2) {
			return false
		}
		d := make([]kit.F, len(c.X1))
		for i := range d {
			d[i] = c.X1[i] - c.X2[i]
		}
		return varies(d)
	}
	return len(c.X1) >= 2 && varies(c.X1)
}

func c12GenSampleTT(r *kit.Rand, n int, centre, sd float64, integers bool) []float64 {
	xs := make([]float64, n)
	for i := range xs {
		x := centre + sd*r.NormFloat64()
		if integers {
			x = math.Round(x)
		}
		xs[i] = x
	}
	return xs
}

func c12GenTT(r *kit.Rand, i int) c12TT {
	c := c12TT{Kind: i % 4}
	size := func() int {
		switch r.Intn(10) {
		case 0:
			return r.Range(0, 2)
		case 1:
			return r.Range(100, 300)
		case 2, 3:
			return r.Range(2, 4)
		}
		return r.Range(3, 40)
	}
	n1, n2 := size(), size()
	if c.Kind == 2 {
		n2 = n1
	}
	scale := r.LogUniform(-3, 6)
	sd1 := scale * r.LogUniform(-2, 0)
	sd2 := sd1
	if r.Chance(0.6) {
		sd2 = scale * r.LogUniform(-2, 0)
	}
	centre := scale * (r.Float64()*2 - 1)
	shift := sd1 * r.NormFloat64() * kit.Pick(r, []float64{0, 0.3, 1, 3, 10})
	integers := r.Chance(0.3)
	if integers && sd1 < 2 {
		sd1, sd2 = sd1+3, sd2+3
	}
	x1 := c12GenSampleTT(r, n1, centre, sd1, integers)
	x2 := c12GenSampleTT(r, n2, centre+shift, sd2, integers)
	switch r.Intn(12) {
	case 0: // both constant
		for j := range x1 {
			x1[j] = x1[0]
		}
		for j := range x2 {
			if c.Kind == 2 {
				x2[j] = x1[j] + 3 // constant differences
			} else {
				x2[j] = x2[0]
			}
		}
	case 1: // one constant
		for j := range x1 {
			x1[j] = x1[0]
		}
	case 2: // paired: differences constant although both vary (integers: exact)
		if c.Kind == 2 {
			for j := range x1 {
				x1[j] = math.Round(x1[j])
				x2[j] = x1[j] - 7
			}
		}
	case 3: // identical samples
		if n1 == n2 {
			copy(x2, x1)
		}
	}
	c.X1, c.X2 = c12Fs(x1), c12Fs(x2)
	if c.Kind >= 2 {
		switch r.Intn(3) {
		case 0:
			c.Mu0 = 0
		case 1:
			c.Mu0 = kit.F(math.Round(centre))
		default:
			c.Mu0 = kit.F(centre + sd1*r.NormFloat64())
		}
		if c.Kind == 2 && r.Chance(0.7) {
			c.Mu0 = kit.F(float64(c.Mu0) - centre) // differences are centred near shift
		}
	}
	if c.Kind == 3 {
		c.X2 = nil
	}
	return c
}

// ---------------------------------------------------------------------------
// class: descriptive statistics

type c12Desc struct {
	Xs     []kit.F
	Sorted bool // Xs is in ascending order and Sample.Sorted is set
	Ps     []kit.F
}

// c12R8 evaluates Hyndman & Fan's definition 8 on sorted data for 0 <= p <= 1:
// h = n·p + (p+1)/3, j = floor(h), g = h − j, Q = x_j + g·(x_{j+1} − x_j)
// (1-based, clamped to x_1 / x_n). j and g are exact rationals; the
// interpolation is carried out with 2400-bit floats (exact for the dyadic
// data, g rounded at 2^-2400).
func c12R8(sorted []float64, p float64) *big.Float {
	n := len(sorted)
	bf := func(x float64) *big.Float { return new(big.Float).SetPrec(2400).SetFloat64(x) }
	third := big.NewRat(1, 3)
	h := new(big.Rat).Add(third, new(big.Rat).Mul(new(big.Rat).SetFloat64(p), new(big.Rat).Add(big.NewRat(int64(n), 1), third)))
	jf := new(big.Int).Quo(h.Num(), h.Denom()) // h > 0: floor
	j := int(jf.Int64())
	if j <= 0 {
		return bf(sorted[0])
	}
	if j >= n {
		return bf(sorted[n-1])
	}
	g := new(big.Float).SetPrec(2400).SetRat(new(big.Rat).Sub(h, new(big.Rat).SetInt(jf)))
	d := new(big.Float).SetPrec(2400).Sub(bf(sorted[j]), bf(sorted[j-1]))
	return d.Add(bf(sorted[j-1]), d.Mul(d, g))
}

// c12R8Index is floor(1/3 + p(n+1/3)) evaluated exactly: the interpolation
// of the R8 percentile at p runs between order statistics #j and #j+1 (1-based).
func c12R8Index(n int, p float64) int {
	third := big.NewRat(1, 3)
	h := new(big.Rat).Add(third, new(big.Rat).Mul(new(big.Rat).SetFloat64(p), new(big.Rat).Add(big.NewRat(int64(n), 1), third)))
	return int(new(big.Int).Quo(h.Num(), h.Denom()).Int64())
}

func c12CheckDesc(c c12Desc) *kit.Fail {
	xs := c12Floats(c.Xs)
	n := len(xs)
	if n == 0 {
		return nil
	}
	s := stats.Sample{Xs: xs, Sorted: c.Sorted}
	m := c12Moments(xs)
	S := m.scale
	tiny := 4 * math.SmallestNonzeroFloat64
	desc := fmt.Sprintf("n=%d scale=%g sorted=%v", n, S, c.Sorted)

	// mean
	em := c12RatF(m.mean)
	mt := c12MeanTol(n, S)
	for k, got := range []float64{stats.Mean(xs), s.Mean()} {
		if !(math.Abs(got-em) <= mt) {
			return kit.Failf("mean", "%s (%s): mean = %.17g, exact %.17g (diff %g, allowed %g)", []string{"Mean", "Sample.Mean"}[k], desc, got, em, got-em, mt)
		}
		if S > 0 {
			kit.NoteMax("mean: worst error in units of n·2^-53·scale (allowed 8)", math.Abs(got-em)/(float64(n)*c12U*S))
		}
	}
	// variance, standard deviation: only where scale² is representable with margin
	if n >= 2 && S >= 1e-140 && S <= 1e140 {
		ev := c12RatF(m.vari)
		vt := c12VarTol(n, S)
		for k, got := range []float64{stats.Variance(xs), s.Variance()} {
			if !(math.Abs(got-ev) <= vt) || got < 0 {
				return kit.Failf("variance", "%s (%s): variance = %.17g, exact %.17g (diff %g, allowed %g)", []string{"Variance", "Sample.Variance"}[k], desc, got, ev, got-ev, vt)
			}
			kit.NoteMax("variance: worst error in units of n·2^-53·scale² (allowed 8)", math.Abs(got-ev)/(float64(n)*c12U*S*S))
			if ev > 0 && vt < ev/1e6 {
				kit.NoteMax("variance: worst relative error where variance > 1e6·allowance", math.Abs(got-ev)/ev)
			}
		}
		esd := c12F64(new(big.Float).SetPrec(c12Prec).Sqrt(c12BF(m.vari)))
		// |sqrt(v') − sqrt(v)| ≤ min(|v'−v|/sqrt(v), sqrt(|v'−v|))
		st := math.Sqrt(vt)
		if esd > 0 && vt/esd < st {
			st = vt / esd
		}
		st += 4 * c12U * esd
		for k, got := range []float64{stats.StdDev(xs), s.StdDev()} {
			if !(math.Abs(got-esd) <= st) {
				return kit.Failf("stddev", "%s (%s): standard deviation = %.17g, exact %.17g (allowed %g)", []string{"StdDev", "Sample.StdDev"}[k], desc, got, esd, st)
			}
		}
		if v, sd := stats.Variance(xs), stats.StdDev(xs); math.Abs(sd*sd-v) > 8*c12U*v {
			return kit.Failf("stddev", "StdDev² = %.17g but Variance = %.17g (%s)", sd*sd, v, desc)
		}
		kit.Count("samples with variance checked", 1)
	}
	// geometric mean (positive data)
	allPos := true
	L := 1.0
	for _, x := range xs {
		if x <= 0 {
			allPos = false
		}
		if l := math.Abs(math.Log(x)); l > L {
			L = l
		}
	}
	if allPos {
		// exact test without logarithms: g(1-τ) ≤ (Πx)^(1/n) ≤ g(1+τ)  ⇔  (g(1-τ))^n ≤ Πx ≤ (g(1+τ))^n
		prod := new(big.Float).SetPrec(640).SetInt64(1)
		for _, x := range xs {
			prod.Mul(prod, new(big.Float).SetPrec(640).SetFloat64(x))
		}
		tau := 8*float64(n)*c12U*L + 8*c12U
		for k, g := range []float64{stats.GeoMean(xs), s.GeoMean()} {
			if !(g > 0) || math.IsInf(g, 0) {
				return kit.Failf("geomean", "%s (%s) = %v on positive data", []string{"GeoMean", "Sample.GeoMean"}[k], desc, g)
			}
			pow := func(b float64) *big.Float {
				r := new(big.Float).SetPrec(640).SetInt64(1)
				bb := new(big.Float).SetPrec(640).SetFloat64(b)
				for e := n; e > 0; e >>= 1 {
					if e&1 == 1 {
						r.Mul(r, bb)
					}
					bb.Mul(bb, bb)
				}
				return r
			}
			lo, hi := pow(g*(1-tau)), pow(g*(1+tau))
			if lo.Cmp(prod) > 0 || hi.Cmp(prod) < 0 {
				// measured relative error: (g^n/Π − 1)/n to first order
				q := new(big.Float).SetPrec(640).Quo(pow(g), prod)
				qf, _ := q.Float64()
				return kit.Failf("geomean", "%s (%s) = %.17g: g^n / Πx = %g, relative error ≈ %g, allowed %g", []string{"GeoMean", "Sample.GeoMean"}[k], desc, g, qf, (qf-1)/float64(n), tau)
			}
			q, _ := new(big.Float).SetPrec(640).Quo(pow(g), prod).Float64()
			kit.NoteMax("geomean: worst relative error in units of n·2^-53·max|ln x| (allowed 8)", math.Abs(q-1)/float64(n)/(float64(n)*c12U*L))
		}
		kit.Count("samples with geometric mean checked", 1)
	}
	// bounds: exact
	emin, emax := xs[0], xs[0]
	for _, x := range xs {
		emin, emax = math.Min(emin, x), math.Max(emax, x)
	}
	if lo, hi := stats.Bounds(xs); lo != emin || hi != emax {
		return kit.Failf("bounds", "Bounds (%s) = %v, %v; exact %v, %v", desc, lo, hi, emin, emax)
	}
	if lo, hi := s.Bounds(); lo != emin || hi != emax {
		return kit.Failf("bounds", "Sample.Bounds (%s) = %v, %v; exact %v, %v", desc, lo, hi, emin, emax)
	}
	// percentiles
	sortedF := append([]float64(nil), xs...)
	sort.Float64s(sortedF)
	pt := 8*float64(n+2)*c12U*S + tiny
	noise := 4*c12U*S + tiny
	ps := c12Floats(c.Ps)
	sort.Float64s(ps)
	prev := math.Inf(-1)
	for _, p := range ps {
		got := s.Percentile(p)
		if math.IsNaN(got) || got < emin-noise || got > emax+noise {
			return kit.Failf("percentile-out-of-bounds", "Percentile(%v) (%s) = %.17g outside [%v, %v]", p, desc, got, emin, emax)
		}
		if got < emin || got > emax {
			kit.NoteMax("percentile: worst excursion beyond [min,max] in units of 2^-53·scale (allowed 4)", math.Max(emin-got, got-emax)/(c12U*S))
		}
		if got < prev-noise {
			return kit.Failf("percentile-not-monotone", "Percentile (%s) decreases: at p=%v it is %.17g after %.17g", desc, p, got, prev)
		}
		if got < prev {
			kit.NoteMax("percentile: worst decrease along increasing p in units of 2^-53·scale (allowed 4)", (prev-got)/(c12U*S))
		}
		prev = math.Max(prev, got)
		if p >= 0 && p <= 1 {
			// Inside a run of equal order statistics the percentile IS that
			// value: at the knots on either side of p the definition gives it
			// exactly (no interpolation), so monotonicity in p and the bounds
			// (for a constant sample) leave no room, not even an ulp. The run
			// must cover one order statistic more on each side than the
			// bracket of p, so that a bracket chosen one off by rounding of
			// the position still lies inside it.
			if j := c12R8Index(n, p); true {
				lo, hi := j-2, j+1
				if lo < 0 {
					lo = 0
				}
				if hi > n-1 {
					hi = n - 1
				}
				if lo <= hi && sortedF[lo] == sortedF[hi] {
					kit.Count("percentiles asked inside a run of equal order statistics (must be exact)", 1)
					if got != sortedF[lo] {
						return kit.Failf("percentile-flat-run", "Percentile(%v) (%s) = %.17g, but order statistics #%d..#%d are all %.17g: not monotone against the knots / outside the run", p, desc, got, lo+1, hi+1, sortedF[lo])
					}
				}
			}
			want := c12F64(c12R8(sortedF, p))
			if !(math.Abs(got-want) <= pt) {
				return kit.Failf("percentile-r8", "Percentile(%v) (%s) = %.17g, R8 definition gives %.17g (diff %g, allowed %g)", p, desc, got, want, got-want, pt)
			}
			if S > 0 {
				kit.NoteMax("percentile: worst error in units of (n+2)·2^-53·scale (allowed 8)", math.Abs(got-want)/(float64(n+2)*c12U*S))
			}
		}
	}
	q1, q3 := c12R8(sortedF, 0.25), c12R8(sortedF, 0.75)
	wantIQR := c12F64(q3.Sub(q3, q1))
	if got := s.IQR(); !(math.Abs(got-wantIQR) <= 2*pt) || got < -noise {
		return kit.Failf("iqr", "IQR (%s) = %.17g, exact %.17g (allowed %g)", desc, got, wantIQR, 2*pt)
	}
	return nil
}

func c12DescNonTrivial(c c12Desc) bool {
	if len(c.Xs) < 3 {
		return false
	}
	for _, x := range c.Xs[1:] {
		if x != c.Xs[0] {
			return true
		}
	}
	return false
}

func c12GenDesc(r *kit.Rand, i int) c12Desc {
	var n int
	switch r.Intn(8) {
	case 0:
		n = r.Range(1, 3)
	case 1:
		n = r.Range(100, 300)
	default:
		n = r.Range(2, 40)
	}
	xs := make([]float64, n)
	kind := r.Intn(10)
	mag := r.LogUniform(-6, 6)
	if r.Chance(0.25) {
		mag = r.LogUniform(-300, 300)
	}
	pos := r.Chance(0.5)
	for j := range xs {
		var x float64
		switch kind {
		case 0: // wide magnitudes
			x = r.LogUniform(-300, 300)
			if !pos && r.Bool() {
				x = -x
			}
		case 1: // huge mean, small variance
			x = mag * (1 + r.LogUniform(-12, -3)*r.NormFloat64())
		case 2: // constant
			x = mag
		case 3: // few distinct values (duplicates)
			x = mag * float64(r.Range(1, 4))
		case 4: // moderately wide
			x = mag * r.LogUniform(-8, 8)
			if !pos && r.Bool() {
				x = -x
			}
		case 5: // integers
			x = float64(r.Range(-1000, 1000))
			if pos {
				x = math.Abs(x) + 1
			}
		default:
			x = mag * (1 + 0.5*r.NormFloat64())
			if pos {
				x = math.Abs(x) + mag*1e-3
			}
		}
		if math.Abs(x) > 1e300 {
			x = math.Copysign(1e300, x)
		}
		if x != 0 && math.Abs(x) < 1e-300 { // domain: magnitudes 1e-300…1e300 (see NOTES: subnormal inputs)
			x = math.Copysign(1e-300, x)
		}
		xs[j] = x
	}
	c := c12Desc{Sorted: r.Chance(0.4)}
	if c.Sorted || r.Chance(0.1) { // sorted data with the flag unset is also truthful
		sort.Float64s(xs)
	} else if r.Chance(0.1) {
		sort.Sort(sort.Reverse(sort.Float64Slice(xs)))
	}
	c.Xs = c12Fs(xs)
	np := r.Range(3, 12)
	for j := 0; j < np; j++ {
		var p float64
		switch r.Intn(8) {
		case 0:
			p = kit.Pick(r, []float64{0, 1, 0.25, 0.5, 0.75, 0.05, 0.95, -0.5, 1.5, 1e-12, 1 - 1e-12})
		case 1: // exactly at a knot of the R8 interpolation: p = (k − 1/3)/(n + 1/3)
			p = (float64(r.Range(1, n)) - 1.0/3) / (float64(n) + 1.0/3)
		case 2:
			p = float64(r.Range(0, n)) / float64(n)
		default:
			p = r.Float64()
		}
		c.Ps = append(c.Ps, kit.F(p))
	}
	return c
}

// ---------------------------------------------------------------------------

// c12SelfCheck validates the reference code against closed forms before it is
// used as an oracle; a failure here is a monitor defect, not a finding.
func c12SelfCheck(t *testing.T) {
	for _, x := range []float64{1e-8, 1e-3, 0.1, 0.5, 1, 2.5, 7, 30, 200, 1000} {
		for _, sgn := range []float64{1, -1} {
			x := x * sgn
			if e := math.Abs(c12TCDF(1, x) - (0.5 + math.Atan(x)/math.Pi)); e > 2e-15 {
				t.Fatalf("reference t CDF (dof 1) off by %g at %v", e, x)
			}
			if e := math.Abs(c12TCDF(2, x) - (0.5 + x/(2*math.Sqrt(2+x*x)))); e > 2e-15 {
				t.Fatalf("reference t CDF (dof 2) off by %g at %v", e, x)
			}
			th := math.Atan(x / math.Sqrt(3))
			if e := math.Abs(c12TCDF(3, x) - (0.5 + (th+math.Sin(th)*math.Cos(th))/math.Pi)); e > 2e-15 {
				t.Fatalf("reference t CDF (dof 3) off by %g at %v", e, x)
			}
			if x <= 8 && x >= -8 {
				if e := math.Abs(c12NCDF(x) - 0.5*math.Erfc(-x/math.Sqrt2)); e > 2e-15 {
					t.Fatalf("reference normal CDF off by %g at %v", e, x)
				}
			}
		}
	}
	// the asymptotic series of the normalising constant against Lgamma where both are accurate
	for _, v := range []float64{40, 41.5, 60, 100, 333.3} {
		a, _ := math.Lgamma((v + 1) / 2)
		b, _ := math.Lgamma(v / 2)
		if e := math.Abs(c12TLogNorm(v) - (a - b - 0.5*math.Log(v*math.Pi))); e > 5e-14 {
			t.Fatalf("reference t normalisation off by %g at dof %v", e, v)
		}
	}
	// large dof: the t distribution function approaches the normal one, error O(1/v)
	for _, x := range []float64{0.3, 1, 2.2} {
		if e := math.Abs(c12TCDF(1e5, x) - c12NCDF(x)); e > 3e-6 {
			t.Fatalf("reference t CDF (dof 1e5) is %g from the normal at %v", e, x)
		}
	}
}

func TestVerifC12(t *testing.T) {
	c12SelfCheck(t)
	kit.Run(t, "C12",
		kit.Class[c12TPoint]{
			Name: "t-grid", Enum: c12EnumTGrid, Check: c12CheckTPoint, MinNonTrivial: 2000,
			Rule: "dof in {1,2,3,5,10,30,100,1e3,1e4,1e5, 1.5,2.5,7.3,47.9,31622.7,99999.5} × x on a signed logarithmic grid 1e-8…1e3 (8 / 64 points per decade) and 0; every case counts",
		},
		kit.Class[c12TPoint]{
			Name: "t-random", Quick: 40000, Thorough: 3000000, MinNonTrivial: 30000,
			Gen:   func(r *kit.Rand, i int) c12TPoint { return c12TPoint{kit.F(c12GenDof(r)), kit.F(c12GenX(r))} },
			Check: c12CheckTPoint,
			Rule:  "dof from the list, integers 1..600, non-integers 1..31, log-uniform 1..1e5; x signed, log-uniform 1e-8..1e3 and concentrated in ±6; every case counts",
		},
		kit.Class[c12TInv]{
			Name: "t-inverse", Quick: 6000, Thorough: 300000, MinNonTrivial: 5000,
			Gen:   func(r *kit.Rand, i int) c12TInv { return c12TInv{kit.F(c12GenDof(r)), kit.F(c12GenP(r))} },
			Check: c12CheckTInv,
			Rule:  "dof as above; p in (0,1): fixed levels 1e-12…0.5 and complements, log-uniform tails, uniform, and values within 1e-9…1 of the median; every case counts",
		},
		kit.Class[c12Norm]{
			Name: "normal", Quick: 60000, Thorough: 3000000, Gen: c12GenNorm, Check: c12CheckNorm, MinNonTrivial: 40000,
			Rule: "standard and general normal (sigma 1e-6…1e6, |mu|/sigma ≤ 1e3); x = mu ± sigma·z with |z| up to 35; inverse at p in (0,1) incl. 1e-12 and 1−1e-12; every case counts",
		},
		kit.Class[c12TT]{
			Name: "t-tests", Quick: 40000, Thorough: 1000000, Gen: c12GenTT, Check: c12CheckTT, NonTrivial: c12TTNonTrivial, MinNonTrivial: 20000,
			Rule: "Welch / pooled / paired / one-sample in rotation, all three alternatives each; sample sizes 0-2 (10%), 2-4, 3-40, 100-300; means and spreads over 9 decades, unequal variances, integer data, constant samples, constant paired differences, identical samples; non-trivial = adequately sized and not constant (a textbook statistic exists)",
		},
		kit.Class[c12Desc]{
			Name: "descriptive", Quick: 40000, Thorough: 1000000, Gen: c12GenDesc, Check: c12CheckDesc, NonTrivial: c12DescNonTrivial, MinNonTrivial: 20000,
			Rule: "samples of 1-300 values: magnitudes 1e-300…1e300, huge mean with small variance, constants, duplicates, integers, positive-only or mixed sign; sorted with the flag set, sorted/reversed/unsorted with the flag clear; 3-12 percentile arguments incl. 0, 1, outside [0,1], knots of the R8 rule; non-trivial = at least 3 values, not all equal",
		},
	)
}
