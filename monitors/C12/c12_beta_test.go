//go:build verif

package stats

// C12, part 3 (in-package, because the regularized incomplete beta function is
// not exported): I_x(a,b) + I_{1-x}(b,a) = 1 and convergence for the
// parameters that degrees of freedom 1…1e5 produce, (a,b) = (V/2, 1/2) and
// (1/2, V/2). Nothing but mathBetaInc is touched.

import (
	"math"
	"testing"

	kit "golang.org/x/perf/internal/verifkit"
)

type c12Beta struct {
	V kit.F // degrees of freedom
	X kit.F // argument in [0.5, 1]; its complement 1-X is exact in float64
}

func c12bCheck(c c12Beta) *kit.Fail {
	v, x := float64(c.V), float64(c.X)
	if !(x >= 0.5 && x <= 1) || !(v >= 1 && v <= 1e5) {
		return nil
	}
	y := 1 - x // exact (Sterbenz)
	a, b := v/2, 0.5
	type pair struct{ x, a, b float64 }
	for _, p := range []pair{{x, a, b}, {y, a, b}, {x, b, a}, {y, b, a}} {
		i1 := mathBetaInc(p.x, p.a, p.b)   // a panic here is reported by the kit as "panic"
		i2 := mathBetaInc(1-p.x, p.b, p.a) // 1-p.x is exact for both x and y
		for _, i := range []float64{i1, i2} {
			if math.IsNaN(i) || i < -1e-15 || i > 1+1e-15 {
				return kit.Failf("beta-range", "I_%v(%v,%v) = %v / I_%v(%v,%v) = %v", p.x, p.a, p.b, i1, 1-p.x, p.b, p.a, i2)
			}
		}
		e := math.Abs(i1 + i2 - 1)
		// Both sides evaluate the same continued fraction; their prefactors
		// exp(lnΓ(a+b) − lnΓ(a) − lnΓ(b) + …) associate the three log-gammas
		// differently, and one of the orders rounds an intermediate of the
		// size of lnΓ(a+b) (4.9e5 at V=1e5, ulp 5.8e-11). The asymmetry is
		// therefore bounded by one ulp of lnΓ(a+b) (times a value ≤ 1).
		lg, _ := math.Lgamma(a + b)
		tol := 1e-12 + 2*(math.Nextafter(lg, math.Inf(1))-lg)
		kit.NoteMax("beta: worst |I_x(a,b) + I_(1-x)(b,a) - 1| / (1e-12 + 2 ulp(lnΓ(a+b)))", e/tol)
		if v <= 1000 {
			kit.NoteMax("beta: worst |I_x(a,b) + I_(1-x)(b,a) - 1| for V <= 1000", e)
		}
		kit.NoteMax("beta: worst |I_x(a,b) + I_(1-x)(b,a) - 1| for V <= 1e5", e)
		if e > tol {
			return kit.Failf("beta-symmetry", "I_%v(%v,%v) = %.17g, I_%v(%v,%v) = %.17g, sum-1 = %g", p.x, p.a, p.b, i1, 1-p.x, p.b, p.a, i2, i1+i2-1)
		}
	}
	// endpoints
	if mathBetaInc(0, a, b) != 0 || mathBetaInc(1, a, b) != 1 {
		return kit.Failf("beta-range", "I_0(%v,%v) = %v, I_1 = %v", a, b, mathBetaInc(0, a, b), mathBetaInc(1, a, b))
	}
	return nil
}

func c12bGen(r *kit.Rand, i int) c12Beta {
	var v float64
	switch r.Intn(5) {
	case 0:
		v = kit.Pick(r, []float64{1, 2, 3, 5, 10, 30, 100, 1e3, 1e4, 1e5, 99999.5, 31622.7})
	case 1:
		v = 1 + 30*r.Float64()
	case 2:
		v = float64(r.Range(1, 600))
	case 3:
		v = r.LogUniform(4, 5) // the slowest continued fractions
	default:
		v = r.LogUniform(0, 5)
	}
	var x float64
	switch r.Intn(6) {
	case 0: // the argument the t CDF uses: V/(V+t²)
		t := r.LogUniform(-8, 3)
		x = v / (v + t*t)
	case 1: // near the switch point (a+1)/(a+b+2) of the two continued fractions
		x = 1 - 1.5/(v/2+2.5)*math.Abs(1+0.3*r.NormFloat64()) // 1 - switch = (b+1)/(a+b+2)
	case 2:
		x = (0.5 + 1) / (v/2 + 2.5) * (1 + 1e-3*r.NormFloat64())
	case 3: // around the bulk of the Beta(V/2,1/2) mass: 1 - x ~ 1/V
		x = 1 - r.LogUniform(-2, 1)/v
	case 4:
		x = 1 - r.LogUniform(-16, -0.31)
	default:
		x = r.Float64()
	}
	if !(x >= 0) {
		x = 0
	}
	if x > 1 {
		x = 1
	}
	if x < 0.5 {
		x = 1 - x
	}
	return c12Beta{kit.F(v), kit.F(x)}
}

func TestVerifC12Beta(t *testing.T) {
	kit.Run(t, "C12",
		kit.Class[c12Beta]{
			Name: "beta-symmetry", Quick: 150000, Thorough: 6000000, Gen: c12bGen, Check: c12bCheck, MinNonTrivial: 100000,
			Rule: "dof V in [1,1e5] (list, integers, non-integers, log-uniform with extra weight on 1e4…1e5); x in [0.5,1] with exact complement: the t CDF's own argument V/(V+t²), neighbourhoods of both continued-fraction switch points, 1-x ~ 1/V, 1-x log-uniform down to 1e-16, uniform; each case evaluates I at x and 1-x for (V/2,1/2) and (1/2,V/2); every case counts",
		},
	)
}
