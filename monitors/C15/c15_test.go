//go:build verif

package main

// C15: benchstat's output is a function of its arguments and file contents
// alone, under every schedule, and the parallel computation is race free.
//
// Relational monitor: the same invocation is executed many times in-process
// under different GOMAXPROCS values and hook-driven schedule perturbations
// (internal/verifhook points around the per-cell and per-column goroutines of
// benchtab.ToTables) and every run's stdout/stderr bytes (text and CSV) must
// equal the first run's. A second unit repeats the workload under the Go race
// detector with a perturb-only handler that adds no synchronisation.

import (
	"bytes"
	"fmt"
	"hash/fnv"
	"math"
	"os"
	"path/filepath"
	"reflect"
	"runtime"
	"sort"
	"strconv"
	"strings"
	"sync"
	"sync/atomic"
	"testing"
	"time"

	"golang.org/x/perf/internal/verifhook"
	kit "golang.org/x/perf/internal/verifkit"
	"golang.org/x/perf/internal/verifkit/bsgen"
)

type c15Case struct {
	C     *bsgen.Case
	Runs  int   // re-runs per format
	Procs []int // GOMAXPROCS values to cycle through
}

// c15Fresh rewrites units and confidence so that the process-wide caches
// (benchunit tidy cache, benchmath median-CI cache) have cold entries for this
// case: the first parallel run fills them concurrently.
func c15Fresh(c *bsgen.Case) {
	tag := strconv.FormatUint(c.Seed%1000003, 36)
	ren := map[string]string{
		"widgets/op": "MB/w" + tag,
		"ns/frob":    "ns/f" + tag,
		"allocs/op":  "a" + tag + "-ns/op",
	}
	for fi := range c.Files {
		for li := range c.Files[fi].Lines {
			l := &c.Files[fi].Lines[li]
			if n, ok := ren[l.Unit]; ok && l.K == bsgen.KUnit {
				l.Unit = n
			}
			for vi := range l.Vals {
				if n, ok := ren[l.Vals[vi].U]; ok {
					l.Vals[vi].U = n
				}
			}
		}
	}
	c.Flags.Confidence = 0.80 + float64(c.Seed%190000)/1e6
	// Filters name fixed unit strings; drop .unit terms' stale names by
	// removing the filter when it mentions a renamed unit.
	if c.Flags.Filter != nil && strings.Contains(c.Flags.Filter.String(), ".unit") {
		c.Flags.Filter = nil
	}
}

func c15Gen(r *kit.Rand, i int) c15Case {
	o := bsgen.Opts{MaxFiles: 4, MaxBlocks: 3, MaxBench: 12, MaxRepeat: 12, MaxUnits: 4, Degenerate: true}
	if r.Chance(0.3) {
		o.MaxRepeat = 60
	}
	c := bsgen.Gen(r, o)
	c15Fresh(c)
	if len(c.Files) == 1 && !c.Flags.HasCol && r.Chance(0.6) {
		// NaN / infinite measurements are legal input; cells holding them must
		// still not depend on the order of lines (seeding round 2: a sort that
		// treats NaN as a barrier). Only for single-column invocations: with a
		// second column the comparison of a NaN-bearing sample never returns on
		// the unchanged tree (go-moremath's U test loops forever on NaN and
		// allocates without bound - outside C15's statement, see DESIGN.md §6).
		var lines []*bsgen.Line
		for fi := range c.Files {
			for li := range c.Files[fi].Lines {
				if l := &c.Files[fi].Lines[li]; l.K == bsgen.KBench && len(l.Vals) > 0 {
					lines = append(lines, l)
				}
			}
		}
		for k := r.Range(1, 4); k > 0 && len(lines) > 0; k-- {
			l := kit.Pick(r, lines)
			l.Vals[r.Intn(len(l.Vals))].V = kit.F(kit.Pick(r, []float64{math.NaN(), math.NaN(), math.Inf(1), math.Inf(-1)}))
		}
	}
	runs := 6
	if kit.Thorough() {
		runs = 12
	}
	return c15Case{C: c, Runs: runs, Procs: []int{1, 2, 3, 4, 8, 16}}
}

// ---- hook handlers -------------------------------------------------------

func c15Gid() uint64 {
	var buf [64]byte
	n := runtime.Stack(buf[:], false)
	// "goroutine 123 ["
	s := buf[len("goroutine "):n]
	var id uint64
	for _, ch := range s {
		if ch < '0' || ch > '9' {
			break
		}
		id = id*10 + uint64(ch-'0')
	}
	return id
}

func c15Delay(seed uint64, site string, gid uint64) {
	h := fnv.New64a()
	h.Write([]byte(site))
	x := (h.Sum64() ^ seed*0x9E3779B97F4A7C15 ^ gid*0xBF58476D1CE4E5B9)
	x ^= x >> 29
	x *= 0x94D049BB133111EB
	x ^= x >> 32
	switch x % 5 {
	case 0, 1:
	case 2:
		runtime.Gosched()
	case 3:
		time.Sleep(time.Duration(x>>8%50) * time.Microsecond)
	case 4:
		time.Sleep(time.Duration(x>>8%300) * time.Microsecond)
	}
}

type c15Log struct {
	mu     sync.Mutex
	events []string
	rank   map[uint64]int
}

func (l *c15Log) handler(seed uint64) func(string) {
	return func(site string) {
		gid := c15Gid()
		c15Delay(seed, site, gid)
		l.mu.Lock()
		r, ok := l.rank[gid]
		if !ok {
			r = len(l.rank)
			l.rank[gid] = r
		}
		l.events = append(l.events, strconv.Itoa(r)+site[len("benchtab."):])
		l.mu.Unlock()
	}
}

func (l *c15Log) signature() (uint64, int) {
	h := fnv.New64a()
	for _, e := range l.events {
		h.Write([]byte(e))
		h.Write([]byte{0})
	}
	return h.Sum64(), len(l.events)
}

// ---- running -------------------------------------------------------------

type c15Out struct{ out, err string }

func c15Run(args []string) (c15Out, error) {
	var o, e bytes.Buffer
	err := benchstat(&o, &e, args)
	return c15Out{o.String(), e.String()}, err
}

func c15Write(c *bsgen.Case, dir string, texts []string) []string {
	paths := make([]string, len(c.Files))
	for i := range c.Files {
		if c.Files[i].SameAs >= 0 {
			continue
		}
		paths[i] = filepath.Join(dir, fmt.Sprintf("f%d.txt", i))
		if err := os.WriteFile(paths[i], []byte(texts[i]), 0o644); err != nil {
			panic(err)
		}
	}
	return paths
}

var c15Interleavings sync.Map // case seed -> distinct interleavings seen
var c15AllSigs sync.Map

func c15Diff(a, b string) string {
	la, lb := strings.Split(a, "\n"), strings.Split(b, "\n")
	for i := 0; i < len(la) && i < len(lb); i++ {
		if la[i] != lb[i] {
			return fmt.Sprintf("first difference at line %d:\n  ref: %q\n  got: %q", i+1, la[i], lb[i])
		}
	}
	return fmt.Sprintf("outputs have %d vs %d lines", len(la), len(lb))
}

func c15Check(cs c15Case) *kit.Fail {
	c := cs.C
	dir, err := os.MkdirTemp("/var/tmp", "verif-c15-")
	if err != nil {
		panic(err)
	}
	defer os.RemoveAll(dir)
	texts := make([]string, len(c.Files))
	for i := range c.Files {
		texts[i] = c.Files[i].Text()
	}
	paths := c15Write(c, dir, texts)
	fargs, _ := c.PathArgs(paths)
	oldProcs := runtime.GOMAXPROCS(0)
	defer runtime.GOMAXPROCS(oldProcs)
	defer verifhook.Set(nil)

	sigs := map[uint64]bool{}
	for _, format := range []string{"text", "csv"} {
		args := append([]string{"-format", format}, c.Flags.Args()...)
		args = append(args, fargs...)
		var ref c15Out
		for run := 0; run < cs.Runs+1; run++ {
			// Run 0: parallel and perturbed (cold caches are filled
			// concurrently); run 1: GOMAXPROCS=1 without handler.
			procs := cs.Procs[(run+len(cs.Procs)-1)%len(cs.Procs)]
			if run == 0 {
				procs = 16
			}
			runtime.GOMAXPROCS(procs)
			lg := &c15Log{rank: map[uint64]int{}}
			if run == 1 {
				runtime.GOMAXPROCS(1)
				verifhook.Set(nil)
			} else {
				verifhook.Set(lg.handler(c.Seed + uint64(run)*7919))
			}
			got, err := c15Run(args)
			verifhook.Set(nil)
			if err != nil {
				return kit.Failf("benchstat-error", "benchstat %q: %v", args, err)
			}
			if run != 1 {
				s, n := lg.signature()
				if n > 0 {
					sigs[s] = true
					c15AllSigs.Store(s, true)
				}
				kit.Count("hook_events", int64(n))
			}
			kit.Count("runs", 1)
			kit.Count("runs_gomaxprocs_"+strconv.Itoa(runtime.GOMAXPROCS(0)), 1)
			if run == 0 {
				ref = got
				continue
			}
			if got.out != ref.out {
				return kit.Failf("nondeterministic-stdout", "format %s: run %d (GOMAXPROCS=%d) differs from run 0 (GOMAXPROCS=16): %s\nargs %q", format, run, runtime.GOMAXPROCS(0), c15Diff(ref.out, got.out), args)
			}
			if got.err != ref.err {
				return kit.Failf("nondeterministic-stderr", "format %s: run %d (GOMAXPROCS=%d) stderr differs from run 0: %s\nargs %q", format, run, runtime.GOMAXPROCS(0), c15Diff(ref.err, got.err), args)
			}
		}
	}
	c15Interleavings.Store(c.Seed, len(sigs))
	n := 0
	c15AllSigs.Range(func(_, _ any) bool { n++; return true })
	kit.Note("distinct_interleaving_signatures_total", n)

	// Permuting benchmark lines inside a configuration block must not change
	// the content of any cell. Only claimed when table and column projections
	// do not depend on name-derived keys (their first-observation order, and
	// with it the baseline column, would legitimately follow the lines).
	if c15PermutationClaimed(c) {
		r := kit.NewRand(c.Seed, "perm", 0)
		ptexts := make([]string, len(c.Files))
		for i := range c.Files {
			ptexts[i] = c15PermuteBlocks(&c.Files[i], r)
		}
		pdir, err := os.MkdirTemp("/var/tmp", "verif-c15p-")
		if err != nil {
			panic(err)
		}
		defer os.RemoveAll(pdir)
		ppaths := c15Write(c, pdir, ptexts)
		pfargs, _ := c.PathArgs(ppaths)
		runtime.GOMAXPROCS(8)
		base := append([]string{"-format", "csv"}, c.Flags.Args()...)
		a, err1 := c15Run(append(append([]string{}, base...), fargs...))
		b, err2 := c15Run(append(append([]string{}, base...), pfargs...))
		if err1 != nil || err2 != nil {
			return kit.Failf("benchstat-error", "benchstat: %v / %v", err1, err2)
		}
		ca, ea := c15CellMap(a, dir)
		cb, eb := c15CellMap(b, pdir)
		if ea != nil || eb != nil {
			return kit.Failf("csv-shape", "cannot interpret csv output: %v / %v", ea, eb)
		}
		if !reflect.DeepEqual(ca, cb) {
			var diff []string
			for k, v := range ca {
				if cb[k] != v {
					diff = append(diff, fmt.Sprintf("%s:\n   original: %s\n   permuted: %s", k, v, cb[k]))
				}
			}
			for k, v := range cb {
				if _, ok := ca[k]; !ok {
					diff = append(diff, fmt.Sprintf("%s: only after permutation: %s", k, v))
				}
			}
			sort.Strings(diff)
			if len(diff) > 6 {
				diff = diff[:6]
			}
			return kit.Failf("permutation-changes-cell", "permuting benchmark lines within configuration blocks changed cell contents:\n%s\nargs %q", strings.Join(diff, "\n"), base)
		}
		kit.Count("permutation_checks", 1)
	}
	return nil
}

func c15PermutationClaimed(c *bsgen.Case) bool {
	table, _, col, _ := c.Flags.Effective()
	for _, its := range [][]bsgen.Item{table, col} {
		for _, it := range its {
			if it.Key == ".name" || it.Key == ".fullname" || strings.HasPrefix(it.Key, "/") {
				return false
			}
		}
	}
	return true
}

// c15PermuteBlocks renders the file with every maximal run of consecutive
// benchmark lines shuffled.
func c15PermuteBlocks(f *bsgen.File, r *kit.Rand) string {
	g := bsgen.File{Label: f.Label, SameAs: f.SameAs}
	lines := append([]bsgen.Line(nil), f.Lines...)
	for i := 0; i < len(lines); {
		if lines[i].K != bsgen.KBench {
			i++
			continue
		}
		j := i
		for j < len(lines) && lines[j].K == bsgen.KBench {
			j++
		}
		kit.Shuffle(r, lines[i:j])
		i = j
	}
	g.Lines = lines
	return g.Text()
}

// c15CellMap canonicalises a CSV run into (table, row, column) -> content.
func c15CellMap(o c15Out, dir string) (map[string]string, error) {
	// File paths differ between the two directories: normalise.
	out := strings.ReplaceAll(o.out, dir, "DIR")
	p, err := bsgen.ParseCSV(out, o.err)
	if err != nil {
		return nil, err
	}
	m := map[string]string{}
	for _, t := range p.Tables {
		tid := bsgen.ConfigID(t.Config, t.Unit)
		for _, row := range t.Rows {
			for e, cell := range row.Cells {
				if cell == nil {
					continue
				}
				cw := append([]string(nil), cell.CenterWarn...)
				for i, w := range cw {
					if rest, ok := strings.CutPrefix(w, "benchmarks vary in "); ok {
						parts := strings.Split(rest, ", ")
						sort.Strings(parts)
						cw[i] = "benchmarks vary in " + strings.Join(parts, ", ")
					}
				}
				sort.Strings(cw)
				dw := append([]string(nil), cell.DeltaWarn...)
				sort.Strings(dw)
				key := tid + " || " + bsgen.ValueSet(row.Label) + " || " + bsgen.ValueSet(t.Cols[e]...)
				m[key] = fmt.Sprintf("%s|%s|%s|%s|%q|%q", cell.Center, cell.CI, cell.Delta, cell.P, cw, dw)
			}
		}
		// The geomean row is deliberately left out: it is not a cell, it is
		// accumulated over the rows in row order (floating-point summation is
		// not associative, and with infinite centres go-moremath's GeoMean
		// yields +Inf or NaN depending on the order), and the statement allows
		// the order of rows to change. (False alarm corrected: thorough seed 2
		// fired on a column holding an injected +Inf measurement.)
	}
	return m, nil
}

func c15NonTrivial(cs c15Case) bool {
	v, ok := c15Interleavings.Load(cs.C.Seed)
	return ok && v.(int) >= 3
}

func TestVerifC15Determinism(t *testing.T) {
	kit.Run(t, "C15",
		kit.Class[c15Case]{
			Name: "determinism", Quick: 120, Thorough: 2500, Serial: true,
			Gen: c15Gen, Check: c15Check, NonTrivial: c15NonTrivial, MinNonTrivial: 60,
			Rule: "benchstat inputs as in C14 scaled up (<=12 benchmarks, sample sizes up to ~700, fresh ns/MB-bearing unit names and a fresh confidence per case so process-wide caches are cold); each case is run 1+Runs times per format (text, csv): run 0 at GOMAXPROCS=16 with hook perturbation, run 1 at GOMAXPROCS=1 without, the rest cycling GOMAXPROCS 1,2,3,4,8,16 with different perturbation seeds; all bytes must equal run 0; plus one line-permutation comparison of CSV cell maps; non-trivial = the case's runs showed >= 3 distinct goroutine interleaving signatures (order of begin/end hook events by goroutine rank)",
		},
	)
}

// ---- race unit -----------------------------------------------------------

var c15RaceSink atomic.Int64

func c15RaceCheck(cs c15Case) *kit.Fail {
	c := cs.C
	dir, err := os.MkdirTemp("/var/tmp", "verif-c15r-")
	if err != nil {
		panic(err)
	}
	defer os.RemoveAll(dir)
	texts := make([]string, len(c.Files))
	for i := range c.Files {
		texts[i] = c.Files[i].Text()
	}
	paths := c15Write(c, dir, texts)
	fargs, _ := c.PathArgs(paths)
	oldProcs := runtime.GOMAXPROCS(0)
	defer runtime.GOMAXPROCS(oldProcs)
	defer verifhook.Set(nil)
	var ref [2]c15Out
	for run := 0; run < cs.Runs; run++ {
		runtime.GOMAXPROCS([]int{16, 4, 8, 2}[run%4])
		seed := c.Seed + uint64(run)*104729
		// perturb-only: no shared state, no synchronisation added.
		verifhook.Set(func(site string) { c15Delay(seed, site, c15Gid()) })
		for fi, format := range []string{"text", "csv"} {
			args := append([]string{"-format", format}, c.Flags.Args()...)
			args = append(args, fargs...)
			got, err := c15Run(args)
			if err != nil {
				return kit.Failf("benchstat-error", "benchstat %q: %v", args, err)
			}
			kit.Count("race_runs", 1)
			c15RaceSink.Add(int64(len(got.out)))
			if run == 0 {
				ref[fi] = got
			} else if got != ref[fi] {
				return kit.Failf("nondeterministic-under-race", "format %s run %d differs: %s", format, run, c15Diff(ref[fi].out+ref[fi].err, got.out+got.err))
			}
		}
	}
	return nil
}

func TestVerifC15Race(t *testing.T) {
	kit.Run(t, "C15",
		kit.Class[c15Case]{
			Name: "race", Quick: 60, Thorough: 1000, Serial: true,
			Gen: func(r *kit.Rand, i int) c15Case {
				cs := c15Gen(r, i)
				cs.Runs = 3
				return cs
			},
			Check: c15RaceCheck, MinNonTrivial: 40,
			Rule: "the same scaled-up inputs run under the Go race detector (text and csv, GOMAXPROCS 16/4/8, perturb-only hook handler without any shared state); every case has cold cache entries (fresh unit names and confidence); any WARNING: DATA RACE block in the GORACE log is a violation (counted by the driver)",
		},
	)
}
