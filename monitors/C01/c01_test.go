//go:build verif

package benchfmt_test

// C01: a stream of benchmark records written with benchfmt.Writer and read
// back with benchfmt.Reader is the same stream (results in order with name,
// iterations, measurements as written, file configuration; unit metadata),
// for streams parsed from text and for results built or edited through the
// API; internal configuration never reappears as file configuration.
//
// Oracle: a shadow model of what every emitted result visibly carries. For
// text-origin streams the model is the snapshot of the records as they were
// handed to the writer; for API-origin histories it is computed from the
// operations alone (plain maps), never from the Result under test.

import (
	"bytes"
	"fmt"
	"math"
	"sort"
	"strconv"
	"strings"
	"testing"

	"golang.org/x/perf/benchfmt"
	"golang.org/x/perf/benchunit"
	kit "golang.org/x/perf/internal/verifkit"
	"golang.org/x/perf/internal/verifkit/refread"
)

// ---------------------------------------------------------------------------
// Visible state of a record

type c01Meas struct {
	bits uint64 // written value, NaNs canonicalised
	unit string
}

type c01Rec struct {
	isUnit bool
	// result
	name     string
	iters    int
	vals     []c01Meas
	fileCfg  map[string]string
	internal map[string]bool // keys that are internal configuration at this step (expected side only)
	// unit metadata
	unit, origUnit, key, value string
}

func c01Bits(f float64) uint64 {
	if math.IsNaN(f) {
		return 0x7ff8000000000001
	}
	return math.Float64bits(f)
}

func c01SnapResult(r *benchfmt.Result) c01Rec {
	s := c01Rec{name: string(r.Name), iters: r.Iters, fileCfg: map[string]string{}, internal: map[string]bool{}}
	for _, v := range r.Values {
		if v.OrigUnit != "" {
			s.vals = append(s.vals, c01Meas{c01Bits(v.OrigValue), v.OrigUnit})
		} else {
			s.vals = append(s.vals, c01Meas{c01Bits(v.Value), v.Unit})
		}
	}
	for _, c := range r.Config {
		if c.File {
			s.fileCfg[c.Key] = string(c.Value)
		} else {
			s.internal[c.Key] = true
		}
	}
	return s
}

func c01SnapUnit(u *benchfmt.UnitMetadata) c01Rec {
	return c01Rec{isUnit: true, unit: u.Unit, origUnit: u.OrigUnit, key: u.Key, value: u.Value}
}

func c01MapStr(m map[string]string) string {
	keys := make([]string, 0, len(m))
	for k := range m {
		keys = append(keys, k)
	}
	sort.Strings(keys)
	var sb strings.Builder
	sb.WriteByte('{')
	for _, k := range keys {
		fmt.Fprintf(&sb, " %q=%q", k, m[k])
	}
	sb.WriteString(" }")
	return sb.String()
}

func (r c01Rec) String() string {
	if r.isUnit {
		return fmt.Sprintf("unit-metadata unit=%q orig=%q %q=%q", r.unit, r.origUnit, r.key, r.value)
	}
	var vs []string
	for _, v := range r.vals {
		vs = append(vs, fmt.Sprintf("%v(%016x) %q", math.Float64frombits(v.bits), v.bits, v.unit))
	}
	return fmt.Sprintf("result name=%q iters=%d values=[%s] file-config=%s", r.name, r.iters, strings.Join(vs, ", "), c01MapStr(r.fileCfg))
}

// c01ReadBack parses text with the real reader.
func c01ReadBack(text []byte) (recs []c01Rec, fail *kit.Fail) {
	rd := benchfmt.NewReader(bytes.NewReader(text), "written")
	limit := len(text) + 8
	for n := 0; rd.Scan(); n++ {
		if n > limit {
			return nil, kit.Failf("readback-too-many-records", "more than %d records from %d bytes", limit, len(text))
		}
		switch r := rd.Result().(type) {
		case *benchfmt.Result:
			recs = append(recs, c01SnapResult(r))
		case *benchfmt.UnitMetadata:
			recs = append(recs, c01SnapUnit(r))
		case *benchfmt.SyntaxError:
			return nil, kit.Failf("readback-syntax-error", "the writer's output does not parse: %v\noutput:\n%s", r, c01Show(text))
		default:
			return nil, kit.Failf("readback-record-kind", "unexpected record %T", r)
		}
	}
	if err := rd.Err(); err != nil {
		return nil, kit.Failf("readback-io-error", "Err()=%v reading the writer's output", err)
	}
	return recs, nil
}

func c01Show(b []byte) string {
	s := strconv.QuoteToASCII(string(b))
	s = strings.ReplaceAll(s, `\n`, "\\n\n  ")
	if len(s) > 3000 {
		s = s[:3000] + "…"
	}
	return "  " + s
}

// c01Compare compares what was read back (got) with the model (want).
// ignoreCR: leave file-configuration keys whose expected value ends in a
// carriage return out of the comparison (root cause of the recorded finding).
func c01Compare(got, want []c01Rec, ignoreCR bool) (sig, msg string) {
	for i := 0; i < len(got) || i < len(want); i++ {
		if i >= len(got) {
			return "record-missing", fmt.Sprintf("record #%d missing (got %d, want %d); want %v", i, len(got), len(want), want[i])
		}
		if i >= len(want) {
			return "record-extra", fmt.Sprintf("record #%d was never written (got %d, want %d): %v", i, len(got), len(want), got[i])
		}
		g, w := got[i], want[i]
		if g.isUnit != w.isUnit {
			return "record-kind", fmt.Sprintf("record #%d:\n got  %v\n want %v", i, g, w)
		}
		if w.isUnit {
			// (the base-unit name of the record is C04's subject)
			if g.origUnit != w.origUnit || g.key != w.key || g.value != w.value {
				return "unit-metadata", fmt.Sprintf("record #%d:\n got  %v\n want %v", i, g, w)
			}
			continue
		}
		d := ""
		switch {
		case g.name != w.name:
			d = "name"
		case g.iters != w.iters:
			d = "iters"
		case len(g.vals) != len(w.vals):
			d = "values"
		}
		for j := 0; d == "" && j < len(g.vals); j++ {
			if g.vals[j] != w.vals[j] {
				d = "values"
			}
		}
		if d == "" {
			for k := range g.fileCfg {
				if w.internal[k] {
					return "internal-config-leaked", fmt.Sprintf("record #%d: key %q is internal configuration of the written result but was read back as file configuration %q\n got  %v\n want %v", i, k, g.fileCfg[k], g, w)
				}
			}
			for k, wv := range w.fileCfg {
				if ignoreCR && strings.HasSuffix(wv, "\r") {
					continue
				}
				if gv, ok := g.fileCfg[k]; !ok || gv != wv {
					d = "file-config"
				}
			}
			for k := range g.fileCfg {
				if wv, ok := w.fileCfg[k]; ok && ignoreCR && strings.HasSuffix(wv, "\r") {
					continue
				}
				if _, ok := w.fileCfg[k]; !ok {
					d = "file-config"
				}
			}
		}
		if d != "" {
			return d, fmt.Sprintf("record #%d:\n got  %v\n want %v", i, g, w)
		}
	}
	return "", ""
}

// c01Verdict turns a comparison into a failure with a root-cause signature.
func c01Verdict(got, want []c01Rec, written []byte) *kit.Fail {
	sig, msg := c01Compare(got, want, false)
	if sig == "" {
		return nil
	}
	// Known root cause: a file-configuration value ending in CR cannot be
	// carried by the line format. The signature is given only when, with
	// exactly those keys left out, everything else matches.
	sig2, msg2 := c01Compare(got, want, true)
	if sig2 == "" {
		return kit.Failf("cr-terminated-config-value", "%s\nwritten:\n%s", msg, c01Show(written))
	}
	return kit.Failf(sig2, "%s\nwritten:\n%s", msg2, c01Show(written))
}

// c01Events classifies what happens between consecutive results of a stream.
type c01Events struct{ del, readd, change, flipFI, flipIF, results int }

func (e c01Events) nonTrivial() bool {
	return e.del+e.readd+e.change+e.flipFI+e.flipIF > 0
}

type c01State map[string]struct {
	v    string
	file bool
}

func c01Classify(states []c01State) c01Events {
	var ev c01Events
	ever := map[string]bool{}
	var prev c01State
	for _, s := range states {
		ev.results++
		if prev != nil {
			for k, p := range prev {
				c, ok := s[k]
				switch {
				case !ok:
					ev.del++
				case p.file && !c.file:
					ev.flipFI++
				case !p.file && c.file:
					ev.flipIF++
				case p.v != c.v:
					ev.change++
				}
			}
			for k := range s {
				if _, ok := prev[k]; !ok && ever[k] {
					ev.readd++
				}
			}
		}
		for k := range s {
			ever[k] = true
		}
		prev = s
	}
	return ev
}

func c01CountEvents(prefix string, ev c01Events) {
	kit.Count(prefix+"results written and read back", int64(ev.results))
	kit.Count(prefix+"key deletions between results", int64(ev.del))
	kit.Count(prefix+"key re-adds after deletion", int64(ev.readd))
	kit.Count(prefix+"value changes between results", int64(ev.change))
	kit.Count(prefix+"flips file->internal", int64(ev.flipFI))
	kit.Count(prefix+"flips internal->file", int64(ev.flipIF))
}

// ---------------------------------------------------------------------------
// Class A: text-origin streams

type c01TextCase struct {
	Text kit.B
}

func c01CheckText(c c01TextCase) *kit.Fail {
	text := string(c.Text)
	rd := benchfmt.NewReader(strings.NewReader(text), "in")
	var out bytes.Buffer
	w := benchfmt.NewWriter(&out)
	var want []c01Rec
	var states []c01State
	limit := len(text) + 8
	for n := 0; rd.Scan(); n++ {
		if n > limit {
			return kit.Failf("too-many-records", "more than %d records from %d bytes", limit, len(text))
		}
		rec := rd.Result()
		switch r := rec.(type) {
		case *benchfmt.Result:
			s := c01SnapResult(r)
			want = append(want, s)
			st := c01State{}
			for k, v := range s.fileCfg {
				st[k] = struct {
					v    string
					file bool
				}{v, true}
			}
			states = append(states, st)
		case *benchfmt.UnitMetadata:
			want = append(want, c01SnapUnit(r))
		}
		// streaming, as cmd/benchfilter does: the reader's reused result goes
		// straight to the writer (syntax errors included; the writer skips them)
		if err := w.Write(rec); err != nil {
			return kit.Failf("write-error", "Writer.Write(%T)=%v", rec, err)
		}
	}
	if rd.Err() != nil {
		return nil // over-long line: not a stream (C02's subject)
	}
	written := out.Bytes()
	got, f := c01ReadBack(written)
	if f != nil {
		return f
	}
	if f := c01Verdict(got, want, written); f != nil {
		return f
	}
	c01CountEvents("text: ", c01Classify(states))
	return nil
}

func c01TextStates(text string) []c01State {
	out := refread.New().Read("x", text, refread.Options{StopAtTooLong: true})
	var states []c01State
	for _, r := range out.Records {
		if r.Kind != refread.KindResult {
			continue
		}
		st := c01State{}
		for k, v := range r.Config {
			st[k] = struct {
				v    string
				file bool
			}{v, true}
		}
		states = append(states, st)
	}
	return states
}

func c01TextNonTrivial(c c01TextCase) bool {
	return c01Classify(c01TextStates(string(c.Text))).nonTrivial()
}

// ---------------------------------------------------------------------------
// Class B: API-origin histories

type c01Cfg struct {
	K, V kit.B
	File bool
}

type c01Val struct {
	V    kit.F
	Unit kit.B
	Tidy bool // built through benchunit.Tidy (original pair kept) instead of raw
}

// Op: 0 SetConfig(K,V); 1 SetConfig(K,""); 2 overwrite the value of K in
// place; 3 set the File flag of K in place.
type c01Op struct {
	Op   int
	K, V kit.B
	File bool
}

type c01UnitRec struct{ Unit, Key, Value kit.B }

type c01Step struct {
	Slot  int      // which Result object is written (0..2)
	Fresh bool     // replace the slot by a new struct literal with Config = Lit
	Lit   []c01Cfg // unique keys
	Ops   []c01Op
	Name  kit.B
	Iters int
	Vals  []c01Val
	Unit  *c01UnitRec // a unit-metadata record written before the result
}

type c01APICase struct {
	Steps []c01Step
}

const c01Slots = 3

// c01Shadow computes, from the operations alone, the visible state of every
// record the history writes.
func c01Shadow(c c01APICase) (want []c01Rec, states []c01State) {
	var slots [c01Slots]c01State
	for _, st := range c.Steps {
		if st.Unit != nil {
			tidy, _, _ := refread.TidyUnit(string(st.Unit.Unit))
			want = append(want, c01Rec{isUnit: true, unit: tidy, origUnit: string(st.Unit.Unit), key: string(st.Unit.Key), value: string(st.Unit.Value)})
		}
		s := slots[st.Slot]
		if st.Fresh || s == nil {
			s = c01State{}
			for _, l := range st.Lit {
				s[string(l.K)] = struct {
					v    string
					file bool
				}{string(l.V), l.File}
			}
			slots[st.Slot] = s
		}
		for _, op := range st.Ops {
			k := string(op.K)
			cur, ok := s[k]
			switch op.Op {
			case 0:
				s[k] = struct {
					v    string
					file bool
				}{string(op.V), false}
			case 1:
				delete(s, k)
			case 2:
				if ok {
					cur.v = string(op.V)
					s[k] = cur
				}
			case 3:
				if ok {
					cur.file = op.File
					s[k] = cur
				}
			}
		}
		rec := c01Rec{name: string(st.Name), iters: st.Iters, fileCfg: map[string]string{}, internal: map[string]bool{}}
		snap := c01State{}
		for k, v := range s {
			snap[k] = v
			if v.file {
				rec.fileCfg[k] = v.v
			} else {
				rec.internal[k] = true
			}
		}
		for _, v := range st.Vals {
			rec.vals = append(rec.vals, c01Meas{c01Bits(float64(v.V)), string(v.Unit)})
		}
		want = append(want, rec)
		states = append(states, snap)
	}
	return want, states
}

func c01CheckAPI(c c01APICase) *kit.Fail {
	want, states := c01Shadow(c)
	var out bytes.Buffer
	w := benchfmt.NewWriter(&out)
	var slots [c01Slots]*benchfmt.Result
	for i, st := range c.Steps {
		if st.Unit != nil {
			_, tidy := benchunit.Tidy(1, string(st.Unit.Unit))
			um := &benchfmt.UnitMetadata{UnitMetadataKey: benchfmt.UnitMetadataKey{Unit: tidy, Key: string(st.Unit.Key)}, OrigUnit: string(st.Unit.Unit), Value: string(st.Unit.Value)}
			if err := w.Write(um); err != nil {
				return kit.Failf("write-error", "step %d: Write(unit metadata)=%v", i, err)
			}
		}
		res := slots[st.Slot]
		if st.Fresh || res == nil {
			res = &benchfmt.Result{}
			for _, l := range st.Lit {
				res.Config = append(res.Config, benchfmt.Config{Key: string(l.K), Value: []byte(l.V), File: l.File})
			}
			slots[st.Slot] = res
		}
		for _, op := range st.Ops {
			k := string(op.K)
			switch op.Op {
			case 0:
				res.SetConfig(k, string(op.V))
			case 1:
				res.SetConfig(k, "")
			case 2:
				if idx, ok := res.ConfigIndex(k); ok {
					res.Config[idx].Value = append(res.Config[idx].Value[:0], op.V...)
				}
			case 3:
				if idx, ok := res.ConfigIndex(k); ok {
					res.Config[idx].File = op.File
				}
			}
		}
		res.Name = append(res.Name[:0], st.Name...)
		res.Iters = st.Iters
		res.Values = res.Values[:0]
		for _, v := range st.Vals {
			val, unit := float64(v.V), string(v.Unit)
			bv := benchfmt.Value{Value: val, Unit: unit}
			if v.Tidy {
				if tv, tu := benchunit.Tidy(val, unit); tu != unit {
					bv = benchfmt.Value{Value: tv, Unit: tu, OrigValue: val, OrigUnit: unit}
				}
			}
			res.Values = append(res.Values, bv)
		}
		if err := w.Write(res); err != nil {
			return kit.Failf("write-error", "step %d: Write(result)=%v", i, err)
		}
	}
	written := out.Bytes()
	got, f := c01ReadBack(written)
	if f != nil {
		return f
	}
	if f := c01Verdict(got, want, written); f != nil {
		return f
	}
	c01CountEvents("api: ", c01Classify(states))
	return nil
}

func c01APINonTrivial(c c01APICase) bool {
	_, states := c01Shadow(c)
	return c01Classify(states).nonTrivial()
}

// ---------------------------------------------------------------------------
// Generators

var (
	c01Keys   = []string{"a", "b", "goos", "pkg", "k2", "cpu-x"}
	c01XKeys  = []string{"é", "k\xff", "a.b", "x_y", "k/1", "ǆ", "z="}
	c01Values = []string{"1", "2", "3", "x y", "linux", "a:b", "ünï", "\xff\xfe", "v\t", "z  ", "Benchmark", "#", "=", "k: v", "BenchmarkX 1 1 ns/op", "Unit ns/op a=b", "\u00a0x", "x\rb", "0", "golang.org/x/perf"}
	c01Units  = []string{"ns/op", "MB/s", "B/op", "allocs/op", "sec/op", "B/s", "ns", "MB", "foo", "x-ns/MB", "MB*ns", "ünit", "u\xff", "%", "ns/op/GC", "nsx", "a=b"}
	c01Names  = []string{"X", "Foo/size=4k-16", "Copy-8", "Ünï", "X\xff", "a=b", ":", "", "Unit", "Benchmark", "x/y/z"}
)

func c01Key(r *kit.Rand) string {
	switch x := r.Intn(100); {
	case x < 80:
		return kit.Pick(r, c01Keys)
	case x < 90:
		return "k" + strconv.Itoa(r.Intn(30))
	default:
		if k := kit.Pick(r, c01XKeys); refread.ValidKey(k) {
			return k
		}
		return "a"
	}
}

func c01Value(r *kit.Rand) string {
	switch x := r.Intn(1000); {
	case x < 1 && r.Chance(0.5):
		return kit.Pick(r, []string{"\r", "x\r", "a b\r", "\r\r"}) // cannot round-trip: recorded finding
	case x < 200:
		return r.Bytes(r.Range(1, 5), "abcxyz019") + r.Bytes(r.Range(0, 3), "abc :=\t.")
	default:
		return kit.Pick(r, c01Values)
	}
}

func c01Float(r *kit.Rand) float64 {
	switch r.Intn(15) {
	case 0:
		return 0
	case 14: // exact powers of two and their neighbours over the whole range
		f := math.Ldexp(1, r.Range(-1074, 1023))
		switch r.Intn(4) {
		case 0:
			f = math.Nextafter(f, 0)
		case 1:
			f = math.Nextafter(f, math.Inf(1))
		}
		if r.Bool() {
			f = -f
		}
		return f
	case 1:
		return math.Copysign(0, -1)
	case 2:
		return math.Inf(1)
	case 3:
		return math.Inf(-1)
	case 4:
		return math.NaN()
	case 5:
		return math.Float64frombits(uint64(r.Range(1, 1<<20))) // subnormal
	case 6:
		return float64(r.Range(0, 100000))
	case 7:
		return 1
	case 8:
		for {
			f := math.Float64frombits(r.Uint64())
			if !math.IsNaN(f) {
				return f
			}
		}
	case 9:
		return math.MaxFloat64
	case 10:
		return -r.LogUniform(-5, 12)
	default:
		return r.LogUniform(-9, 15)
	}
}

func c01GenVals(r *kit.Rand) []c01Val {
	n := r.Range(1, 4)
	vs := make([]c01Val, n)
	for i := range vs {
		vs[i] = c01Val{V: kit.F(c01Float(r)), Unit: kit.B(kit.Pick(r, c01Units)), Tidy: r.Bool()}
	}
	return vs
}

func c01GenAPI(r *kit.Rand, i int) c01APICase {
	n := r.Range(1, 40)
	if r.Chance(0.3) {
		n = r.Range(2, 8)
	}
	nslots := r.Range(1, c01Slots)
	// generator-side view of which keys each slot holds (only to aim operations)
	var have [c01Slots][]string
	// last value the generator assigned to a key of a slot (aiming aid only)
	var cur [c01Slots]map[string]string
	var c c01APICase
	for s := 0; s < n; s++ {
		st := c01Step{Slot: r.Intn(nslots), Name: kit.B(kit.Pick(r, c01Names)), Vals: c01GenVals(r)}
		switch r.Intn(6) {
		case 0:
			st.Iters = kit.Pick(r, []int{0, -1, -5, math.MaxInt64, math.MinInt64, 1000000000})
		default:
			st.Iters = r.Range(1, 5000)
		}
		if have[st.Slot] == nil || r.Chance(0.12) {
			st.Fresh = true
			used := map[string]bool{}
			have[st.Slot] = []string{}
			for j, m := 0, r.Range(0, 6); j < m; j++ {
				k := c01Key(r)
				if used[k] {
					continue
				}
				used[k] = true
				st.Lit = append(st.Lit, c01Cfg{K: kit.B(k), V: kit.B(c01Value(r)), File: r.Chance(0.7)})
				have[st.Slot] = append(have[st.Slot], k)
			}
		}
		aim := func() string {
			if h := have[st.Slot]; len(h) > 0 && r.Chance(0.8) {
				return kit.Pick(r, h)
			}
			return c01Key(r)
		}
		nops := r.Range(0, 3)
		if r.Chance(0.1) {
			nops = r.Range(4, 8)
		}
		if cur[st.Slot] == nil || st.Fresh {
			cur[st.Slot] = map[string]string{}
			for _, l := range st.Lit {
				cur[st.Slot][string(l.K)] = string(l.V)
			}
		}
		if h := have[st.Slot]; len(h) >= 2 && r.Chance(0.15) {
			// "grow and shift": key a's value grows by x while its neighbour in
			// first-seen order takes exactly x, both edited in place in the
			// same step (values that spill over into a neighbouring buffer
			// coincide with what the neighbour is supposed to become).
			p := r.Intn(len(h) - 1)
			a, b := h[p], h[p+1]
			if va, ok := cur[st.Slot][a]; ok && a != b {
				x := kit.Pick(r, []string{"2", "3", "x", "12", "0"})
				st.Ops = append(st.Ops, c01Op{Op: 2, K: kit.B(a), V: kit.B(va + x)}, c01Op{Op: 2, K: kit.B(b), V: kit.B(x)})
				cur[st.Slot][a], cur[st.Slot][b] = va+x, x
			}
		}
		for j := 0; j < nops; j++ {
			var op c01Op
			switch x := r.Intn(100); {
			case x < 30: // SetConfig (makes the key internal)
				op = c01Op{Op: 0, K: kit.B(aim()), V: kit.B(c01Value(r))}
				have[st.Slot] = append(have[st.Slot], string(op.K))
			case x < 50: // delete
				op = c01Op{Op: 1, K: kit.B(aim())}
			case x < 70: // in-place value edit
				op = c01Op{Op: 2, K: kit.B(aim()), V: kit.B(c01Value(r))}
			default: // File flag
				op = c01Op{Op: 3, K: kit.B(aim()), File: r.Chance(0.75)}
			}
			st.Ops = append(st.Ops, op)
			switch op.Op {
			case 0, 2:
				cur[st.Slot][string(op.K)] = string(op.V)
			case 1:
				delete(cur[st.Slot], string(op.K))
			}
		}
		if r.Chance(0.1) {
			// unique (unit,key) per case: the key carries the step number
			st.Unit = &c01UnitRec{Unit: kit.B(kit.Pick(r, c01Units)), Key: kit.B(kit.Pick(r, []string{"better", "assume", "k", "é"}) + strconv.Itoa(s)), Value: kit.B(kit.Pick(r, []string{"higher", "lower", "exact", "", "a=b", "\xff"}))}
		}
		c.Steps = append(c.Steps, st)
	}
	return c
}

var c01Nums = []string{"1", "0", "-0", "100", "1.5", "2e3", "1e-9", "+Inf", "-Inf", "NaN", "inf", "0x1p-2", ".5", "5.", "1e+06", "123456789012345678901234567890",
	"9223372036854775807", "4.9e-324", "1.7976931348623157e308", "0.1", "0.30000000000000004", "1e23", "-1e-320", "0x1.fffffffffffffp1023", "00012", "1E5"}

func c01TextLine(r *kit.Rand) string {
	switch x := r.Intn(100); {
	case x < 30: // set
		k := c01Key(r)
		return k + ":" + kit.Pick(r, []string{" ", " ", "\t", "  "}) + c01Value(r)
	case x < 45: // delete
		return c01Key(r) + kit.Pick(r, []string{":", ":", ": ", ":\t"})
	case x < 53: // unit metadata
		return "Unit " + kit.Pick(r, c01Units) + " " + kit.Pick(r, []string{"better", "assume", "k", "é"}) + "=" + kit.Pick(r, []string{"higher", "lower", "exact", "", "a=b", "\xff"}) +
			kit.Pick(r, []string{"", "", " k2=v", " bad", " assume=exact"})
	case x < 92: // benchmark line
		var sb strings.Builder
		sb.WriteString("Benchmark" + kit.Pick(r, c01Names))
		sb.WriteString(kit.Pick(r, []string{" ", " ", "\t", "  ", "\u00a0"}))
		sb.WriteString(kit.Pick(r, []string{"1", "100", "0", "-5", "+3", "12345", "9223372036854775807"}))
		for i, n := 0, r.Range(1, 4); i < n; i++ {
			sb.WriteByte(' ')
			switch {
			case r.Chance(0.4):
				sb.WriteString(strconv.FormatFloat(c01Float(r), 'g', -1, 64))
			case r.Chance(0.3):
				sb.WriteString(strconv.FormatFloat(r.LogUniform(-3, 9), 'f', r.Range(0, 6), 64))
			default:
				sb.WriteString(kit.Pick(r, c01Nums))
			}
			sb.WriteByte(' ')
			sb.WriteString(kit.Pick(r, c01Units))
		}
		if r.Chance(0.04) {
			sb.WriteString(kit.Pick(r, []string{" 5", " x y", " "}))
		}
		return sb.String()
	default:
		return kit.Pick(r, []string{"", "", "PASS", "ok  \tpkg\t0.1s", "Key: v", "a:b", "BenchmarkX", "Benchmark", "Unit", "Unit x", "goos linux", "--- FAIL", "\xff\xfe"})
	}
}

const c01MutAlphabet = "\n\r :=\tBU\xff\xc2\xa0Z0-ek"

func c01GenText(r *kit.Rand, i int) c01TextCase {
	n := r.Range(1, 50)
	var sb strings.Builder
	for l := 0; l < n; l++ {
		sb.WriteString(c01TextLine(r))
		if l == n-1 && r.Chance(0.15) {
			break
		}
		switch x := r.Intn(1000); {
		case x < 900:
			sb.WriteString("\n")
		case x < 998:
			sb.WriteString("\r\n")
		default:
			sb.WriteString("\r\r\n")
		}
	}
	b := []byte(sb.String())
	if r.Chance(0.15) {
		for k := r.Range(1, 3); k > 0 && len(b) > 0; k-- {
			ch := c01MutAlphabet[r.Intn(len(c01MutAlphabet))]
			j := r.Intn(len(b))
			switch r.Intn(3) {
			case 0:
				b = append(b[:j], append([]byte{ch}, b[j:]...)...)
			case 1:
				b[j] = ch
			default:
				b = append(b[:j], b[j+1:]...)
			}
		}
	}
	return c01TextCase{Text: kit.B(b)}
}

var c01EdgeTexts = []string{
	"k2: \r\r\nBenchmarkX 1 1 ns/op\n", // the recorded finding's witness
	"a: 1\nBenchmarkX 1 1 ns/op\na: 2\nBenchmarkX 1 1 ns/op\na:\nBenchmarkX 1 1 ns/op\na: 3\nBenchmarkX 1 1 ns/op\n",
	"a: 1\nb: 2\nBenchmarkX 1 1 x\na:\nb:\nc: 3\nd: 4\nBenchmarkY 1 1 x\n",
	"a: 1\nb: 2\nBenchmarkX 1 1 x\nb: 1\na: 2\nBenchmarkY 1 1 x\n",
	"BenchmarkX 1 0 ns/op -0 ns/op +Inf ns/op -Inf MB/s NaN MB/s 0 MB/s\n",
	"BenchmarkX 1 5 ns/op 5 sec/op 5 ns 5 MB 5 foo\n",
	"Unit ns/op better=lower\nUnit sec/op assume=exact\nUnit MB/s better=higher k=\nBenchmarkX 1 5 ns/op\n",
	"Benchmark 1 2 x\n", "BenchmarkX -5 2 x\n", "BenchmarkX 1 0.1 x 1e23 y 4.9e-324 z 1.7976931348623157e308 w\n",
	"a: x  \nBenchmarkX 1 1 x\n", "a: \u00a0x\nBenchmarkX 1 1 x\n", "a: x\rb\nBenchmarkX 1 1 x\n",
	"a: 1\nBenchmarkX 1 1 x\nUnit x k=v\nBenchmarkY 1 1 x\na: 2\nUnit y k=v\nBenchmarkZ 1 1 x\n",
}

func TestVerifC01(t *testing.T) {
	const rule = "stream written with benchfmt.Writer, output parsed with benchfmt.Reader, compared record by record with the shadow model (name, iterations, measurements as written bit for bit, file-configuration map, unit metadata; no internal key read back); non-trivial = between two consecutive results a key is deleted, re-added after deletion, changes value, or switches between file and internal"
	edges := kit.Class[c01TextCase]{
		Name: "text-edges",
		Enum: func(thorough bool, yield func(c01TextCase)) {
			for _, s := range c01EdgeTexts {
				yield(c01TextCase{Text: kit.B(s)})
			}
		},
		Check: c01CheckText, NonTrivial: c01TextNonTrivial, MinNonTrivial: 3,
		Rule: "hand-written texts (set/change/delete/re-add chains, special values in rescaled and plain units, unit metadata, the recorded CR witness); " + rule,
	}
	text := kit.Class[c01TextCase]{
		Name: "text-origin", Quick: 45000, Thorough: 300000, Gen: c01GenText,
		Check: c01CheckText, NonTrivial: c01TextNonTrivial, MinNonTrivial: 2000,
		Rule: "1-50 lines from a line grammar (config set/delete/re-set over a 6-key pool plus fresh and exotic keys, unit lines, benchmark lines with integers, decimals, exponents, hex, 0, -0, ±Inf, NaN in rescaled and plain units, junk, blank, CRLF, rare CR-terminated values), 15% byte-mutated, read and streamed record by record into the writer; " + rule,
	}
	api := kit.Class[c01APICase]{
		Name: "api-origin", Quick: 45000, Thorough: 300000, Gen: c01GenAPI,
		Check: c01CheckAPI, NonTrivial: c01APINonTrivial, MinNonTrivial: 2500,
		Rule: "histories of 1-40 written results over 1-3 Result objects: fresh struct literals with file and internal keys, SetConfig(k,v), SetConfig(k,\"\"), in-place value edits, File flag flips in both directions, re-adds after deletion, measurements built raw or through benchunit.Tidy, unit-metadata records; " + rule,
	}
	kit.Run(t, "C01", edges, text, api)
}
