//go:build verif

package benchfmt_test

// C03: numbers are read as correctly rounded float64 values and exact integers.
// Oracle: the standard library (strconv.ParseFloat / strconv.Atoi), which the
// statement names. Observation point: Reader records for one-line inputs.

import (
	"fmt"
	"math"
	"math/big"
	"strconv"
	"strings"
	"testing"
	"unicode"

	"golang.org/x/perf/benchfmt"
	kit "golang.org/x/perf/internal/verifkit"
)

type c03Case struct {
	S     kit.B // numeric field text
	Iters bool  // true: field in the iteration position; false: measurement position
}

func c03IsField(s string) bool {
	if s == "" {
		return false
	}
	for _, r := range s {
		if unicode.IsSpace(r) {
			return false
		}
	}
	return !strings.ContainsAny(s, "\n\r")
}

func c03Check(c c03Case) *kit.Fail {
	s := string(c.S)
	if !c03IsField(s) {
		return nil
	}
	var line string
	if c.Iters {
		line = "BenchmarkX " + s + " 1 foo\n"
	} else {
		line = "BenchmarkX 1 " + s + " foo\n"
	}
	rd := benchfmt.NewReader(strings.NewReader(line), "in")
	var recs []benchfmt.Record
	for rd.Scan() {
		switch r := rd.Result().(type) {
		case *benchfmt.Result:
			recs = append(recs, r.Clone())
		default:
			recs = append(recs, r)
		}
		if len(recs) > 4 {
			return kit.Failf("too-many-records", "more than 4 records for one line %q", line)
		}
	}
	if err := rd.Err(); err != nil {
		return kit.Failf("io-error", "Err()=%v on %q", err, line)
	}
	if len(recs) != 1 {
		return kit.Failf("record-count", "%d records for one line %q", len(recs), line)
	}
	res, isRes := recs[0].(*benchfmt.Result)
	_, isErr := recs[0].(*benchfmt.SyntaxError)
	if !isRes && !isErr {
		return kit.Failf("record-kind", "unexpected record %T for %q", recs[0], line)
	}
	if c.Iters {
		want, err := strconv.Atoi(s)
		if err != nil {
			if isRes {
				return kit.Failf("iters-accepted-bad", "strconv.Atoi(%q) fails (%v) but reader produced Iters=%d", s, err, res.Iters)
			}
			return nil
		}
		if !isRes {
			return kit.Failf("iters-rejected-good", "strconv.Atoi(%q)=%d but reader reported %v", s, want, recs[0])
		}
		if res.Iters != want {
			return kit.Failf("iters-wrong", "Iters=%d, strconv.Atoi(%q)=%d", res.Iters, s, want)
		}
		return nil
	}
	want, err := strconv.ParseFloat(s, 64)
	if exact, ok := c03Exact(s); ok {
		// A very long plain decimal: the correctly rounded value is computed
		// exactly. Where the standard parser itself is not correctly rounded
		// (its multiprecision fallback loses the magnitude of integer digits
		// beyond its 800-digit buffer) the statement's two descriptions of
		// the value contradict each other and either value is admitted.
		stdOK := err == nil && math.Float64bits(want) == math.Float64bits(exact)
		stdRange := err != nil && math.IsInf(exact, 0)
		if !stdOK && !stdRange {
			kit.Count("C03 long decimals on which strconv itself is not correctly rounded (either value admitted)", 1)
			if isRes && len(res.Values) == 1 {
				got := res.Values[0].Value
				if math.Float64bits(got) == math.Float64bits(exact) || (err == nil && math.Float64bits(got) == math.Float64bits(want)) {
					return nil
				}
				return kit.Failf("value-wrong-long-mantissa", "got %v, exact value %v, strconv %v (%v) for a text of %d bytes %q", got, exact, want, err, len(s), c03Short(s))
			}
			if !isRes && math.IsInf(exact, 0) {
				return nil
			}
			return kit.Failf("value-rejected-good", "exact value %v (strconv: %v, %v) but reader reported %v for %q", exact, want, err, recs[0], c03Short(s))
		}
		kit.Count("C03 long decimals checked against an exact rational oracle as well", 1)
	}
	if err != nil {
		if isRes {
			return kit.Failf("value-accepted-bad", "strconv.ParseFloat(%q) fails (%v) but reader produced %v", s, err, res.Values)
		}
		return nil
	}
	if !isRes {
		return kit.Failf("value-rejected-good", "strconv.ParseFloat(%q)=%v but reader reported %v", s, want, recs[0])
	}
	// (whether the original pair is kept is C04's subject, not checked here)
	if len(res.Values) != 1 || res.Values[0].Unit != "foo" {
		return kit.Failf("value-shape", "values %+v for %q", res.Values, line)
	}
	got := res.Values[0].Value
	if math.IsNaN(want) {
		if !math.IsNaN(got) {
			return kit.Failf("value-wrong", "got %v want NaN for %q", got, s)
		}
		return nil
	}
	if math.Float64bits(got) != math.Float64bits(want) {
		return kit.Failf("value-wrong", "got %v (%016x) want %v (%016x) for %q", got, math.Float64bits(got), want, math.Float64bits(want), s)
	}
	if res.Iters != 1 || string(res.Name) != "X" {
		return kit.Failf("value-shape", "name/iters %q %d", res.Name, res.Iters)
	}
	return nil
}

func c03NonTrivial(c c03Case) bool {
	s := string(c.S)
	if !c03IsField(s) {
		return false
	}
	if c.Iters {
		_, err := strconv.Atoi(s)
		if err != nil {
			ne, ok := err.(*strconv.NumError)
			return ok && ne.Err == strconv.ErrRange
		}
		return len(s) > 15
	}
	_, err := strconv.ParseFloat(s, 64)
	if err != nil {
		ne, ok := err.(*strconv.NumError)
		return ok && ne.Err == strconv.ErrRange
	}
	plain := len(s) <= 15
	for i := 0; i < len(s) && plain; i++ {
		if s[i] < '0' || s[i] > '9' {
			plain = false
		}
	}
	return !plain
}

// c03Exact returns the correctly rounded float64 of a plain decimal text
// ([+-]digits[.digits][e[+-]digits], no underscores, hex or specials) with at
// least 700 mantissa digits, computed exactly with big.Rat (Rat.Float64 rounds
// once, to nearest even, subnormals included; overflow gives +-Inf).
func c03Exact(s string) (float64, bool) {
	t := s
	if t != "" && (t[0] == '+' || t[0] == '-') {
		t = t[1:]
	}
	digits, dots, i := 0, 0, 0
	for ; i < len(t); i++ {
		switch {
		case t[i] >= '0' && t[i] <= '9':
			digits++
		case t[i] == '.':
			dots++
		default:
			goto exp
		}
	}
exp:
	if digits < 700 || dots > 1 {
		return 0, false
	}
	if i < len(t) {
		if t[i] != 'e' && t[i] != 'E' {
			return 0, false
		}
		e := t[i+1:]
		if e != "" && (e[0] == '+' || e[0] == '-') {
			e = e[1:]
		}
		if e == "" || len(e) > 5 {
			return 0, false
		}
		for _, c := range e {
			if c < '0' || c > '9' {
				return 0, false
			}
		}
	}
	r, ok := new(big.Rat).SetString(s)
	if !ok {
		return 0, false
	}
	f, _ := r.Float64()
	return f, true
}

func c03Short(s string) string {
	if len(s) > 60 {
		return s[:25] + "..." + s[len(s)-30:]
	}
	return s
}

// c03LongMantissa: 700-1700 mantissa digits (dense around the 800-digit
// buffer of the multiprecision parser), with the point absent, at either end
// or anywhere inside, and an exponent that brings the value into (or just
// outside) the float64 range.
func c03LongMantissa(r *kit.Rand) string {
	nd := r.Range(700, 1700)
	if r.Chance(0.6) {
		nd = r.Range(795, 808)
	}
	d := []byte(c03Digits(r, nd))
	if d[0] == '0' && r.Chance(0.8) {
		d[0] = '1' + byte(r.Intn(9))
	}
	if r.Chance(0.2) { // long run of zeros at the end: nothing is truncated
		for k := r.Range(len(d)-40, len(d)-1); k < len(d); k++ {
			d[k] = '0'
		}
	}
	intDigits := nd
	m := string(d)
	switch r.Intn(5) {
	case 0:
		intDigits = r.Range(0, nd)
		m = m[:intDigits] + "." + m[intDigits:]
	case 1:
		m += "."
	case 2:
		intDigits = r.Range(nd-12, nd)
		m = m[:intDigits] + "." + m[intDigits:]
	}
	// decimal exponent of the value is about intDigits+e
	target := r.Range(-330, 312)
	switch r.Intn(6) {
	case 0:
		target = r.Range(-345, -300)
	case 1:
		target = r.Range(300, 312)
	case 2:
		target = r.Range(-3, 25)
	}
	e := target - intDigits
	s := c03Sign(r) + m
	if e != 0 || r.Bool() {
		s += kit.Pick(r, []string{"e", "E"}) + strconv.Itoa(e)
	}
	return s
}

func c03Digits(r *kit.Rand, n int) string {
	return r.Bytes(n, "0123456789")
}

func c03Sign(r *kit.Rand) string {
	switch r.Intn(6) {
	case 0:
		return "+"
	case 1:
		return "-"
	}
	return ""
}

// exactDecimal prints a dyadic big.Float exactly.
func c03ExactDecimal(f *big.Float) string {
	s := f.Text('e', 1100)
	// s = d.ddddde±xx ; strip trailing zeros of the mantissa
	ei := strings.IndexByte(s, 'e')
	m, e := s[:ei], s[ei:]
	m = strings.TrimRight(m, "0")
	m = strings.TrimSuffix(m, ".")
	return m + e
}

// c03Around returns the exact decimal of f and its two neighbours one unit in
// the last printed place below and above.
func c03Around(f *big.Float, which int) string {
	s := c03ExactDecimal(f)
	ei := strings.IndexByte(s, 'e')
	m, e := s[:ei], s[ei:]
	switch which {
	case 0:
		return s
	case 1: // slightly above
		if !strings.Contains(m, ".") {
			m += "."
		}
		return m + "0000001" + e
	default: // slightly below: decrement last digit (non-zero), append 9s
		b := []byte(m)
		last := len(b) - 1
		if b[last] == '.' || b[last] == '0' {
			return s
		}
		b[last]--
		if !strings.Contains(string(b), ".") {
			return string(b) + ".9999999" + e
		}
		return string(b) + "9999999" + e
	}
}

func c03Halfway(r *kit.Rand) string {
	var f float64
	switch r.Intn(4) {
	case 0: // any finite positive float
		for {
			f = math.Float64frombits(r.Uint64() & 0x7fffffffffffffff)
			if !math.IsInf(f, 0) && !math.IsNaN(f) {
				break
			}
		}
	case 1: // moderate magnitude
		f = math.Float64frombits(uint64(r.Range(1023-60, 1023+80))<<52 | r.Uint64()&(1<<52-1))
	case 2: // subnormal
		f = math.Float64frombits(r.Uint64() & (1<<52 - 1) >> uint(r.Intn(52)))
	default: // near the top
		f = math.Float64frombits(uint64(0x7fe)<<52 | r.Uint64()&(1<<52-1))
		if r.Chance(0.3) {
			f = math.MaxFloat64
		}
	}
	var next *big.Float
	bf := new(big.Float).SetPrec(1200).SetFloat64(f)
	if f == math.MaxFloat64 {
		next = new(big.Float).SetPrec(1200).SetMantExp(big.NewFloat(1), 1024)
	} else {
		next = new(big.Float).SetPrec(1200).SetFloat64(math.Nextafter(f, math.Inf(1)))
	}
	mid := new(big.Float).SetPrec(1200).Add(bf, next)
	mid.Quo(mid, big.NewFloat(2))
	s := c03Around(mid, r.Intn(3))
	if r.Chance(0.2) {
		s = "-" + s
	}
	if r.Chance(0.15) {
		s = strings.Replace(s, "e", "E", 1)
	}
	return s
}

var c03Edges = []string{
	"1.7976931348623157e308", "1.7976931348623158e308", "1.7976931348623159e308", "1.797693134862315807e308", "1.797693134862315808e308",
	"1e308", "1e309", "2e308", "-1.8e308", "1e-323", "4.9e-324", "5e-324", "2.4703282292062327e-324", "2.4703282292062328e-324", "2.5e-324", "2.4e-324", "1e-324", "1e-400",
	"2.2250738585072014e-308", "2.2250738585072011e-308", "2.225073858507201e-308", "2.2250738585072012e-308",
	"1e23", "8.41e21", "9007199254740993", "9007199254740992", "9007199254740991", "18014398509481985", "1e22", "1e15", "123456789012345678", "1234567890123456789", "12345678901234567890",
	"0e999999999", "0e-999999999", "1e+4294967296", "1e-4294967296", "1e99999999999999999999", "0.000000000000000000000000000000000000001e400", "100000000000000000000000000000000000000000000e-40",
	"9223372036854775807", "9223372036854775808", "9223372036854775806", "922337203685477580", "922337203685477581", "922337203685477579", "92233720368547758070", "-9223372036854775808", "-9223372036854775809",
	"0", "-0", "+0", "00", "-00", "0.0", ".0", "0.", ".", "+", "-", "e", "e5", "1e", "1e+", "1e-", ".e1", "0x", "0x.", "0x.p1", "0x1", "0x1p", "0x1p0", "0x1p-1074", "0x1p-1075", "0x1.8p-1075", "0x1.0000000000001p-1075", "0x1p1024", "0x1.fffffffffffffp1023", "0x1.fffffffffffff8p1023", "0x1.fffffffffffff7ffffffp1023",
	"0x1.00000000000008p0", "0x1.000000000000080000000000001p0", "0x1.00000000000018p0", "0X1P+2", "0x_1p0", "0x1_0p0", "0x1__0p0", "0x10_p0", "1_000", "1_0.0", "0b101", "0o17", "0b1p1",
	"inf", "Inf", "INF", "+inf", "-inf", "+Inf", "-Infinity", "infinity", "INFINITY", "iNfInItY", "infinit", "in", "i", "infx", "infinityx", "inff", "nan", "NaN", "NAN", "+nan", "-nan", "na", "nane", "nan0",
	"1.", "+1.", "1.e1", "1.0e1", "1e01", "1e+01", "1e-01", "01", "007", "+5", "-5", "--5", "+-5", "5-", "5+", "1e5.5", "1.2.3", "1,5", "１２", "٣", "1 ", "　1",
}

func c03Hex(r *kit.Rand) string {
	var sb strings.Builder
	sb.WriteString(c03Sign(r))
	if r.Chance(0.9) {
		sb.WriteString(kit.Pick(r, []string{"0x", "0X"}))
	}
	hexd := "0123456789abcdefABCDEF"
	us := r.Chance(0.1)
	n := r.Range(0, 4)
	if r.Chance(0.3) {
		n = r.Range(1, 24)
	}
	for i := 0; i < n; i++ {
		sb.WriteByte(hexd[r.Intn(len(hexd))])
		if us && r.Chance(0.3) {
			sb.WriteByte('_')
		}
	}
	if r.Chance(0.7) {
		sb.WriteByte('.')
		m := r.Range(0, 30)
		if r.Chance(0.3) {
			// exactly on or near the 53-bit boundary
			m = 13 + r.Range(0, 3)
		}
		for i := 0; i < m; i++ {
			if r.Chance(0.5) {
				sb.WriteByte("08f7"[r.Intn(4)])
			} else {
				sb.WriteByte(hexd[r.Intn(len(hexd))])
			}
		}
	}
	if r.Chance(0.92) {
		sb.WriteString(kit.Pick(r, []string{"p", "P"}))
		sb.WriteString(c03Sign(r))
		switch r.Intn(4) {
		case 0:
			sb.WriteString(strconv.Itoa(r.Range(1000, 1100)))
		case 1:
			sb.WriteString(c03Digits(r, r.Range(0, 5)))
		default:
			sb.WriteString(strconv.Itoa(r.Range(0, 64)))
		}
	}
	return sb.String()
}

func c03Structured(r *kit.Rand) string {
	var sb strings.Builder
	sb.WriteString(c03Sign(r))
	big := r.Chance(0.15)
	ni := r.Range(0, 20)
	if big {
		ni = r.Range(0, 400)
	}
	if r.Chance(0.2) {
		sb.WriteString(strings.Repeat("0", r.Range(1, 30)))
	}
	sb.WriteString(c03Digits(r, ni))
	if r.Chance(0.7) {
		sb.WriteByte('.')
		nf := r.Range(0, 25)
		if big {
			nf = r.Range(0, 400)
		}
		if r.Chance(0.2) {
			sb.WriteString(strings.Repeat("0", r.Range(1, 40)))
		}
		sb.WriteString(c03Digits(r, nf))
	}
	if r.Chance(0.6) {
		sb.WriteString(kit.Pick(r, []string{"e", "E"}))
		sb.WriteString(c03Sign(r))
		switch r.Intn(5) {
		case 0:
			sb.WriteString(strconv.Itoa(r.Range(280, 420)))
		case 1:
			sb.WriteString(c03Digits(r, r.Range(0, 3)))
		case 2:
			sb.WriteString(c03Digits(r, r.Range(4, 25)))
		default:
			sb.WriteString(strconv.Itoa(r.Range(0, 40)))
		}
	}
	return sb.String()
}

func c03Integer(r *kit.Rand) string {
	var sb strings.Builder
	sb.WriteString(c03Sign(r))
	if r.Chance(0.2) {
		sb.WriteString(strings.Repeat("0", r.Range(1, 25)))
	}
	switch r.Intn(4) {
	case 0:
		sb.WriteString(c03Digits(r, r.Range(1, 25)))
	case 1: // around int64 max and the fast-path guard
		base := new(big.Int)
		base.SetString(kit.Pick(r, []string{"9223372036854775807", "922337203685477580", "922337203685477579", "18446744073709551615", "9223372036854775800", "4611686018427387904"}), 10)
		base.Add(base, big.NewInt(int64(r.Range(-12, 12))))
		if base.Sign() < 0 {
			base.Neg(base)
		}
		sb.WriteString(base.String())
		if r.Chance(0.3) {
			sb.WriteString(c03Digits(r, 1))
		}
	case 2: // 2^53 neighbourhood and beyond (float rounding of integers)
		v := uint64(1)<<uint(r.Range(53, 63)) + uint64(r.Range(0, 8)) - 4
		sb.WriteString(strconv.FormatUint(v, 10))
	default:
		sb.WriteString(c03Digits(r, r.Range(17, 20)))
	}
	if r.Chance(0.05) {
		sb.WriteString(kit.Pick(r, []string{"_", "_0", "e0", ".", ".0", "x"}))
	}
	return sb.String()
}

func c03Special(r *kit.Rand) string {
	words := []string{"inf", "infinity", "nan", "Inf", "Infinity", "NaN", "INF", "INFINITY", "NAN", "iNf", "nAn", "infinit", "infi", "in", "na", "n", "i"}
	s := c03Sign(r) + kit.Pick(r, words)
	if r.Chance(0.3) {
		s += kit.Pick(r, []string{"x", "0", "y", "ity", "f", "n", "_", ".", "e1"})
	}
	if r.Chance(0.1) {
		b := []byte(s)
		i := r.Intn(len(b))
		b[i] ^= 0x20
		s = string(b)
	}
	return s
}

func c03Soup(r *kit.Rand) string {
	return r.Bytes(r.Range(1, 14), "0123456789+-.eExXpP_infaNbcdfIy0011")
}

func c03Underscore(r *kit.Rand) string {
	var s string
	switch r.Intn(3) {
	case 0:
		s = c03Structured(r)
	case 1:
		s = c03Hex(r)
	default:
		s = kit.Pick(r, []string{"0b", "0o", "0x", "0", ""}) + c03Digits(r, r.Range(1, 8))
	}
	b := []byte(s)
	k := r.Range(1, 3)
	for j := 0; j < k; j++ {
		i := r.Intn(len(b) + 1)
		b = append(b[:i], append([]byte{'_'}, b[i:]...)...)
	}
	return string(b)
}

func c03Class(name string, quick, thorough, minNT int, gen func(r *kit.Rand) string) kit.Runner {
	return kit.Class[c03Case]{
		Name: name, Quick: quick, Thorough: thorough,
		Gen: func(r *kit.Rand, i int) c03Case {
			return c03Case{S: kit.B(gen(r)), Iters: i%4 == 3}
		},
		Check:           c03Check,
		NonTrivial:      c03NonTrivial,
		Rule:            "generated numeric field text placed in the measurement (3/4) or iteration (1/4) position of a one-line input; non-trivial = accepted by strconv and not a plain <=15-digit integer, or rejected for range",
		MinNonTrivial:   minNT,
		HangIsViolation: true,
	}
}


// ---------------------------------------------------------------------------
// Sequences: several measurement texts, one per line, read by ONE Reader (and
// across one Reset of it). What a line yields is a function of that line
// alone, so no text - accepted or rejected - may influence a later one.

type c03SeqCase struct {
	Fields []kit.B
	Reset  int // the Reader is Reset to a new input before line Reset (0 = never)
}

func c03SeqCheck(c c03SeqCase) *kit.Fail {
	if len(c.Fields) == 0 {
		return nil
	}
	for _, f := range c.Fields {
		if !c03IsField(string(f)) {
			return nil
		}
	}
	text := func(fs []kit.B) string {
		var sb strings.Builder
		for _, f := range fs {
			sb.WriteString("BenchmarkX 1 " + string(f) + " foo\n")
		}
		return sb.String()
	}
	cut := len(c.Fields)
	if c.Reset > 0 && c.Reset < len(c.Fields) {
		cut = c.Reset
	}
	rd := benchfmt.NewReader(strings.NewReader(text(c.Fields[:cut])), "in")
	i := 0
	drain := func(upTo int) *kit.Fail {
		for rd.Scan() {
			if i >= upTo {
				return kit.Failf("record-count", "more than %d records for %d lines", upTo, upTo)
			}
			s := string(c.Fields[i])
			want, perr := strconv.ParseFloat(s, 64)
			switch r := rd.Result().(type) {
			case *benchfmt.Result:
				if perr != nil {
					return kit.Failf("value-accepted-bad", "line %d of %q: strconv.ParseFloat(%q) fails (%v) but reader produced %v", i+1, c.Fields, s, perr, r.Values)
				}
				if len(r.Values) != 1 || r.Values[0].Unit != "foo" {
					return kit.Failf("value-shape", "line %d of %q: values %+v", i+1, c.Fields, r.Values)
				}
				got := r.Values[0].Value
				if math.IsNaN(want) != math.IsNaN(got) || (!math.IsNaN(want) && math.Float64bits(got) != math.Float64bits(want)) {
					return kit.Failf("value-wrong-in-sequence", "line %d of %q (Reset before line %d): got %v (%016x) want %v (%016x) for %q", i+1, c.Fields, c.Reset, got, math.Float64bits(got), want, math.Float64bits(want), s)
				}
			case *benchfmt.SyntaxError:
				if perr == nil {
					return kit.Failf("value-rejected-good", "line %d of %q: strconv.ParseFloat(%q)=%v but reader reported %v", i+1, c.Fields, s, want, r)
				}
			default:
				return kit.Failf("record-kind", "unexpected record %T", r)
			}
			i++
		}
		if err := rd.Err(); err != nil {
			return kit.Failf("io-error", "Err()=%v", err)
		}
		if i != upTo {
			return kit.Failf("record-count", "%d records for %d lines of %q", i, upTo, c.Fields)
		}
		return nil
	}
	if f := drain(cut); f != nil {
		return f
	}
	if cut < len(c.Fields) {
		rd.Reset(strings.NewReader(text(c.Fields[cut:])), "in2")
		return drain(len(c.Fields))
	}
	return nil
}

func c03SeqGen(r *kit.Rand, i int) c03SeqCase {
	gens := []func(*kit.Rand) string{c03Structured, c03Halfway, c03Hex, c03Underscore, c03Special, c03Integer, c03Soup}
	var c c03SeqCase
	for n := r.Range(2, 8); n > 0; n-- {
		s := kit.Pick(r, gens)(r)
		if r.Chance(0.3) {
			// a near miss: a valid-looking text damaged at one place
			b := []byte(s)
			if len(b) > 0 {
				p := r.Intn(len(b) + 1)
				b = append(b[:p], append([]byte{kit.Pick(r, []byte("x.e-+_9"))}, b[p:]...)...)
			}
			s = string(b)
		}
		c.Fields = append(c.Fields, kit.B(s))
	}
	if r.Chance(0.4) {
		c.Reset = r.Range(1, len(c.Fields)-1)
	}
	return c
}

func c03SeqNonTrivial(c c03SeqCase) bool {
	// a rejected text followed, later, by an accepted one that is not a short plain integer
	bad := false
	for _, f := range c.Fields {
		if !c03IsField(string(f)) {
			return false
		}
		if _, err := strconv.ParseFloat(string(f), 64); err != nil {
			bad = true
		} else if bad && c03NonTrivial(c03Case{S: f}) {
			return true
		}
	}
	return false
}

func TestVerifC03(t *testing.T) {
	edges := kit.Class[c03Case]{
		Name: "edges",
		Enum: func(thorough bool, yield func(c03Case)) {
			for _, s := range c03Edges {
				for _, pre := range []string{"", "+", "-"} {
					yield(c03Case{S: kit.B(pre + s), Iters: false})
					yield(c03Case{S: kit.B(pre + s), Iters: true})
				}
			}
			// every integer length 1..25 of all-nines and 1 followed by zeros
			for n := 1; n <= 25; n++ {
				for _, s := range []string{strings.Repeat("9", n), "1" + strings.Repeat("0", n-1), strings.Repeat("0", n)} {
					yield(c03Case{S: kit.B(s), Iters: false})
					yield(c03Case{S: kit.B(s), Iters: true})
					yield(c03Case{S: kit.B("-" + s), Iters: true})
				}
			}
			// powers of ten over the full range
			for e := -345; e <= 310; e++ {
				yield(c03Case{S: kit.B(fmt.Sprintf("1e%d", e))})
				yield(c03Case{S: kit.B(fmt.Sprintf("9.999999999999999999e%d", e))})
			}
		},
		Check: c03Check, NonTrivial: c03NonTrivial, MinNonTrivial: 500,
		Rule:            "fixed list of hard numeric texts (range edges, subnormal ties, 2^53 neighbours, int64 and fast-path guard edges, underscore/hex/inf/nan spellings and near misses) with each sign, in both positions",
		HangIsViolation: true,
	}
	kit.Run(t, "C03",
		edges,
		c03Class("structured-decimal", 60000, 4000000, 20000, c03Structured),
		c03Class("halfway", 30000, 1500000, 10000, c03Halfway),
		c03Class("hex", 50000, 3000000, 10000, c03Hex),
		c03Class("underscore", 30000, 1500000, 2000, c03Underscore),
		c03Class("inf-nan", 20000, 500000, 40, c03Special),
		c03Class("integer", 80000, 4000000, 20000, c03Integer),
		c03Class("soup", 100000, 5000000, 100, c03Soup),
		c03Class("long-mantissa", 6000, 300000, 3000, c03LongMantissa),
		kit.Class[c03SeqCase]{
			Name: "sequences-one-reader", Quick: 40000, Thorough: 2000000,
			Gen: c03SeqGen, Check: c03SeqCheck, NonTrivial: c03SeqNonTrivial, MinNonTrivial: 5000,
			Rule:            "2-8 measurement texts drawn from all generators above (30% damaged at one place), one per line, read by ONE Reader, 40% with a Reset to a second input in between; every line judged against strconv on its own; non-trivial = a rejected text is followed later by an accepted one that is not a short plain integer",
			HangIsViolation: true,
		},
	)
}
