//go:build verif

package benchunit_test

// C10: scaled numbers keep at least three significant digits, correctly
// rounded; prefix boundaries coincide with mantissa rounding; a common scale is
// the scale of the smallest non-zero magnitude; a unit is binary exactly when
// bytes appear in its numerator; the no-op scale prints the shortest decimal
// that reads back.
//
// Oracle: the printed text is parsed into an exact big.Rat mantissa and an
// exact prefix factor taken from the oracle's own table; all comparisons with
// the thresholds m×F are exact rational comparisons. Nothing of the package
// under test is used except the five exported entry points named by the
// property (Scale, CommonScale, Scaler.Format, ClassOf, NoOpScaler).

import (
	"fmt"
	"math"
	"math/big"
	"strconv"
	"strings"
	"testing"
	"unicode/utf8"

	"golang.org/x/perf/benchunit"
	kit "golang.org/x/perf/internal/verifkit"
)

// ---------------------------------------------------------------------------
// exact tables

func c10Rat(s string) *big.Rat {
	r, ok := new(big.Rat).SetString(s)
	if !ok {
		panic("c10: bad rational " + s)
	}
	return r
}

func c10Pow(base int64, e int) *big.Rat {
	p := new(big.Int).Exp(big.NewInt(base), big.NewInt(int64(c10Abs(e))), nil)
	if e >= 0 {
		return new(big.Rat).SetInt(p)
	}
	return new(big.Rat).SetFrac(big.NewInt(1), p)
}

func c10Abs(i int) int {
	if i < 0 {
		return -i
	}
	return i
}

type c10Prefix struct {
	name string
	f    *big.Rat
}

// The prefixes the package offers per class, largest first (read off
// benchunit/scale.go: T…n for decimal units, Ti…"" for binary units).
var c10Dec = []c10Prefix{
	{"T", c10Pow(10, 12)}, {"G", c10Pow(10, 9)}, {"M", c10Pow(10, 6)}, {"k", c10Pow(10, 3)},
	{"", c10Pow(10, 0)}, {"m", c10Pow(10, -3)}, {"µ", c10Pow(10, -6)}, {"n", c10Pow(10, -9)},
}
var c10Bin = []c10Prefix{
	{"Ti", c10Pow(2, 40)}, {"Gi", c10Pow(2, 30)}, {"Mi", c10Pow(2, 20)}, {"Ki", c10Pow(2, 10)}, {"", c10Pow(2, 0)},
}

// Any standard prefix is understood when parsing (so that accuracy can still
// be judged if a tree offers more prefixes than the tables above).
var c10AllDec = map[string]*big.Rat{
	"Q": c10Pow(10, 30), "R": c10Pow(10, 27), "Y": c10Pow(10, 24), "Z": c10Pow(10, 21), "E": c10Pow(10, 18), "P": c10Pow(10, 15),
	"T": c10Pow(10, 12), "G": c10Pow(10, 9), "M": c10Pow(10, 6), "k": c10Pow(10, 3), "": c10Pow(10, 0),
	"m": c10Pow(10, -3), "µ": c10Pow(10, -6), "n": c10Pow(10, -9), "p": c10Pow(10, -12), "f": c10Pow(10, -15), "a": c10Pow(10, -18),
}
var c10AllBin = map[string]*big.Rat{
	"Yi": c10Pow(2, 80), "Zi": c10Pow(2, 70), "Ei": c10Pow(2, 60), "Pi": c10Pow(2, 50),
	"Ti": c10Pow(2, 40), "Gi": c10Pow(2, 30), "Mi": c10Pow(2, 20), "Ki": c10Pow(2, 10), "": c10Pow(2, 0),
}

var (
	c10M1    = c10Rat("0.99995") // rounds to 1.000
	c10M10   = c10Rat("9.9995")  // rounds to 10.00
	c10M100  = c10Rat("99.995")  // rounds to 100.0
	c10M1000 = c10Rat("999.95")  // rounds to 1000.0
	c10M1024 = c10Rat("1023.95") // rounds to 1024.0
	c10Sub   = c10Rat("0.00000001")
	c10Half  = big.NewRat(1, 2)
)

func c10Mul(a, b *big.Rat) *big.Rat { return new(big.Rat).Mul(a, b) }

func c10Class(binary bool) benchunit.Class {
	if binary {
		return benchunit.Binary
	}
	return benchunit.Decimal
}

func c10Table(binary bool) []c10Prefix {
	if binary {
		return c10Bin
	}
	return c10Dec
}

// zones of the magnitude a = |v|
const (
	c10ZoneZero    = iota
	c10ZoneTiny    // below 1e-8 of the smallest prefix: accuracy only
	c10ZoneSub     // [1e-8·Fmin, 0.99995·Fmin): at least three significant digits
	c10ZoneInRange // a four-digit mantissa in [1,1000) / [1,1024) exists for some prefix
	c10ZoneAbove   // even under the largest prefix the mantissa rounds to 1000.0 / 1024.0 or more
)

func c10Zone(a *big.Rat, binary bool) int {
	if a.Sign() == 0 {
		return c10ZoneZero
	}
	tab := c10Table(binary)
	fmin, fmax := tab[len(tab)-1].f, tab[0].f
	top := c10M1000
	if binary {
		top = c10M1024
	}
	switch {
	case a.Cmp(c10Mul(c10Sub, fmin)) < 0:
		return c10ZoneTiny
	case a.Cmp(c10Mul(c10M1, fmin)) < 0:
		return c10ZoneSub
	case a.Cmp(c10Mul(top, fmax)) < 0:
		return c10ZoneInRange
	}
	return c10ZoneAbove
}

type c10Band struct {
	prefix string
	prec   int
	lower  *big.Rat // exact lower threshold m×F of the band
}

// c10Canonical returns, for an in-range magnitude, the band in which the
// mantissa rounds to four digits inside the range: prefix F and precision with
// a/F in [0.99995,9.9995) -> 3, [9.9995,99.995) -> 2, [99.995, next) -> 1.
func c10Canonical(a *big.Rat, binary bool) c10Band {
	for _, p := range c10Table(binary) {
		switch {
		case a.Cmp(c10Mul(c10M100, p.f)) >= 0:
			return c10Band{p.name, 1, c10Mul(c10M100, p.f)}
		case a.Cmp(c10Mul(c10M10, p.f)) >= 0:
			return c10Band{p.name, 2, c10Mul(c10M10, p.f)}
		case a.Cmp(c10Mul(c10M1, p.f)) >= 0:
			return c10Band{p.name, 3, c10Mul(c10M1, p.f)}
		}
	}
	panic("c10: canonical band of an out-of-range magnitude")
}

func c10LowerThreshold(prefix string, prec int, binary bool) *big.Rat {
	for _, p := range c10Table(binary) {
		if p.name == prefix {
			switch prec {
			case 1:
				return c10Mul(c10M100, p.f)
			case 2:
				return c10Mul(c10M10, p.f)
			case 3:
				return c10Mul(c10M1, p.f)
			}
		}
	}
	return nil
}

// ---------------------------------------------------------------------------
// parsing the printed form

type c10Printed struct {
	neg       bool
	ip, fp    string // integer and fractional digit strings
	prefix    string
	mant      *big.Rat
	factor    *big.Rat
	inClass   bool // prefix is one the class offers according to c10Table
	knownPref bool
}

func c10IsDigits(s string) bool {
	if s == "" {
		return false
	}
	for i := 0; i < len(s); i++ {
		if s[i] < '0' || s[i] > '9' {
			return false
		}
	}
	return true
}

func c10Parse(s string, binary bool) (*c10Printed, bool) {
	p := &c10Printed{}
	rest := s
	if strings.HasPrefix(rest, "-") {
		p.neg = true
		rest = rest[1:]
	}
	i := 0
	for i < len(rest) && rest[i] >= '0' && rest[i] <= '9' {
		i++
	}
	p.ip = rest[:i]
	rest = rest[i:]
	if strings.HasPrefix(rest, ".") {
		rest = rest[1:]
		j := 0
		for j < len(rest) && rest[j] >= '0' && rest[j] <= '9' {
			j++
		}
		p.fp = rest[:j]
		rest = rest[j:]
		if p.fp == "" {
			return nil, false
		}
	}
	if !c10IsDigits(p.ip) {
		return nil, false
	}
	p.prefix = rest
	all := c10AllDec
	if binary {
		all = c10AllBin
	}
	if f, ok := all[p.prefix]; ok {
		p.factor = f
		p.knownPref = true
	}
	for _, q := range c10Table(binary) {
		if q.name == p.prefix {
			p.inClass = true
		}
	}
	txt := p.ip
	if p.fp != "" {
		txt += "." + p.fp
	}
	p.mant = c10Rat(txt)
	return p, true
}

func c10SigDigits(ip, fp string) int {
	return len(strings.TrimLeft(ip+fp, "0"))
}

// c10Ulp returns the distance from q (rounded to float64) to the next float up.
func c10Ulp(q *big.Rat) *big.Rat {
	f, _ := q.Float64()
	f = math.Abs(f)
	if math.IsInf(f, 0) {
		f = math.MaxFloat64
	}
	n := math.Nextafter(f, math.Inf(1))
	if math.IsInf(n, 0) {
		n = f
		f = math.Nextafter(f, 0)
	}
	return new(big.Rat).Sub(new(big.Rat).SetFloat64(n), new(big.Rat).SetFloat64(f))
}

// c10Accuracy checks |mant×F − a| ≤ (½·10^-prec + 2·ulp(a/F))·F.
func c10Accuracy(p *c10Printed, a *big.Rat, what string) *kit.Fail {
	prec := len(p.fp)
	q := new(big.Rat).Quo(a, p.factor)
	errQ := new(big.Rat).Sub(p.mant, q)
	errQ.Abs(errQ)
	half := c10Mul(c10Half, c10Pow(10, -prec))
	slack := c10Mul(big.NewRat(2, 1), c10Ulp(q))
	bound := new(big.Rat).Add(half, slack)
	// evidence: worst error in units of the last printed digit
	if r, _ := new(big.Rat).Quo(errQ, c10Pow(10, -prec)).Float64(); new(big.Rat).Mul(slack, big.NewRat(1000, 1)).Cmp(half) < 0 {
		kit.NoteMax("worst |mantissa - value/factor| in units of the last printed digit, where 2 ulp of the quotient is below 1/2000 of that digit (bound 0.5 + 2ulp)", r)
	}
	if errQ.Cmp(half) > 0 {
		kit.Count("accuracy checks that needed the 2-ulp quotient slack", 1)
	}
	if errQ.Cmp(bound) > 0 {
		ef, _ := errQ.Float64()
		bf, _ := bound.Float64()
		return kit.Failf("inaccurate", "%s: mantissa %s × prefix %q is %g of the prefix away from the value, allowed %g (half a unit of the last digit + 2 ulp of the quotient)", what, p.mant.FloatString(prec), p.prefix, ef, bf)
	}
	return nil
}

// c10CheckScaled judges the text s printed by Scale(v, class).
func c10CheckScaled(v float64, binary bool, s string) *kit.Fail {
	what := fmt.Sprintf("Scale(%v [%016x], %v) = %q", v, math.Float64bits(v), c10Class(binary), s)
	p, ok := c10Parse(s, binary)
	if !ok {
		return kit.Failf("unparseable", "%s: not <sign><digits>.<digits><prefix>", what)
	}
	if !p.knownPref {
		return kit.Failf("prefix-unknown", "%s: prefix %q is not a prefix of this class", what, p.prefix)
	}
	// The sign of a mantissa that prints as all zeros is not specified ("-0.000"
	// and "0.000" are both within half a unit of a tiny negative value): a
	// benign change that drops the minus of a zero mantissa fired here (false
	// alarm corrected, DESIGN.md 9.5).
	zeroMant := p.mant != nil && p.mant.Sign() == 0
	if !zeroMant && (v < 0 && !p.neg || v > 0 && p.neg) {
		return kit.Failf("sign", "%s: sign lost or invented", what)
	}
	if len(p.ip) > 1 && p.ip[0] == '0' {
		return kit.Failf("mantissa-shape", "%s: redundant leading zero", what)
	}
	a := new(big.Rat).SetFloat64(math.Abs(v))
	zone := c10Zone(a, binary)
	switch zone {
	case c10ZoneInRange:
		kit.Count("values with a prefix in range", 1)
		if !p.inClass {
			return kit.Failf("mantissa-shape", "%s: prefix %q not offered by the class", what, p.prefix)
		}
		// digit shape: d.ddd, dd.dd, ddd.d and, for binary units, dddd.d in [1000,1024)
		good := false
		switch len(p.ip) {
		case 1, 2, 3:
			good = p.ip[0] != '0' && len(p.fp) == 4-len(p.ip)
		case 4:
			if binary && len(p.fp) == 1 && p.ip[0] != '0' {
				n, _ := strconv.Atoi(p.ip)
				good = n >= 1000 && n <= 1023
			}
		}
		if !good {
			return kit.Failf("mantissa-shape", "%s: a prefix with a four-digit mantissa in range exists, but the printed mantissa %s.%s is not of that shape", what, p.ip, p.fp)
		}
		// the band must be the one in which the mantissa rounds into the range
		want := c10Canonical(a, binary)
		if want.prefix != p.prefix || want.prec != len(p.fp) {
			ok := false
			// (i) the float that denotes the decimal threshold itself may be
			// treated as the threshold ("999.95 prints as 1.000k") even when its
			// binary value lies a fraction of an ulp below the decimal.
			if lt := c10LowerThreshold(p.prefix, len(p.fp), binary); lt != nil && a.Cmp(lt) < 0 {
				if nf, _ := lt.Float64(); nf == math.Abs(v) {
					ok = true
					kit.Count("threshold floats lying below their decimal, printed in the upper band (accepted)", 1)
				}
			}
			// (ii) binary units: between 0.99995×1024 and 1023.95 of a prefix both
			// "1023.9<P>" and "1.000<next P>" are in range and within half a digit.
			if !ok && binary && len(p.fp) == 1 && want.prec == 3 {
				tab := c10Table(true)
				for i := 1; i < len(tab); i++ {
					if tab[i].name == p.prefix && tab[i-1].name == want.prefix && a.Cmp(c10Mul(c10M1024, tab[i].f)) < 0 {
						ok = true
					}
				}
			}
			if !ok {
				return kit.Failf("band-not-canonical", "%s: prefix/precision (%q,%d) but the mantissa rounds into range with (%q,%d): the prefix boundary does not coincide with the rounding of the mantissa", what, p.prefix, len(p.fp), want.prefix, want.prec)
			}
		}
	case c10ZoneSub:
		kit.Count("values below the smallest prefix (three-digit zone)", 1)
		if n := c10SigDigits(p.ip, p.fp); n < 3 {
			return kit.Failf("too-few-digits", "%s: %d significant digits for a magnitude within 1e-8 of the smallest prefix", what, n)
		}
	case c10ZoneAbove:
		kit.Count("values above the largest prefix (accuracy only)", 1)
	case c10ZoneTiny:
		kit.Count("values below 1e-8 of the smallest prefix (accuracy only)", 1)
	}
	return c10Accuracy(p, a, what)
}

// ---------------------------------------------------------------------------
// class 1-3: single values

type c10Val struct {
	V      kit.F
	Binary bool
}

func c10CheckVal(c c10Val) *kit.Fail {
	v := float64(c.V)
	if math.IsNaN(v) || math.IsInf(v, 0) {
		return nil // the statement is about finite values
	}
	s := benchunit.Scale(v, c10Class(c.Binary))
	if f := c10CheckScaled(v, c.Binary, s); f != nil {
		return f
	}
	// Scale is CommonScale of the one value followed by Format.
	if s2 := benchunit.CommonScale([]float64{v}, c10Class(c.Binary)).Format(v); s2 != s {
		return kit.Failf("scale-vs-commonscale", "Scale(%v)=%q but CommonScale([v]).Format(v)=%q", v, s, s2)
	}
	return nil
}

func c10ValNonTrivial(c c10Val) bool {
	v := float64(c.V)
	if math.IsNaN(v) || math.IsInf(v, 0) || v == 0 {
		return false
	}
	z := c10Zone(new(big.Rat).SetFloat64(math.Abs(v)), c.Binary)
	return z == c10ZoneInRange || z == c10ZoneSub
}

// thresholds m×F around which every float is visited
func c10Centers() []float64 {
	var out []float64
	ms := []string{"0.99995", "9.9995", "99.995", "999.95", "1023.95", "1", "10", "100", "1000", "1024"}
	for _, tab := range [][]c10Prefix{c10Dec, c10Bin} {
		for _, p := range tab {
			for _, m := range ms {
				f, _ := c10Mul(c10Rat(m), p.f).Float64()
				out = append(out, f)
			}
		}
		// below the smallest prefix: the precision thresholds 9.9995e-k and the
		// decades 1e-k down to the end of the three-digit zone
		fmin := tab[len(tab)-1].f
		for k := 1; k <= 8; k++ {
			for _, m := range []string{"9.9995", "1", "9.995", "9.5"} {
				f, _ := c10Mul(c10Mul(c10Rat(m), c10Pow(10, -k)), fmin).Float64()
				out = append(out, f)
			}
		}
	}
	return out
}

func c10Sweep(thorough bool, yield func(c10Val)) {
	n := 64
	if thorough {
		n = 4096
	}
	for _, c := range c10Centers() {
		up, down := c, c
		emit := func(f float64) {
			for _, b := range []bool{false, true} {
				yield(c10Val{kit.F(f), b})
				yield(c10Val{kit.F(-f), b})
			}
		}
		emit(c)
		for i := 0; i < n; i++ {
			up = math.Nextafter(up, math.Inf(1))
			down = math.Nextafter(down, 0)
			emit(up)
			emit(down)
		}
	}
}

func c10GenRandom(r *kit.Rand, i int) c10Val {
	var v float64
	switch r.Intn(10) {
	case 0: // anything finite
		for {
			v = math.Float64frombits(r.Uint64())
			if !math.IsNaN(v) && !math.IsInf(v, 0) {
				break
			}
		}
	case 1: // far above / far below
		if r.Bool() {
			v = r.LogUniform(15, 300)
		} else {
			v = r.LogUniform(-320, -17)
		}
	case 2: // three-digit zone below the smallest prefix
		if r.Bool() {
			v = r.LogUniform(-17.2, -9)
		} else {
			v = r.LogUniform(-8.2, 0)
		}
	default:
		v = r.LogUniform(-30, 20)
	}
	if r.Chance(0.3) {
		v = -v
	}
	return c10Val{kit.F(v), i%2 == 1}
}

// short decimals whose last digit sits exactly on a printing tie, and their
// neighbours: d.ddd5, dd.dd5, ddd.d5 ×10^e and the like.
func c10GenTies(r *kit.Rand, i int) c10Val {
	nd := r.Range(1, 6)
	digs := []byte(r.Bytes(nd, "0123456789"))
	if digs[0] == '0' {
		digs[0] = "123456789"[r.Intn(9)]
	}
	if r.Chance(0.7) {
		digs[nd-1] = '5'
	}
	if r.Chance(0.3) { // all nines in front of the 5
		for j := 0; j < nd-1; j++ {
			digs[j] = '9'
		}
	}
	var v float64
	if i%2 == 1 && r.Chance(0.5) {
		// binary class: the same mantissas times a power of 1024
		m, _ := strconv.ParseFloat(string(digs[:1])+"."+string(digs[1:])+"e"+strconv.Itoa(r.Range(-9, 3)), 64)
		v = math.Ldexp(m, 10*r.Range(0, 5))
	} else {
		v, _ = strconv.ParseFloat(string(digs[:1])+"."+string(digs[1:])+"e"+strconv.Itoa(r.Range(-18, 17)), 64)
	}
	for k := r.Range(-2, 2); k != 0; {
		if k > 0 {
			v = math.Nextafter(v, math.Inf(1))
			k--
		} else {
			v = math.Nextafter(v, 0)
			k++
		}
	}
	if r.Chance(0.3) {
		v = -v
	}
	return c10Val{kit.F(v), i%2 == 1}
}

// ---------------------------------------------------------------------------
// class 4: common scale of a multiset

type c10Multi struct {
	Vals   []kit.F
	Binary bool
	Seed   uint64
}

func c10CheckMulti(c c10Multi) *kit.Fail {
	cls := c10Class(c.Binary)
	vals := make([]float64, len(c.Vals))
	min := 0.0
	for i, f := range c.Vals {
		vals[i] = float64(f)
		if a := math.Abs(vals[i]); a != 0 && (min == 0 || a < min) {
			min = a
		}
	}
	in := append([]float64(nil), vals...)
	sc := benchunit.CommonScale(in, cls)
	// every value, printed with the common scale, is still within half a unit of
	// the last printed digit (whatever the scale is)
	for _, v := range vals {
		s := sc.Format(v)
		p, ok := c10Parse(s, c.Binary)
		if !ok || !p.knownPref {
			return kit.Failf("unparseable", "CommonScale(%v).Format(%v) = %q", vals, v, s)
		}
		if zero := p.mant != nil && p.mant.Sign() == 0; !zero && (v < 0 && !p.neg || v > 0 && p.neg) {
			return kit.Failf("sign", "CommonScale(%v).Format(%v) = %q", vals, v, s)
		}
		if f := c10Accuracy(p, new(big.Rat).SetFloat64(math.Abs(v)), fmt.Sprintf("CommonScale(%v, %v).Format(%v) = %q", vals, cls, v, s)); f != nil {
			return f
		}
	}
	if min == 0 {
		return nil // no non-zero magnitude: the statement does not say which scale
	}
	// the shared scale is the one appropriate to the smallest non-zero magnitude
	want := benchunit.Scale(min, cls)
	if got := sc.Format(min); got != want {
		return kit.Failf("common-scale-not-smallest", "CommonScale(%v, %v) prints the smallest non-zero magnitude %v as %q, alone it prints as %q", vals, cls, min, got, want)
	}
	if f := c10CheckScaled(min, c.Binary, want); f != nil {
		return f
	}
	// ... for every value: all of them carry the prefix and precision of the smallest
	wp, _ := c10Parse(want, c.Binary)
	for _, v := range vals {
		p, _ := c10Parse(sc.Format(v), c.Binary)
		if p.prefix != wp.prefix || len(p.fp) != len(wp.fp) {
			return kit.Failf("common-scale-not-smallest", "CommonScale(%v): %v printed as %q, smallest magnitude as %q", vals, v, sc.Format(v), want)
		}
	}
	// independent of order and sign
	r := kit.NewRand(c.Seed, "c10-multi-perm", 0)
	perm := append([]float64(nil), vals...)
	kit.Shuffle(r, perm)
	for i := range perm {
		if r.Bool() {
			perm[i] = -perm[i]
		}
	}
	if sc2 := benchunit.CommonScale(perm, cls); sc2.Format(min) != want {
		return kit.Failf("common-scale-order", "CommonScale(%v) prints %v as %q, CommonScale(%v) as %q", vals, min, want, perm, sc2.Format(min))
	}
	return nil
}

func c10MultiNonTrivial(c c10Multi) bool {
	// at least two distinct non-zero magnitudes whose own scales differ, and the
	// smallest is not the first element
	first, min, max := 0.0, 0.0, 0.0
	for _, f := range c.Vals {
		a := math.Abs(float64(f))
		if a == 0 || math.IsNaN(a) || math.IsInf(a, 0) {
			continue
		}
		if first == 0 {
			first = a
		}
		if min == 0 || a < min {
			min = a
		}
		if a > max {
			max = a
		}
	}
	return min != 0 && min != first && max >= 10*min
}

func c10GenMulti(r *kit.Rand, i int) c10Multi {
	n := r.Range(0, 8)
	c := c10Multi{Binary: i%2 == 1, Seed: r.Uint64()}
	centre := r.LogUniform(-12, 14)
	spread := float64(r.Range(0, 6))
	for j := 0; j < n; j++ {
		var v float64
		switch r.Intn(8) {
		case 0:
			v = 0
		case 1:
			v = math.Copysign(0, -1)
		case 2:
			if len(c.Vals) > 0 {
				v = float64(c.Vals[r.Intn(len(c.Vals))]) // duplicate
				break
			}
			fallthrough
		default:
			v = centre * r.LogUniform(-spread, spread)
		}
		if r.Chance(0.3) {
			v = -v
		}
		c.Vals = append(c.Vals, kit.F(v))
	}
	return c
}

// ---------------------------------------------------------------------------
// class 5: unit class

type c10Unit struct {
	Seps []kit.B // Seps[i] precedes Toks[i]
	Toks []kit.B
	Tail kit.B // trailing separator text
}

func (c c10Unit) unit() string {
	var sb strings.Builder
	for i := range c.Toks {
		sb.WriteString(string(c.Seps[i]))
		sb.WriteString(string(c.Toks[i]))
	}
	sb.WriteString(string(c.Tail))
	return sb.String()
}

var c10ByteToks = []string{"B", "MB", "bytes"}

// words that are not bytes under any reading (b = bits, dB = decibel, Bq = becquerel)
var c10OtherToks = []string{"ns", "sec", "s", "op", "allocs", "GC", "disk", "net", "x", "%", "µs", "events", "b", "dB", "Bq", "nsx", "xns", "M", "cycles"}

func c10IsByteTok(s string) bool {
	for _, b := range c10ByteToks {
		if s == b {
			return true
		}
	}
	return false
}

// c10BytesInNumerator follows the construction: a component is in the
// denominator when the last of '/' and '*' in the separator text before it (or
// before an earlier component it is hyphenated/blank-joined to) is '/'.
func c10BytesInNumerator(c c10Unit) bool {
	denom := false
	for i := range c.Toks {
		for _, ch := range string(c.Seps[i]) {
			switch ch {
			case '/':
				denom = true
			case '*':
				denom = false
			}
		}
		if !denom && c10IsByteTok(string(c.Toks[i])) {
			return true
		}
	}
	return false
}

// c10IsSpaceRune is the monitor's own table of the Unicode White_Space
// property (Unicode 15, PropList.txt), decided per RUNE. It is only used to
// keep separator characters out of generated words; which of them are
// generated as separators is decided by the generators.
func c10IsSpaceRune(r rune) bool {
	switch {
	case r >= 0x09 && r <= 0x0D, r == 0x20, r == 0x85, r == 0xA0, r == 0x1680,
		r >= 0x2000 && r <= 0x200A, r == 0x2028, r == 0x2029, r == 0x202F, r == 0x205F, r == 0x3000:
		return true
	}
	return false
}

// c10IsComponent: a non-empty, valid UTF-8 word without any separator rune.
func c10IsComponent(s string) bool {
	if s == "" || !utf8.ValidString(s) {
		return false
	}
	for _, r := range s {
		if r == '/' || r == '*' || r == '-' || c10IsSpaceRune(r) {
			return false
		}
	}
	return true
}

func c10CheckUnit(c c10Unit) *kit.Fail {
	if len(c.Seps) != len(c.Toks) {
		return nil
	}
	for i := range c.Toks {
		if !c10IsComponent(string(c.Toks[i])) {
			return nil // not a single component (only the generator's "MiB/" placeholder), skip
		}
	}
	u := c.unit()
	got := benchunit.ClassOf(u)
	want := benchunit.Decimal
	if c10BytesInNumerator(c) {
		want = benchunit.Binary
	}
	if got != want {
		return kit.Failf("unit-class", "ClassOf(%q) = %v, bytes in the numerator: %v", u, got, want == benchunit.Binary)
	}
	return nil
}

func c10UnitNonTrivial(c c10Unit) bool {
	nb := 0
	for _, t := range c.Toks {
		if strings.ContainsAny(string(t), "/*- \t") {
			return false
		}
		if c10IsByteTok(string(t)) {
			nb++
		}
	}
	return nb > 0 && len(c.Toks) > 1
}

func c10PickTok(r *kit.Rand) string {
	if r.Chance(0.35) {
		return kit.Pick(r, c10ByteToks)
	}
	for {
		t := kit.Pick(r, c10OtherToks)
		if !strings.ContainsAny(t, "/*- \t") {
			return t
		}
	}
}

func c10GenUnit(r *kit.Rand, i int) c10Unit {
	n := r.Range(1, 5)
	var c c10Unit
	for j := 0; j < n; j++ {
		sep := ""
		if j > 0 || r.Chance(0.05) {
			switch r.Intn(10) {
			case 0, 1, 2, 3:
				sep = "/"
			case 4, 5:
				sep = "-"
			case 6:
				sep = "*"
			case 7:
				sep = " "
			case 8:
				sep = kit.Pick(r, []string{" / ", " * ", "-/", "/-", "*-", " - ", "\t"})
			default:
				sep = "/"
			}
		}
		c.Seps = append(c.Seps, kit.B(sep))
		c.Toks = append(c.Toks, kit.B(c10PickTok(r)))
	}
	if r.Chance(0.03) {
		c.Tail = kit.B(kit.Pick(r, []string{"/", "-", " ", "*"}))
	}
	return c
}

// --- units with non-ASCII text ----------------------------------------------
//
// "A unit is treated as binary exactly when bytes appear in its numerator ...
// for all unit strings": unit strings are UTF-8 text, so words may hold
// non-ASCII letters (àB is one word and it is not the word B, exactly as dB is
// not) and the blank between components may be any Unicode space character
// (general category Zs: U+0020, U+00A0, U+1680, U+2000..U+200A, U+202F, U+205F,
// U+3000; the C04 quantifier names the separators "'/', '*', '-' and spaces").
// Truth is known by construction, per rune; nothing is tokenised here.

// every character of general category Zs except the ASCII blank
var c10WideSpaces = []string{"\u00a0", "\u1680", "\u2000", "\u2001", "\u2002", "\u2003", "\u2004", "\u2005", "\u2006", "\u2007", "\u2008", "\u2009", "\u200a", "\u202f", "\u205f", "\u3000"}

// letters and symbols that are not white space; several have a UTF-8 form
// holding the bytes 0x85 / 0xA0 (NEL / NBSP when misread as Latin-1) or 0x20..0x2F
var c10Letters = []string{"à", "Å", "†", "…", "堅", "力", "é", "ß", "µ", "Ω", "日", "𝔅", "Ж", "ı", "ꠀ", "𐠅", "\u0120", "\u012f", "\u082a"}

func c10RandLetter(r *kit.Rand) string {
	if r.Chance(0.6) {
		return kit.Pick(r, c10Letters)
	}
	ranges := [][2]rune{{0xC0, 0x24F}, {0x370, 0x3FF}, {0x400, 0x4FF}, {0x4E00, 0x9FFF}, {0xA000, 0xA48C}, {0x1F300, 0x1F5FF}}
	for {
		rg := ranges[r.Intn(len(ranges))]
		ch := rg[0] + rune(r.Intn(int(rg[1]-rg[0])+1))
		if ch == 0xD7 || ch == 0xF7 {
			continue // × and ÷: the statement does not say whether they multiply/divide, not generated
		}
		if !c10IsSpaceRune(ch) && utf8.ValidRune(ch) {
			return string(ch)
		}
	}
}

func c10WideTok(r *kit.Rand) string {
	switch r.Intn(10) {
	case 0, 1, 2:
		return kit.Pick(r, c10ByteToks)
	case 3:
		return c10PickTok(r)
	}
	core := kit.Pick(r, []string{"B", "B", "B", "MB", "bytes", "ns", "b", "sec", "op", ""})
	pre, post := "", ""
	for k := r.Intn(3); k > 0; k-- {
		pre += c10RandLetter(r)
	}
	for k := r.Intn(3); k > 0; k-- {
		post += c10RandLetter(r)
	}
	if pre == "" && post == "" {
		if r.Bool() {
			pre = c10RandLetter(r)
		} else {
			post = c10RandLetter(r)
		}
	}
	return pre + core + post
}

func c10GenWideUnit(r *kit.Rand, i int) c10Unit {
	n := r.Range(1, 5)
	var c c10Unit
	for j := 0; j < n; j++ {
		sep := ""
		if j > 0 || r.Chance(0.05) {
			switch r.Intn(10) {
			case 0, 1, 2:
				sep = "/"
			case 3:
				sep = "-"
			case 4:
				sep = "*"
			case 5, 6, 7:
				sep = kit.Pick(r, c10WideSpaces)
			case 8:
				sep = kit.Pick(r, c10WideSpaces) + kit.Pick(r, []string{"/", "*", "-", " ", ""}) + kit.Pick(r, c10WideSpaces)
			default:
				sep = kit.Pick(r, []string{" ", "\t", "/" + kit.Pick(r, c10WideSpaces), kit.Pick(r, c10WideSpaces) + "*"})
			}
		}
		c.Seps = append(c.Seps, kit.B(sep))
		c.Toks = append(c.Toks, kit.B(c10WideTok(r)))
	}
	if r.Chance(0.05) {
		c.Tail = kit.B(kit.Pick(r, c10WideSpaces))
	}
	return c
}

func c10IsASCII(s string) bool {
	for i := 0; i < len(s); i++ {
		if s[i] >= 0x80 {
			return false
		}
	}
	return true
}

// non-trivial: the class of the unit hinges on non-ASCII text - a bytes word
// that is delimited by a multi-byte space, or a word that holds a bytes word
// next to a non-ASCII letter (so that cutting the letter apart would expose it).
func c10WideNonTrivial(c c10Unit) bool {
	if len(c.Seps) != len(c.Toks) {
		return false
	}
	hit := false
	for i, t := range c.Toks {
		ts := string(t)
		if !c10IsComponent(ts) {
			return false
		}
		if c10IsByteTok(ts) {
			after := string(c.Tail)
			if i+1 < len(c.Seps) {
				after = string(c.Seps[i+1])
			}
			if !c10IsASCII(string(c.Seps[i])) || !c10IsASCII(after) {
				hit = true
			}
		} else if !c10IsASCII(ts) {
			for _, b := range c10ByteToks {
				if strings.HasPrefix(ts, b) || strings.HasSuffix(ts, b) {
					hit = true
				}
			}
		}
	}
	return hit
}

func c10CheckWideUnit(c c10Unit) *kit.Fail {
	if c10WideNonTrivial(c) {
		kit.Count("units whose class hinges on a multi-byte space or on a non-ASCII letter next to a bytes word", 1)
	}
	return c10CheckUnit(c)
}

func c10EnumUnits(thorough bool, yield func(c10Unit)) {
	toks := append(append([]string(nil), c10ByteToks...), "ns", "sec", "op", "disk", "b", "dB", "nsx")
	seps := []string{"/", "-", "*", " "}
	var rec func(c c10Unit, depth int)
	max := 3
	if thorough {
		max = 4
	}
	rec = func(c c10Unit, depth int) {
		if len(c.Toks) > 0 {
			yield(c)
		}
		if depth == max {
			return
		}
		for _, t := range toks {
			if len(c.Toks) == 0 {
				for _, s := range []string{"", "/"} {
					rec(c10Unit{Seps: []kit.B{kit.B(s)}, Toks: []kit.B{kit.B(t)}}, depth+1)
				}
				continue
			}
			for _, s := range seps {
				n := c10Unit{Seps: append(append([]kit.B(nil), c.Seps...), kit.B(s)), Toks: append(append([]kit.B(nil), c.Toks...), kit.B(t))}
				rec(n, depth+1)
			}
		}
	}
	rec(c10Unit{}, 0)
}

// ---------------------------------------------------------------------------
// class 6: the no-op scale

type c10NoOp struct{ V kit.F }

func c10CheckNoOp(c c10NoOp) *kit.Fail {
	v := float64(c.V)
	if math.IsNaN(v) || math.IsInf(v, 0) {
		return nil
	}
	s := benchunit.NoOpScaler.Format(v)
	what := fmt.Sprintf("NoOpScaler.Format(%v [%016x]) = %q", v, math.Float64bits(v), s)
	p, ok := c10Parse(s, false)
	if !ok || p.prefix != "" {
		return kit.Failf("noop-not-decimal", "%s: not a plain decimal", what)
	}
	back, err := strconv.ParseFloat(s, 64)
	if err != nil || math.Float64bits(back) != math.Float64bits(v) {
		return kit.Failf("noop-no-roundtrip", "%s reads back as %v (%v)", what, back, err)
	}
	if len(p.ip) > 1 && p.ip[0] == '0' || strings.HasSuffix(p.fp, "0") {
		return kit.Failf("noop-not-shortest", "%s: redundant zero", what)
	}
	if v == 0 {
		if p.ip != "0" || p.fp != "" {
			return kit.Failf("noop-not-shortest", "%s", what)
		}
		return nil
	}
	// Minimality: with u the unit of the last significant digit printed, no
	// multiple of 10u reads back as v. Only the two multiples adjacent to |v|
	// can (the set of decimals that read back as v is an interval around v).
	var u *big.Rat
	digits := strings.TrimLeft(p.ip+p.fp, "0")
	if p.fp != "" {
		u = c10Pow(10, -len(p.fp))
	} else {
		u = c10Pow(10, len(p.ip)-len(strings.TrimRight(p.ip, "0")))
		digits = strings.TrimRight(digits, "0")
	}
	n := len(digits)
	kit.NoteMax("longest no-op rendering (significant digits)", float64(n))
	if n <= 1 {
		return nil
	}
	a := new(big.Rat).SetFloat64(math.Abs(v))
	u10 := c10Mul(u, big.NewRat(10, 1))
	q := new(big.Rat).Quo(a, u10)
	fl := new(big.Int).Quo(q.Num(), q.Denom())
	lo := c10Mul(new(big.Rat).SetInt(fl), u10)
	hi := new(big.Rat).Add(lo, u10)
	for _, cand := range []*big.Rat{lo, hi} {
		if f, _ := cand.Float64(); f == math.Abs(v) {
			return kit.Failf("noop-not-shortest", "%s: the shorter decimal %s reads back to the same float", what, cand.FloatString(len(p.fp)))
		}
	}
	return nil
}

func c10GenNoOp(r *kit.Rand, i int) c10NoOp {
	var v float64
	switch r.Intn(6) {
	case 0:
		for {
			v = math.Float64frombits(r.Uint64())
			if !math.IsNaN(v) && !math.IsInf(v, 0) {
				break
			}
		}
	case 1: // short decimals
		s := r.Bytes(r.Range(1, 8), "0123456789") + "." + r.Bytes(r.Range(0, 8), "0123456789")
		v, _ = strconv.ParseFloat(s, 64)
	case 2: // integers incl. beyond 2^53
		v = float64(r.Uint64() >> uint(r.Intn(64)))
	case 3: // powers of two and ten and their neighbours
		if r.Bool() {
			v = math.Ldexp(1, r.Range(-1074, 1023))
		} else {
			v, _ = strconv.ParseFloat("1e"+strconv.Itoa(r.Range(-323, 308)), 64)
		}
		for k := r.Range(-2, 2); k != 0; {
			if k > 0 {
				v = math.Nextafter(v, math.Inf(1))
				k--
			} else {
				v = math.Nextafter(v, 0)
				k++
			}
		}
	case 4: // subnormals
		v = math.Float64frombits(r.Uint64() & (1<<52 - 1) >> uint(r.Intn(52)))
	default:
		v = r.LogUniform(-30, 30)
	}
	if r.Chance(0.3) {
		v = -v
	}
	return c10NoOp{kit.F(v)}
}

// ---------------------------------------------------------------------------

func TestVerifC10(t *testing.T) {
	valRule := "one finite float64 and a unit class; printed text parsed into exact mantissa × exact prefix factor; non-trivial = magnitude for which the statement fixes the digit shape (a prefix in range exists, or within 1e-8 of the smallest prefix)"
	kit.Run(t, "C10",
		kit.Class[c10Val]{
			Name: "ulp-sweep", Enum: c10Sweep, Check: c10CheckVal, NonTrivial: c10ValNonTrivial, MinNonTrivial: 60000,
			Rule: "every float within ±64 (quick) / ±4096 (thorough) ulps of m×F for m in {0.99995, 9.9995, 99.995, 999.95, 1023.95, 1, 10, 100, 1000, 1024} and every prefix factor F of both classes, plus the precision thresholds 9.9995e-k, 1e-k, 9.995e-k, 9.5e-k (k=1..8) below the smallest prefix; both signs, both classes. " + valRule,
		},
		kit.Class[c10Val]{
			Name: "random-magnitudes", Quick: 80000, Thorough: 3000000, Gen: c10GenRandom, Check: c10CheckVal, NonTrivial: c10ValNonTrivial, MinNonTrivial: 25000,
			Rule: "log-uniform magnitudes 1e-30..1e20 (60%), the zones below the smallest prefix, far outside values to 1e300 and subnormals, random bit patterns; both signs and classes. " + valRule,
		},
		kit.Class[c10Val]{
			Name: "printing-ties", Quick: 40000, Thorough: 1500000, Gen: c10GenTies, Check: c10CheckVal, NonTrivial: c10ValNonTrivial, MinNonTrivial: 10000,
			Rule: "short decimals (1-6 digits, mostly ending in 5, often 9…95) × 10^e (or × 1024^k for binary) and their ±2 ulp neighbours: values sitting on a tie of the last printed digit. " + valRule,
		},
		kit.Class[c10Multi]{
			Name: "common-scale", Quick: 30000, Thorough: 1000000, Gen: c10GenMulti, Check: c10CheckMulti, NonTrivial: c10MultiNonTrivial, MinNonTrivial: 5000,
			Rule: "multisets of 0-8 values (zeros, -0, duplicates, both signs) spread over up to 12 decades; non-trivial = at least two non-zero magnitudes a decade apart and the smallest not in first position",
		},
		kit.Class[c10Unit]{
			Name: "unit-class-enum", Enum: c10EnumUnits, Check: c10CheckUnit, NonTrivial: c10UnitNonTrivial, MinNonTrivial: 2000,
			Rule: "all units of up to 3 (quick) / 4 (thorough) components over {B, MB, bytes, ns, sec, op, disk, b, dB, nsx} joined by / - * blank, optionally starting with /; non-trivial = a bytes component present and more than one component",
		},
		kit.Class[c10Unit]{
			Name: "unit-class-random", Quick: 30000, Thorough: 500000, Gen: c10GenUnit, Check: c10CheckUnit, NonTrivial: c10UnitNonTrivial, MinNonTrivial: 5000,
			Rule: "1-5 components from a pool of byte words (B, MB, bytes) and non-byte words (incl. b, dB, Bq, nsx, xns) with separators / - * blank tab and combinations; non-trivial as above",
		},
		kit.Class[c10Unit]{
			Name: "unit-class-unicode", Quick: 30000, Thorough: 500000, Gen: c10GenWideUnit, Check: c10CheckWideUnit, NonTrivial: c10WideNonTrivial, MinNonTrivial: 5000,
			Rule: "1-5 components: byte words (B, MB, bytes), ASCII non-byte words, and words made of a core (B, MB, bytes, ns, b, sec, op or nothing) with 1-4 non-ASCII letters/symbols around it (à Å † 堅 … and random runes of several blocks, none of them white space; many with UTF-8 bytes 0x85/0xA0); separators / - * blank tab and every Unicode space character of category Zs (U+00A0, U+1680, U+2000..U+200A, U+202F, U+205F, U+3000), alone and combined; truth by construction per rune. non-trivial = a bytes word delimited by a multi-byte space, or a non-ASCII word that starts or ends with a bytes word",
		},
		kit.Class[c10NoOp]{
			Name: "no-op-scale", Quick: 60000, Thorough: 3000000, Gen: c10GenNoOp, Check: c10CheckNoOp, MinNonTrivial: 30000,
			Rule: "finite floats: random bit patterns, short decimals, integers beyond 2^53, powers of two/ten ±2 ulps, subnormals; output must be a plain decimal that reads back bit-exactly and no decimal with one significant digit fewer may read back to the same float",
		},
	)
}
