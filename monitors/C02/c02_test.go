//go:build verif

package benchfmt_test

// C02: the reader follows the format's line and scoping rules on every input,
// never panics or hangs, cloned results never change, and Files gives every
// result its own file's label, does not leak file configuration between files
// and carries unit metadata across.
//
// Oracle: refread, an independent string-based model (package
// golang.org/x/perf/internal/verifkit/refread). Measurements are compared in
// written form (normalisation is C04's subject); syntax errors by position only.

import (
	"fmt"
	"io"
	"math"
	"os"
	"path/filepath"
	"sort"
	"strconv"
	"strings"
	"testing"

	"golang.org/x/perf/benchfmt"
	kit "golang.org/x/perf/internal/verifkit"
	"golang.org/x/perf/internal/verifkit/refread"
)

// ---------------------------------------------------------------------------
// Snapshots of observable state

type c02Val struct {
	bits uint64 // written value; every NaN is canonicalised
	unit string
}

type c02Rec struct {
	kind refread.Kind
	file string
	line int
	// result
	name    string
	iters   int
	vals    []c02Val
	fileCfg map[string]string
	labels  map[string]string
	dupKey  string // a key that occurs twice in Config ("" if none)
	// unit metadata
	unit, origUnit, key, value string
}

func c02Bits(f float64) uint64 {
	if math.IsNaN(f) {
		return 0x7ff8000000000001
	}
	return math.Float64bits(f)
}

func c02SnapResult(r *benchfmt.Result) c02Rec {
	s := c02Rec{kind: refread.KindResult, name: string(r.Name), iters: r.Iters, fileCfg: map[string]string{}, labels: map[string]string{}}
	s.file, s.line = r.Pos()
	for _, v := range r.Values {
		if v.OrigUnit != "" {
			s.vals = append(s.vals, c02Val{c02Bits(v.OrigValue), v.OrigUnit})
		} else {
			s.vals = append(s.vals, c02Val{c02Bits(v.Value), v.Unit})
		}
	}
	seen := map[string]bool{}
	for _, c := range r.Config {
		if seen[c.Key] {
			s.dupKey = c.Key
		}
		seen[c.Key] = true
		if c.File {
			s.fileCfg[c.Key] = string(c.Value)
		} else {
			s.labels[c.Key] = string(c.Value)
		}
	}
	return s
}

func c02MapEq(a, b map[string]string) bool {
	if len(a) != len(b) {
		return false
	}
	for k, v := range a {
		if w, ok := b[k]; !ok || w != v {
			return false
		}
	}
	return true
}

func c02MapStr(m map[string]string) string {
	keys := make([]string, 0, len(m))
	for k := range m {
		keys = append(keys, k)
	}
	sort.Strings(keys)
	var sb strings.Builder
	sb.WriteByte('{')
	for i, k := range keys {
		if i > 40 {
			fmt.Fprintf(&sb, " …(%d keys)", len(keys))
			break
		}
		fmt.Fprintf(&sb, " %q=%q", k, m[k])
	}
	sb.WriteString(" }")
	return sb.String()
}

func (r c02Rec) String() string {
	switch r.kind {
	case refread.KindResult:
		var vs []string
		for _, v := range r.vals {
			vs = append(vs, fmt.Sprintf("%v(%016x) %q", math.Float64frombits(v.bits), v.bits, v.unit))
		}
		return fmt.Sprintf("result %s:%d name=%q iters=%d values=[%s] file-config=%s labels=%s", r.file, r.line, r.name, r.iters, strings.Join(vs, ", "), c02MapStr(r.fileCfg), c02MapStr(r.labels))
	case refread.KindUnit:
		return fmt.Sprintf("unit-metadata %s:%d unit=%q orig=%q %q=%q", r.file, r.line, r.unit, r.origUnit, r.key, r.value)
	case refread.KindError:
		return fmt.Sprintf("syntax-error %s:%d", r.file, r.line)
	}
	return "?"
}

// c02Diff returns the signature of the first difference between two records.
func c02Diff(got, want c02Rec) string {
	switch {
	case got.kind != want.kind:
		return "record-kind"
	case got.file != want.file || got.line != want.line:
		return "position"
	}
	switch got.kind {
	case refread.KindResult:
		if got.name != want.name {
			return "name"
		}
		if got.iters != want.iters {
			return "iters"
		}
		if len(got.vals) != len(want.vals) {
			return "values"
		}
		for i := range got.vals {
			if got.vals[i] != want.vals[i] {
				return "values"
			}
		}
		if got.dupKey != "" {
			return "config-duplicate-key"
		}
		if !c02MapEq(got.fileCfg, want.fileCfg) {
			return "file-config"
		}
		if !c02MapEq(got.labels, want.labels) {
			return "labels"
		}
	case refread.KindUnit:
		if got.unit != want.unit || got.origUnit != want.origUnit || got.key != want.key || got.value != want.value {
			return "unit-metadata"
		}
	}
	return ""
}

func c02Compare(got, want []c02Rec) *kit.Fail {
	for i := 0; i < len(got) || i < len(want); i++ {
		if i >= len(got) {
			return kit.Failf("record-missing", "record #%d missing (got %d records, want %d); want %v", i, len(got), len(want), want[i])
		}
		if i >= len(want) {
			return kit.Failf("record-extra", "record #%d not prescribed (got %d records, want %d): %v", i, len(got), len(want), got[i])
		}
		if sig := c02Diff(got[i], want[i]); sig != "" {
			return kit.Failf(sig, "record #%d:\n got  %v\n want %v", i, got[i], want[i])
		}
	}
	return nil
}

// c02Want converts model records into expected snapshots.
func c02Want(recs []refread.Record, file string, labels map[string]string) []c02Rec {
	out := make([]c02Rec, 0, len(recs))
	for _, m := range recs {
		w := c02Rec{kind: m.Kind, file: file, line: m.Line}
		switch m.Kind {
		case refread.KindResult:
			w.name, w.iters, w.fileCfg, w.labels = m.Name, m.Iters, m.Config, labels
			if w.fileCfg == nil {
				w.fileCfg = map[string]string{}
			}
			for _, v := range m.Values {
				w.vals = append(w.vals, c02Val{c02Bits(v.Value), v.Unit})
			}
		case refread.KindUnit:
			w.unit, w.origUnit, w.key, w.value = m.Unit, m.OrigUnit, m.Key, m.Value
		}
		out = append(out, w)
	}
	return out
}

// c02Collector consumes records from a reader, snapshots them, clones every
// result and later re-checks the clones.
type c02Collector struct {
	got    []c02Rec
	clones []*benchfmt.Result
	snaps  []c02Rec
}

func (cl *c02Collector) take(rec benchfmt.Record) *kit.Fail {
	switch r := rec.(type) {
	case *benchfmt.Result:
		s := c02SnapResult(r)
		// the documented accessors must agree with the Config slice
		for k, v := range s.fileCfg {
			if g := r.GetConfig(k); g != v {
				return kit.Failf("getconfig", "%s:%d GetConfig(%q)=%q but Config holds %q", s.file, s.line, k, g, v)
			}
			if i, ok := r.ConfigIndex(k); !ok || i < 0 || i >= len(r.Config) || r.Config[i].Key != k {
				return kit.Failf("getconfig", "%s:%d ConfigIndex(%q)=%d,%v does not point at the key", s.file, s.line, k, i, ok)
			}
		}
		for k, v := range s.labels {
			if g := r.GetConfig(k); g != v {
				return kit.Failf("getconfig", "%s:%d GetConfig(%q)=%q but Config holds %q", s.file, s.line, k, g, v)
			}
		}
		c := r.Clone()
		cs := c02SnapResult(c)
		if sig := c02Diff(cs, s); sig != "" {
			return kit.Failf("clone-differs", "clone differs from its source at clone time (%s):\n clone  %v\n source %v", sig, cs, s)
		}
		cl.got = append(cl.got, s)
		cl.clones = append(cl.clones, c)
		cl.snaps = append(cl.snaps, s)
	case *benchfmt.UnitMetadata:
		s := c02Rec{kind: refread.KindUnit, unit: r.Unit, origUnit: r.OrigUnit, key: r.Key, value: r.Value}
		s.file, s.line = r.Pos()
		cl.got = append(cl.got, s)
	case *benchfmt.SyntaxError:
		s := c02Rec{kind: refread.KindError}
		s.file, s.line = r.Pos()
		cl.got = append(cl.got, s)
	default:
		return kit.Failf("record-kind", "unexpected record type %T", rec)
	}
	return nil
}

func (cl *c02Collector) recheckClones() *kit.Fail {
	for i, c := range cl.clones {
		now := c02SnapResult(c)
		if sig := c02Diff(now, cl.snaps[i]); sig != "" {
			return kit.Failf("clone-changed", "result cloned at %s:%d changed while reading continued (%s):\n now  %v\n then %v", cl.snaps[i].file, cl.snaps[i].line, sig, now, cl.snaps[i])
		}
		for k, v := range cl.snaps[i].fileCfg {
			if g := c.GetConfig(k); g != v {
				return kit.Failf("clone-changed", "clone of %s:%d: GetConfig(%q)=%q want %q", cl.snaps[i].file, cl.snaps[i].line, k, g, v)
			}
		}
	}
	return nil
}

func c02CheckUnits(got benchfmt.UnitMetadataMap, want map[refread.UnitKey]refread.UnitMeta) *kit.Fail {
	if len(got) != len(want) {
		return kit.Failf("units-map", "Units() holds %d entries, want %d", len(got), len(want))
	}
	for k, w := range want {
		g := got[benchfmt.UnitMetadataKey{Unit: k.Unit, Key: k.Key}]
		if g == nil {
			return kit.Failf("units-map", "Units() lacks (%q,%q)", k.Unit, k.Key)
		}
		f, l := g.Pos()
		if g.Unit != k.Unit || g.Key != k.Key || g.OrigUnit != w.OrigUnit || g.Value != w.Value || f != w.File || l != w.Line {
			return kit.Failf("units-map", "Units()[(%q,%q)] = {unit %q key %q orig %q value %q at %s:%d} want {orig %q value %q at %s:%d}", k.Unit, k.Key, g.Unit, g.Key, g.OrigUnit, g.Value, f, l, w.OrigUnit, w.Value, w.File, w.Line)
		}
	}
	return nil
}

// chunkReader hands out the text in pieces of at most n bytes.
type c02ChunkReader struct {
	s string
	n int
}

func (c *c02ChunkReader) Read(p []byte) (int, error) {
	if len(c.s) == 0 {
		return 0, io.EOF
	}
	n := c.n
	if n > len(p) {
		n = len(p)
	}
	if n > len(c.s) {
		n = len(c.s)
	}
	copy(p, c.s[:n])
	c.s = c.s[n:]
	return n, nil
}

func c02NewInput(text string, chunk int) io.Reader {
	if chunk <= 0 {
		return strings.NewReader(text)
	}
	return &c02ChunkReader{text, chunk}
}

