//go:build verif

package benchfmt_test

// C02: the reader follows the format's line and scoping rules on every input,
// never panics or hangs, cloned results never change, and Files gives every
// result its own file's label, does not leak file configuration between files
// and carries unit metadata across.
//
// Oracle: refread, an independent string-based model (package
// golang.org/x/perf/internal/verifkit/refread). Measurements are compared in
// written form (normalisation is C04's subject); syntax errors by position only.

import (
	"fmt"
	"io"
	"math"
	"os"
	"path/filepath"
	"sort"
	"strconv"
	"strings"
	"testing"

	"golang.org/x/perf/benchfmt"
	kit "golang.org/x/perf/internal/verifkit"
	"golang.org/x/perf/internal/verifkit/refread"
)

// ---------------------------------------------------------------------------
// Snapshots of observable state

type c02Val struct {
	bits uint64 // written value; every NaN is canonicalised
	unit string
}

type c02Rec struct {
	kind refread.Kind
	file string
	line int
	// result
	name    string
	iters   int
	vals    []c02Val
	fileCfg map[string]string
	labels  map[string]string
	dupKey  string // a key that occurs twice in Config ("" if none)
	// unit metadata
	unit, origUnit, key, value string
}

func c02Bits(f float64) uint64 {
	if math.IsNaN(f) {
		return 0x7ff8000000000001
	}
	return math.Float64bits(f)
}

func c02SnapResult(r *benchfmt.Result) c02Rec {
	s := c02Rec{kind: refread.KindResult, name: string(r.Name), iters: r.Iters, fileCfg: map[string]string{}, labels: map[string]string{}}
	s.file, s.line = r.Pos()
	for _, v := range r.Values {
		if v.OrigUnit != "" {
			s.vals = append(s.vals, c02Val{c02Bits(v.OrigValue), v.OrigUnit})
		} else {
			s.vals = append(s.vals, c02Val{c02Bits(v.Value), v.Unit})
		}
	}
	seen := map[string]bool{}
	for _, c := range r.Config {
		if seen[c.Key] {
			s.dupKey = c.Key
		}
		seen[c.Key] = true
		if c.File {
			s.fileCfg[c.Key] = string(c.Value)
		} else {
			s.labels[c.Key] = string(c.Value)
		}
	}
	return s
}

func c02MapEq(a, b map[string]string) bool {
	if len(a) != len(b) {
		return false
	}
	for k, v := range a {
		if w, ok := b[k]; !ok || w != v {
			return false
		}
	}
	return true
}

func c02MapStr(m map[string]string) string {
	keys := make([]string, 0, len(m))
	for k := range m {
		keys = append(keys, k)
	}
	sort.Strings(keys)
	var sb strings.Builder
	sb.WriteByte('{')
	for i, k := range keys {
		if i > 40 {
			fmt.Fprintf(&sb, " …(%d keys)", len(keys))
			break
		}
		fmt.Fprintf(&sb, " %q=%q", k, m[k])
	}
	sb.WriteString(" }")
	return sb.String()
}

func (r c02Rec) String() string {
	switch r.kind {
	case refread.KindResult:
		var vs []string
		for _, v := range r.vals {
			vs = append(vs, fmt.Sprintf("%v(%016x) %q", math.Float64frombits(v.bits), v.bits, v.unit))
		}
		return fmt.Sprintf("result %s:%d name=%q iters=%d values=[%s] file-config=%s labels=%s", r.file, r.line, r.name, r.iters, strings.Join(vs, ", "), c02MapStr(r.fileCfg), c02MapStr(r.labels))
	case refread.KindUnit:
		return fmt.Sprintf("unit-metadata %s:%d unit=%q orig=%q %q=%q", r.file, r.line, r.unit, r.origUnit, r.key, r.value)
	case refread.KindError:
		return fmt.Sprintf("syntax-error %s:%d", r.file, r.line)
	}
	return "?"
}

// c02Diff returns the signature of the first difference between two records.
func c02Diff(got, want c02Rec) string {
	switch {
	case got.kind != want.kind:
		return "record-kind"
	case got.file != want.file || got.line != want.line:
		return "position"
	}
	switch got.kind {
	case refread.KindResult:
		if got.name != want.name {
			return "name"
		}
		if got.iters != want.iters {
			return "iters"
		}
		if len(got.vals) != len(want.vals) {
			return "values"
		}
		for i := range got.vals {
			if got.vals[i] != want.vals[i] {
				return "values"
			}
		}
		if got.dupKey != "" {
			return "config-duplicate-key"
		}
		if !c02MapEq(got.fileCfg, want.fileCfg) {
			return "file-config"
		}
		if !c02MapEq(got.labels, want.labels) {
			return "labels"
		}
	case refread.KindUnit:
		if got.unit != want.unit || got.origUnit != want.origUnit || got.key != want.key || got.value != want.value {
			return "unit-metadata"
		}
	}
	return ""
}

// c02ComparePrefix compares the first len(want) records only (got is already
// complete, so a shorter got is a missing record).
// c02Collapse merges runs of consecutive syntax errors with the same position
// into one: the statement promises positioned, non-fatal errors for a malformed
// line, not how many (a benign change that reports one error per bad number of
// a line fired here - false alarm corrected, DESIGN.md 9.5).
func c02Collapse(recs []c02Rec) []c02Rec {
	out := make([]c02Rec, 0, len(recs))
	for _, r := range recs {
		if n := len(out); n > 0 && r.kind == refread.KindError && out[n-1].kind == refread.KindError && out[n-1].file == r.file && out[n-1].line == r.line {
			continue
		}
		out = append(out, r)
	}
	return out
}

func c02ComparePrefix(got, want []c02Rec) *kit.Fail {
	got, want = c02Collapse(got), c02Collapse(want)
	if len(got) > len(want) {
		got = got[:len(want)]
	}
	return c02CompareRaw(got, want)
}

func c02Compare(got, want []c02Rec) *kit.Fail {
	return c02CompareRaw(c02Collapse(got), c02Collapse(want))
}

func c02CompareRaw(got, want []c02Rec) *kit.Fail {
	for i := 0; i < len(got) || i < len(want); i++ {
		if i >= len(got) {
			return kit.Failf("record-missing", "record #%d missing (got %d records, want %d); want %v", i, len(got), len(want), want[i])
		}
		if i >= len(want) {
			return kit.Failf("record-extra", "record #%d not prescribed (got %d records, want %d): %v", i, len(got), len(want), got[i])
		}
		if sig := c02Diff(got[i], want[i]); sig != "" {
			return kit.Failf(sig, "record #%d:\n got  %v\n want %v", i, got[i], want[i])
		}
	}
	return nil
}

// c02Want converts model records into expected snapshots.
func c02Want(recs []refread.Record, file string, labels map[string]string) []c02Rec {
	out := make([]c02Rec, 0, len(recs))
	for _, m := range recs {
		w := c02Rec{kind: m.Kind, file: file, line: m.Line}
		switch m.Kind {
		case refread.KindResult:
			w.name, w.iters, w.fileCfg, w.labels = m.Name, m.Iters, m.Config, labels
			if w.fileCfg == nil {
				w.fileCfg = map[string]string{}
			}
			for _, v := range m.Values {
				w.vals = append(w.vals, c02Val{c02Bits(v.Value), v.Unit})
			}
		case refread.KindUnit:
			w.unit, w.origUnit, w.key, w.value = m.Unit, m.OrigUnit, m.Key, m.Value
		}
		out = append(out, w)
	}
	return out
}

// c02Collector consumes records from a reader, snapshots them, clones every
// result and later re-checks the clones.
type c02Collector struct {
	got    []c02Rec
	clones []*benchfmt.Result
	snaps  []c02Rec
	// bare holds the positions of "Unit <unit>" lines without any pair. Such
	// a line sets nothing and prescribes no record; whether it is "malformed"
	// is not settled by the statement, so a complaint positioned at one is
	// neither required nor judged (a benign change that reports these lines
	// fired here - false alarm corrected, DESIGN.md 9.9b).
	bare map[string]map[int]bool
	// taken counts every record delivered (also the ones not judged) and
	// lastLine is the line of the latest of them.
	taken    int
	lastLine int
}

// noteBare registers the pair-less Unit lines of a text read under the name file.
func (cl *c02Collector) noteBare(file, text string) {
	lines := refread.New().Read(file, text, refread.Options{}).BareUnitLines
	if len(lines) == 0 {
		return
	}
	if cl.bare == nil {
		cl.bare = map[string]map[int]bool{}
	}
	if cl.bare[file] == nil {
		cl.bare[file] = map[int]bool{}
	}
	for _, l := range lines {
		cl.bare[file][l] = true
	}
}

func (cl *c02Collector) take(rec benchfmt.Record) *kit.Fail {
	cl.taken++
	if pr, ok := rec.(interface{ Pos() (string, int) }); ok {
		_, cl.lastLine = pr.Pos()
	}
	switch r := rec.(type) {
	case *benchfmt.Result:
		s := c02SnapResult(r)
		// the documented accessors must agree with the Config slice
		for k, v := range s.fileCfg {
			if g := r.GetConfig(k); g != v {
				return kit.Failf("getconfig", "%s:%d GetConfig(%q)=%q but Config holds %q", s.file, s.line, k, g, v)
			}
			if i, ok := r.ConfigIndex(k); !ok || i < 0 || i >= len(r.Config) || r.Config[i].Key != k {
				return kit.Failf("getconfig", "%s:%d ConfigIndex(%q)=%d,%v does not point at the key", s.file, s.line, k, i, ok)
			}
		}
		for k, v := range s.labels {
			if g := r.GetConfig(k); g != v {
				return kit.Failf("getconfig", "%s:%d GetConfig(%q)=%q but Config holds %q", s.file, s.line, k, g, v)
			}
		}
		c := r.Clone()
		cs := c02SnapResult(c)
		if sig := c02Diff(cs, s); sig != "" {
			return kit.Failf("clone-differs", "clone differs from its source at clone time (%s):\n clone  %v\n source %v", sig, cs, s)
		}
		cl.got = append(cl.got, s)
		cl.clones = append(cl.clones, c)
		cl.snaps = append(cl.snaps, s)
	case *benchfmt.UnitMetadata:
		s := c02Rec{kind: refread.KindUnit, unit: r.Unit, origUnit: r.OrigUnit, key: r.Key, value: r.Value}
		s.file, s.line = r.Pos()
		cl.got = append(cl.got, s)
	case *benchfmt.SyntaxError:
		s := c02Rec{kind: refread.KindError}
		s.file, s.line = r.Pos()
		if cl.bare[s.file][s.line] {
			kit.Count("complaints about Unit lines without any pair (not judged)", 1)
			break
		}
		cl.got = append(cl.got, s)
	default:
		return kit.Failf("record-kind", "unexpected record type %T", rec)
	}
	return nil
}

func (cl *c02Collector) recheckClones() *kit.Fail {
	for i, c := range cl.clones {
		now := c02SnapResult(c)
		if sig := c02Diff(now, cl.snaps[i]); sig != "" {
			return kit.Failf("clone-changed", "result cloned at %s:%d changed while reading continued (%s):\n now  %v\n then %v", cl.snaps[i].file, cl.snaps[i].line, sig, now, cl.snaps[i])
		}
		for k, v := range cl.snaps[i].fileCfg {
			if g := c.GetConfig(k); g != v {
				return kit.Failf("clone-changed", "clone of %s:%d: GetConfig(%q)=%q want %q", cl.snaps[i].file, cl.snaps[i].line, k, g, v)
			}
		}
	}
	return nil
}

func c02CheckUnits(got benchfmt.UnitMetadataMap, want map[refread.UnitKey]refread.UnitMeta) *kit.Fail {
	if len(got) != len(want) {
		return kit.Failf("units-map", "Units() holds %d entries, want %d", len(got), len(want))
	}
	for k, w := range want {
		g := got[benchfmt.UnitMetadataKey{Unit: k.Unit, Key: k.Key}]
		if g == nil {
			return kit.Failf("units-map", "Units() lacks (%q,%q)", k.Unit, k.Key)
		}
		f, l := g.Pos()
		if g.Unit != k.Unit || g.Key != k.Key || g.OrigUnit != w.OrigUnit || g.Value != w.Value || f != w.File || l != w.Line {
			return kit.Failf("units-map", "Units()[(%q,%q)] = {unit %q key %q orig %q value %q at %s:%d} want {orig %q value %q at %s:%d}", k.Unit, k.Key, g.Unit, g.Key, g.OrigUnit, g.Value, f, l, w.OrigUnit, w.Value, w.File, w.Line)
		}
	}
	return nil
}

// chunkReader hands out the text in pieces of at most n bytes.
type c02ChunkReader struct {
	s string
	n int
}

func (c *c02ChunkReader) Read(p []byte) (int, error) {
	if len(c.s) == 0 {
		return 0, io.EOF
	}
	n := c.n
	if n > len(p) {
		n = len(p)
	}
	if n > len(c.s) {
		n = len(c.s)
	}
	copy(p, c.s[:n])
	c.s = c.s[n:]
	return n, nil
}

func c02NewInput(text string, chunk int) io.Reader {
	if chunk <= 0 {
		return strings.NewReader(text)
	}
	return &c02ChunkReader{text, chunk}
}

// ---------------------------------------------------------------------------
// Class: one text through one Reader

type c02TextCase struct {
	Text  kit.B
	Name  kit.B // file name given to NewReader (non-empty)
	Chunk int   // >0: the io.Reader returns at most Chunk bytes per call
}

func c02CheckText(c c02TextCase) *kit.Fail {
	text := string(c.Text)
	name := string(c.Name)
	rd := benchfmt.NewReader(c02NewInput(text, c.Chunk), name)
	var cl c02Collector
	cl.noteBare(name, text)
	limit := len(text) + 8
	for n := 0; rd.Scan(); n++ {
		if n > limit {
			return kit.Failf("too-many-records", "more than %d records from %d bytes of input", limit, len(text))
		}
		if f := cl.take(rd.Result()); f != nil {
			return f
		}
	}
	err := rd.Err()
	if f := cl.recheckClones(); f != nil {
		return f
	}
	// A conforming reader may have any line-length limit >= the bufio.Scanner
	// default: it stops (Err() != nil) in front of the first line longer than
	// its limit. Every limit that makes a difference for this text is tried;
	// the observation must agree with one of them.
	var first *kit.Fail
	for _, lim := range refread.LineLimits(text) {
		m := refread.New()
		out := m.Read(name, text, refread.Options{LineLimit: lim})
		f := func() *kit.Fail {
			if err != nil && !out.Stopped {
				return kit.Failf("unexpected-io-error", "Err()=%v but no line is longer than %d bytes", err, lim)
			}
			if err == nil && out.Stopped {
				return kit.Failf("record-missing", "Err()==nil although the reader did not get past line %d (longer than %d bytes)", len(out.Records), lim)
			}
			want := c02Want(out.Records, name, map[string]string{})
			if f := c02Compare(cl.got, want); f != nil {
				return f
			}
			return c02CheckUnits(rd.Units(), m.Units)
		}()
		if f == nil {
			c02CountStats(out.Stats, out.TooLongLine != 0, err != nil)
			return nil
		}
		if first == nil {
			first = f
		}
	}
	return first
}

func c02CountStats(s refread.Stats, tooLong, stopped bool) {
	kit.Count("results compared", int64(s.Results))
	kit.Count("syntax errors compared", int64(s.Errors))
	kit.Count("unit metadata records compared", int64(s.UnitRecords))
	kit.Count("unit metadata conflicts", int64(s.UnitConflicts))
	kit.Count("unit metadata repeats (ignored)", int64(s.UnitRepeats))
	kit.Count("config deletions", int64(s.Deletes))
	kit.Count("config re-sets after deletion", int64(s.ReSets))
	kit.Count("config value changes", int64(s.Changes))
	if s.Distinct > 1024 {
		kit.Count("inputs overflowing the intern table (>1024 distinct strings)", 1)
	}
	if tooLong {
		kit.Count("inputs with a line over 64KiB", 1)
	}
	if stopped {
		kit.Count("inputs ending in Err()!=nil at the over-long line", 1)
	}
}

func c02StatsNonTrivial(s refread.Stats) bool {
	return s.Results >= 1 && (s.Deletes > 0 || s.ReSets > 0 || s.Errors > 0 || s.UnitConflicts > 0 || s.Distinct > 1024)
}

func c02TextNonTrivial(c c02TextCase) bool {
	out := refread.New().Read("x", string(c.Text), refread.Options{})
	return c02StatsNonTrivial(out.Stats)
}

// ---------------------------------------------------------------------------
// Class: sequences of files through one reused reader (Files or Reader.Reset)

type c02File struct {
	Name kit.B // base name inside the scratch directory
	Text kit.B
}

type c02KV struct{ K, V kit.B }

type c02Path struct {
	File    int   // index into Files; -1: a path that does not exist (Files mode only)
	Label   kit.B // label part of "label=path" when Labeled
	Labeled bool
	// Reset mode only: tool labels (dot-prefixed keys) and early abandon.
	Extra     []c02KV
	StopAfter int // >0: abandon this file after that many records
}

type c02FilesCase struct {
	Files       []c02File
	Paths       []c02Path
	AllowLabels bool
	// ViaReset: drive one benchfmt.Reader with Reset(...) per entry instead of
	// benchfmt.Files (texts are read from memory; labels are passed as initConfig).
	ViaReset bool
}

func c02CheckFiles(c c02FilesCase) *kit.Fail {
	if c.ViaReset {
		return c02CheckReset(c)
	}
	dir, err := os.MkdirTemp("/var/tmp", "verif-c02-")
	if err != nil {
		panic("verif C02: cannot create scratch directory: " + err.Error())
	}
	defer os.RemoveAll(dir)
	for _, f := range c.Files {
		if err := os.WriteFile(filepath.Join(dir, string(f.Name)), []byte(f.Text), 0o644); err != nil {
			panic("verif C02: cannot write scratch file: " + err.Error())
		}
	}
	type entry struct {
		path    string
		labeled bool
		label   string
		file    int
	}
	var entries []entry
	var args []string
	argCount := map[string]int{} // occurrences of each unlabelled path string
	total := 0
	for _, p := range c.Paths {
		e := entry{file: p.File}
		if p.File >= 0 {
			e.path = filepath.Join(dir, string(c.Files[p.File].Name))
			total += len(c.Files[p.File].Text)
		} else {
			e.path = filepath.Join(dir, "no-such-file")
		}
		arg := e.path
		if p.Labeled && c.AllowLabels {
			arg = string(p.Label) + "=" + e.path
			e.labeled, e.label = true, string(p.Label)
		} else {
			argCount[e.path]++
		}
		entries = append(entries, e)
		args = append(args, arg)
	}

	fs := &benchfmt.Files{Paths: args, AllowLabels: c.AllowLabels}
	var cl c02Collector
	for _, e := range entries {
		if e.file >= 0 {
			cl.noteBare(e.path, string(c.Files[e.file].Text))
		}
	}
	limit := total + 8*len(args) + 8
	for n := 0; fs.Scan(); n++ {
		if n > limit {
			return kit.Failf("too-many-records", "more than %d records from %d bytes of input", limit, total)
		}
		if f := cl.take(fs.Result()); f != nil {
			return f
		}
	}
	gotErr := fs.Err()
	if f := cl.recheckClones(); f != nil {
		return f
	}

	// Every line-length limit a conforming reader may have is tried (see
	// c02CheckText); the observation must agree with one of them.
	var texts []string
	for _, e := range entries {
		if e.file >= 0 {
			texts = append(texts, string(c.Files[e.file].Text))
		}
	}
	var first *kit.Fail
	for li, lim := range refread.LineLimits(texts...) {
		counting := li == 0
		var stats refread.Stats
		tooLong := false
		f := func() *kit.Fail {
			gotC := c02Collapse(cl.got) // runs of errors at one position count once, on both sides
			m := refread.New()
			var want []c02Rec
			var stats refread.Stats
			stopped, tooLong := false, false
			usedDup := map[string]int{} // disambiguated label -> entry that used it
			for i, e := range entries {
				if e.file < 0 {
					if gotErr == nil {
						return kit.Failf("missing-io-error", "path #%d does not exist but Err()==nil", i)
					}
					stopped = true
					break
				}
				out := m.Read(e.path, string(c.Files[e.file].Text), refread.Options{LineLimit: lim})
				tooLong = tooLong || out.TooLongLine != 0
				stats = c02AddStats(stats, out.Stats)
				// Expected .file label. Labelled: the label, verbatim. Path given
				// once: the path. Path given several times: the documentation
				// promises the path followed by "#N" without fixing N, so the label
				// observed on this entry's first result is validated (shape, and
				// not used by another occurrence) and then expected on all of them.
				lab := e.path
				switch {
				case e.labeled:
					lab = e.label
					if counting {
						kit.Count("labelled path entries", 1)
					}
				case argCount[e.path] > 1:
					if counting {
						kit.Count("duplicate path entries", 1)
					}
					lab = e.path + "#?"
					// records before len(want) have already been compared; this
					// entry's records follow, up to the next change of file or
					// restart of the line numbers
					lastLine := 0
					for _, g := range gotC[min(len(want), len(gotC)):] {
						if g.file != e.path || g.line < lastLine {
							break
						}
						lastLine = g.line
						if g.kind != refread.KindResult {
							continue
						}
						obs := g.labels[".file"]
						suffix, ok := strings.CutPrefix(obs, e.path+"#")
						if _, err := strconv.ParseUint(suffix, 10, 32); !ok || err != nil {
							return kit.Failf("dup-label", "path #%d %q is given %d times but its result at line %d carries .file=%q (want the path followed by \"#N\")", i, e.path, argCount[e.path], g.line, obs)
						}
						if j, used := usedDup[obs]; used {
							return kit.Failf("dup-label", "path entries #%d and #%d (%q) share the label %q", j, i, e.path, obs)
						}
						usedDup[obs] = i
						lab = obs
						break
					}
				}
				want = c02Collapse(append(want, c02Want(out.Records, e.path, map[string]string{".file": lab})...))
				if f := c02ComparePrefix(gotC, want); f != nil {
					return f
				}
				if out.Stopped {
					stopped = true
					break
				}
			}
			if gotErr != nil && !stopped {
				return kit.Failf("unexpected-io-error", "Err()=%v but every file exists and no line is longer than %d bytes", gotErr, lim)
			}
			if gotErr == nil && stopped {
				return kit.Failf("record-missing", "Err()==nil although a file holds a line longer than %d bytes (or is missing)", lim)
			}
			if f := c02Compare(gotC, want); f != nil {
				return f
			}
			if f := c02CheckUnits(fs.Units(), m.Units); f != nil {
				return f
			}
			return nil
		}()
		if f == nil {
			c02CountStats(stats, tooLong, gotErr != nil)
			kit.Count("file sequences through Files", 1)
			return nil
		}
		if first == nil {
			first = f
		}
	}
	return first
}

func c02AddStats(a, b refread.Stats) refread.Stats {
	a.Lines += b.Lines
	a.Results += b.Results
	a.Errors += b.Errors
	a.UnitRecords += b.UnitRecords
	a.UnitConflicts += b.UnitConflicts
	a.UnitRepeats += b.UnitRepeats
	a.Sets += b.Sets
	a.Deletes += b.Deletes
	a.ReSets += b.ReSets
	a.Changes += b.Changes
	a.Ignored += b.Ignored
	if b.Distinct > a.Distinct {
		a.Distinct = b.Distinct
	}
	return a
}

// c02CheckReset drives one Reader (zero value + Reset, as documented) over the
// sequence of texts, passing tool labels as initConfig and abandoning some
// files early.
func c02CheckReset(c c02FilesCase) *kit.Fail {
	var rd benchfmt.Reader
	var cl c02Collector
	m := refread.New()
	var want []c02Rec
	var stats refread.Stats
	for i, p := range c.Paths {
		if p.File < 0 {
			continue
		}
		f := c.Files[p.File]
		text, name := string(f.Text), string(f.Name)
		labels := map[string]string{}
		var init []string
		for _, kv := range p.Extra {
			init = append(init, string(kv.K), string(kv.V))
			labels[string(kv.K)] = string(kv.V)
		}
		rd.Reset(strings.NewReader(text), name, init...)
		cl.noteBare(name, text)
		takenStart := cl.taken
		limit := len(text) + 8
		n := 0
		ranOut := false
		for {
			if p.StopAfter > 0 && n >= p.StopAfter {
				break
			}
			if !rd.Scan() {
				ranOut = true
				break
			}
			n++
			if n > limit {
				return kit.Failf("too-many-records", "more than %d records from %d bytes of input (entry #%d)", limit, len(text), i)
			}
			if f := cl.take(rd.Result()); f != nil {
				return f
			}
		}
		var err error
		if ranOut {
			err = rd.Err()
		}
		// A caller that abandons the file (StopAfter) has consumed the lines up
		// to the one its last record came from - how many records a malformed
		// line yields is not specified, so the consumed part is taken from the
		// position of the last record delivered, not from a record count.
		abandonedAt := 0
		if !ranOut && p.StopAfter > 0 && cl.taken > takenStart {
			abandonedAt = cl.lastLine
		}
		// every line-length limit a conforming reader may have (see c02CheckText)
		var first *kit.Fail
		accepted := false
		for _, lim := range refread.LineLimits(text) {
			mc := m.Clone()
			out := mc.Read(name, text, refread.Options{LineLimit: lim, MaxLineNo: abandonedAt})
			recs := out.Records
			abandoned := abandonedAt > 0
			wantNow := append(append([]c02Rec(nil), want...), c02Want(recs, name, labels)...)
			f := func() *kit.Fail {
				if err != nil && !out.Stopped {
					return kit.Failf("unexpected-io-error", "entry #%d: Err()=%v but no line is longer than %d bytes", i, err, lim)
				}
				if ranOut && err == nil && out.Stopped {
					return kit.Failf("record-missing", "entry #%d: Err()==nil although a line is longer than %d bytes", i, lim)
				}
				if abandoned {
					// the records delivered are a prefix of what the consumed lines
					// prescribe, complete for every line before the last one
					g, w := c02Collapse(cl.got), c02Collapse(wantNow)
					if len(g) > len(w) {
						return kit.Failf("record-extra", "after entry #%d (%q), abandoned at line %d: %d records, the consumed lines prescribe %d", i, name, abandonedAt, len(g), len(w))
					}
					for k := len(g); k < len(w); k++ {
						if w[k].line != abandonedAt || w[k].file != name {
							return kit.Failf("record-missing", "after entry #%d (%q), abandoned at line %d: record %v of an earlier line was never delivered", i, name, abandonedAt, w[k])
						}
					}
					if f := c02CompareRaw(g, w[:len(g)]); f != nil {
						f.Msg = fmt.Sprintf("after entry #%d (%q): %s", i, name, f.Msg)
						return f
					}
					wantNow = append([]c02Rec(nil), cl.got...) // continue from what was delivered
					return c02CheckUnits(rd.Units(), mc.Units)
				}
				// compare eagerly so that the entry is named in the message
				if f := c02Compare(cl.got, wantNow); f != nil {
					f.Msg = fmt.Sprintf("after entry #%d (%q): %s", i, name, f.Msg)
					return f
				}
				return c02CheckUnits(rd.Units(), mc.Units)
			}()
			if f == nil {
				if abandoned {
					kit.Count("files abandoned before EOF (Reset)", 1)
				}
				m, want = mc, wantNow
				stats = c02AddStats(stats, out.Stats)
				accepted = true
				break
			}
			if first == nil {
				first = f
			}
		}
		if !accepted {
			return first
		}
	}
	if f := cl.recheckClones(); f != nil {
		return f
	}
	c02CountStats(stats, false, false)
	kit.Count("file sequences through Reader.Reset", 1)
	return nil
}

func c02FilesNonTrivial(c c02FilesCase) bool {
	if len(c.Paths) < 2 {
		return false
	}
	m := refread.New()
	results := 0
	for _, p := range c.Paths {
		if p.File < 0 {
			break
		}
		results += m.Read("x", string(c.Files[p.File].Text), refread.Options{}).Stats.Results
	}
	return results >= 1
}

// ---------------------------------------------------------------------------
// Generators

var (
	c02Keys  = []string{"a", "b", "k2", "goos", "pkg", "key-x", "é", "k\xff", "note", "cpu"}
	c02Vals  = []string{"1", "2", "x y", "v\t", "a:b", "ünï", "\xff\xfe", "Benchmark", "Unit u a=b", "linux", "golang.org/x/perf", "\r", "x\r", "0", "-", "\u00a0z", "z\u3000", "BenchmarkX 1 1 ns/op", "k: v"}
	c02WS    = []string{" ", "\t", "  ", " \t ", "\u00a0", "\u2003", "\u3000", "\u0085", "\v", "\f", "\r", " \r "}
	c02Units = []string{"ns/op", "MB/s", "B/op", "allocs/op", "sec/op", "B/s", "ns", "MB", "foo", "ns/MB", "x-ns", "MB*ns", "ünit", "u\xff", "%", "ns/op/GC", "a=b"}
	c02Nums  = []string{"1", "0", "-0", "100", "1.5", "2e3", "1e-9", "+Inf", "-Inf", "NaN", "inf", "0x1p-2", ".5", "5.", "1e+06", "123456789012345678901234567890", "9223372036854775807", "9223372036854775808", "4.9e-324", "1.7976931348623157e308"}
	c02BadNu = []string{"1_0", "1e999", "abc", "1,5", "0x", "--1", "1e", "ns/op", "١"}
	c02Names = []string{"X", "Foo/size=4k-16", "Copy-8", "Ünï", "X\xff", "/", "-", "X:y", "a=b", "Unit", "Benchmark", "x"}
	c02Iters = []string{"1", "100", "0", "-5", "+3", "1000000000", "7", "12345"}
	c02BadIt = []string{"x", "1.5", "99999999999999999999", "0x10", "1_000", "", "1e3", "٣"}
	c02MKeys = []string{"better", "assume", "foo", "é", "k"}
	c02MVals = []string{"higher", "lower", "exact", "nothing", "", "a=b", "x", "\xff"}
	c02Junk  = []string{"", "PASS", "ok  \tgolang.org/x/perf\t0.1s", "--- FAIL: TestX (0.00s)", "goos linux", "FAIL", "=== RUN   TestX", "    x_test.go:12: note: hello", "U", "B", ":", " ", "\t", "exit status 1"}
)

func c02Sp(r *kit.Rand) string {
	if r.Chance(0.8) {
		return " "
	}
	return kit.Pick(r, c02WS)
}

func c02Key(r *kit.Rand) string {
	if r.Chance(0.12) {
		return "k" + strconv.Itoa(r.Intn(40))
	}
	return kit.Pick(r, c02Keys)
}

func c02ConfigLine(r *kit.Rand) string {
	k := c02Key(r)
	switch r.Intn(12) {
	case 0, 1, 2:
		return k + kit.Pick(r, []string{":", ":", ": ", ":\t ", ":  "})
	case 3:
		return kit.Pick(r, []string{"Key: v", "k ey: v", k + ":v", ":v", k, "kEy: v", "k\u00a0x: v", k + ":\u00a0v", k + ":\vv",
			"1k: v", "É: v", k + " : v", k + "::", k + ": :", "\u00e9\u00c9: v", "_k: v", "k_: v", "ǆ: v", "ǅ: v", k + ":\rv", "\xffk: v"})
	}
	v := kit.Pick(r, c02Vals)
	if r.Chance(0.2) {
		v = r.Bytes(r.Range(1, 6), "abcxyz019 :\t=")
		v = strings.TrimLeft(v, " \t") + "v"
	}
	return k + ":" + kit.Pick(r, []string{" ", " ", " ", "\t", "  ", " \t"}) + v
}

func c02UnitLine(r *kit.Rand) string {
	if r.Chance(0.15) {
		return kit.Pick(r, []string{"Unit", "Unit ", "Units ns/op better=lower", "UnitX a=b", "unit ns/op a=b", "Unit ns/op =x", "Unit ns/op novalue",
			"Unit ns/op a=b a=b a=c", "U", "Unit\u00a0ns/op\u3000better=lower", "Unit\tB/op\tbetter=lower", "Unit: x", "Unit x", "Unit x = y=", "Unit sec/op better=higher", "Unit ns/op better=higher"})
	}
	var sb strings.Builder
	sb.WriteString("Unit")
	sb.WriteString(c02Sp(r))
	sb.WriteString(kit.Pick(r, c02Units))
	for i, n := 0, r.Range(0, 3); i < n; i++ {
		sb.WriteString(c02Sp(r))
		if r.Chance(0.08) {
			sb.WriteString(kit.Pick(r, []string{"=v", "novalue", "=", "k"}))
			continue
		}
		sb.WriteString(kit.Pick(r, c02MKeys))
		sb.WriteByte('=')
		sb.WriteString(kit.Pick(r, c02MVals))
	}
	if r.Chance(0.1) {
		sb.WriteString(c02Sp(r))
	}
	return sb.String()
}

func c02BenchLine(r *kit.Rand) string {
	name := kit.Pick(r, c02Names)
	if r.Chance(0.2) {
		name = r.Bytes(r.Range(1, 8), "XYZabc/-=019")
	}
	switch r.Intn(24) {
	case 0:
		return "Benchmark" + name
	case 1:
		return "Benchmark" + name + kit.Pick(r, c02WS)
	case 2:
		return "Benchmark"
	case 3:
		return "Benchmark" + c02Sp(r) + "1 2 ns/op"
	case 4:
		return kit.Pick(r, []string{"benchmarkX 1 1 ns/op", " BenchmarkX 1 1 ns/op", "BenchmarX 1 1 ns/op", "Benchmarking: foo", "BENCHMARKX 1 1 ns",
			"\tBenchmarkX 1 2 ns/op", "Benchmark:", "benchmark: x", "Benchmark\u00a0", "Benchmark 1", "BenchmarkX 1 2", "BenchmarkX 1 2 ns 3"})
	}
	var sb strings.Builder
	sb.WriteString("Benchmark")
	sb.WriteString(name)
	sb.WriteString(c02Sp(r))
	if r.Chance(0.06) {
		sb.WriteString(kit.Pick(r, c02BadIt))
	} else {
		sb.WriteString(kit.Pick(r, c02Iters))
	}
	n := r.Range(1, 4)
	switch {
	case r.Chance(0.03):
		n = 0
	case r.Chance(0.03):
		n = r.Range(31, 70)
	}
	for i := 0; i < n; i++ {
		sb.WriteString(c02Sp(r))
		switch {
		case r.Chance(0.03):
			sb.WriteString(kit.Pick(r, c02BadNu))
		case r.Chance(0.4):
			sb.WriteString(strconv.FormatFloat(r.LogUniform(-3, 9), 'g', r.Range(1, 8), 64))
		default:
			sb.WriteString(kit.Pick(r, c02Nums))
		}
		if i == n-1 && r.Chance(0.04) {
			break // missing unit
		}
		sb.WriteString(c02Sp(r))
		sb.WriteString(kit.Pick(r, c02Units))
	}
	if r.Chance(0.1) {
		sb.WriteString(kit.Pick(r, c02WS))
	}
	return sb.String()
}

func c02JunkLine(r *kit.Rand) string {
	if r.Chance(0.3) {
		n := r.Range(0, 24)
		b := make([]byte, n)
		for i := range b {
			b[i] = byte(r.Intn(256))
			if b[i] == '\n' {
				b[i] = ' '
			}
		}
		return string(b)
	}
	return kit.Pick(r, c02Junk)
}

func c02Line(r *kit.Rand) string {
	switch x := r.Intn(100); {
	case x < 34:
		return c02ConfigLine(r)
	case x < 46:
		return c02UnitLine(r)
	case x < 86:
		return c02BenchLine(r)
	default:
		return c02JunkLine(r)
	}
}

func c02Term(r *kit.Rand) string {
	switch x := r.Intn(100); {
	case x < 88:
		return "\n"
	case x < 98:
		return "\r\n"
	default:
		return "\r\r\n"
	}
}

const c02MutAlphabet = "\n\r :=\tBU\xff\xc2\x85\xa0\xe2\x80\x83Z0-\xc3\xa9eikntr"

func c02Mutate(r *kit.Rand, s string) string {
	b := []byte(s)
	for k := r.Range(1, 4); k > 0; k-- {
		ch := c02MutAlphabet[r.Intn(len(c02MutAlphabet))]
		if r.Chance(0.2) {
			ch = byte(r.Intn(256))
		}
		switch op := r.Intn(3); {
		case len(b) == 0 || op == 0: // insert
			i := r.Intn(len(b) + 1)
			b = append(b[:i], append([]byte{ch}, b[i:]...)...)
		case op == 1: // replace
			b[r.Intn(len(b))] = ch
		default: // delete
			i := r.Intn(len(b))
			b = append(b[:i], b[i+1:]...)
		}
	}
	return string(b)
}

func c02GenText(r *kit.Rand, maxLines int) string {
	n := r.Range(1, maxLines)
	if r.Chance(0.3) {
		n = r.Range(1, 1+maxLines/4)
	}
	var sb strings.Builder
	for i := 0; i < n; i++ {
		sb.WriteString(c02Line(r))
		if i == n-1 && r.Chance(0.2) {
			break
		}
		sb.WriteString(c02Term(r))
	}
	s := sb.String()
	if r.Chance(0.3) {
		s = c02Mutate(r, s)
	}
	return s
}

func c02GenChunk(r *kit.Rand) int {
	switch r.Intn(6) {
	case 0:
		return 1
	case 1:
		return r.Range(2, 17)
	case 2:
		return r.Range(100, 5000)
	}
	return 0
}

func c02GenGrammar(r *kit.Rand, i int) c02TextCase {
	return c02TextCase{Text: kit.B(c02GenText(r, 60)), Name: kit.B(kit.Pick(r, []string{"in", "a/b.txt", "x y", "-", "ü.txt"})), Chunk: c02GenChunk(r)}
}

// c02GenIntern produces more distinct keys, units, metadata keys and values
// than the reader's intern table (1024) holds, with deletions and re-sets in a
// large configuration.
func c02GenIntern(r *kit.Rand, i int) c02TextCase {
	n := r.Range(1100, 1500)
	var sb strings.Builder
	live := []int{}
	for k := 0; k < n; k++ {
		switch x := r.Intn(100); {
		case x < 62:
			fmt.Fprintf(&sb, "k%d: v%d\n", k, r.Intn(n))
			live = append(live, k)
		case x < 80 && len(live) > 0: // delete a live key
			j := r.Intn(len(live))
			fmt.Fprintf(&sb, "k%d:\n", live[j])
			if r.Chance(0.3) { // and set it again
				fmt.Fprintf(&sb, "k%d: again%d\n", live[j], k)
			} else {
				live[j] = live[len(live)-1]
				live = live[:len(live)-1]
			}
		case x < 88:
			fmt.Fprintf(&sb, "Unit u%d k%d=v%d\n", k, k, k)
		case x < 90:
			fmt.Fprintf(&sb, "Unit u%d k%d=w\n", r.Intn(k+1), r.Intn(k+1))
		case x < 93:
			sb.WriteString(c02Line(r) + "\n")
		default:
			fmt.Fprintf(&sb, "BenchmarkN%d %d %d u%d %d unit%d\n", k, k+1, r.Intn(1000), k, r.Intn(1000), r.Intn(n))
		}
	}
	fmt.Fprintf(&sb, "BenchmarkLast 1 1 ns/op\n")
	return c02TextCase{Text: kit.B(sb.String()), Name: "big", Chunk: c02GenChunk(r) &^ 1}
}

// c02GenLong produces lines up to and beyond the 64 KiB line limit.
func c02GenLong(r *kit.Rand, i int) c02TextCase {
	pad := func(prefix string, fill string, total int) string {
		var sb strings.Builder
		sb.WriteString(prefix)
		for sb.Len()+len(fill) <= total {
			sb.WriteString(fill)
		}
		for sb.Len() < total {
			sb.WriteByte('x')
		}
		return sb.String()
	}
	length := func() int {
		switch r.Intn(8) {
		case 0:
			return refread.MaxLine // longest line that must be accepted
		case 1:
			return refread.MaxLine + 1
		case 2:
			return refread.MaxLine - r.Intn(3)
		case 3:
			return refread.MaxLine + 2 + r.Intn(5000)
		case 4:
			return r.Range(130000, 140000)
		default:
			return r.Range(4000, 60000)
		}
	}
	var sb strings.Builder
	sb.WriteString("a: 1\nBenchmarkFirst 1 1 ns/op\n")
	for k, n := 0, r.Range(1, 3); k < n; k++ {
		L := length()
		term := "\n"
		if r.Chance(0.2) {
			term = "\r\n"
			L-- // the '\r' counts
		}
		switch r.Intn(5) {
		case 0:
			sb.WriteString(pad("note: ", "x", L))
		case 1:
			sb.WriteString(pad("BenchmarkLong 1", " 1 ns/op", L))
		case 2:
			sb.WriteString(pad("PASS ", "junk ", L))
		case 3:
			sb.WriteString(pad("Unit ns/op", " k=v", L))
		default:
			sb.WriteString(pad("BenchmarkBad 1 2 ns/op x", "y", L))
		}
		sb.WriteString(term)
		sb.WriteString(c02GenText(r, 6))
		if !strings.HasSuffix(sb.String(), "\n") {
			sb.WriteByte('\n')
		}
		fmt.Fprintf(&sb, "b: %d\nBenchmarkAfter%d 2 3 ns/op\n", k, k)
	}
	s := sb.String()
	if r.Chance(0.2) {
		s = strings.TrimSuffix(s, "\n")
	}
	return c02TextCase{Text: kit.B(s), Name: "long", Chunk: c02GenChunk(r) &^ 1}
}

func c02GenFiles(r *kit.Rand, i int) c02FilesCase {
	var c c02FilesCase
	c.ViaReset = r.Chance(0.3)
	c.AllowLabels = r.Bool()
	nf := r.Range(1, 4)
	for k := 0; k < nf; k++ {
		name := fmt.Sprintf("f%d.txt", k)
		if !c.AllowLabels && !c.ViaReset && r.Chance(0.15) {
			name = fmt.Sprintf("lab=f%d", k) // '=' is part of the name when labels are off
		}
		text := c02GenText(r, 25)
		if r.Chance(0.03) && !c.ViaReset {
			text += "\n" + strings.Repeat("z", refread.MaxLine+1+r.Intn(100)) + "\nBenchmarkAfterLong 1 1 ns/op\n"
		}
		c.Files = append(c.Files, c02File{Name: kit.B(name), Text: kit.B(text)})
	}
	np := r.Range(1, 6)
	labels := []string{"x", "lab", "ünï", "a b", "\xff", "f0.txt", "#1", "x"}
	for k := 0; k < np; k++ {
		p := c02Path{File: r.Intn(nf)}
		if r.Chance(0.4) {
			p.Labeled = true
			p.Label = kit.B(kit.Pick(r, labels))
		}
		if c.ViaReset {
			for j, n := 0, r.Range(0, 3); j < n; j++ {
				p.Extra = append(p.Extra, c02KV{kit.B(kit.Pick(r, []string{".file", ".x", ".tool", ".é"})), kit.B(kit.Pick(r, labels))})
			}
			if r.Chance(0.3) {
				p.StopAfter = r.Range(1, 6)
			}
		} else if r.Chance(0.02) {
			p.File = -1
		}
		c.Paths = append(c.Paths, p)
	}
	return c
}

// c02EdgeTexts are hand-written inputs around every rule of the line grammar.
var c02EdgeTexts = []string{
	"", "\n", "\r", "\r\n", "\n\n", "x", "x\r", "Benchmark", "Benchmark\n", "BenchmarkX", "BenchmarkX\r\n", "BenchmarkX \n", "BenchmarkX\t\n", "BenchmarkX 1\n",
	"BenchmarkX 1 2\n", "BenchmarkX 1 2 ns/op", "BenchmarkX 1 2 ns/op\r", "BenchmarkX 1 2 ns/op 3\n", "BenchmarkX 1 2 ns/op 3 MB/s\n", "Benchmark 1 2 x\n", "Benchmark\u00a01\u20032\u3000x\n",
	"BenchmarkX\u00851\u00852\u0085x\n", "BenchmarkX\x851\x852\x85x\n", "BenchmarkX 1 2 x\xff\n", "BenchmarkX -1 2 x\n", "BenchmarkX +1 +2 x\n", "BenchmarkX 1 NaN x -Inf y +Inf z\n",
	"BenchmarkX 1 0 ns/op -0 ns/op 0 MB/s\n", "BenchmarkX 1e3 2 x\n", "BenchmarkX 1 2e400 x\n", "BenchmarkX 1 0x1p4 x\n", "BenchmarkX 9223372036854775807 1 x\n", "BenchmarkX 9223372036854775808 1 x\n",
	"a: 1\nBenchmarkX 1 1 x\na:\nBenchmarkY 1 1 x\na: 2\nBenchmarkZ 1 1 x\n",
	"a: 1\nb: 2\nc: 3\na:\nBenchmarkX 1 1 x\nc: 4\nBenchmarkY 1 1 x\nb:\nc:\nBenchmarkZ 1 1 x\na: 5\nBenchmarkW 1 1 x\n",
	"a: 1\nb: 2\nc: 3\nd: 4\nb:\nd: 5\na:\nb: 6\nBenchmarkX 1 1 x\n",
	"a:1\nBenchmarkX 1 1 x\n", "a:\t1\nBenchmarkX 1 1 x\n", "a:  \t 1 \nBenchmarkX 1 1 x\n", "a: \nBenchmarkX 1 1 x\n", "a: 1\na: \nBenchmarkX 1 1 x\n", "a: 1\na:   \nBenchmarkX 1 1 x\n",
	"A: 1\nBenchmarkX 1 1 x\n", "aB: 1\nBenchmarkX 1 1 x\n", "a b: 1\nBenchmarkX 1 1 x\n", "a\u00a0b: 1\nBenchmarkX 1 1 x\n", ": 1\nBenchmarkX 1 1 x\n", "a\nBenchmarkX 1 1 x\n", "a:b: c\nBenchmarkX 1 1 x\n",
	"a: b: c\nBenchmarkX 1 1 x\n", "é: ü\nBenchmarkX 1 1 x\n", "a\xff: \xfe\nBenchmarkX 1 1 x\n", "\xffa: 1\nBenchmarkX 1 1 x\n", "a: \r\r\nBenchmarkX 1 1 x\n", "a: 1\r\r\nBenchmarkX 1 1 x\n", "a:\r\nBenchmarkX 1 1 x\r\n",
	"a:\u00a01\nBenchmarkX 1 1 x\n", "a: \u00a01\nBenchmarkX 1 1 x\n", "1a: 1\nBenchmarkX 1 1 x\n", "-a: 1\nBenchmarkX 1 1 x\n", "a-: 1\nBenchmarkX 1 1 x\n", "a1_.*/: 1\nBenchmarkX 1 1 x\n",
	"Unit\n", "Unit \n", "Unit x\n", "Unit x a\n", "Unit x =a\n", "Unit x a=\n", "Unit x a==\n", "Unit x a=b\nUnit x a=b\nUnit x a=c\n", "Unit ns/op better=lower\nUnit sec/op better=lower\nUnit sec/op better=higher\n",
	"Unit ns/op a=1 b=2 bad c=3 a=1 a=2\n", "Units x a=b\n", "UnitX a=b\n", "unit x a=b\n", " Unit x a=b\n", "Unit\tx\ta=b\n", "Unit\u3000x\u3000a=b\n", "Unit x a=b\r\n", "U\n", "Un\n", "Unit: x\nBenchmarkX 1 1 x\n",
	"benchmarkX 1 1 x\n", " BenchmarkX 1 1 x\n", "BENCHMARKX 1 1 x\n", "Benchmarking: is fun\n", "BenchmarkX 1 1 x\nBenchmarkX 1 1 x\n", "BenchmarkX 1 1 x\n\n\nBenchmarkY 2 2 y",
	"BenchmarkX 1 1 ns/op 1 ns/op 1 ns/op\n", "BenchmarkX 1 1 \n", "BenchmarkX  1  1  x  \n", "BenchmarkX\t1\t1\tx\n", "BenchmarkX\r1\r1\rx\n", "BenchmarkX 1 1 x\rjunk\n", "BenchmarkX 1 1 x \r\n",
	"BenchmarkX 1 1,5 x\n", "BenchmarkX 1 ١ x\n", "BenchmarkX ١ 1 x\n", "BenchmarkX 1 1_0 x\n", "BenchmarkX 1_0 1 x\n", "BenchmarkX 1 infinity x\n", "BenchmarkX 1 nan x\n", "BenchmarkX 1 .5 x 5. y\n", "BenchmarkX 1 . x\n",
}

func TestVerifC02(t *testing.T) {
	const rule = "record sequence, positions, clones and Units() of the real reader compared with the string-based reference reader; non-trivial = at least one result and at least one of {effective config deletion, re-set after deletion, syntax-error line, unit-metadata conflict, >1024 distinct interned strings}"
	edges := kit.Class[c02TextCase]{
		Name: "edges",
		Enum: func(thorough bool, yield func(c02TextCase)) {
			for _, s := range c02EdgeTexts {
				yield(c02TextCase{Text: kit.B(s), Name: "edge"})
				yield(c02TextCase{Text: kit.B(s), Name: "edge", Chunk: 1})
				yield(c02TextCase{Text: kit.B("a: 1\nBenchmarkPre 1 1 x\n" + s + "\nb: 2\nBenchmarkPost 1 1 x\n"), Name: "edge"})
			}
			// a line of every length around the line limit, in each position of the classification
			for d := -2; d <= 2; d++ {
				for _, pre := range []string{"junk ", "note: ", "BenchmarkL 1 1 ns/op 2 "} {
					line := pre + strings.Repeat("y", refread.MaxLine+d-len(pre))
					yield(c02TextCase{Text: kit.B("a: 1\nBenchmarkPre 1 1 x\n" + line + "\nBenchmarkPost 1 1 x\n"), Name: "edge"})
					yield(c02TextCase{Text: kit.B(line), Name: "edge", Chunk: 4096})
				}
			}
		},
		Check: c02CheckText, NonTrivial: c02TextNonTrivial, MinNonTrivial: 30, HangIsViolation: true,
		Rule: "hand-written inputs around every rule of the line grammar, alone, fed byte by byte and embedded between two results; lines of length limit-2..limit+2; " + rule,
	}
	grammar := kit.Class[c02TextCase]{
		Name: "grammar", Quick: 20000, Thorough: 500000, Gen: c02GenGrammar,
		Check: c02CheckText, NonTrivial: c02TextNonTrivial, MinNonTrivial: 3000, HangIsViolation: true,
		Rule: "1-60 lines from a line grammar (config set/delete/near-miss over a small key pool, unit lines, well-formed and malformed benchmark lines with Unicode white space, junk, CR/CRLF), 30% with 1-4 byte-level mutations; 1/2 of the inputs delivered in small chunks; " + rule,
	}
	intern := kit.Class[c02TextCase]{
		Name: "intern-overflow", Quick: 150, Thorough: 2500, Gen: c02GenIntern,
		Check: c02CheckText, NonTrivial: func(c c02TextCase) bool {
			out := refread.New().Read("x", string(c.Text), refread.Options{})
			return out.Stats.Distinct > 1024 && out.Stats.Results > 0 && out.Stats.Deletes > 0
		}, MinNonTrivial: 50, HangIsViolation: true,
		Rule: "1100-1500 steps setting, deleting and re-setting distinct keys in one growing configuration, with distinct units and unit metadata; non-trivial = more than 1024 distinct strings, at least one result and one effective deletion",
	}
	long := kit.Class[c02TextCase]{
		Name: "long-lines", Quick: 300, Thorough: 4000, Gen: c02GenLong,
		Check: c02CheckText, NonTrivial: c02TextNonTrivial, MinNonTrivial: 60, HangIsViolation: true,
		Rule: "config, benchmark, unit and junk lines of 4-60 KB, of exactly the line limit, and beyond it, followed by further results; " + rule,
	}
	files := kit.Class[c02FilesCase]{
		Name: "files", Quick: 1500, Thorough: 30000, Gen: c02GenFiles,
		Check: c02CheckFiles, NonTrivial: c02FilesNonTrivial, MinNonTrivial: 250, HangIsViolation: true,
		Rule: "1-4 temp files (grammar texts, shared small unit pool) read as 1-6 path entries with duplicates, label=path entries, '=' in names, rare missing files and over-long lines through benchfmt.Files (70%) or through one Reader with Reset, tool labels and early abandon (30%); non-trivial = at least two entries and one result",
	}
	kit.Run(t, "C02", edges, grammar, intern, long, files)
}
