//go:build verif

package benchproc_test

// C08: Keys identify projected tuples; Key.Get returns the extracted value;
// specific keys are excluded from the .config/.fullname groups of ALL
// projections of one parser irrespective of parse order; the projections plus
// the residue lose nothing.
//
// Oracle: the generator knows every result structurally (base name, sub-name
// parts, gomaxprocs, configuration pairs). The expected tuple of a projection
// is computed from that structure and from the SET of specific keys named in
// any expression (order-free by construction). It never looks at
// benchproc's extractors, field indexes or hashes.

import (
	"fmt"
	"regexp"
	"sort"
	"strconv"
	"strings"
	"testing"

	"golang.org/x/perf/benchfmt"
	"golang.org/x/perf/benchproc"
	kit "golang.org/x/perf/internal/verifkit"
)

// ---------------------------------------------------------------------------
// Case

type c08Field struct {
	Key   kit.B   `json:"k"`
	Order string  `json:"o,omitempty"` // "", "alpha", "num", "fixed"
	Fixed []kit.B `json:"f,omitempty"`
}

type c08Part struct {
	Key kit.B `json:"k"` // sub-name key (without "/"); unused if Pos
	Val kit.B `json:"v"`
	Pos bool  `json:"p,omitempty"` // positional part "/<Val>"
}

type c08Cfg struct {
	Key  kit.B `json:"k"`
	Val  kit.B `json:"v"`
	File bool  `json:"f,omitempty"`
}

type c08Res struct {
	Base  kit.B     `json:"b"`
	Parts []c08Part `json:"p,omitempty"`
	Gmp   string    `json:"g,omitempty"` // "-<Gmp>" suffix when non-empty
	Cfg   []c08Cfg  `json:"c,omitempty"`
	Units []kit.B   `json:"u,omitempty"`
}

type c08Case struct {
	Exprs     [][]c08Field
	Unit      int // index of the expression parsed with ParseWithUnit, -1 = none
	Pool      []c08Res
	Stream    []int // indexes into Pool; repeated indexes are re-projections
	ViaReader bool  // results come from a benchfmt.Reader that reuses one Result
	Seed      uint64
	// InPlace: ONE benchfmt.Result object is kept for the whole stream and
	// rewritten in place between stream positions (name bytes overwritten in
	// the existing slice, configuration values modified in place, keys added
	// and deleted through SetConfig), the way a streaming producer does.
	InPlace bool `json:",omitempty"`
	// Rejected are expressions that are not projections; each is handed to
	// Parse before parse step Pos of every parse order (after the last step
	// if Pos == len(Exprs)). They only name keys that some expression of
	// Exprs names, so the set of specific keys is the same under any reading
	// of what a rejected expression registers.
	Rejected []c08Rej `json:",omitempty"`
}

type c08Rej struct {
	Pos  int   `json:"p"`
	Text kit.B `json:"t"`
}

// ---------------------------------------------------------------------------
// Reference view of a result

func c08Name(r *c08Res) string {
	var sb strings.Builder
	sb.WriteString(string(r.Base))
	for _, p := range r.Parts {
		sb.WriteByte('/')
		if !p.Pos {
			sb.WriteString(string(p.Key))
			sb.WriteByte('=')
		}
		sb.WriteString(string(p.Val))
	}
	if r.Gmp != "" {
		sb.WriteByte('-')
		sb.WriteString(r.Gmp)
	}
	return sb.String()
}

// c08Remaining is the name once the parts named in sn are removed (".name"
// in sn turns the base name into "*").
func c08Remaining(r *c08Res, sn map[string]bool) string {
	var sb strings.Builder
	if sn[".name"] {
		sb.WriteByte('*')
	} else {
		sb.WriteString(string(r.Base))
	}
	for _, p := range r.Parts {
		if !p.Pos && sn["/"+string(p.Key)] {
			continue
		}
		sb.WriteByte('/')
		if !p.Pos {
			sb.WriteString(string(p.Key))
			sb.WriteByte('=')
		}
		sb.WriteString(string(p.Val))
	}
	if r.Gmp != "" && !sn["/gomaxprocs"] {
		sb.WriteByte('-')
		sb.WriteString(r.Gmp)
	}
	return sb.String()
}

func c08NameKey(r *c08Res, key string) string {
	if key == ".name" {
		return string(r.Base)
	}
	k := key[1:]
	if k == "gomaxprocs" && r.Gmp != "" {
		return r.Gmp
	}
	for _, p := range r.Parts {
		if !p.Pos && string(p.Key) == k {
			return string(p.Val)
		}
	}
	return ""
}

func c08CfgVal(r *c08Res, key string) string {
	for _, c := range r.Cfg {
		if string(c.Key) == key {
			return string(c.Val)
		}
	}
	return ""
}

// c08FileCfg is the file configuration minus the keys in exclude.
func c08FileCfg(r *c08Res, exclude map[string]bool) map[string]string {
	m := map[string]string{}
	for _, c := range r.Cfg {
		if c.File && !exclude[string(c.Key)] && len(c.Val) > 0 {
			m[string(c.Key)] = string(c.Val)
		}
	}
	return m
}

func c08MapCanon(m map[string]string) string {
	ks := make([]string, 0, len(m))
	for k := range m {
		ks = append(ks, k)
	}
	sort.Strings(ks)
	var sb strings.Builder
	sb.WriteByte('{')
	for _, k := range ks {
		sb.WriteString(strconv.Quote(k))
		sb.WriteByte('=')
		sb.WriteString(strconv.Quote(m[k]))
		sb.WriteByte(';')
	}
	sb.WriteByte('}')
	return sb.String()
}

// c08Sets returns the specific configuration keys and the specific name keys
// named in any expression.
func c08Sets(c *c08Case) (sc, sn map[string]bool, haveConfig, haveFullname bool) {
	sc, sn = map[string]bool{}, map[string]bool{}
	for _, e := range c.Exprs {
		for _, f := range e {
			k := string(f.Key)
			switch {
			case k == ".config":
				haveConfig = true
			case k == ".fullname":
				haveFullname = true
			case k == ".name" || strings.HasPrefix(k, "/"):
				sn[k] = true
			default:
				sc[k] = true
			}
		}
	}
	return
}

// c08Want is the expected tuple of one projection for one result.
type c08Want struct {
	top   []string          // value per top-level field ("" for group fields)
	cfg   map[string]string // value of the .config group (nil if none)
	canon string            // canonical text of the tuple without unit
}

func c08Expect(keys []string, r *c08Res, sc, sn map[string]bool) *c08Want {
	w := &c08Want{top: make([]string, len(keys))}
	var sb strings.Builder
	for i, k := range keys {
		switch {
		case k == ".config":
			if w.cfg == nil {
				w.cfg = c08FileCfg(r, sc)
			}
			sb.WriteString(c08MapCanon(w.cfg))
		case k == ".fullname":
			w.top[i] = c08Remaining(r, sn)
		case k == ".name" || strings.HasPrefix(k, "/"):
			w.top[i] = c08NameKey(r, k)
		default:
			w.top[i] = c08CfgVal(r, k)
		}
		if k != ".config" {
			sb.WriteString(strconv.Quote(w.top[i]))
		}
		sb.WriteByte('|')
	}
	w.canon = sb.String()
	return w
}

// c08RHS is the right-hand side of "lose nothing": file configuration, every
// individually projected key, and the remaining name.
func c08RHS(r *c08Res, sc, sn map[string]bool) string {
	var sb strings.Builder
	// A key that is projected individually is compared by its configured
	// VALUE below (a plain key reads internal configuration too, e.g. .file);
	// whether that value is file or internal configuration in a given result
	// is not observable through any projection, so such keys are left out of
	// the file-configuration part (false alarm of the thorough tier after the
	// generator began to carry file keys as internal configuration).
	sb.WriteString(c08MapCanon(c08FileCfg(r, sc)))
	ks := make([]string, 0, len(sc)+len(sn))
	for k := range sc {
		ks = append(ks, k)
	}
	sort.Strings(ks)
	for _, k := range ks {
		sb.WriteString(strconv.Quote(c08CfgVal(r, k)))
		sb.WriteByte('|')
	}
	ks = ks[:0]
	for k := range sn {
		ks = append(ks, k)
	}
	sort.Strings(ks)
	for _, k := range ks {
		sb.WriteString(strconv.Quote(c08NameKey(r, k)))
		sb.WriteByte('|')
	}
	sb.WriteString(strconv.Quote(c08Remaining(r, sn)))
	return sb.String()
}

// ---------------------------------------------------------------------------
// Rendering

var c08Bare = regexp.MustCompile(`^[A-Za-z0-9_./=][A-Za-z0-9_./=+-]*$`)

func c08Word(s string) string {
	if c08Bare.MatchString(s) && s != "AND" && s != "OR" {
		return s
	}
	return strconv.Quote(s)
}

func c08ExprText(e []c08Field, sep string) string {
	var parts []string
	for _, f := range e {
		s := c08Word(string(f.Key))
		switch f.Order {
		case "":
		case "fixed":
			ws := make([]string, len(f.Fixed))
			for i, w := range f.Fixed {
				ws[i] = c08Word(string(w))
			}
			s += "@(" + strings.Join(ws, " ") + ")"
		default:
			s += "@" + f.Order
		}
		parts = append(parts, s)
	}
	return strings.Join(parts, sep)
}

func c08Build(r *c08Res) *benchfmt.Result {
	res := &benchfmt.Result{Name: benchfmt.Name(c08Name(r)), Iters: 1}
	for _, c := range r.Cfg {
		res.Config = append(res.Config, benchfmt.Config{Key: string(c.Key), Value: []byte(string(c.Val)), File: c.File})
	}
	for i, u := range r.Units {
		res.Values = append(res.Values, benchfmt.Value{Value: float64(i + 1), Unit: string(u)})
	}
	return res
}

// c08Rewrite turns the reused result object into r in place, within the
// documented contract of benchfmt.Result: Name is the caller's []byte (its
// bytes are overwritten when the length allows, otherwise the slice is
// re-filled from index 0), configuration values are modified in place, keys
// are added and deleted with SetConfig, the File flag of an entry is set in
// the slice element.
func c08Rewrite(res *benchfmt.Result, r *c08Res) {
	name := c08Name(r)
	if len(name) == len(res.Name) {
		if string(res.Name) != name {
			kit.Count("c08.inplace_same_length_renames", 1)
		}
		copy(res.Name, name)
	} else {
		res.Name = append(res.Name[:0], name...)
	}
	want := map[string]bool{}
	for _, cf := range r.Cfg {
		if len(cf.Val) > 0 {
			want[string(cf.Key)] = true
		}
	}
	var dels []string
	for _, cf := range res.Config {
		if !want[cf.Key] {
			dels = append(dels, cf.Key)
		}
	}
	for _, k := range dels {
		res.SetConfig(k, "")
	}
	for _, cf := range r.Cfg {
		k, v := string(cf.Key), string(cf.Val)
		if v == "" {
			continue
		}
		pos, ok := res.ConfigIndex(k)
		if !ok {
			res.SetConfig(k, v)
			pos, _ = res.ConfigIndex(k)
		} else if e := &res.Config[pos]; len(e.Value) == len(v) {
			copy(e.Value, v)
		} else {
			e.Value = append(e.Value[:0], v...)
		}
		res.Config[pos].File = cf.File
	}
	res.Values = res.Values[:0]
	for i, u := range r.Units {
		res.Values = append(res.Values, benchfmt.Value{Value: float64(i + 1), Unit: string(u)})
	}
}

// c08ReaderText renders the stream as benchmark text: before each benchmark
// line the file configuration lines that turn the previous result's file
// configuration into this one's (an empty value deletes a key).
func c08ReaderText(c *c08Case) string {
	var sb strings.Builder
	cur := map[string]string{}
	for _, pi := range c.Stream {
		r := &c.Pool[pi]
		want := c08FileCfg(r, nil)
		var dels []string
		for k := range cur {
			if _, ok := want[k]; !ok {
				dels = append(dels, k)
			}
		}
		sort.Strings(dels)
		for _, k := range dels {
			sb.WriteString(k + ":\n")
			delete(cur, k)
		}
		// set in the result's own order
		for _, cf := range r.Cfg {
			if !cf.File {
				continue
			}
			k, v := string(cf.Key), string(cf.Val)
			if cur[k] != v {
				sb.WriteString(k + ": " + v + "\n")
				cur[k] = v
			}
		}
		sb.WriteString("Benchmark" + c08Name(r) + " 1")
		for i, u := range r.Units {
			sb.WriteString(" " + strconv.Itoa(i+1) + " " + string(u))
		}
		sb.WriteByte('\n')
	}
	return sb.String()
}

// ---------------------------------------------------------------------------
// One parser state (one parse order)

type c08Proj struct {
	p      *benchproc.Projection
	keys   []string // meaning of each top-level field
	unit   *benchproc.Field
	canon  map[string]benchproc.Key
	byKey  map[benchproc.Key]string
	want   map[benchproc.Key]*c08Want
	unitV  map[benchproc.Key]string
	at     []benchproc.Key // key of the whole result per stream position
	wcache map[int]*c08Want
	label  string
}

type c08State struct {
	order []int
	projs []*c08Proj // one per expression (expression index order) + residue last
	all   map[[7]benchproc.Key]string
	rhs   map[string][7]benchproc.Key
}

func c08Perms(n int) [][]int {
	var out [][]int
	p := make([]int, n)
	for i := range p {
		p[i] = i
	}
	var rec func(k int)
	rec = func(k int) {
		if k == n {
			out = append(out, append([]int(nil), p...))
			return
		}
		for i := k; i < n; i++ {
			p[k], p[i] = p[i], p[k]
			rec(k + 1)
			p[k], p[i] = p[i], p[k]
		}
	}
	rec(0)
	return out
}

func c08NewProj(p *benchproc.Projection, keys []string, label string) *c08Proj {
	return &c08Proj{p: p, keys: keys, label: label,
		canon: map[string]benchproc.Key{}, byKey: map[benchproc.Key]string{},
		want: map[benchproc.Key]*c08Want{}, unitV: map[benchproc.Key]string{}}
}

var errC08Skip = &kit.Fail{Sig: "skip"}

func c08Setup(c *c08Case, order []int, texts []string, haveConfig, haveFullname bool) (*c08State, *kit.Fail) {
	st := &c08State{order: order, projs: make([]*c08Proj, len(c.Exprs)+1),
		all: map[[7]benchproc.Key]string{}, rhs: map[string][7]benchproc.Key{}}
	var pp benchproc.ProjectionParser
	filter, err := benchproc.NewFilter("*")
	if err != nil {
		return nil, kit.Failf("monitor-setup", "NewFilter(*): %v", err)
	}
	rejected := func(step int) bool {
		for _, rj := range c.Rejected {
			if rj.Pos != step {
				continue
			}
			if _, err := pp.Parse(string(rj.Text), filter); err == nil {
				return false // whether this text is a projection is C07's subject
			}
			kit.Count("c08.rejected_parse_calls", 1)
		}
		return true
	}
	for step, ei := range order {
		if !rejected(step) {
			return nil, errC08Skip
		}
		keys := make([]string, len(c.Exprs[ei]))
		for i, f := range c.Exprs[ei] {
			keys[i] = string(f.Key)
		}
		label := fmt.Sprintf("expr#%d %q (parse order %v)", ei, texts[ei], order)
		var p *benchproc.Projection
		var unit *benchproc.Field
		if ei == c.Unit {
			p, unit, err = pp.ParseWithUnit(texts[ei], filter)
		} else {
			p, err = pp.Parse(texts[ei], filter)
		}
		if err != nil {
			return nil, kit.Failf("parse-rejected", "%s: %v", label, err)
		}
		pr := c08NewProj(p, keys, label)
		pr.unit = unit
		// Fields() corresponds to the expression (plus .unit).
		fs := p.Fields()
		wantN := len(keys)
		if unit != nil {
			wantN++
		}
		if len(fs) != wantN {
			return nil, kit.Failf("fields-shape", "%s: %d top-level fields, want %d", label, len(fs), wantN)
		}
		for i, k := range keys {
			if fs[i].Name != k || fs[i].IsTuple != (k == ".config") {
				return nil, kit.Failf("fields-shape", "%s: field %d is %q tuple=%v, want %q", label, i, fs[i].Name, fs[i].IsTuple, k)
			}
		}
		if unit != nil && (fs[len(fs)-1] != unit || unit.Name != ".unit") {
			return nil, kit.Failf("fields-shape", "%s: unit field %q not last", label, unit.Name)
		}
		st.projs[ei] = pr
	}
	if !rejected(len(order)) {
		return nil, errC08Skip
	}
	res := pp.Residue()
	var rkeys []string
	for _, f := range res.Fields() {
		if (f.Name == ".config" && f.IsTuple) || (f.Name == ".fullname" && !f.IsTuple) {
			rkeys = append(rkeys, f.Name)
			continue
		}
		return nil, kit.Failf("residue-shape", "residue (parse order %v) has a field %q (tuple=%v) the oracle cannot interpret", order, f.Name, f.IsTuple)
	}
	st.projs[len(c.Exprs)] = c08NewProj(res, rkeys, fmt.Sprintf("residue (parse order %v)", order))
	return st, nil
}

// c08CheckKey compares one key with the expected tuple through Get.
func c08CheckKey(pr *c08Proj, k benchproc.Key, w *c08Want, unitVal string, sc map[string]bool, when string) *kit.Fail {
	fs := pr.p.Fields()
	for i, key := range pr.keys {
		f := fs[i]
		if key != ".config" {
			if got := k.Get(f); got != w.top[i] {
				sig := "get-wrong"
				if key == ".fullname" {
					sig = "fullname-wrong"
				}
				return kit.Failf(sig, "%s %s: Get(%s)=%q want %q (key %q)", pr.label, when, key, got, w.top[i], k.String())
			}
			continue
		}
		seen := 0
		for _, sub := range f.Sub {
			if sc[sub.Name] {
				return kit.Failf("excluded-key-in-config", "%s %s: .config has a sub-field for the specific key %q", pr.label, when, sub.Name)
			}
			got := k.Get(sub)
			if got != w.cfg[sub.Name] {
				return kit.Failf("get-wrong", "%s %s: Get(.config/%s)=%q want %q (key %q)", pr.label, when, sub.Name, got, w.cfg[sub.Name], k.String())
			}
			if got != "" {
				seen++
			}
		}
		if seen != len(w.cfg) {
			return kit.Failf("config-key-lost", "%s %s: .config shows %d of the %d expected pairs %s (key %q)", pr.label, when, seen, len(w.cfg), c08MapCanon(w.cfg), k.String())
		}
	}
	if pr.unit != nil {
		if got := k.Get(pr.unit); got != unitVal {
			return kit.Failf("unit-wrong", "%s %s: Get(.unit)=%q want %q", pr.label, when, got, unitVal)
		}
	}
	return nil
}

// c08Observe records one projected key under its expected tuple and checks
// "equal keys <=> equal tuples" against everything seen so far.
func c08Observe(pr *c08Proj, k benchproc.Key, w *c08Want, unitVal string, sc map[string]bool, t int) *kit.Fail {
	when := fmt.Sprintf("at stream position %d", t)
	if k.IsZero() {
		return kit.Failf("zero-key", "%s %s: zero Key", pr.label, when)
	}
	canon := w.canon + "unit=" + strconv.Quote(unitVal)
	if old, ok := pr.canon[canon]; ok {
		if old != k {
			return kit.Failf("equal-tuples-different-keys", "%s %s: tuple %s got key %q now and a different Key %q before", pr.label, when, canon, k.String(), old.String())
		}
	} else {
		if oc, ok := pr.byKey[k]; ok && oc != canon {
			return kit.Failf("different-tuples-same-key", "%s %s: tuples %s and %s share Key %q", pr.label, when, oc, canon, k.String())
		}
		pr.canon[canon] = k
		pr.byKey[k] = canon
		pr.want[k] = w
		pr.unitV[k] = unitVal
	}
	if oc := pr.byKey[k]; oc != canon {
		return kit.Failf("different-tuples-same-key", "%s %s: tuples %s and %s share Key %q", pr.label, when, oc, canon, k.String())
	}
	return c08CheckKey(pr, k, w, unitVal, sc, when)
}

// ---------------------------------------------------------------------------
// The check

func c08Check(c c08Case) *kit.Fail {
	if len(c.Exprs) < 1 || len(c.Exprs) > 5 || len(c.Pool) == 0 {
		return nil
	}
	sc, sn, haveConfig, haveFullname := c08Sets(&c)
	texts := make([]string, len(c.Exprs))
	for i, e := range c.Exprs {
		sep := ","
		if i%2 == 1 {
			sep = " "
		}
		texts[i] = c08ExprText(e, sep)
	}

	// Expected tuples per pool entry and projection spec (order-free).
	nP := len(c.Exprs) + 1

	perms := c08Perms(len(c.Exprs))
	states := make([]*c08State, len(perms))
	for i, o := range perms {
		st, f := c08Setup(&c, o, texts, haveConfig, haveFullname)
		if f == errC08Skip {
			kit.Count("c08.rejected_expression_accepted_case_skipped", 1)
			return nil
		}
		if f != nil {
			return f
		}
		states[i] = st
	}
	kit.Count("c08.parse_orders", int64(len(perms)))

	wants := make([][]*c08Want, len(c.Pool)) // [pool][spec]
	rhs := make([]string, len(c.Pool))
	want := func(pi, spec int, keys []string) *c08Want {
		if wants[pi] == nil {
			wants[pi] = make([]*c08Want, nP)
		}
		if wants[pi][spec] == nil {
			wants[pi][spec] = c08Expect(keys, &c.Pool[pi], sc, sn)
		}
		return wants[pi][spec]
	}
	// The residue's field order is taken from the projection itself, so its
	// expectations are cached per projection.
	wantOf := func(pr *c08Proj, pi, spec int) *c08Want {
		if spec != nP-1 {
			return want(pi, spec, pr.keys)
		}
		if pr.wcache == nil {
			pr.wcache = map[int]*c08Want{}
		}
		if pr.wcache[pi] == nil {
			pr.wcache[pi] = c08Expect(pr.keys, &c.Pool[pi], sc, sn)
		}
		return pr.wcache[pi]
	}

	// Result source.
	var rd *benchfmt.Reader
	if c.ViaReader {
		rd = benchfmt.NewReader(strings.NewReader(c08ReaderText(&c)), "c08")
	}
	var reused *benchfmt.Result
	if c.InPlace && rd == nil {
		reused = &benchfmt.Result{Iters: 1}
	}
	seenPool := map[int]bool{}
	for t, pi := range c.Stream {
		if pi < 0 || pi >= len(c.Pool) {
			return nil
		}
		r := &c.Pool[pi]
		var res *benchfmt.Result
		if rd != nil {
			ok := rd.Scan()
			var isRes bool
			if ok {
				res, isRes = rd.Result().(*benchfmt.Result)
			}
			if !ok || !isRes || string(res.Name) != c08Name(r) || len(res.Values) != len(r.Units) {
				// The reader did not deliver what the text was meant to say:
				// not this property's subject; give up on the case.
				kit.Count("c08.reader_precondition_skipped", 1)
				return nil
			}
			// internal configuration the way a tool sets it
			for _, cf := range c.allInternalKeys() {
				res.SetConfig(cf, c08InternalVal(r, cf))
			}
			got := map[string]string{}
			for _, cf := range res.Config {
				if cf.File {
					got[cf.Key] = string(cf.Value)
				}
			}
			if c08MapCanon(got) != c08MapCanon(c08FileCfg(r, nil)) {
				kit.Count("c08.reader_precondition_skipped", 1)
				return nil
			}
			for i, v := range res.Values {
				if v.Unit != string(r.Units[i]) {
					kit.Count("c08.reader_precondition_skipped", 1)
					return nil
				}
			}
		}
		if reused != nil {
			c08Rewrite(reused, r)
			res = reused
		}
		if seenPool[pi] {
			kit.Count("c08.reprojections", 1)
		}
		seenPool[pi] = true
		if rhs[pi] == "" {
			rhs[pi] = c08RHS(r, sc, sn)
		}
		for _, st := range states {
			var arr [7]benchproc.Key
			for si, pr := range st.projs {
				if rd == nil && reused == nil {
					res = c08Build(r) // fresh object each time: no aliasing between projections
				}
				w := wantOf(pr, pi, si)
				if pr.unit != nil {
					ks := pr.p.ProjectValues(res)
					if len(ks) != len(r.Units) {
						return kit.Failf("projectvalues-len", "%s: %d keys for %d values", pr.label, len(ks), len(r.Units))
					}
					for vi, k := range ks {
						if f := c08Observe(pr, k, w, string(r.Units[vi]), sc, t); f != nil {
							return f
						}
					}
				}
				k := pr.p.Project(res)
				if f := c08Observe(pr, k, w, "", sc, t); f != nil {
					return f
				}
				pr.at = append(pr.at, k)
				arr[si] = k
			}
			// lose nothing: all keys agree <=> same file configuration,
			// projected keys and remaining name.
			if old, ok := st.all[arr]; ok {
				if old != rhs[pi] {
					return kit.Failf("projections-lose-information", "parse order %v, stream position %d: all projections and the residue give the same keys for results that differ: %s vs %s", st.order, t, old, rhs[pi])
				}
			} else {
				if oa, ok := st.rhs[rhs[pi]]; ok && oa != arr {
					which := ""
					for si := range st.projs {
						if oa[si] != arr[si] {
							which += fmt.Sprintf(" [%s: %q vs %q]", st.projs[si].label, oa[si].String(), arr[si].String())
						}
					}
					return kit.Failf("equal-results-different-keys", "parse order %v, stream position %d: results with the same file configuration, projected keys and remaining name (%s) differ in%s", st.order, t, rhs[pi], which)
				}
				st.all[arr] = rhs[pi]
				st.rhs[rhs[pi]] = arr
			}
		}
		kit.Count("c08.projections", int64(len(states)*nP))
	}

	// Keys are immutable: every key still reads its tuple after the field set grew.
	for _, st := range states {
		for _, pr := range st.projs {
			for k, w := range pr.want {
				if f := c08CheckKey(pr, k, w, pr.unitV[k], sc, "re-read at the end of the stream"); f != nil {
					f.Sig = "late-" + f.Sig
					return f
				}
			}
		}
	}

	// NonSingularFields on seeded subsets (identity order and the reversed order).
	rr := kit.NewRand(c.Seed, "c08-nonsingular", 0)
	for _, st := range []*c08State{states[0], states[len(states)-1]} {
		for si, pr := range st.projs {
			for rep := 0; rep < 3; rep++ {
				n := rr.Range(2, 5)
				var ks []benchproc.Key
				var ws []*c08Want
				for j := 0; j < n; j++ {
					t := rr.Intn(len(c.Stream))
					ks = append(ks, pr.at[t])
					ws = append(ws, wantOf(pr, c.Stream[t], si))
				}
				var wantNames []string
				fs := pr.p.Fields()
				for i, key := range pr.keys {
					if key != ".config" {
						for _, w := range ws[1:] {
							if w.top[i] != ws[0].top[i] {
								wantNames = append(wantNames, key)
								break
							}
						}
						continue
					}
					for _, sub := range fs[i].Sub {
						for _, w := range ws[1:] {
							if w.cfg[sub.Name] != ws[0].cfg[sub.Name] {
								wantNames = append(wantNames, sub.Name)
								break
							}
						}
					}
				}
				var gotNames []string
				for _, f := range benchproc.NonSingularFields(ks) {
					gotNames = append(gotNames, f.Name)
				}
				// compared as sets: the statement says nothing about the order in
				// which the differing fields are listed (a benign change that sorts
				// them by name fired here - false alarm corrected, DESIGN.md 9.5)
				sort.Strings(gotNames)
				sort.Strings(wantNames)
				if strings.Join(gotNames, "\x00") != strings.Join(wantNames, "\x00") {
					return kit.Failf("nonsingular-wrong", "%s: NonSingularFields=%q want %q", pr.label, gotNames, wantNames)
				}
			}
		}
	}
	return nil
}

func (c *c08Case) allInternalKeys() []string {
	seen := map[string]bool{}
	var out []string
	for i := range c.Pool {
		for _, cf := range c.Pool[i].Cfg {
			if !cf.File && !seen[string(cf.Key)] {
				seen[string(cf.Key)] = true
				out = append(out, string(cf.Key))
			}
		}
	}
	sort.Strings(out)
	return out
}

func c08InternalVal(r *c08Res, key string) string {
	for _, cf := range r.Cfg {
		if !cf.File && string(cf.Key) == key {
			return string(cf.Val)
		}
	}
	return ""
}

// ---------------------------------------------------------------------------
// Generator

var (
	c08Vals      = []string{"a", "b", "ab", "ba", "aa", "1", "2", "12", "a=b", "x-y"}
	c08PartVals  = []string{"a", "b", "ab", "ba", "", "1", "2", "12", "a=b", "4k"}
	c08Bases     = []string{"X", "Y", "Foo", "ab", "a", "b", "Ben-ch"}
	c08NameKeys  = []string{"a", "b", "ab", "size", "c"}
	c08PosVals   = []string{"x", "ab", "a", "q1", ""}
	c08CfgKeys   = []string{"k1", "k2", "k3", "k4", "k5", "k6", "pkg", "goos", "ключ", "a b", "K:9"}
	c08CfgKeysRd = []string{"k1", "k2", "k3", "k4", "k5", "k6", "pkg", "goos", "ключ"}
	c08Internal  = []string{".file", ".tool"}
	c08Units     = []string{"ns/op", "B/op", "a", "b", "ab"}
	c08UnitsRd   = []string{"x/op", "y/op", "a", "b", "ab"}
	c08GmpDigits = regexp.MustCompile(`-[0-9]+$`)
)

func c08GenField(r *kit.Rand, key string) c08Field {
	f := c08Field{Key: kit.B(key)}
	switch x := r.Intn(20); {
	case x < 12:
	case x < 15:
		f.Order = "alpha"
	case x < 18:
		f.Order = "num"
	default:
		if key != ".config" {
			f.Order = "fixed"
			n := r.Range(1, 3)
			for i := 0; i < n; i++ {
				f.Fixed = append(f.Fixed, kit.B(kit.Pick(r, c08Vals)))
			}
		}
	}
	return f
}

func c08Gen(r *kit.Rand, i int) c08Case      { return c08GenSized(r, i, false) }
func c08GenSmall(r *kit.Rand, i int) c08Case { return c08GenSized(r, i, true) }

func c08GenSized(r *kit.Rand, i int, small bool) c08Case {
	c := c08Case{Unit: -1, ViaReader: i%4 == 3, Seed: r.Uint64()}
	cfgKeys := c08CfgKeys
	units := c08Units
	if c.ViaReader {
		cfgKeys = c08CfgKeysRd
		units = c08UnitsRd
	}

	// Expressions.
	nExpr := kit.Pick(r, []int{2, 2, 3, 3, 3, 4, 4, 5})
	if small {
		nExpr = r.Range(2, 3)
	}
	specCfg := append([]string{".file"}, cfgKeys[:6]...)
	if !c.ViaReader {
		specCfg = append(specCfg, "a b")
	}
	specName := []string{".name", "/a", "/b", "/ab", "/gomaxprocs", "/size"}
	var flat []string
	if r.Chance(0.85) {
		flat = append(flat, ".config")
	}
	if r.Chance(0.7) {
		flat = append(flat, ".fullname")
	}
	nSpec := r.Range(1, 5)
	if small {
		nSpec = r.Range(1, 2)
	}
	for j := 0; j < nSpec; j++ {
		if r.Chance(0.5) {
			flat = append(flat, kit.Pick(r, specCfg))
		} else {
			flat = append(flat, kit.Pick(r, specName))
		}
	}
	if r.Chance(0.15) {
		flat = append(flat, kit.Pick(r, []string{".config", ".fullname"}))
	}
	for len(flat) < nExpr {
		flat = append(flat, kit.Pick(r, append(append([]string{}, specCfg...), specName...)))
	}
	kit.Shuffle(r, flat)
	c.Exprs = make([][]c08Field, nExpr)
	for j, k := range flat {
		e := j
		if j >= nExpr {
			e = r.Intn(nExpr)
		}
		c.Exprs[e] = append(c.Exprs[e], c08GenField(r, k))
	}
	if r.Chance(0.5) {
		c.Unit = r.Intn(nExpr)
	}

	// Pool and stream. Configuration key j becomes available at pool index avail[j].
	maxLen := 200
	if nExpr == 5 {
		maxLen = 60 // 120 parse orders
	} else if nExpr == 4 {
		maxLen = 120
	}
	streamLen := r.Range(20, maxLen)
	lateLo, lateHi, reprojAfter := 10, 18, 10
	if small {
		streamLen = r.Range(8, 14)
		lateLo, lateHi, reprojAfter = 3, 5, 3
	}
	keys := append([]string{}, cfgKeys...)
	kit.Shuffle(r, keys)
	avail := make([]int, len(keys))
	for j := range keys {
		switch {
		case j < 2:
			avail[j] = 0
		case j == 2:
			avail[j] = r.Range(lateLo, lateHi)
		default:
			avail[j] = r.Range(1, streamLen*3/4)
		}
	}
	nameKeys := append([]string{}, c08NameKeys...)
	for t := 0; t < streamLen; t++ {
		if len(c.Pool) > reprojAfter && r.Chance(0.3) {
			// re-project an earlier result (bias towards the very early ones)
			if r.Chance(0.5) {
				c.Stream = append(c.Stream, r.Intn(minInt(12, len(c.Pool))))
			} else {
				c.Stream = append(c.Stream, c.Stream[r.Intn(len(c.Stream))])
			}
			continue
		}
		pi := len(c.Pool)
		var res c08Res
		res.Base = kit.B(kit.Pick(r, c08Bases))
		if r.Chance(0.03) {
			res.Base = ""
		}
		kit.Shuffle(r, nameKeys)
		np := r.Intn(4)
		for j := 0; j < np; j++ {
			res.Parts = append(res.Parts, c08Part{Key: kit.B(nameKeys[j]), Val: kit.B(kit.Pick(r, c08PartVals))})
		}
		if r.Chance(0.25) {
			pos := r.Intn(len(res.Parts) + 1)
			p := c08Part{Pos: true, Val: kit.B(kit.Pick(r, c08PosVals))}
			res.Parts = append(res.Parts[:pos], append([]c08Part{p}, res.Parts[pos:]...)...)
		}
		switch x := r.Intn(10); {
		case x < 4:
		case x < 8:
			res.Gmp = kit.Pick(r, []string{"1", "2", "4", "16"})
		default:
			pos := r.Intn(len(res.Parts) + 1)
			p := c08Part{Key: "gomaxprocs", Val: kit.B(kit.Pick(r, []string{"1", "2", "4", "16"}))}
			res.Parts = append(res.Parts[:pos], append([]c08Part{p}, res.Parts[pos:]...)...)
		}
		if res.Gmp == "" {
			// the name must not end in something that reads as -N
			for c08GmpDigits.MatchString(c08Name(&res)) || strings.HasSuffix(c08Name(&res), "-") && false {
				if n := len(res.Parts); n > 0 {
					res.Parts[n-1].Val += "x"
				} else {
					res.Base += "x"
				}
			}
		}
		if c.ViaReader && c08Name(&res) == "" {
			res.Base = "X"
		}
		pPresent := r.Float64()*0.6 + 0.3
		for j, k := range keys {
			if avail[j] <= pi && r.Chance(pPresent) {
				// In results built through the API a key that other results carry
				// as file configuration is now and then INTERNAL configuration
				// (a tool's SetConfig overriding it): it is then no part of this
				// result's file configuration, whatever it was in earlier results.
				file := c.ViaReader || !r.Chance(0.12)
				res.Cfg = append(res.Cfg, c08Cfg{Key: kit.B(k), Val: kit.B(kit.Pick(r, c08Vals)), File: file})
			}
		}
		for _, k := range c08Internal {
			if r.Chance(0.5) {
				res.Cfg = append(res.Cfg, c08Cfg{Key: kit.B(k), Val: kit.B(kit.Pick(r, c08Vals)), File: false})
			}
		}
		kit.Shuffle(r, res.Cfg)
		nu := r.Range(1, 3)
		if !c.ViaReader && r.Chance(0.05) {
			nu = 0
		}
		for j := 0; j < nu; j++ {
			res.Units = append(res.Units, kit.B(kit.Pick(r, units)))
		}
		c.Pool = append(c.Pool, res)
		c.Stream = append(c.Stream, pi)
	}
	return c
}

// c08GenInPlace: the same cases, projected from ONE result object that is
// rewritten in place (1 in 5 with the long streams).
func c08GenInPlace(r *kit.Rand, i int) c08Case {
	c := c08GenSized(r, i, i%5 != 0)
	c.ViaReader, c.InPlace = false, true
	// Make renames to a different name of the same length frequent: half of
	// the new results take the name structure of their predecessor in the
	// stream with one component replaced by another of the same length.
	swap := map[string][]string{
		"X": {"Y"}, "Y": {"X"}, "a": {"b", "1", "2"}, "b": {"a", "1", "2"}, "1": {"2", "a"}, "2": {"1", "b"}, "4": {"1", "2"},
		"ab": {"ba", "aa", "12"}, "ba": {"ab", "12"}, "aa": {"ab", "ba"}, "12": {"ab", "ba"}, "16": {"12"}, "Foo": {"Bar", "Fop"}, "4k": {"ab", "12"}, "q1": {"ab"}, "x": {"a"},
	}
	first := map[int]bool{}
	for t, pi := range c.Stream {
		isNew := !first[pi]
		first[pi] = true
		if t == 0 || !isNew || !r.Chance(0.5) {
			continue
		}
		prev, cur := &c.Pool[c.Stream[t-1]], &c.Pool[pi]
		cur.Base, cur.Gmp = prev.Base, prev.Gmp
		cur.Parts = append([]c08Part(nil), prev.Parts...)
		switch x := r.Intn(3); {
		case x == 0 && len(swap[string(cur.Base)]) > 0:
			cur.Base = kit.B(kit.Pick(r, swap[string(cur.Base)]))
		case x == 1 && cur.Gmp != "" && len(swap[cur.Gmp]) > 0:
			cur.Gmp = kit.Pick(r, []string{"1", "2", "4"})
			if len(prev.Gmp) == 2 {
				cur.Gmp = kit.Pick(r, []string{"12", "16", "32"})
			}
		default:
			if len(cur.Parts) > 0 {
				j := r.Intn(len(cur.Parts))
				if alt := swap[string(cur.Parts[j].Val)]; len(alt) > 0 {
					cur.Parts[j].Val = kit.B(kit.Pick(r, alt))
				}
			}
		}
		if cur.Gmp == "" {
			for c08GmpDigits.MatchString(c08Name(cur)) {
				if n := len(cur.Parts); n > 0 {
					cur.Parts[n-1].Val += "x"
				} else {
					cur.Base += "x"
				}
			}
		}
	}
	return c
}

// c08GenRejected: the same cases (all three result sources) plus 1-3 rejected
// Parse calls interleaved with the valid ones.
func c08GenRejected(r *kit.Rand, i int) c08Case {
	c := c08GenSized(r, i, i%10 != 0)
	c.InPlace = i%4 == 1
	var named []string
	seen := map[string]bool{}
	for _, e := range c.Exprs {
		for _, f := range e {
			if k := string(f.Key); !seen[k] {
				seen[k] = true
				named = append(named, k)
			}
		}
	}
	for n := r.Range(1, 3); n > 0; n-- {
		var fields []c08Field
		for m := r.Range(1, 3); m > 0; m-- {
			fields = append(fields, c08GenField(r, kit.Pick(r, named)))
		}
		bk := c08Word(kit.Pick(r, named))
		bads := []string{".unit", ".unit@alpha", bk + "@alhpa", bk + "@numeric", bk + "@ALPHA", bk + "@x"}
		malformed := []string{bk + "@(a b", bk + "@"}
		if seen[".config"] {
			bads = append(bads, ".config@(a b)")
		}
		sep := kit.Pick(r, []string{",", " "})
		var text string
		switch x := r.Intn(10); {
		case x < 2: // malformed token, last
			text = c08ExprText(fields, sep) + sep + kit.Pick(r, malformed)
		case x < 8: // ruled-out field, last
			text = c08ExprText(fields, sep) + sep + kit.Pick(r, bads)
		default: // ruled-out field somewhere before the end
			at := r.Intn(len(fields))
			text = kit.Pick(r, bads) + sep + c08ExprText(fields[at:], sep)
			if at > 0 {
				text = c08ExprText(fields[:at], sep) + sep + text
			}
		}
		c.Rejected = append(c.Rejected, c08Rej{Pos: r.Intn(len(c.Exprs) + 1), Text: kit.B(text)})
	}
	return c
}

// c08NonTrivialInPlace: some name key is specific (so .fullname is a computed
// value) and the reused result is renamed at least twice to a different name
// of the same length (the bytes of the previous name are overwritten).
func c08NonTrivialInPlace(c c08Case) bool {
	_, sn, _, _ := c08Sets(&c)
	if !c.InPlace || len(sn) == 0 {
		return false
	}
	n := 0
	for t := 1; t < len(c.Stream); t++ {
		a, b := c.Stream[t-1], c.Stream[t]
		if a < 0 || b < 0 || a >= len(c.Pool) || b >= len(c.Pool) {
			return false
		}
		if x, y := c08Name(&c.Pool[a]), c08Name(&c.Pool[b]); len(x) == len(y) && x != y {
			n++
		}
	}
	return n >= 2
}

// c08NonTrivialRejected: a rejected Parse call names (as a word of its text;
// the generator only uses keys of the case) a specific key that occurs in the
// stream, and the plain rule about excluded keys holds.
func c08NonTrivialRejected(c c08Case) bool {
	if len(c.Rejected) == 0 {
		return false
	}
	sc, sn, _, _ := c08Sets(&c)
	occurs := map[string]bool{}
	for _, pi := range c.Stream {
		if pi < 0 || pi >= len(c.Pool) {
			return false
		}
		r := &c.Pool[pi]
		for _, cf := range r.Cfg {
			occurs[string(cf.Key)] = true
		}
		for _, p := range r.Parts {
			if !p.Pos {
				occurs["/"+string(p.Key)] = true
			}
		}
		if r.Gmp != "" {
			occurs["/gomaxprocs"] = true
		}
		occurs[".name"] = true
	}
	for _, rj := range c.Rejected {
		for k := range sc {
			if occurs[k] && strings.Contains(string(rj.Text), c08Word(k)) {
				return true
			}
		}
		for k := range sn {
			if occurs[k] && strings.Contains(string(rj.Text), c08Word(k)) {
				return true
			}
		}
	}
	return false
}

func minInt(a, b int) int {
	if a < b {
		return a
	}
	return b
}

// c08NonTrivial: at least one group field with at least one excluded specific
// key that really occurs in the stream, and at least one file configuration key
// first seen after >= 10 results, and at least one re-projection after that.
func c08NonTrivial(c c08Case) bool      { return c08NonTrivialN(c, 10) }
func c08NonTrivialSmall(c c08Case) bool { return c08NonTrivialN(c, 3) }

func c08NonTrivialN(c c08Case, lateMin int) bool {
	sc, sn, haveConfig, haveFullname := c08Sets(&c)
	first := map[string]int{}
	exclCfg, exclName := false, false
	late := -1
	reproj := false
	seen := map[int]bool{}
	for t, pi := range c.Stream {
		if pi < 0 || pi >= len(c.Pool) {
			return false
		}
		r := &c.Pool[pi]
		for _, cf := range r.Cfg {
			if !cf.File {
				continue
			}
			if _, ok := first[string(cf.Key)]; !ok {
				first[string(cf.Key)] = t
				if t >= lateMin && !sc[string(cf.Key)] && late < 0 {
					late = t
				}
			}
			if sc[string(cf.Key)] {
				exclCfg = true
			}
		}
		for _, p := range r.Parts {
			if !p.Pos && sn["/"+string(p.Key)] {
				exclName = true
			}
		}
		if r.Gmp != "" && sn["/gomaxprocs"] || sn[".name"] {
			exclName = true
		}
		if seen[pi] && late >= 0 && t > late {
			reproj = true
		}
		seen[pi] = true
	}
	// the residue always carries the groups that no expression names
	_ = haveConfig
	_ = haveFullname
	return (exclCfg || exclName) && late >= 0 && reproj
}

func TestVerifC08(t *testing.T) {
	small := kit.Class[c08Case]{
		Name: "small-streams", Quick: 9000, Thorough: 200000,
		Gen: c08GenSmall, Check: c08Check, NonTrivial: c08NonTrivialSmall, MinNonTrivial: 800,
		Rule: "same generator with 2-3 expressions and streams of 8-14 results (late key = first seen after >=3 results): many more expression sets, minimal witnesses",
	}
	inplace := kit.Class[c08Case]{
		Name: "inplace-reused-result", Quick: 4000, Thorough: 80000,
		Gen: c08GenInPlace, Check: c08Check, NonTrivial: c08NonTrivialInPlace, MinNonTrivial: 1000,
		Rule: "same generators (4 of 5 small streams, 1 of 5 long; half of the new results take their predecessor's name with one component replaced by another of the same length), but ONE benchfmt.Result is kept for the whole stream and rewritten in place between stream positions: name bytes overwritten in the existing slice when the length is the same (else the slice is re-filled), configuration values modified in place, keys added/deleted through SetConfig, Values re-filled; " +
			"non-trivial = some name key is specific and the result is renamed at least twice to a different name of the same length",
	}
	rejected := kit.Class[c08Case]{
		Name: "rejected-parses-interleaved", Quick: 3000, Thorough: 80000,
		Gen: c08GenRejected, Check: c08Check, NonTrivial: c08NonTrivialRejected, MinNonTrivial: 1000,
		Rule: "same generators (9 of 10 small streams; all three result sources) plus 1-3 Parse calls on expressions that are not projections (1-3 valid fields followed or preceded by .unit, an unknown order word, a list on .config, an unclosed list or a missing order), placed before/between/after the valid Parse calls of EVERY parse order; the rejected expressions only name keys that some valid expression of the case names, so the expected set of specific keys is unchanged; " +
			"non-trivial = a rejected expression names a specific key that occurs in the stream",
	}
	kit.Run(t, "C08", small, inplace, rejected, kit.Class[c08Case]{
		Name: "parse-orders-x-streams", Quick: 900, Thorough: 20000,
		Gen: c08Gen, Check: c08Check, NonTrivial: c08NonTrivial, MinNonTrivial: 150,
		Rule: "2-5 projection expressions over {.config,.fullname,.name,.file,/a,/b,/ab,/gomaxprocs,/size,k1..k6,\"a b\"} with first/alpha/num/fixed orders, " +
			"one optionally parsed with ParseWithUnit, parsed by one ProjectionParser in EVERY permutation, plus Residue(); stream of 20-200 results " +
			"(struct literals, every 4th case through a benchfmt.Reader that reuses one Result) over file-configuration keys that become available " +
			"progressively, missing values, tiny value alphabets (so concatenations of different tuples coincide), ~30% re-projections of earlier results; " +
			"non-trivial = a group field has an excluded specific key that occurs in the stream, a non-excluded file key is first seen after >=10 results and an earlier result is re-projected after that",
	})
}
