#!/bin/sh
# Offline setup after a fresh restore: nothing is downloaded. The driver is a
# Python script (std-lib only); this only warms the Go build cache by building
# every monitor's test binary (incl. the -race ones) from /repo's working tree.
set -e
cd "$(dirname "$0")"
export GOFLAGS=-mod=mod GOPROXY=off GOSUMDB=off GOTOOLCHAIN=local
chmod +x vcheck
exec ./vcheck warm
