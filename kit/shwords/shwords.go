// Package shwords is an independent reference for "shell-style" word
// splitting as far as the storage query syntax uses it (properties C19/C20):
// words are separated by unquoted blanks and tabs, a double-quoted stretch
// keeps blanks, and a backslash makes the next byte literal. It does not
// import the package it is a reference for (storage/query).
//
// The reference is deliberately partial: wherever a POSIX shell and the doc
// comment of query.SplitWords ("whitespace can be escaped with double quotes or
// with a backslash") could be read differently, Split reports the text as
// outside the domain instead of guessing.
package shwords

// Split splits s into words. ok is false (and why names the reason) when s is
// outside the domain in which shell-style splitting has one obvious meaning:
//
//   - a backslash at the very end, or an unterminated double quote;
//   - inside double quotes, a backslash before anything but '"' or '\\' (a shell
//     keeps that backslash, a plain "next byte literal" rule drops it);
//   - a word that consists only of empty quotes (a shell yields an empty word);
//   - an unquoted, unescaped single quote (a shell starts a quoted string);
//   - an unquoted newline or backslash-newline (command separator / continuation).
func Split(s string) (words []string, ok bool, why string) {
	var cur []byte
	started := false // inside a word (a pair of quotes starts a word too)
	quoted := false  // current word had a quoted stretch
	inq := false
	end := func() bool {
		if started {
			if len(cur) == 0 && quoted {
				return false
			}
			if len(cur) > 0 {
				words = append(words, string(cur))
			}
		}
		cur = cur[:0]
		started, quoted = false, false
		return true
	}
	for i := 0; i < len(s); i++ {
		c := s[i]
		if inq {
			switch c {
			case '"':
				inq = false
			case '\\':
				if i+1 >= len(s) {
					return nil, false, "dangling backslash"
				}
				n := s[i+1]
				if n != '"' && n != '\\' {
					return nil, false, "backslash before ordinary byte inside quotes"
				}
				cur = append(cur, n)
				i++
			default:
				cur = append(cur, c)
			}
			continue
		}
		switch c {
		case ' ', '\t':
			if !end() {
				return nil, false, "empty quoted word"
			}
		case '"':
			inq, started, quoted = true, true, true
		case '\\':
			if i+1 >= len(s) {
				return nil, false, "dangling backslash"
			}
			if s[i+1] == '\n' {
				return nil, false, "backslash-newline"
			}
			cur = append(cur, s[i+1])
			started = true
			i++
		case '\'':
			return nil, false, "unquoted single quote"
		case '\n':
			return nil, false, "unquoted newline"
		default:
			cur = append(cur, c)
			started = true
		}
	}
	if inq {
		return nil, false, "unterminated quote"
	}
	if !end() {
		return nil, false, "empty quoted word"
	}
	return words, true, ""
}

func special(c byte) bool {
	return c == ' ' || c == '\t' || c == '"' || c == '\\' || c == '\'' || c == '\n'
}

// NeedsQuoting reports whether w cannot be written bare.
func NeedsQuoting(w string) bool {
	for i := 0; i < len(w); i++ {
		if special(w[i]) {
			return true
		}
	}
	return w == ""
}

func dq(w string) string {
	b := []byte{'"'}
	for i := 0; i < len(w); i++ {
		if w[i] == '"' || w[i] == '\\' {
			b = append(b, '\\')
		}
		b = append(b, w[i])
	}
	return string(append(b, '"'))
}

func bs(w string) (string, bool) {
	var b []byte
	for i := 0; i < len(w); i++ {
		if w[i] == '\n' {
			return "", false // backslash-newline is outside the domain
		}
		if special(w[i]) {
			b = append(b, '\\')
		}
		b = append(b, w[i])
	}
	return string(b), true
}

// Quote renders the non-empty word w in one of several equivalent in-domain
// spellings chosen by intn (a func returning a value in [0,n)): bare where
// possible, wholly double-quoted, backslash-escaped, or a mixture of
// adjacent pieces.
func Quote(intn func(n int) int, w string) string {
	if w == "" {
		panic("shwords.Quote: empty word")
	}
	switch intn(5) {
	case 0:
		if !NeedsQuoting(w) {
			return w
		}
		return dq(w)
	case 1:
		return dq(w)
	case 2:
		if s, ok := bs(w); ok {
			return s
		}
		return dq(w)
	}
	// mixture of pieces
	var out []byte
	for i := 0; i < len(w); {
		n := 1 + intn(4)
		if i+n > len(w) {
			n = len(w) - i
		}
		p := w[i : i+n]
		i += n
		switch intn(3) {
		case 0:
			if !NeedsQuoting(p) {
				out = append(out, p...)
				continue
			}
			out = append(out, dq(p)...)
		case 1:
			out = append(out, dq(p)...)
		default:
			if s, ok := bs(p); ok {
				out = append(out, s...)
			} else {
				out = append(out, dq(p)...)
			}
		}
	}
	return string(out)
}
