// Package bsgen generates structured inputs for cmd/benchstat (files, flags)
// and parses benchstat's CSV output back into a canonical, order-free form.
// It knows nothing about golang.org/x/perf: the model is the reference view
// of what was written, so an oracle can be computed from it without
// re-reading the rendered text.
package bsgen

import (
	"fmt"
	"strconv"
	"strings"

	kit "golang.org/x/perf/internal/verifkit"
)

// Case is one benchstat invocation: files plus flags.
type Case struct {
	Files []File
	Flags Flags
	// Seed for anything a check wants to derive deterministically.
	Seed uint64
}

// File is one command-line input.
type File struct {
	Label  string // non-empty: given as label=path
	SameAs int    // >=0: this argument re-uses the path (and content) of that earlier file
	Lines  []Line
}

// Line kinds.
const (
	KCfg   = "cfg"   // Key: Val   (Val "" = deletion "Key:")
	KUnit  = "unit"  // Unit <Unit> <MKey>=<MVal>
	KBench = "bench" // Benchmark<name> <iters> {<value> <unit>}
	KJunk  = "junk"  // a line the reader must ignore
)

type Line struct {
	K    string
	Key  string `json:",omitempty"`
	Val  string `json:",omitempty"`
	Unit string `json:",omitempty"`
	MKey string `json:",omitempty"`
	MVal string `json:",omitempty"`
	// Pre is an extra key=value pair written on a Unit line BEFORE the main
	// pair. The generator only uses pairs that contradict metadata set by an
	// earlier line, so the reader complains about this line (a positioned,
	// non-fatal error) and must still honour the main pair after it.
	Pre  string `json:",omitempty"`
	Name *Name  `json:",omitempty"`
	Its  int    `json:",omitempty"`
	Vals []Val  `json:",omitempty"`
	Junk string `json:",omitempty"`
}

// Name is a structured benchmark name.
type Name struct {
	Base  string
	Parts []Part
	Procs int // 0: no -N suffix
}

// Part is "/K=V" or, with K=="", the positional "/V".
type Part struct{ K, V string }

func (n *Name) Full() string {
	var sb strings.Builder
	sb.WriteString(n.Base)
	for _, p := range n.Parts {
		sb.WriteByte('/')
		if p.K != "" {
			sb.WriteString(p.K)
			sb.WriteByte('=')
		}
		sb.WriteString(p.V)
	}
	if n.Procs > 0 {
		fmt.Fprintf(&sb, "-%d", n.Procs)
	}
	return sb.String()
}

// Sub returns the value of sub-name key k ("" if absent). "gomaxprocs" also
// looks at the -N suffix, which takes precedence as in the documentation.
func (n *Name) Sub(k string) string {
	if k == "gomaxprocs" && n.Procs > 0 {
		return strconv.Itoa(n.Procs)
	}
	for _, p := range n.Parts {
		if p.K == k {
			return p.V
		}
	}
	return ""
}

// Reduced returns the full name with the base replaced by "*" if exclBase and
// every part whose key is in excl (and the -N suffix if "gomaxprocs" is in
// excl) deleted.
func (n *Name) Reduced(exclBase bool, excl map[string]bool) string {
	var sb strings.Builder
	if exclBase {
		sb.WriteByte('*')
	} else {
		sb.WriteString(n.Base)
	}
	for _, p := range n.Parts {
		if p.K != "" && excl[p.K] {
			continue
		}
		sb.WriteByte('/')
		if p.K != "" {
			sb.WriteString(p.K)
			sb.WriteByte('=')
		}
		sb.WriteString(p.V)
	}
	if n.Procs > 0 && !excl["gomaxprocs"] {
		fmt.Fprintf(&sb, "-%d", n.Procs)
	}
	return sb.String()
}

// Val is a measurement as written.
type Val struct {
	V kit.F
	U string
}

// Tidy returns the base-unit form of a written measurement for the units this
// generator uses (ns -> sec ×1e-9, MB -> B ×1e6 in the numerator position).
func (v Val) Tidy() (float64, string) {
	switch v.U {
	case "ns/op":
		return float64(v.V) * 1e-9, "sec/op"
	case "ns/frob":
		return float64(v.V) * 1e-9, "sec/frob"
	case "MB/s":
		return float64(v.V) * 1e6, "B/s"
	}
	return float64(v.V), v.U
}

// Item is one field of a projection flag.
type Item struct {
	Key   string   // .config .fullname .name .file /k or a file key
	Order string   `json:",omitempty"` // "", "alpha", "fixed"
	Fixed []string `json:",omitempty"`
}

func (it Item) String() string {
	switch it.Order {
	case "alpha":
		return it.Key + "@alpha"
	case "fixed":
		return it.Key + "@(" + strings.Join(it.Fixed, " ") + ")"
	}
	return it.Key
}

// Filter is a small filter AST.
type Filter struct {
	Op   string    // "all", "term", "not", "and", "or"
	Key  string    `json:",omitempty"`
	Vals []string  `json:",omitempty"` // term: key:(v1 OR v2 ...)
	Kids []*Filter `json:",omitempty"`
}

func (f *Filter) String() string {
	switch f.Op {
	case "all":
		return "*"
	case "term":
		if len(f.Vals) == 1 {
			return f.Key + ":" + f.Vals[0]
		}
		return f.Key + ":(" + strings.Join(f.Vals, " OR ") + ")"
	case "not":
		return "-" + f.Kids[0].paren()
	case "and":
		var s []string
		for _, k := range f.Kids {
			s = append(s, k.paren())
		}
		return strings.Join(s, " ")
	case "or":
		var s []string
		for _, k := range f.Kids {
			s = append(s, k.paren())
		}
		return strings.Join(s, " OR ")
	}
	panic("bsgen: bad filter op " + f.Op)
}

func (f *Filter) paren() string {
	if f.Op == "and" || f.Op == "or" {
		return "(" + f.String() + ")"
	}
	return f.String()
}

// Flags are benchstat's flags; nil/zero fields are omitted from the command line.
type Flags struct {
	Table, Row, Col, Ignore  []Item
	HasTable, HasRow, HasCol bool // flag given (possibly with an empty list)
	Filter                   *Filter
	Alpha                    float64 // <0: omitted
	Confidence               float64 // <0: omitted
}

func items(its []Item) string {
	var s []string
	for _, it := range its {
		s = append(s, it.String())
	}
	return strings.Join(s, ",")
}

// Args renders the flags (without -format and without the file arguments).
func (f *Flags) Args() []string {
	var a []string
	if f.HasTable {
		a = append(a, "-table", items(f.Table))
	}
	if f.HasRow {
		a = append(a, "-row", items(f.Row))
	}
	if f.HasCol {
		a = append(a, "-col", items(f.Col))
	}
	if len(f.Ignore) > 0 {
		a = append(a, "-ignore", items(f.Ignore))
	}
	if f.Filter != nil {
		a = append(a, "-filter", f.Filter.String())
	}
	if f.Alpha >= 0 {
		a = append(a, "-alpha", strconv.FormatFloat(f.Alpha, 'g', -1, 64))
	}
	if f.Confidence >= 0 {
		a = append(a, "-confidence", strconv.FormatFloat(f.Confidence, 'g', -1, 64))
	}
	return a
}

// Effective returns the projections actually in force (defaults applied).
func (f *Flags) Effective() (table, row, col, ignore []Item) {
	table, row, col = []Item{{Key: ".config"}}, []Item{{Key: ".fullname"}}, []Item{{Key: ".file"}}
	if f.HasTable {
		table = f.Table
	}
	if f.HasRow {
		row = f.Row
	}
	if f.HasCol {
		col = f.Col
	}
	return table, row, col, f.Ignore
}

func (f *Flags) EffAlpha() float64 {
	if f.Alpha >= 0 {
		return f.Alpha
	}
	return 0.05
}

func (f *Flags) EffConfidence() float64 {
	if f.Confidence >= 0 {
		return f.Confidence
	}
	return 0.95
}

// Text renders a file's lines in the benchmark format.
func (fl *File) Text() string {
	var sb strings.Builder
	for _, l := range fl.Lines {
		switch l.K {
		case KCfg:
			if l.Val == "" {
				fmt.Fprintf(&sb, "%s:\n", l.Key)
			} else {
				fmt.Fprintf(&sb, "%s: %s\n", l.Key, l.Val)
			}
		case KUnit:
			if l.Pre != "" {
				fmt.Fprintf(&sb, "Unit %s %s %s=%s\n", l.Unit, l.Pre, l.MKey, l.MVal)
			} else {
				fmt.Fprintf(&sb, "Unit %s %s=%s\n", l.Unit, l.MKey, l.MVal)
			}
		case KBench:
			fmt.Fprintf(&sb, "Benchmark%s %d", l.Name.Full(), l.Its)
			for _, v := range l.Vals {
				fmt.Fprintf(&sb, " %s %s", strconv.FormatFloat(float64(v.V), 'g', -1, 64), v.U)
			}
			sb.WriteByte('\n')
		case KJunk:
			sb.WriteString(l.Junk)
			sb.WriteByte('\n')
		}
	}
	return sb.String()
}

// PathArgs returns the command-line file arguments and the `.file` label each
// input gets, given the on-disk path of every non-duplicate file (paths[i] is
// used for file i; entries of duplicate files are ignored). Unlabelled paths
// given more than once are disambiguated "path#N" (N from 0 in argument order).
func (c *Case) PathArgs(paths []string) (args, labels []string) {
	real := make([]string, len(c.Files))
	for i, f := range c.Files {
		if f.SameAs >= 0 {
			real[i] = real[f.SameAs]
		} else {
			real[i] = paths[i]
		}
	}
	count := map[string]int{}
	for i, f := range c.Files {
		if f.Label == "" {
			count[real[i]]++
		}
	}
	seen := map[string]int{}
	for i, f := range c.Files {
		if f.Label != "" {
			args = append(args, f.Label+"="+real[i])
			labels = append(labels, f.Label)
			continue
		}
		args = append(args, real[i])
		if count[real[i]] > 1 {
			labels = append(labels, fmt.Sprintf("%s#%d", real[i], seen[real[i]]))
			seen[real[i]]++
		} else {
			labels = append(labels, real[i])
		}
	}
	return
}

// Content returns the lines of file i (following SameAs).
// ConflictLines returns, per reading of a file, the 1-based numbers of the
// Unit lines carrying a contradicting pair (Line.Pre): the reader reports one
// positioned error for each of them every time the file is read.
func (c *Case) ConflictLines() []int {
	var out []int
	for i := range c.Files {
		for j, l := range c.Content(i) {
			if l.K == KUnit && l.Pre != "" {
				out = append(out, j+1)
			}
		}
	}
	return out
}

func (c *Case) Content(i int) []Line {
	for c.Files[i].SameAs >= 0 {
		i = c.Files[i].SameAs
	}
	return c.Files[i].Lines
}
