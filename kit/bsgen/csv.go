package bsgen

import (
	"encoding/csv"
	"fmt"
	"regexp"
	"sort"
	"strings"
)

// ParsedCell is one table cell as printed in CSV.
type ParsedCell struct {
	Center, CI, Delta, P string
	// Warnings attached at the cell's centre and delta columns.
	CenterWarn, DeltaWarn []string
}

// ParsedRow is one benchmark row.
type ParsedRow struct {
	Label string
	Cells []*ParsedCell // by column index; nil = no cell
}

// ParsedTable is one CSV table.
type ParsedTable struct {
	Config map[string]string // table header fields in force (name -> value), incl. empty ones
	Unit   string
	Cols   [][]string // per column: the values of the column-configuration header rows, top to bottom
	Rows   []*ParsedRow
	// Geomean row.
	GeoLabel   string
	GeoCenter  []string
	GeoDelta   []string
	GeoWarn    [][]string
	FirstLine  int // 1-based line of the first line of the table block (for diagnostics)
	HeaderLine int
}

// Parsed is a whole CSV output.
type Parsed struct {
	Tables []*ParsedTable
	// OtherStderr are stderr lines that are not cell-referenced warnings.
	OtherStderr []string
}

func startCol(exp int) int {
	if exp == 0 {
		return 1
	}
	return 1 + 2 + (exp-1)*4
}

var warnRe = regexp.MustCompile(`^([A-Z]+)([0-9]+): (.*)$`)

func splitCSVLine(line string) ([]string, error) {
	if line == "" {
		return []string{""}, nil
	}
	r := csv.NewReader(strings.NewReader(line))
	r.FieldsPerRecord = -1
	r.LazyQuotes = false
	return r.Read()
}

// ParseCSV parses benchstat's `-format csv` stdout and stderr. Warnings on
// stderr refer to cells by a column-letter/line-number reference; the letters
// are read as plain base 26 (A=0, the present convention: column 26 is "BA")
// and, if that does not land every warning on a cell, as spreadsheet letters
// (bijective base 26: column 26 is "AA") - the convention is not part of any
// property (a benign change switched it; false alarm corrected, DESIGN.md 9.5).
func ParseCSV(stdout, stderr string) (*Parsed, error) {
	// A multi-letter reference that starts with 'A' can only be a spreadsheet
	// letter (plain base 26 never has a leading zero digit).
	spreadsheetFirst := false
	for _, l := range strings.Split(stderr, "\n") {
		if m := warnRe.FindStringSubmatch(l); m != nil && len(m[1]) > 1 && m[1][0] == 'A' {
			spreadsheetFirst = true
		}
	}
	p, err := parseCSV(stdout, stderr, spreadsheetFirst)
	if err != nil {
		if p2, err2 := parseCSV(stdout, stderr, !spreadsheetFirst); err2 == nil {
			return p2, nil
		}
	}
	return p, err
}

func parseCSV(stdout, stderr string, spreadsheet bool) (*Parsed, error) {
	p := &Parsed{}
	type wref struct {
		col int
		msg string
	}
	warnAt := map[int][]wref{}
	for _, l := range strings.Split(stderr, "\n") {
		if l == "" {
			continue
		}
		m := warnRe.FindStringSubmatch(l)
		if m == nil {
			p.OtherStderr = append(p.OtherStderr, l)
			continue
		}
		col := 0
		for _, ch := range m[1] {
			if spreadsheet {
				col = col*26 + int(ch-'A') + 1
			} else {
				col = col*26 + int(ch-'A')
			}
		}
		if spreadsheet {
			col--
		}
		var line int
		fmt.Sscanf(m[2], "%d", &line)
		warnAt[line] = append(warnAt[line], wref{col, m[3]})
	}
	used := map[int]int{}
	takeWarn := func(line, col int) []string {
		var out []string
		for _, w := range warnAt[line] {
			if w.col == col {
				out = append(out, w.msg)
				used[line]++
			}
		}
		return out
	}

	if stdout == "" {
		return p, nil
	}
	if !strings.HasSuffix(stdout, "\n") {
		return nil, fmt.Errorf("csv output does not end in a newline")
	}
	lines := strings.Split(strings.TrimSuffix(stdout, "\n"), "\n")
	cfg := map[string]string{}
	i := 0
	for i < len(lines) {
		// One table block: up to the next blank line.
		j := i
		for j < len(lines) && lines[j] != "" {
			j++
		}
		block := lines[i:j]
		first := i + 1
		if len(block) == 0 {
			return nil, fmt.Errorf("line %d: empty table block", first)
		}
		t := &ParsedTable{FirstLine: first}
		k := 0
		// Header lines "name: value".
		for k < len(block) {
			f, err := splitCSVLine(block[k])
			if err != nil {
				return nil, fmt.Errorf("line %d: %v", first+k, err)
			}
			if len(f) != 1 || f[0] == "" {
				break
			}
			c := strings.Index(f[0], ": ")
			if c < 0 {
				return nil, fmt.Errorf("line %d: header line without ': ': %q", first+k, f[0])
			}
			cfg[f[0][:c]] = f[0][c+2:]
			k++
		}
		t.Config = map[string]string{}
		for a, b := range cfg {
			t.Config[a] = b
		}
		// Column configuration rows until the unit/"CI" header row.
		var colRows [][]string
		ncols := -1
		for ; k < len(block); k++ {
			f, err := splitCSVLine(block[k])
			if err != nil {
				return nil, fmt.Errorf("line %d: %v", first+k, err)
			}
			if len(f) >= 3 && f[0] == "" && f[2] == "CI" {
				t.Unit = f[1]
				t.HeaderLine = first + k
				// number of columns from header shape
				n := 1
				for startCol(n) < len(f) {
					n++
				}
				ncols = n
				for e := 0; e < n; e++ {
					s := startCol(e)
					if s+1 >= len(f) || f[s] != t.Unit || f[s+1] != "CI" {
						return nil, fmt.Errorf("line %d: malformed unit header %q", first+k, f)
					}
					if e > 0 && (s+3 >= len(f) || f[s+2] != "vs base" || f[s+3] != "P") {
						return nil, fmt.Errorf("line %d: malformed unit header %q", first+k, f)
					}
				}
				k++
				break
			}
			if f[0] != "" {
				return nil, fmt.Errorf("line %d: expected column header row, got %q", first+k, f)
			}
			colRows = append(colRows, f)
		}
		if ncols < 0 {
			return nil, fmt.Errorf("line %d: table without unit header row", first)
		}
		t.Cols = make([][]string, ncols)
		for e := 0; e < ncols; e++ {
			for _, cr := range colRows {
				v := ""
				if startCol(e) < len(cr) {
					v = cr[startCol(e)]
				}
				t.Cols[e] = append(t.Cols[e], v)
			}
		}
		if k >= len(block) {
			return nil, fmt.Errorf("line %d: table without summary row", first)
		}
		get := func(f []string, idx int) string {
			if idx < len(f) {
				return f[idx]
			}
			return ""
		}
		for ; k < len(block); k++ {
			f, err := splitCSVLine(block[k])
			if err != nil {
				return nil, fmt.Errorf("line %d: %v", first+k, err)
			}
			ln := first + k
			if k == len(block)-1 {
				// Summary row.
				t.GeoLabel = f[0]
				for e := 0; e < ncols; e++ {
					s := startCol(e)
					t.GeoCenter = append(t.GeoCenter, get(f, s))
					d := ""
					if e > 0 {
						d = get(f, s+2)
					}
					t.GeoDelta = append(t.GeoDelta, d)
					t.GeoWarn = append(t.GeoWarn, takeWarn(ln, s))
				}
				break
			}
			row := &ParsedRow{Label: f[0], Cells: make([]*ParsedCell, ncols)}
			for e := 0; e < ncols; e++ {
				s := startCol(e)
				if get(f, s) == "" && get(f, s+1) == "" {
					continue
				}
				c := &ParsedCell{Center: get(f, s), CI: get(f, s+1)}
				if e > 0 {
					c.Delta, c.P = get(f, s+2), get(f, s+3)
				}
				c.CenterWarn = takeWarn(ln, s)
				if e > 0 {
					c.DeltaWarn = takeWarn(ln, s+2)
				}
				row.Cells[e] = c
			}
			t.Rows = append(t.Rows, row)
		}
		p.Tables = append(p.Tables, t)
		i = j + 1
	}
	for line, ws := range warnAt {
		if used[line] != len(ws) {
			return nil, fmt.Errorf("warning(s) on stderr refer to line %d but not to a cell, delta or summary position: %v", line, ws)
		}
	}
	return p, nil
}

// ValueSet canonicalises a blank-separated label (or a list of values) to its
// sorted set of non-empty values.
func ValueSet(vals ...string) string {
	var all []string
	for _, v := range vals {
		all = append(all, strings.Fields(v)...)
	}
	sort.Strings(all)
	return strings.Join(all, " ")
}

// ConfigID canonicalises a table's header configuration (non-empty values) plus unit.
func ConfigID(cfg map[string]string, unit string) string {
	var ks []string
	for k, v := range cfg {
		if v != "" {
			ks = append(ks, k+"="+v)
		}
	}
	sort.Strings(ks)
	return strings.Join(ks, " ") + " | " + unit
}
