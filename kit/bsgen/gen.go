package bsgen

import (
	"math"

	kit "golang.org/x/perf/internal/verifkit"
)

// Value pools are pairwise disjoint and contain no blanks, so a value
// identifies its key and row/column labels can be compared as value sets.
var (
	// "rev" and "sub" have values whose concatenations collide three ways
	// ("r1"+"23x" == "r12"+"3x" == "r123"+"x") although the tuples differ
	// (seeding round 2: key interning that trusts a separator-free hash; round
	// 3: a collision chain that loses its middle element). Collide mode (6% of
	// the cases) sets both keys in every block so that the three tuples meet
	// in one projection and are revisited.
	CfgKeys = []string{"goos", "goarch", "pkg", "commit", "note", "rev", "sub"}
	CfgVals = map[string][]string{
		"rev":    {"r1", "r12", "r123"},
		"sub":    {"23x", "3x", "x"},
		"goos":   {"linux", "darwin"},
		"goarch": {"amd64", "arm64"},
		"pkg":    {"p/a", "p/b"},
		"commit": {"c1", "c2", "c3"},
		"note":   {"n1", "n2", "n3"},
	}
	Bases   = []string{"Enc", "Dec", "Sort", "Copy", "Hash"}
	SubKeys = []string{"size", "fmt"}
	SubVals = map[string][]string{
		"size": {"s1", "s2", "s3"},
		"fmt":  {"fj", "fg"},
	}
	PosVals  = []string{"pz", "py"}
	ProcVals = []int{0, 0, 2, 8}
	Units    = []string{"ns/op", "B/op", "allocs/op", "MB/s", "widgets/op", "ns/frob"}
)

// Opts tunes the generator.
type Opts struct {
	MaxFiles   int // 1..MaxFiles inputs
	MaxBlocks  int // config blocks per file
	MaxBench   int // distinct benchmarks
	MaxRepeat  int // lines per benchmark per block
	MaxUnits   int
	Degenerate bool // allow zero/negative values (geomean warnings)
}

var DefaultOpts = Opts{MaxFiles: 4, MaxBlocks: 3, MaxBench: 6, MaxRepeat: 8, MaxUnits: 3, Degenerate: true}

func round4(x float64) float64 {
	if x == 0 {
		return 0
	}
	e := math.Floor(math.Log10(math.Abs(x)))
	s := math.Pow(10, 3-e)
	return math.Round(x*s) / s
}

// Gen generates one case.
func Gen(r *kit.Rand, o Opts) *Case {
	c := &Case{Seed: r.Uint64()}

	// Benchmarks.
	nb := r.Range(2, o.MaxBench)
	var names []*Name
	seen := map[string]bool{}
	for len(names) < nb {
		n := &Name{Base: kit.Pick(r, Bases)}
		ks := r.Perm(len(SubKeys))
		for _, ki := range ks {
			if r.Chance(0.5) {
				k := SubKeys[ki]
				n.Parts = append(n.Parts, Part{k, kit.Pick(r, SubVals[k])})
			}
		}
		if r.Chance(0.15) {
			n.Parts = append(n.Parts, Part{"", kit.Pick(r, PosVals)})
		}
		if r.Chance(0.05) {
			n.Parts = append(n.Parts, Part{"gomaxprocs", "16"})
		} else {
			n.Procs = kit.Pick(r, ProcVals)
		}
		if !seen[n.Full()] {
			seen[n.Full()] = true
			names = append(names, n)
		}
	}

	// Units and which are exact.
	nu := r.Range(1, o.MaxUnits)
	up := r.Perm(len(Units))
	var units []string
	for _, i := range up[:nu] {
		units = append(units, Units[i])
	}
	exact := map[string]bool{}
	for _, u := range units {
		if r.Chance(0.2) {
			exact[u] = true
		}
	}
	// Base value per (benchmark, unit).
	base := map[string]float64{}
	for _, n := range names {
		for _, u := range units {
			base[n.Full()+"\x00"+u] = round4(r.LogUniform(0, 5))
		}
	}
	// A benchmark/unit that is degenerate (0 or negative) everywhere.
	degKey, degVal := "", 0.0
	if o.Degenerate && r.Chance(0.12) {
		degKey = kit.Pick(r, names).Full() + "\x00" + kit.Pick(r, units)
		degVal = kit.Pick(r, []float64{0, 0, -3.5})
	}

	nf := r.Range(1, o.MaxFiles)
	collide := r.Chance(0.06)
	var exactEmitted = map[string]bool{}
	for fi := 0; fi < nf; fi++ {
		f := File{SameAs: -1}
		if r.Chance(0.25) {
			f.Label = kit.Pick(r, []string{"old", "new", "A", "B", "exp"})
		}
		if fi > 0 && r.Chance(0.12) {
			f.SameAs = r.Intn(fi)
			for c.Files[f.SameAs].SameAs >= 0 {
				f.SameAs = c.Files[f.SameAs].SameAs
			}
			c.Files = append(c.Files, f)
			continue
		}
		factor := 1.0
		if fi > 0 {
			factor = kit.Pick(r, []float64{1, 1, 0.5, 0.8, 1.3, 2})
		}
		cfg := map[string]string{}
		nblk := r.Range(1, o.MaxBlocks)
		if collide {
			nblk = r.Range(3, 5)
		}
		for b := 0; b < nblk; b++ {
			if collide {
				j := r.Intn(3)
				for _, k := range []string{"rev", "sub"} {
					cfg[k] = CfgVals[k][j]
					f.Lines = append(f.Lines, Line{K: KCfg, Key: k, Val: cfg[k]})
				}
			}
			// Config edits.
			ne := r.Range(0, 3)
			if b == 0 {
				ne = r.Range(0, 4)
			}
			for e := 0; e < ne; e++ {
				k := kit.Pick(r, CfgKeys)
				if _, ok := cfg[k]; ok && r.Chance(0.3) {
					delete(cfg, k)
					f.Lines = append(f.Lines, Line{K: KCfg, Key: k})
					continue
				}
				v := kit.Pick(r, CfgVals[k])
				cfg[k] = v
				f.Lines = append(f.Lines, Line{K: KCfg, Key: k, Val: v})
			}
			if r.Chance(0.3) {
				f.Lines = append(f.Lines, Line{K: KJunk, Junk: kit.Pick(r, []string{"", "PASS", "ok  \tp/a\t1.2s", "some log: Line", "goos linux"})})
			}
			for u := range exact {
				if !exactEmitted[u] || r.Chance(0.1) {
					if r.Chance(0.5) || (fi == nf-1 && b == nblk-1) {
						exactEmitted[u] = true
						if r.Chance(0.15) {
							// the unit's direction is settled first, then contradicted on the
							// very line that declares the unit exact: the line is complained
							// about, and its second pair still counts
							f.Lines = append(f.Lines, Line{K: KUnit, Unit: u, MKey: "better", MVal: "lower"})
							f.Lines = append(f.Lines, Line{K: KUnit, Unit: u, MKey: "assume", MVal: "exact", Pre: "better=higher"})
							continue
						}
						f.Lines = append(f.Lines, Line{K: KUnit, Unit: u, MKey: "assume", MVal: "exact"})
					}
				}
			}
			if r.Chance(0.1) {
				f.Lines = append(f.Lines, Line{K: KUnit, Unit: kit.Pick(r, units), MKey: "better", MVal: "lower"})
			}
			// Benchmark lines, interleaved rounds like `go test -count`.
			rep := r.Range(1, o.MaxRepeat)
			var include []*Name
			for _, n := range names {
				if r.Chance(0.85) {
					include = append(include, n)
				}
			}
			for round := 0; round < rep; round++ {
				for _, n := range include {
					if round > 0 && r.Chance(0.1) {
						continue // unequal sample sizes
					}
					l := Line{K: KBench, Name: n, Its: r.Range(1, 1000000)}
					for _, u := range units {
						if r.Chance(0.08) {
							continue // missing measurement
						}
						key := n.Full() + "\x00" + u
						var v float64
						switch {
						case key == degKey:
							v = degVal
						case exact[u]:
							v = round4(base[key] * factor)
							if r.Chance(0.03) {
								v = round4(v * 1.5)
							}
						default:
							v = round4(base[key] * factor * (1 + 0.1*r.NormFloat64()))
							if v <= 0 {
								v = round4(base[key])
							}
						}
						l.Vals = append(l.Vals, Val{kit.F(v), u})
					}
					if len(l.Vals) == 0 {
						continue
					}
					f.Lines = append(f.Lines, l)
				}
			}
		}
		c.Files = append(c.Files, f)
	}
	// Make sure every exact unit's metadata line was emitted somewhere.
	for u := range exact {
		if !exactEmitted[u] {
			for i := range c.Files {
				if c.Files[i].SameAs < 0 {
					c.Files[i].Lines = append([]Line{{K: KUnit, Unit: u, MKey: "assume", MVal: "exact"}}, c.Files[i].Lines...)
					break
				}
			}
		}
	}
	c.Flags = GenFlags(r)
	return c
}

var specificKeys = []string{".name", ".file", "/size", "/fmt", "/gomaxprocs", "goos", "goarch", "pkg", "commit", "note", "rev", "sub"}

func poolOf(key string) []string {
	switch key {
	case ".name":
		return Bases
	case "/size":
		return SubVals["size"]
	case "/fmt":
		return SubVals["fmt"]
	case "/gomaxprocs":
		return []string{"2", "8", "16"}
	case ".file":
		return nil
	}
	return CfgVals[key]
}

// GenFlags generates a flag combination. Every key is used by at most one flag.
func GenFlags(r *kit.Rand) Flags {
	f := Flags{Alpha: -1, Confidence: -1}
	avail := append([]string{".config", ".fullname"}, specificKeys...)
	kit.Shuffle(r, avail)
	take := func(n int, groupsOK bool) []Item {
		var out []Item
		for i := 0; i < len(avail) && len(out) < n; {
			k := avail[i]
			if !groupsOK && (k == ".config" || k == ".fullname") {
				i++
				continue
			}
			avail = append(avail[:i], avail[i+1:]...)
			it := Item{Key: k}
			if pool := poolOf(k); pool != nil && k != ".config" && k != ".fullname" {
				switch {
				case r.Chance(0.15):
					it.Order = "alpha"
				case r.Chance(0.15):
					it.Order = "fixed"
					p := r.Perm(len(pool))
					n := r.Range(1, len(pool))
					for _, j := range p[:n] {
						it.Fixed = append(it.Fixed, pool[j])
					}
				}
			}
			out = append(out, it)
		}
		return out
	}
	remove := func(k string) {
		for i, a := range avail {
			if a == k {
				avail = append(avail[:i], avail[i+1:]...)
				return
			}
		}
	}
	// Defaults in force consume their keys.
	f.HasTable, f.HasRow, f.HasCol = r.Chance(0.55), r.Chance(0.5), r.Chance(0.5)
	if !f.HasTable {
		remove(".config")
	}
	if !f.HasRow {
		remove(".fullname")
	}
	if !f.HasCol {
		remove(".file")
	}
	if f.HasTable {
		f.Table = take(r.Range(0, 2), true)
	}
	if f.HasRow {
		f.Row = take(r.Range(1, 2), true)
	}
	if f.HasCol {
		f.Col = take(r.Range(1, 2), true)
	}
	used := map[string]bool{}
	if r.Chance(0.35) {
		var ign []Item
		for _, it := range take(r.Range(1, 2), r.Chance(0.2)) {
			if !used[it.Key] {
				ign = append(ign, Item{Key: it.Key})
			}
		}
		f.Ignore = ign
	}
	if r.Chance(0.4) {
		f.Filter = genFilter(r, 2)
	}
	if r.Chance(0.4) {
		f.Alpha = kit.Pick(r, []float64{0.05, 0.01, 0.5, 1, 0, 0.2})
	}
	if r.Chance(0.4) {
		f.Confidence = kit.Pick(r, []float64{0.95, 0.9, 0.5, 0.99, 0.75})
	}
	return f
}

func genTerm(r *kit.Rand) *Filter {
	switch r.Intn(6) {
	case 0:
		us := []string{"ns/op", "sec/op", "B/op", "allocs/op", "MB/s", "B/s", "widgets/op", "sec/frob", "ns/frob"}
		n := r.Range(1, 3)
		p := r.Perm(len(us))
		t := &Filter{Op: "term", Key: ".unit"}
		for _, i := range p[:n] {
			t.Vals = append(t.Vals, us[i])
		}
		return t
	case 1:
		return &Filter{Op: "term", Key: ".name", Vals: []string{kit.Pick(r, Bases)}}
	case 2:
		k := kit.Pick(r, SubKeys)
		return &Filter{Op: "term", Key: "/" + k, Vals: []string{kit.Pick(r, SubVals[k])}}
	case 3:
		k := kit.Pick(r, CfgKeys)
		vs := CfgVals[k]
		n := r.Range(1, len(vs))
		p := r.Perm(len(vs))
		t := &Filter{Op: "term", Key: k}
		for _, i := range p[:n] {
			t.Vals = append(t.Vals, vs[i])
		}
		return t
	case 4:
		return &Filter{Op: "term", Key: "/gomaxprocs", Vals: []string{kit.Pick(r, []string{"2", "8", "16"})}}
	}
	return &Filter{Op: "all"}
}

func genFilter(r *kit.Rand, depth int) *Filter {
	if depth == 0 || r.Chance(0.4) {
		t := genTerm(r)
		if r.Chance(0.25) {
			return &Filter{Op: "not", Kids: []*Filter{t}}
		}
		return t
	}
	op := kit.Pick(r, []string{"and", "or", "or"})
	n := r.Range(2, 3)
	f := &Filter{Op: op}
	for i := 0; i < n; i++ {
		f.Kids = append(f.Kids, genFilter(r, depth-1))
	}
	if r.Chance(0.15) {
		return &Filter{Op: "not", Kids: []*Filter{f}}
	}
	return f
}

// GenManyUnits generates a small case whose benchmark lines carry exactly n
// measurements (units m0/op .. m<n-1>/op) and a filter with `.unit` terms, so
// that per-measurement match masks of exactly n bits are exercised (n around
// the 32-bit word boundaries).
func GenManyUnits(r *kit.Rand, n int) *Case {
	c := &Case{Seed: r.Uint64()}
	unit := func(i int) string { return "m" + itoa(i) + "/op" }
	names := []*Name{{Base: "Enc"}, {Base: "Dec", Parts: []Part{{"size", "s1"}}}}
	nf := r.Range(1, 2)
	for fi := 0; fi < nf; fi++ {
		f := File{SameAs: -1}
		if r.Chance(0.5) {
			f.Lines = append(f.Lines, Line{K: KCfg, Key: "goos", Val: kit.Pick(r, CfgVals["goos"])})
		}
		rep := r.Range(1, 3)
		for round := 0; round < rep; round++ {
			for _, nm := range names {
				l := Line{K: KBench, Name: nm, Its: r.Range(1, 1000)}
				for u := 0; u < n; u++ {
					l.Vals = append(l.Vals, Val{kit.F(round4(r.LogUniform(0, 4))), unit(u)})
				}
				f.Lines = append(f.Lines, l)
			}
		}
		c.Files = append(c.Files, f)
	}
	c.Flags = Flags{Alpha: -1, Confidence: -1}
	// a .unit term naming 1-3 units, biased to the last word of the mask
	t := &Filter{Op: "term", Key: ".unit"}
	k := r.Range(1, 3)
	for j := 0; j < k; j++ {
		i := r.Intn(n)
		if r.Chance(0.6) && n > 32 {
			i = n - 1 - r.Intn(32)
		}
		t.Vals = append(t.Vals, unit(i))
	}
	switch r.Intn(4) {
	case 0:
		c.Flags.Filter = t
	case 1:
		c.Flags.Filter = &Filter{Op: "not", Kids: []*Filter{t}}
	case 2:
		c.Flags.Filter = &Filter{Op: "and", Kids: []*Filter{{Op: "not", Kids: []*Filter{t}}, {Op: "term", Key: ".name", Vals: []string{"Enc"}}}}
	default:
		c.Flags.Filter = &Filter{Op: "or", Kids: []*Filter{t, {Op: "term", Key: "/size", Vals: []string{"s1"}}}}
	}
	return c
}

func itoa(i int) string {
	if i == 0 {
		return "0"
	}
	var b []byte
	for i > 0 {
		b = append([]byte{byte('0' + i%10)}, b...)
		i /= 10
	}
	return string(b)
}
