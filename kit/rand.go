package verifkit

import (
	"hash/fnv"
	"math"
)

func mathFloat64bits(f float64) uint64     { return math.Float64bits(f) }
func mathFloat64frombits(u uint64) float64 { return math.Float64frombits(u) }

// Rand is a splitmix64 stream. Streams are named: the state depends only on
// (seed, name, index), never on scheduling or on how many values another case
// consumed.
type Rand struct{ s uint64 }

func NewRand(seed uint64, name string, idx uint64) *Rand {
	h := fnv.New64a()
	h.Write([]byte(name))
	r := &Rand{s: seed*0x9E3779B97F4A7C15 ^ h.Sum64() ^ (idx+1)*0xBF58476D1CE4E5B9}
	r.Uint64()
	r.Uint64()
	return r
}

func (r *Rand) Uint64() uint64 {
	r.s += 0x9E3779B97F4A7C15
	z := r.s
	z = (z ^ (z >> 30)) * 0xBF58476D1CE4E5B9
	z = (z ^ (z >> 27)) * 0x94D049BB133111EB
	return z ^ (z >> 31)
}

// Intn returns a value in [0,n). n must be > 0.
func (r *Rand) Intn(n int) int {
	if n <= 0 {
		panic("verifkit: Intn with n <= 0")
	}
	return int(r.Uint64() % uint64(n))
}

// Range returns a value in [lo,hi].
func (r *Rand) Range(lo, hi int) int { return lo + r.Intn(hi-lo+1) }

// Float64 returns a value in [0,1).
func (r *Rand) Float64() float64 { return float64(r.Uint64()>>11) / (1 << 53) }

// Bool returns true with probability 1/2.
func (r *Rand) Bool() bool { return r.Uint64()&1 == 1 }

// Chance returns true with probability p.
func (r *Rand) Chance(p float64) bool { return r.Float64() < p }

// Pick returns a random element.
func Pick[T any](r *Rand, xs []T) T { return xs[r.Intn(len(xs))] }

// Shuffle permutes xs in place.
func Shuffle[T any](r *Rand, xs []T) {
	for i := len(xs) - 1; i > 0; i-- {
		j := r.Intn(i + 1)
		xs[i], xs[j] = xs[j], xs[i]
	}
}

// Perm returns a random permutation of 0..n-1.
func (r *Rand) Perm(n int) []int {
	p := make([]int, n)
	for i := range p {
		p[i] = i
	}
	Shuffle(r, p)
	return p
}

// NormFloat64 returns a standard normal variate (Box-Muller).
func (r *Rand) NormFloat64() float64 {
	u1 := r.Float64()
	for u1 == 0 {
		u1 = r.Float64()
	}
	u2 := r.Float64()
	return math.Sqrt(-2*math.Log(u1)) * math.Cos(2*math.Pi*u2)
}

// LogUniform returns a value whose log10 is uniform in [lo,hi].
func (r *Rand) LogUniform(lo, hi float64) float64 {
	return math.Pow(10, lo+(hi-lo)*r.Float64())
}

// Bytes returns n bytes drawn from alphabet.
func (r *Rand) Bytes(n int, alphabet string) string {
	b := make([]byte, n)
	for i := range b {
		b[i] = alphabet[r.Intn(len(alphabet))]
	}
	return string(b)
}
