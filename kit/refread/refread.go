// Package refread is an independent, string-based executable model of the Go
// benchmark format reader (https://golang.org/design/14313-benchmark-format as
// refined by the doc comments of golang.org/x/perf/benchfmt). It is reference
// code for runtime monitors: it must NOT import golang.org/x/perf/benchfmt or
// golang.org/x/perf/benchunit. It works on immutable strings, one line at a
// time, with the standard library only (strings, strconv, unicode).
//
// The model, in words:
//
//   - The text is cut at every '\n'; one trailing '\r' is dropped from each
//     line; a final line without '\n' counts; lines are numbered from 1.
//   - A line that begins with "Benchmark" is a benchmark line. Its fields are
//     the maximal runs of non-white-space (unicode.IsSpace). A lone field with
//     nothing after it (the "go test -v" start line) is ignored. Otherwise
//     field 2 must be an integer (strconv.Atoi) and the remaining fields must
//     be a non-empty sequence of (number, unit) pairs (strconv.ParseFloat);
//     anything else is one positioned syntax error for the line.
//   - A line whose first field is exactly "Unit" is a unit-metadata line:
//     field 2 is the unit, every further field must be key=value with a
//     non-empty key. Each well-formed pair yields a metadata record the first
//     time (unit in base form, key) is seen, nothing when it repeats the same
//     value, and a positioned error when it conflicts; every malformed field
//     yields a positioned error. Unit metadata survives from file to file.
//   - A line "key: value" / "key:" sets / deletes file configuration when the
//     key starts with a lower-case letter, has no white space or upper-case
//     letter, and is separated from a non-empty value by at least one ASCII
//     blank or tab (all leading blanks and tabs are dropped, nothing else is
//     trimmed). An empty value deletes the key.
//   - Every other line is ignored.
//   - A result carries the file configuration in effect at its line.
package refread

import (
	"sort"
	"strconv"
	"strings"
	"unicode"
	"unicode/utf8"
)

// MaxLine is the longest line (bytes before the '\n', including a trailing
// '\r') that a reader built on bufio.Scanner with the default token limit
// (64 KiB including the newline) must still accept.
const MaxLine = 64*1024 - 1

// Kind tells the kind of a record.
type Kind int

const (
	KindResult Kind = iota + 1
	KindError
	KindUnit
)

func (k Kind) String() string {
	switch k {
	case KindResult:
		return "result"
	case KindError:
		return "syntax-error"
	case KindUnit:
		return "unit-metadata"
	}
	return "kind(" + strconv.Itoa(int(k)) + ")"
}

// Meas is one measurement as written in the input.
type Meas struct {
	Value float64
	Unit  string
}

// Record is one record the format prescribes for a line.
type Record struct {
	Kind Kind
	Line int // 1-based

	// KindResult
	Name   string // without the "Benchmark" prefix
	Iters  int
	Values []Meas            // as written
	Config map[string]string // file configuration in effect (a private copy)

	// KindUnit
	Unit     string // base ("tidied") form of OrigUnit
	OrigUnit string
	Key      string
	Value    string

	// KindError
	Why string // diagnostic only
}

// UnitKey identifies one piece of unit metadata (unit in base form).
type UnitKey struct{ Unit, Key string }

// UnitMeta is a stored piece of unit metadata.
type UnitMeta struct {
	OrigUnit string
	Value    string
	File     string
	Line     int
}

// Stats counts what an input exercised.
type Stats struct {
	Lines         int
	Results       int
	Errors        int
	UnitRecords   int
	UnitConflicts int
	UnitRepeats   int
	Sets          int // configuration lines that set a key
	Deletes       int // configuration lines that removed a key that was set
	ReSets        int // configuration lines that set a key that had been deleted before
	Changes       int // configuration lines that changed the value of a set key
	Ignored       int
	Distinct      int // distinct keys, units, metadata keys and values seen so far (intern pressure)
}

// Model is the state that survives from one file to the next.
type Model struct {
	Units map[UnitKey]UnitMeta
	seen  map[string]struct{}
}

// Clone returns an independent copy of the model.
func (m *Model) Clone() *Model {
	c := New()
	for k, v := range m.Units {
		c.Units[k] = v
	}
	for k := range m.seen {
		c.seen[k] = struct{}{}
	}
	return c
}

// LineLimits returns the line-length limits a conforming reader may have,
// as far as they make a difference for the given texts: MaxLine (the
// bufio.Scanner default) and the length of every longer line, ascending. A
// reader with limit L stops with an I/O error in front of the first line
// longer than L; the last candidate therefore never stops.
func LineLimits(texts ...string) []int {
	seen := map[int]bool{MaxLine: true}
	out := []int{MaxLine}
	for _, t := range texts {
		for _, raw := range RawLines(t) {
			if len(raw) > MaxLine && !seen[len(raw)] {
				seen[len(raw)] = true
				out = append(out, len(raw))
			}
		}
	}
	sort.Ints(out)
	return out
}

// New returns an empty model.
func New() *Model {
	return &Model{Units: map[UnitKey]UnitMeta{}, seen: map[string]struct{}{}}
}

// Options modify Read.
type Options struct {
	// StopAtTooLong makes Read stop in front of the first line longer than
	// MaxLine (the behaviour of a reader whose line buffer is limited).
	StopAtTooLong bool
	// LineLimit > 0 makes Read stop in front of the first line longer than
	// LineLimit bytes instead (a reader with a larger line buffer).
	LineLimit int
	// MaxRecords > 0 makes Read stop after the line that produced the
	// MaxRecords-th record (a caller that abandons the file there). The
	// whole line is still applied, so Records may hold a few more.
	MaxRecords int
	// MaxLineNo > 0 makes Read stop after line MaxLineNo has been applied (a
	// caller that abandoned the file while records of that line were being
	// delivered).
	MaxLineNo int
}

// Outcome is what one file yields.
type Outcome struct {
	Records []Record
	// TooLongLine is the 1-based number of the first line longer than
	// MaxLine, or 0. With StopAtTooLong, Records ends before that line.
	TooLongLine int
	Stopped     bool // Read stopped at TooLongLine
	Stats       Stats
	// BareUnitLines are the 1-based numbers of the lines "Unit <unit>" without
	// any key=value field. They set nothing and prescribe no record; whether a
	// reader complains about them is left open (see C02 NOTES).
	BareUnitLines []int
}

// IsSep reports whether r separates fields.
func IsSep(r rune) bool { return unicode.IsSpace(r) }

// Fields splits s into maximal runs of non-white-space.
func Fields(s string) []string {
	var out []string
	start := -1
	for i := 0; i < len(s); {
		r, n := utf8.DecodeRuneInString(s[i:])
		if IsSep(r) {
			if start >= 0 {
				out = append(out, s[start:i])
				start = -1
			}
		} else if start < 0 {
			start = i
		}
		i += n
	}
	if start >= 0 {
		out = append(out, s[start:])
	}
	return out
}

// RawLines cuts text at '\n' without removing anything else.
func RawLines(text string) []string {
	if text == "" {
		return nil
	}
	lines := strings.Split(text, "\n")
	if lines[len(lines)-1] == "" {
		lines = lines[:len(lines)-1]
	}
	return lines
}

// ParseKeyValue recognises a configuration line.
func ParseKeyValue(line string) (key, val string, ok bool) {
	colon := strings.IndexByte(line, ':')
	if colon <= 0 {
		return "", "", false
	}
	key = line[:colon]
	first := true
	for i := 0; i < len(key); {
		r, n := utf8.DecodeRuneInString(key[i:])
		if first && !unicode.IsLower(r) {
			return "", "", false
		}
		first = false
		if unicode.IsSpace(r) || unicode.IsUpper(r) {
			return "", "", false
		}
		i += n
	}
	rest := line[colon+1:]
	if rest == "" {
		return key, "", true
	}
	if rest[0] != ' ' && rest[0] != '\t' {
		return "", "", false
	}
	return key, strings.TrimLeft(rest, " \t"), true
}

// ValidKey reports whether key can be the key of a configuration line.
func ValidKey(key string) bool {
	k, _, ok := ParseKeyValue(key + ": x")
	return ok && k == key
}

// TidyUnit returns the base form of unit and the decimal exponent e such that
// a value v written in unit equals v×10^e in the base form: every "ns"
// component in the numerator becomes "sec" (e -= 9) and every "MB" component
// in the numerator becomes "B" (e += 6). Components are separated by '*'
// (back to the numerator), '/' (into the denominator), '-' and white space
// (position unchanged). rewritten is the number of components replaced.
func TidyUnit(unit string) (tidied string, exp10 int, rewritten int) {
	var sb strings.Builder
	denom := false
	isUnitSep := func(r rune) bool { return r == '*' || r == '/' || r == '-' || unicode.IsSpace(r) }
	for i := 0; i < len(unit); {
		r, n := utf8.DecodeRuneInString(unit[i:])
		if isUnitSep(r) {
			if r == '*' {
				denom = false
			} else if r == '/' {
				denom = true
			}
			sb.WriteString(unit[i : i+n])
			i += n
			continue
		}
		j := i
		for j < len(unit) {
			r2, n2 := utf8.DecodeRuneInString(unit[j:])
			if isUnitSep(r2) {
				break
			}
			j += n2
		}
		tok := unit[i:j]
		switch {
		case !denom && tok == "ns":
			sb.WriteString("sec")
			exp10 -= 9
			rewritten++
		case !denom && tok == "MB":
			sb.WriteString("B")
			exp10 += 6
			rewritten++
		default:
			sb.WriteString(tok)
		}
		i = j
	}
	return sb.String(), exp10, rewritten
}

func (m *Model) note(s string) {
	m.seen[s] = struct{}{}
}

// Read applies one file to the model and returns the records the format
// prescribes for it. fileName is only stored in unit metadata positions.
func (m *Model) Read(fileName, text string, opt Options) Outcome {
	var out Outcome
	config := map[string]string{}
	deleted := map[string]bool{}
	for idx, raw := range RawLines(text) {
		lineNo := idx + 1
		if len(raw) > MaxLine && out.TooLongLine == 0 {
			out.TooLongLine = lineNo
			if opt.StopAtTooLong && opt.LineLimit == 0 {
				out.Stopped = true
				break
			}
		}
		if opt.LineLimit > 0 && len(raw) > opt.LineLimit {
			out.Stopped = true
			break
		}
		out.Stats.Lines++
		line := strings.TrimSuffix(raw, "\r")
		switch {
		case strings.HasPrefix(line, "Benchmark"):
			rec, ok := m.benchLine(line, lineNo)
			if !ok {
				out.Stats.Ignored++
				break
			}
			if rec.Kind == KindResult {
				rec.Config = make(map[string]string, len(config))
				for k, v := range config {
					rec.Config[k] = v
				}
				out.Stats.Results++
			} else {
				out.Stats.Errors++
			}
			out.Records = append(out.Records, rec)
		case isUnitLine(line):
			m.unitLine(fileName, line, lineNo, &out)
		default:
			key, val, ok := ParseKeyValue(line)
			if !ok {
				out.Stats.Ignored++
				break
			}
			m.note(key)
			if val == "" {
				if _, had := config[key]; had {
					out.Stats.Deletes++
					deleted[key] = true
					delete(config, key)
				}
			} else {
				old, had := config[key]
				switch {
				case !had && deleted[key]:
					out.Stats.ReSets++
				case had && old != val:
					out.Stats.Changes++
				}
				out.Stats.Sets++
				config[key] = val
			}
		}
		if opt.MaxLineNo > 0 && lineNo >= opt.MaxLineNo {
			break
		}
		if opt.MaxRecords > 0 && len(out.Records) >= opt.MaxRecords {
			break
		}
	}
	out.Stats.Distinct = len(m.seen)
	return out
}

func isUnitLine(line string) bool {
	if line == "" || line[0] != 'U' {
		return false
	}
	f := Fields(line)
	return len(f) > 0 && f[0] == "Unit"
}

func (m *Model) benchLine(line string, lineNo int) (Record, bool) {
	f := Fields(line)
	// f[0] starts at byte 0 because the line starts with 'B'.
	if len(f) == 1 && f[0] == line {
		return Record{}, false // bare name: "go test -v" start line
	}
	bad := func(why string) (Record, bool) {
		return Record{Kind: KindError, Line: lineNo, Why: why}, true
	}
	rec := Record{Kind: KindResult, Line: lineNo, Name: f[0][len("Benchmark"):]}
	if len(f) < 2 {
		return bad("missing iteration count")
	}
	it, err := strconv.Atoi(f[1])
	if err != nil {
		return bad("iteration count: " + err.Error())
	}
	rec.Iters = it
	rest := f[2:]
	if len(rest) == 0 {
		return bad("missing measurements")
	}
	for i := 0; i < len(rest); i += 2 {
		v, err := strconv.ParseFloat(rest[i], 64)
		if err != nil {
			return bad("measurement: " + err.Error())
		}
		if i+1 >= len(rest) {
			return bad("missing units")
		}
		m.note(rest[i+1])
		rec.Values = append(rec.Values, Meas{v, rest[i+1]})
	}
	return rec, true
}

func (m *Model) unitLine(fileName, line string, lineNo int, out *Outcome) {
	f := Fields(line)
	if len(f) < 2 {
		out.Records = append(out.Records, Record{Kind: KindError, Line: lineNo, Why: "missing unit"})
		out.Stats.Errors++
		return
	}
	unit := f[1]
	m.note(unit)
	tidy, _, _ := TidyUnit(unit)
	if len(f) == 2 {
		out.BareUnitLines = append(out.BareUnitLines, lineNo)
	}
	for _, kv := range f[2:] {
		eq := strings.IndexByte(kv, '=')
		if eq <= 0 {
			out.Records = append(out.Records, Record{Kind: KindError, Line: lineNo, Why: "expected key=value"})
			out.Stats.Errors++
			continue
		}
		key, val := kv[:eq], kv[eq+1:]
		m.note(key)
		m.note(val)
		uk := UnitKey{tidy, key}
		if have, ok := m.Units[uk]; ok {
			if have.Value == val {
				out.Stats.UnitRepeats++
				continue
			}
			out.Records = append(out.Records, Record{Kind: KindError, Line: lineNo, Why: "conflicting unit metadata"})
			out.Stats.Errors++
			out.Stats.UnitConflicts++
			continue
		}
		m.Units[uk] = UnitMeta{OrigUnit: unit, Value: val, File: fileName, Line: lineNo}
		out.Records = append(out.Records, Record{Kind: KindUnit, Line: lineNo, Unit: tidy, OrigUnit: unit, Key: key, Value: val})
		out.Stats.UnitRecords++
	}
}
