// Package verifkit is the runtime-monitoring kit shared by all property
// monitors. It never exists inside /repo: the driver maps it into the module as
// golang.org/x/perf/internal/verifkit with `go test -overlay`.
//
// A monitor is a Go test that calls Run with a list of classes. A class
// produces cases (seeded generation or exhaustive enumeration), checks each
// case with an oracle and reports what it observed: evaluations, distinct
// non-trivial cases, samples, counters and violations (each with a replay
// file holding the concrete case).
package verifkit

import (
	"encoding/json"
	"fmt"
	"hash/fnv"
	"os"
	"path/filepath"
	"runtime"
	"runtime/debug"
	"sort"
	"strconv"
	"strings"
	"sync"
	"sync/atomic"
	"testing"
	"time"
)

// ---------------------------------------------------------------------------
// Lossless byte strings in JSON

// B is a byte string that survives JSON: it is encoded as a JSON string holding
// the Go-quoted (ASCII) form, so invalid UTF-8 and control bytes are exact.
type B string

func (b B) MarshalJSON() ([]byte, error) {
	return json.Marshal(strconv.QuoteToASCII(string(b)))
}

func (b *B) UnmarshalJSON(data []byte) error {
	var q string
	if err := json.Unmarshal(data, &q); err != nil {
		return err
	}
	s, err := strconv.Unquote(q)
	if err != nil {
		return fmt.Errorf("verifkit.B: %v in %q", err, q)
	}
	*b = B(s)
	return nil
}

// F is a float64 that survives JSON including NaN, ±Inf and -0 (stored as the
// hexadecimal bit pattern plus a readable rendering).
type F float64

func (f F) MarshalJSON() ([]byte, error) {
	return json.Marshal(fmt.Sprintf("%016x %v", mathFloat64bits(float64(f)), float64(f)))
}

func (f *F) UnmarshalJSON(data []byte) error {
	var s string
	if err := json.Unmarshal(data, &s); err != nil {
		return err
	}
	if i := strings.IndexByte(s, ' '); i >= 0 {
		s = s[:i]
	}
	u, err := strconv.ParseUint(s, 16, 64)
	if err != nil {
		return err
	}
	*f = F(mathFloat64frombits(u))
	return nil
}

// ---------------------------------------------------------------------------
// Failures

// Fail is an oracle disagreement. Sig is a short root-cause signature computed
// by the oracle (it is what known_findings.json is matched against); Msg is the
// human-readable detail.
type Fail struct {
	Sig string
	Msg string
}

func Failf(sig, format string, args ...any) *Fail {
	return &Fail{Sig: sig, Msg: fmt.Sprintf(format, args...)}
}

// ---------------------------------------------------------------------------
// Environment

type env struct {
	prop      string
	tier      string
	seed      uint64
	report    string
	replayDir string
	replay    string
	workers   int
	scale     float64
}

func getenv() env {
	e := env{tier: "quick", seed: 1}
	if v := os.Getenv("VERIF_TIER"); v != "" {
		e.tier = v
	}
	if v := os.Getenv("VERIF_SEED"); v != "" {
		if n, err := strconv.ParseInt(v, 10, 64); err == nil {
			e.seed = uint64(n)
		}
	}
	e.report = os.Getenv("VERIF_REPORT")
	e.replayDir = os.Getenv("VERIF_REPLAY_DIR")
	e.replay = os.Getenv("VERIF_REPLAY")
	e.workers = runtime.GOMAXPROCS(0)
	if v := os.Getenv("VERIF_WORKERS"); v != "" {
		if n, err := strconv.Atoi(v); err == nil && n > 0 {
			e.workers = n
		}
	}
	e.scale = 1
	if v := os.Getenv("VERIF_SCALE"); v != "" {
		if f, err := strconv.ParseFloat(v, 64); err == nil && f > 0 {
			e.scale = f
		}
	}
	return e
}

// memLimit is the heap size beyond which a run is aborted (VERIF_MEMLIMIT_MB, default 12 GiB).
func memLimit() uint64 {
	if v := os.Getenv("VERIF_MEMLIMIT_MB"); v != "" {
		if n, err := strconv.ParseUint(v, 10, 64); err == nil && n > 0 {
			return n << 20
		}
	}
	return 12 << 30
}

// Tier reports the tier of this run ("quick" or "thorough").
func Tier() string { return getenv().tier }

// Thorough reports whether this is a thorough-tier run.
func Thorough() bool { return Tier() == "thorough" }

// Seed reports VERIF_SEED.
func Seed() uint64 { return getenv().seed }

// ---------------------------------------------------------------------------
// Classes

// Class describes one family of cases of type C.
type Class[C any] struct {
	Name string
	// Quick and Thorough are the number of generated cases per tier (Gen).
	Quick, Thorough int
	// Gen produces case i from a PRNG stream that depends only on
	// (VERIF_SEED, class name, i).
	Gen func(r *Rand, i int) C
	// Enum, if set, enumerates a finite space instead (exhaustive within
	// the tier's bound); Gen is then ignored.
	Enum func(thorough bool, yield func(C))
	// Check is the oracle. It returns nil when the observation is allowed.
	Check func(c C) *Fail
	// NonTrivial decides whether a case counts for distinct_nontrivial.
	NonTrivial func(c C) bool
	// Rule describes generation and the non-triviality rule in words.
	Rule string
	// MinNonTrivial is the minimum number of distinct non-trivial cases this
	// class must have produced in the quick tier for the run to count
	// (thorough must reach at least the same number).
	MinNonTrivial int
	// Serial forces single-threaded execution (stateful classes).
	Serial bool
	// CaseTimeout overrides the per-case hang bound.
	CaseTimeout time.Duration
	// HangIsViolation marks properties that promise termination.
	HangIsViolation bool
}

type runner interface {
	name() string
	run(rc *runCtx) *classReport
	replay(rc *runCtx, raw json.RawMessage) *classReport
}

func (c Class[C]) name() string { return c.Name }

// classReport is what one class observed.
type classReport struct {
	Name        string            `json:"name"`
	Evaluations int64             `json:"evaluations"`
	NonTrivial  int64             `json:"distinct_nontrivial"`
	MinRequired int               `json:"min_nontrivial_required"`
	Exhaustive  bool              `json:"exhaustive"`
	Rule        string            `json:"rule"`
	Samples     []json.RawMessage `json:"samples"`
	Violations  []violation       `json:"violations"`
	NViolations int64             `json:"n_violations"`
	SigCounts   map[string]int64  `json:"sig_counts"`
	WallS       float64           `json:"wall_s"`
}

type violation struct {
	Class  string `json:"class"`
	Sig    string `json:"sig"`
	Msg    string `json:"msg"`
	Replay string `json:"replay"`
}

type runCtx struct {
	env env
	mu  sync.Mutex
}

type report struct {
	Property string            `json:"property"`
	Monitor  string            `json:"monitor"`
	Tier     string            `json:"tier"`
	Seed     uint64            `json:"seed"`
	Classes  []*classReport    `json:"classes"`
	Counters map[string]int64  `json:"counters"`
	Notes    map[string]any    `json:"notes"`
	Done     bool              `json:"done"`
	GoMaxP   int               `json:"gomaxprocs"`
	Extra    map[string]string `json:"extra,omitempty"`
}

var (
	counterMu sync.Mutex
	counters  = map[string]*int64{}
	notes     = map[string]any{}
)

// Count adds delta to a named counter that ends up in the evidence.
func Count(name string, delta int64) {
	counterMu.Lock()
	p := counters[name]
	if p == nil {
		p = new(int64)
		counters[name] = p
	}
	counterMu.Unlock()
	atomic.AddInt64(p, delta)
}

// Note records a named observation (last write wins) in the evidence.
func Note(name string, v any) {
	counterMu.Lock()
	notes[name] = v
	counterMu.Unlock()
}

// NoteMax keeps the maximum of a float observation (e.g. worst error seen).
func NoteMax(name string, v float64) {
	counterMu.Lock()
	if old, ok := notes[name].(float64); !ok || v > old {
		notes[name] = v
	}
	counterMu.Unlock()
}

const maxSamples = 4
const maxViolationsKept = 12

func hashJSON(b []byte) uint64 {
	h := fnv.New64a()
	h.Write(b)
	return h.Sum64()
}

func (c Class[C]) run(rc *runCtx) *classReport {
	start := time.Now()
	rep := &classReport{Name: c.Name, Rule: c.Rule, MinRequired: c.MinNonTrivial, SigCounts: map[string]int64{}}
	workers := rc.env.workers
	if c.Serial {
		workers = 1
	}
	caseTimeout := c.CaseTimeout
	if caseTimeout == 0 {
		caseTimeout = 5 * time.Minute
	}

	type item struct {
		i int
		c C
	}
	ch := make(chan item, 256)
	var wg sync.WaitGroup
	var mu sync.Mutex
	distinct := map[uint64]struct{}{}
	perSigKept := map[string]int{}

	// per-worker "current case" for the hang watchdog
	type cur struct {
		since atomic.Int64
		data  atomic.Pointer[[]byte]
	}
	curs := make([]*cur, workers)
	for w := range curs {
		curs[w] = &cur{}
	}
	stopWatch := make(chan struct{})
	go func() {
		tk := time.NewTicker(2 * time.Second)
		defer tk.Stop()
		for {
			select {
			case <-stopWatch:
				return
			case <-tk.C:
				// Memory guard: a case that makes the code under test allocate
				// without bound must not take the machine down. Treated like a hang.
				var ms runtime.MemStats
				runtime.ReadMemStats(&ms)
				if ms.HeapAlloc > memLimit() {
					var raws [][]byte
					for _, cu := range curs {
						if cu.since.Load() != 0 {
							if d := cu.data.Load(); d != nil {
								raws = append(raws, *d)
							}
						}
					}
					sig := "memory-blowup-inconclusive"
					if c.HangIsViolation {
						sig = "memory-blowup"
					}
					mu.Lock()
					for _, raw := range raws {
						path := writeReplay(rc, c.Name, sig, raw)
						rep.Violations = append(rep.Violations, violation{c.Name, sig, fmt.Sprintf("heap grew beyond %d MiB while this case was running (one of %d cases in flight)", memLimit()>>20, len(raws)), path})
						rep.NViolations++
						rep.SigCounts[sig]++
					}
					mu.Unlock()
					flush(rc, false, rep)
					fmt.Fprintf(os.Stderr, "verifkit: heap beyond limit in class %s; %d cases in flight\n", c.Name, len(raws))
					os.Exit(8)
				}
				now := time.Now().UnixNano()
				for _, cu := range curs {
					s := cu.since.Load()
					if s != 0 && time.Duration(now-s) > caseTimeout {
						d := cu.data.Load()
						var raw []byte
						if d != nil {
							raw = *d
						}
						path := writeReplay(rc, c.Name, "hang", raw)
						sig := "hang-inconclusive"
						if c.HangIsViolation {
							sig = "hang"
						}
						mu.Lock()
						rep.Violations = append(rep.Violations, violation{c.Name, sig, fmt.Sprintf("case still running after %v", caseTimeout), path})
						rep.NViolations++
						rep.SigCounts[sig]++
						mu.Unlock()
						flush(rc, false, rep)
						fmt.Fprintf(os.Stderr, "verifkit: case hang in class %s; replay %s\n", c.Name, path)
						os.Exit(7)
					}
				}
			}
		}
	}()

	handle := func(w int, it item) {
		raw, err := json.Marshal(it.c)
		if err != nil {
			panic(fmt.Sprintf("verifkit: cannot marshal case of class %s: %v", c.Name, err))
		}
		curs[w].data.Store(&raw)
		curs[w].since.Store(time.Now().UnixNano())
		f := safeCheck(c.Check, it.c)
		curs[w].since.Store(0)
		nt := c.NonTrivial == nil || c.NonTrivial(it.c)
		var h uint64
		if nt {
			h = hashJSON(raw)
		}
		mu.Lock()
		rep.Evaluations++
		if nt {
			distinct[h] = struct{}{}
		}
		if len(rep.Samples) < maxSamples && (nt || rep.Evaluations > 200) {
			if len(raw) < 4000 {
				rep.Samples = append(rep.Samples, raw)
			}
		}
		if f != nil {
			rep.NViolations++
			rep.SigCounts[f.Sig]++
			if perSigKept[f.Sig] < 3 && len(rep.Violations) < maxViolationsKept {
				perSigKept[f.Sig]++
				path := writeReplay(rc, c.Name, f.Sig, raw)
				rep.Violations = append(rep.Violations, violation{c.Name, f.Sig, trunc(f.Msg, 4000), path})
			}
		}
		mu.Unlock()
	}

	for w := 0; w < workers; w++ {
		wg.Add(1)
		go func(w int) {
			defer wg.Done()
			for it := range ch {
				handle(w, it)
			}
		}(w)
	}

	if c.Enum != nil {
		rep.Exhaustive = true
		i := 0
		c.Enum(rc.env.tier == "thorough", func(cs C) {
			ch <- item{i, cs}
			i++
		})
	} else {
		n := c.Quick
		if rc.env.tier == "thorough" {
			n = c.Thorough
		}
		n = int(float64(n) * rc.env.scale)
		if n < 1 {
			n = 1
		}
		// generation itself is sharded: each case has its own stream.
		var gw sync.WaitGroup
		gworkers := workers
		next := int64(0)
		for g := 0; g < gworkers; g++ {
			gw.Add(1)
			go func() {
				defer gw.Done()
				for {
					i := int(atomic.AddInt64(&next, 1) - 1)
					if i >= n {
						return
					}
					r := NewRand(rc.env.seed, c.Name, uint64(i))
					ch <- item{i, c.Gen(r, i)}
				}
			}()
		}
		gw.Wait()
	}
	close(ch)
	wg.Wait()
	close(stopWatch)
	rep.NonTrivial = int64(len(distinct))
	rep.WallS = time.Since(start).Seconds()
	if rep.Samples == nil {
		rep.Samples = []json.RawMessage{}
	}
	return rep
}

func (c Class[C]) replay(rc *runCtx, raw json.RawMessage) *classReport {
	rep := &classReport{Name: c.Name, Rule: c.Rule, SigCounts: map[string]int64{}}
	var cs C
	if err := json.Unmarshal(raw, &cs); err != nil {
		panic(fmt.Sprintf("verifkit: cannot decode replay case: %v", err))
	}
	f := safeCheck(c.Check, cs)
	rep.Evaluations = 1
	rep.Samples = []json.RawMessage{raw}
	if f != nil {
		rep.NViolations = 1
		rep.SigCounts[f.Sig] = 1
		rep.Violations = append(rep.Violations, violation{c.Name, f.Sig, f.Msg, rc.env.replay})
	}
	return rep
}

func trunc(s string, n int) string {
	if len(s) > n {
		return s[:n] + "…"
	}
	return s
}

// safeCheck runs the oracle under recover. A panic whose stack passes through
// golang.org/x/perf code outside the monitor files is a violation of the code
// under test ("panic"); a panic purely inside monitor code is a monitor bug
// and is reported with a distinct signature so the driver makes the run
// inconclusive instead of raising an alarm.
func safeCheck[C any](check func(C) *Fail, c C) (f *Fail) {
	defer func() {
		if r := recover(); r != nil {
			st := string(debug.Stack())
			sig := "monitor-panic"
			if PanicInTarget(st) {
				sig = "panic"
			}
			f = &Fail{Sig: sig, Msg: fmt.Sprintf("panic: %v\n%s", r, trunc(st, 6000))}
		}
	}()
	return check(c)
}

// PanicInTarget reports whether a stack trace has a frame of golang.org/x/perf
// that is neither the kit nor a monitor file (zz_verif_*), above the recover.
func PanicInTarget(stack string) bool {
	lines := strings.Split(stack, "\n")
	for i := 0; i+1 < len(lines); i++ {
		fn := lines[i]
		file := strings.TrimSpace(lines[i+1])
		if !strings.HasPrefix(fn, "golang.org/x/perf/") {
			continue
		}
		if strings.Contains(fn, "internal/verifkit") || strings.Contains(file, "zz_verif_") || strings.Contains(file, "/verif/") {
			continue
		}
		return true
	}
	return false
}

func writeReplay(rc *runCtx, class, sig string, raw []byte) string {
	dir := rc.env.replayDir
	if dir == "" {
		return ""
	}
	os.MkdirAll(dir, 0o755)
	doc := map[string]any{
		"property": rc.env.prop,
		"class":    class,
		"sig":      sig,
		"tier":     rc.env.tier,
		"seed":     rc.env.seed,
		"case":     json.RawMessage(raw),
	}
	if raw == nil {
		doc["case"] = nil
	}
	b, _ := json.MarshalIndent(doc, "", " ")
	name := fmt.Sprintf("%s-%s-%016x.json", sanitize(class), sanitize(sig), hashJSON(raw))
	path := filepath.Join(dir, name)
	os.WriteFile(path, b, 0o644)
	return path
}

func sanitize(s string) string {
	var sb strings.Builder
	for _, r := range s {
		if r >= 'a' && r <= 'z' || r >= 'A' && r <= 'Z' || r >= '0' && r <= '9' || r == '-' || r == '_' {
			sb.WriteRune(r)
		} else {
			sb.WriteByte('_')
		}
	}
	if sb.Len() > 60 {
		return sb.String()[:60]
	}
	return sb.String()
}

var flushMu sync.Mutex
var flushed []*classReport
var flushProp, flushMonitor string

func flush(rc *runCtx, done bool, extra ...*classReport) {
	flushMu.Lock()
	defer flushMu.Unlock()
	if rc.env.report == "" {
		return
	}
	r := report{Property: flushProp, Monitor: flushMonitor, Tier: rc.env.tier, Seed: rc.env.seed, Done: done, GoMaxP: runtime.GOMAXPROCS(0)}
	r.Classes = append(r.Classes, flushed...)
	r.Classes = append(r.Classes, extra...)
	counterMu.Lock()
	r.Counters = map[string]int64{}
	for k, p := range counters {
		r.Counters[k] = atomic.LoadInt64(p)
	}
	r.Notes = map[string]any{}
	for k, v := range notes {
		r.Notes[k] = v
	}
	counterMu.Unlock()
	b, err := json.MarshalIndent(r, "", " ")
	if err != nil {
		fmt.Fprintf(os.Stderr, "verifkit: report marshal: %v\n", err)
		return
	}
	tmp := rc.env.report + ".tmp"
	os.WriteFile(tmp, b, 0o644)
	os.Rename(tmp, rc.env.report)
}

// Runner is implemented by Class[C] for every C.
type Runner = runner

// Run executes the classes of one monitor of property prop and writes the
// report. Oracle disagreements are reported through the report file (the
// driver decides about known findings); the Go test itself only fails when
// run without a driver.
func Run(t *testing.T, prop string, classes ...Runner) {
	e := getenv()
	e.prop = prop
	rc := &runCtx{env: e}
	flushMu.Lock()
	flushProp = prop
	flushMonitor = t.Name()
	// (flushed is kept: several TestVerif* functions of one unit share a report)
	flushMu.Unlock()

	if e.replay != "" {
		data, err := os.ReadFile(e.replay)
		if err != nil {
			t.Fatalf("replay: %v", err)
		}
		var doc struct {
			Property string
			Class    string
			Case     json.RawMessage
		}
		if err := json.Unmarshal(data, &doc); err != nil {
			t.Fatalf("replay: %v", err)
		}
		found := false
		for _, c := range classes {
			if c.name() == doc.Class {
				found = true
				rep := c.replay(rc, doc.Case)
				flushMu.Lock()
				flushed = append(flushed, rep)
				flushMu.Unlock()
				for _, v := range rep.Violations {
					t.Logf("REPLAY VIOLATION class=%s sig=%s\n%s", v.Class, v.Sig, v.Msg)
				}
				if len(rep.Violations) == 0 {
					t.Logf("REPLAY OK class=%s", doc.Class)
				}
			}
		}
		if found {
			flush(rc, true)
		}
		return
	}

	only := os.Getenv("VERIF_CLASS")
	for _, c := range classes {
		if only != "" && !strings.Contains(c.name(), only) {
			continue
		}
		rep := c.run(rc)
		flushMu.Lock()
		flushed = append(flushed, rep)
		flushMu.Unlock()
		flush(rc, false)
		t.Logf("class %-28s eval=%d distinct_nontrivial=%d violations=%d (%.1fs)", rep.Name, rep.Evaluations, rep.NonTrivial, rep.NViolations, rep.WallS)
		if rep.NViolations > 0 {
			sigs := make([]string, 0, len(rep.SigCounts))
			for s, n := range rep.SigCounts {
				sigs = append(sigs, fmt.Sprintf("%s×%d", s, n))
			}
			sort.Strings(sigs)
			t.Logf("  signatures: %s", strings.Join(sigs, " "))
			for _, v := range rep.Violations {
				t.Logf("  [%s] %s", v.Sig, trunc(v.Msg, 600))
			}
			if e.report == "" {
				t.Errorf("class %s: %d violations", rep.Name, rep.NViolations)
			}
		}
	}
	flush(rc, true)
}
