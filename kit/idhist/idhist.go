// Package idhist checks recorded call/return histories of upload-ID
// allocation (property C20): IDs have the form YYYYMMDD.N, are never issued
// twice, and within one day N grows with real-time creation order.
//
// Two independent deciders are used: a direct check of the real-time partial
// order (complete for this specification, because with distinct N the only
// candidate linearization of a day is "sorted by N"), and porcupine with the
// sequential model "state = largest N issued so far; returning N is legal iff
// N > state" partitioned by day. Failed creations are no-ops and are not part of
// the history. A porcupine timeout (Unknown) is reported as such and is never
// a verdict.
package idhist

import (
	"fmt"
	"regexp"
	"sort"
	"strconv"
	"time"

	"github.com/anishathalye/porcupine"
)

// Op is one successful creation. Call and Ret are stamps from one monotonic
// counter (Call taken before the call, Ret after it returned).
type Op struct {
	Client    int
	Call, Ret int64
	ID        string
}

var idRe = regexp.MustCompile(`^([0-9]{8})\.([1-9][0-9]*)$`)

// Parse splits an ID into day and N; ok=false if it is not YYYYMMDD.N with a
// valid calendar date.
func Parse(id string) (day string, n uint64, ok bool) {
	m := idRe.FindStringSubmatch(id)
	if m == nil {
		return "", 0, false
	}
	if _, err := time.Parse("20060102", m[1]); err != nil {
		return "", 0, false
	}
	n, err := strconv.ParseUint(m[2], 10, 64)
	if err != nil {
		return "", 0, false
	}
	return m[1], n, true
}

// Result of Check.
type Result struct {
	Sig, Msg         string // "" = no violation
	Days             int    // days (partitions) in the history
	PorcupineOK      int    // partitions porcupine found linearizable
	PorcupineUnknown int    // partitions on which porcupine timed out
	Overlapping      int    // pairs of operations that overlapped in time
}

type dayOp struct {
	Op
	n uint64
}

var model = porcupine.Model{
	Init: func() interface{} { return uint64(0) },
	Step: func(state, input, output interface{}) (bool, interface{}) {
		n := output.(uint64)
		if n > state.(uint64) {
			return true, n
		}
		return false, state
	},
	Equal: func(a, b interface{}) bool { return a.(uint64) == b.(uint64) },
	DescribeOperation: func(input, output interface{}) string {
		return fmt.Sprintf("NewUpload -> N=%d", output.(uint64))
	},
}

// Check examines a history of successful creations.
func Check(ops []Op, porcupineTimeout time.Duration) Result {
	var res Result
	seen := map[string]Op{}
	days := map[string][]dayOp{}
	for _, o := range ops {
		day, n, ok := Parse(o.ID)
		if !ok {
			res.Sig, res.Msg = "upload-id-shape", fmt.Sprintf("upload ID %q is not of the form YYYYMMDD.N", o.ID)
			return res
		}
		if p, dup := seen[o.ID]; dup {
			res.Sig = "upload-id-issued-twice"
			res.Msg = fmt.Sprintf("upload ID %s was returned to client %d (call %d, return %d) and to client %d (call %d, return %d)", o.ID, p.Client, p.Call, p.Ret, o.Client, o.Call, o.Ret)
			return res
		}
		seen[o.ID] = o
		days[day] = append(days[day], dayOp{o, n})
	}
	res.Days = len(days)
	var names []string
	for d := range days {
		names = append(names, d)
	}
	sort.Strings(names)
	for _, d := range names {
		h := days[d]
		// direct check of the real-time order
		for i := range h {
			for j := range h {
				if i == j {
					continue
				}
				a, b := h[i], h[j]
				if a.Ret < b.Call && a.n >= b.n {
					res.Sig = "upload-id-order-violates-creation-order"
					res.Msg = fmt.Sprintf("%s was returned (stamp %d, client %d) before the creation of %s was even called (stamp %d, client %d), but its N is not smaller", a.ID, a.Ret, a.Client, b.ID, b.Call, b.Client)
					return res
				}
				if i < j && a.Call <= b.Ret && b.Call <= a.Ret {
					res.Overlapping++
				}
			}
		}
		// porcupine
		pops := make([]porcupine.Operation, len(h))
		for i, o := range h {
			pops[i] = porcupine.Operation{ClientId: o.Client, Input: nil, Call: o.Call, Output: o.n, Return: o.Ret}
		}
		switch porcupine.CheckOperationsTimeout(model, pops, porcupineTimeout) {
		case porcupine.Ok:
			res.PorcupineOK++
		case porcupine.Unknown:
			res.PorcupineUnknown++
		case porcupine.Illegal:
			res.Sig = "upload-id-history-not-linearizable"
			res.Msg = fmt.Sprintf("porcupine: the %d creations of day %s have no order consistent with real time in which N only grows", len(h), d)
			return res
		}
	}
	return res
}
