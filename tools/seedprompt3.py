#!/usr/bin/env python3
import json,sys
pid=sys.argv[1]
for l in open('/verif/properties.jsonl'):
    p=json.loads(l)
    if p['id']==pid: break
D=f"/tmp/seed3/{pid}"
print(f"""You are a mutation author for a robustness study of the Go repository golang/perf (module golang.org/x/perf). You have your OWN scratch git worktree of it at {D} (detached HEAD). Work only inside that directory. Do NOT read or touch /verif or /repo (another team works there, and your change must be independent of whatever they can detect). There is no network; every go command needs: export GOFLAGS=-mod=mod GOPROXY=off GOSUMDB=off GOTOOLCHAIN=local

The property under study ("{p['title']}"):
{p['statement']}
It is meant to hold {p['quantifier']['text']}.

Your task: produce TWO different, independent, realistic source changes (bugs) to the non-test Go code of the repository, each of which BREAKS this property while (a) still compiling, and (b) still passing the repository's whole existing test suite unchanged: `cd {D} && go test -vet=off -count=1 ./...` must pass with the change applied. This is a third round: the obvious single-site slips have been studied already, so each of your changes must be SUBTLE in one of these ways:
 (A) an INTERPLAY of two edit sites in different functions (ideally different files or packages) that are each harmless alone - e.g. one site starts relying on an invariant that the other site no longer maintains in a rare case, a helper's contract is narrowed while one caller still uses the wide form, a value is normalised at one site and compared un-normalised at another;
 (B) a defect in a RARE PATH that ordinary inputs never reach: a slow path / fallback taken only beyond some size, a re-allocation or eviction that happens only after many distinct items, a second call on the same object, an error/cleanup path after a partial success, behaviour at an exact threshold that random data practically never hits but structured data can.
Do NOT use these overused ideas: a cache keyed by a printed/concatenated form, integer overflow at 2^63/2^64, byte-versus-rune confusion, a mask/word boundary at a multiple of 32, replacing a stable sort by an unstable one, an error dropped by := shadowing, NaN handling. Each change must look like a plausible refactoring, optimisation or clean-up a maintainer could make - not sabotage such as `if input == "magic"`. Do not edit any *_test.go file or testdata of the repository. (History shows that several defects around this property were recently repaired; do not simply revert a recent commit.)

For each change i in {{1,2}} deliver, inside {D}/seed{'{i}'}/ (create the directories; put a one-line go.mod `module seed` in each so that the parent module's `go test ./...` skips it):
 - patch.diff : `git diff` of the change against HEAD (only the non-test source change; `git apply` on a clean checkout must work),
 - demo_test.go : a Go test (test function TestSeedDemo; say in README which package directory it must be copied into) that FAILS with the change applied and PASSES on the unmodified tree, exercising the property through the public behaviour described above,
 - README.md : what the change is, which of the two kinds (A/B) it is, why it breaks the property, what specific condition is needed to manifest, and the exact commands you ran (build, full test suite with the change, demo with and without the change) with their outcome.
Verify all of it yourself: apply patch -> full suite passes -> demo fails; revert (`git checkout -- .`) -> demo passes. Leave the worktree with NO change applied at the end (clean `git status` apart from the untracked seedN/ directories; no demo files left inside package directories). If you cannot find two, deliver what you have and say so. Never use `git stash` (it is shared between worktrees; other helpers work in parallel). Your final message: a few lines per change (files touched, kind, trigger condition, verification result, directory to copy the demo into).""")
