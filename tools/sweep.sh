#!/bin/sh
# tools/sweep.sh <tier> <seeds...> : run every check at the given tier and seeds; print one line per run.
cd "$(dirname "$0")/.."
tier=$1; shift
for s in "$@"; do
  for p in $(ls monitors | grep '^C'); do
    out=$(VERIF_SEED=$s ./vcheck run $p --tier $tier 2>&1); rc=$?
    last=$(echo "$out" | tail -1)
    kf=$(echo "$out" | grep -c '^KNOWN-FINDING')
    echo "seed=$s $p exit=$rc known=$kf :: $last"
    if [ $rc -ne 0 ]; then echo "$out" | grep -E "VIOLATION|INCONCLUSIVE|violation \[" | cut -c1-400; fi
  done
done
