#!/usr/bin/env python3
import json,sys
pid=sys.argv[1]
for l in open('/verif/properties.jsonl'):
    p=json.loads(l)
    if p['id']==pid: break
D=f"/tmp/benign3/{pid}"
print(f"""You are helping with a robustness study of the Go repository golang/perf (module golang.org/x/perf). You have your OWN scratch git worktree of it at {D} (detached HEAD). Work only inside that directory. Do NOT read or touch /verif or /repo. Do not use `git stash` (the stash is shared between worktrees). There is no network; every go command needs: export GOFLAGS=-mod=mod GOPROXY=off GOSUMDB=off GOTOOLCHAIN=local

The property under study ("{p['title']}"):
{p['statement']}
It is meant to hold {p['quantifier']['text']}.
The code mainly involved: {', '.join(p['anchors']['files'])}.

Your task is the OPPOSITE of bug seeding: produce THREE different source changes to the non-test Go code involved in this property that a maintainer might realistically make and that PRESERVE the property (it still holds for all inputs and all histories of use after the change), so that a checker which raises an alarm on them would be raising a FALSE alarm. Earlier helpers already delivered plain refactorings, reworded messages and simple caches; this round is about the CORRECT versions of changes that are typically buggy. Each change must compile and keep the repository's whole existing test suite passing unchanged (`cd {D} && go test -vet=off -count=1 ./...`). The three kinds:
 (1) a correct optimisation built on SHARING or REUSE in the code central to the property: one backing buffer for several values with capacities limited by three-index slices, scratch buffers or parsed forms kept in the long-lived object and reset properly, memoisation keyed by a private COPY of the input and invalidated whenever the state it depends on changes, a bounded cache with correct eviction, sorting or merging in place where the data are the function's own copy, or (where the API documentation does not forbid it) REORDERING the caller's slice in place without changing its multiset. Make it as invasive as you can while staying correct when the same object is used again, after Reset/re-parse, with reused caller buffers of equal length, after an error, and with inputs beyond the sizes the repository's tests use;
 (2) a correct change to how the object behaves under REPEATED or INCREMENTAL use (second call on the same object, more data added after a result was computed, parser reused after successes and failures, results computed twice): e.g. compute lazily and cache until the next mutation, make a computing method idempotent by working on copies, rebuild derived state from scratch on every call instead of updating it - the results for any given set of inputs must stay what they were;
 (3) a change of something the property text leaves OPEN in a degenerate or empty situation (how an undefined/absent quantity is rendered or represented: blank vs 0 vs NaN vs omitted; which of several equally valid orders or representatives is used where the property promises none; what an internal limit or batch size is; how internal work is batched or chunked) - pick one in the code central to the property and change it, without making anything the property does promise untrue.
Be careful to really preserve the property: think through the unusual inputs and histories its quantifier mentions. If you are not sure a change preserves it, do not deliver it (deliver fewer rather than a doubtful one, and say so).

For each change i in {{1,2,3}} deliver, inside {D}/benign{'{i}'}/ (create the directories; put a one-line go.mod `module seed` in each so the parent module's `go test ./...` skips it):
 - patch.diff : `git diff` of the change against HEAD (non-test source only; `git apply` on a clean checkout must work),
 - README.md : what the change is, which kind, why the property still holds (argue about the unusual cases and histories), what observable behaviour - if any - changes, and the exact commands you ran with their outcome.
Verify: apply patch -> `go build ./...` -> full suite passes; then revert (`git checkout -- .`). Leave the worktree with NO change applied at the end (clean `git status` apart from the untracked benignN/ directories). Your final message: a few lines per change (files touched, kind, what observable behaviour changes if any).""")
