#!/usr/bin/env python3
"""Validate one seeded change and run our checks against it, in a scratch worktree.

  tools/seedcheck.py --prop C03 --seed /tmp/seed/C03/seed1 --demo-pkg benchfmt [--props C03,C02] [--tier quick] [--keep ID]

Steps (all in a fresh detached worktree of /repo HEAD under /var/tmp, removed afterwards):
  1. demo on the unchanged tree must PASS;
  2. apply patch.diff; `go build ./...`; the repository's own suite must PASS;
  3. demo with the change must FAIL;
  4. `VERIF_REPO=<worktree> ./vcheck run <prop>` for every listed property: record exit / signatures.
With --keep ID the change is stored as /verif/seeded/ID/ (patch.diff, demo, meta.json).
"""
import argparse, glob, json, os, shutil, subprocess, sys, time
V = os.path.dirname(os.path.dirname(os.path.abspath(__file__)))
ENV = dict(os.environ, GOFLAGS="-mod=mod", GOPROXY="off", GOSUMDB="off", GOTOOLCHAIN="local")


def sh(cmd, cwd, env=ENV, timeout=3600):
    r = subprocess.run(cmd, cwd=cwd, env=env, stdout=subprocess.PIPE, stderr=subprocess.STDOUT, text=True, timeout=timeout)
    return r.returncode, r.stdout


def main():
    ap = argparse.ArgumentParser()
    ap.add_argument("--prop", required=True)
    ap.add_argument("--seed", required=True)
    ap.add_argument("--demo-pkg", default="")
    ap.add_argument("--demo-file", default="")
    ap.add_argument("--props", default="")
    ap.add_argument("--tier", default="quick")
    ap.add_argument("--keep", default="")
    ap.add_argument("--needs", default="")
    a = ap.parse_args()
    props = [p for p in (a.props or a.prop).split(",") if p]
    wt = "/var/tmp/verif-seedcheck-%d" % os.getpid()
    rc, out = sh(["git", "-C", "/repo", "worktree", "add", "--detach", wt, "HEAD"], "/")
    if rc != 0:
        print(out); return 2
    meta = {"property": a.prop, "seed_dir": a.seed, "repo_head": sh(["git", "-C", "/repo", "rev-parse", "--short", "HEAD"], "/")[1].strip(), "ran": []}
    try:
        patch = os.path.join(a.seed, "patch.diff")
        demo = a.demo_file or next(iter(glob.glob(os.path.join(a.seed, "*_test.go"))), "")
        demo_dst = ""
        def run_demo():
            rc, out = sh(["go", "test", "-vet=off", "-count=1", "-run", "TestSeedDemo", "./" + a.demo_pkg], wt)
            return rc, out
        if demo and a.demo_pkg:
            demo_dst = os.path.join(wt, a.demo_pkg, "zz_seed_demo_test.go")
            shutil.copy(demo, demo_dst)
            rc, out = run_demo()
            meta["demo_unchanged"] = "pass" if rc == 0 else "FAIL"
            print("demo on unchanged tree:", meta["demo_unchanged"])
            if rc != 0:
                print(out[-2000:])
        rc, out = sh(["git", "apply", "--whitespace=nowarn", patch], wt)
        if rc != 0:
            print("patch does not apply:\n" + out); return 2
        rc, out = sh(["go", "build", "./..."], wt)
        meta["build"] = "ok" if rc == 0 else "FAIL"
        print("build with change:", meta["build"])
        if rc != 0:
            print(out[-2000:]); return 2
        if demo_dst:
            os.remove(demo_dst)
        rc, out = sh(["go", "test", "-vet=off", "-count=1", "./..."], wt)
        meta["baseline_with_change"] = "pass" if rc == 0 else "FAIL"
        print("repository suite with change:", meta["baseline_with_change"])
        if rc != 0:
            print("\n".join(l for l in out.splitlines() if not l.startswith("ok") and "no test files" not in l)[-3000:])
        if demo and a.demo_pkg:
            shutil.copy(demo, demo_dst)
            rc, out = run_demo()
            meta["demo_with_change"] = "fail (as required)" if rc != 0 else "PASSES (demo does not show the break)"
            print("demo with change:", meta["demo_with_change"])
            os.remove(demo_dst)
        results = {}
        for p in props:
            env = dict(ENV, VERIF_REPO=wt)
            t0 = time.time()
            rc, out = sh([os.path.join(V, "vcheck"), "run", p, "--tier", a.tier], V, env=env, timeout=4 * 3600)
            sigs = [l.strip() for l in out.splitlines() if l.strip().startswith("violation [")]
            results[p] = {"exit": rc, "caught": rc == 1 and "VIOLATION property=" in out, "signatures": [s[:300] for s in sigs[:6]], "wall_s": round(time.time() - t0, 1)}
            print("check %s (%s): exit %d -> %s" % (p, a.tier, rc, "CAUGHT" if results[p]["caught"] else "not caught"))
            for s in sigs[:4]:
                print("   ", s[:260])
            if rc not in (0, 1):
                print(out[-1500:])
            meta["ran"].append("VERIF_REPO=<worktree with patch> ./vcheck run %s --tier %s" % (p, a.tier))
        meta["checks"] = results
        if a.keep:
            d = os.path.join(V, "seeded", a.keep)
            os.makedirs(d, exist_ok=True)
            shutil.copy(patch, os.path.join(d, "patch.diff"))
            if demo:
                shutil.copy(demo, os.path.join(d, "demo_test.go"))
            rd = os.path.join(a.seed, "README.md")
            if os.path.exists(rd):
                shutil.copy(rd, os.path.join(d, "AUTHOR_README.md"))
            meta["needs_to_manifest"] = a.needs
            meta["demo_package"] = a.demo_pkg
            meta.pop("seed_dir", None)
            json.dump(meta, open(os.path.join(d, "meta.json"), "w"), indent=1)
            print("kept as", d)
    finally:
        sh(["git", "-C", "/repo", "worktree", "remove", "--force", wt], "/")
        shutil.rmtree(wt, ignore_errors=True)
    return 0


if __name__ == "__main__":
    sys.exit(main())
