#!/usr/bin/env python3
import json,sys
pid=sys.argv[1]
FOCUS={
'C03':"very long numerals (hundreds to thousands of mantissa digits, with and without a decimal point or exponent), numerals at the range boundaries, redundant leading/trailing zeros; e.g. delegating part of the slow path to the standard library, another size of the internal digit buffer, another way to detect overflow/underflow early",
'C08':"the treatment of internal (non-file) configuration next to file configuration, keys that are file configuration in one result and internal in another, how the .config group is maintained as keys appear",
'C09':"the numeric order: zero-padded numbers, numerically equal values with different spellings (how such ties are broken is open as long as the order stays strict and total), very large/small numbers and suffixes; the way comparisons are implemented",
'C11':"the variables MannWhitneyExactLimit / MannWhitneyTiesExactLimit (their defaults, when and how they are read), the arithmetic of the normal approximation, the exact/approximate decision",
'C13':"extreme magnitudes (overflow- and underflow-safe arithmetic in medians, means, ranges and percentages), e.g. other midpoint or scaling formulas",
'C16':"what is printed inside text cells and how rows with missing cells or cells without comparison are laid out; additional or differently placed annotations that the property does not forbid",
'C17':"how non-finite measurements (NaN, +-Inf) are treated, how quartiles are computed (sorting vs selection), zero and constant samples, geomean details the statement leaves open",
}
for l in open('/verif/properties.jsonl'):
    p=json.loads(l)
    if p['id']==pid: break
D=f"/tmp/benign4/{pid}"
print(f"""You are helping with a robustness study of the Go repository golang/perf (module golang.org/x/perf). You have your OWN scratch git worktree of it at {D} (detached HEAD). Work only inside that directory. Do NOT read or touch /verif or /repo. Do not use `git stash`. There is no network; every go command needs: export GOFLAGS=-mod=mod GOPROXY=off GOSUMDB=off GOTOOLCHAIN=local

The property under study ("{p['title']}"):
{p['statement']}
It is meant to hold {p['quantifier']['text']}.
The code mainly involved: {', '.join(p['anchors']['files'])}.

Your task is the OPPOSITE of bug seeding: produce THREE different source changes to the non-test Go code involved in this property that a maintainer might realistically make and that PRESERVE the property (it still holds for all inputs and histories after the change), so that a checker which raises an alarm on them would be raising a FALSE alarm. Each change must compile and keep the repository's whole existing test suite passing unchanged (`cd {D} && go test -vet=off -count=1 ./...`). This round concentrates on one area - {FOCUS[pid]}. Within that area deliver:
 (1) a rewrite of the relevant code with a DIFFERENT but equivalent algorithm or arithmetic (results may differ only in ways the property explicitly tolerates);
 (2) a change of OBSERVABLE behaviour in that area which the property text leaves open (which of several admissible results is produced, how something undefined or degenerate is represented, what happens outside the property's domain);
 (3) a hardening or generalisation in that area (handling inputs more carefully or more uniformly than today, removing a special case, making a limit configurable) that leaves every result the property pins down unchanged. If the current code has a genuine defect in that area with respect to the property, a correct repair of it also qualifies - say so in the README.
Be careful to really preserve the property: think through the unusual inputs its quantifier mentions. If you are not sure a change preserves it, do not deliver it (deliver fewer rather than a doubtful one, and say so).

For each change i in {{1,2,3}} deliver, inside {D}/benign{'{i}'}/ (create the directories; put a one-line go.mod `module seed` in each so the parent module's `go test ./...` skips it):
 - patch.diff : `git diff` of the change against HEAD (non-test source only; `git apply` on a clean checkout must work),
 - README.md : what the change is, which kind, why the property still holds, what observable behaviour - if any - changes, and the exact commands you ran with their outcome.
Verify: apply patch -> `go build ./...` -> full suite passes; then revert (`git checkout -- .`). Leave the worktree with NO change applied at the end (clean `git status` apart from the untracked benignN/ directories). Your final message: a few lines per change (files touched, kind, what observable behaviour changes if any).""")
