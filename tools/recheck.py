#!/usr/bin/env python3
"""Re-run the recorded checks against kept patches and refresh their meta.json.

  tools/recheck.py seeded [prefix...]         every seeded/<id> (bug patches): expects CAUGHT
  tools/recheck.py seeded-benign [prefix...]  every seeded-benign/<id> (property-preserving): expects silence
Prints one line per patch; exit 1 if an expectation is not met (deliberately-not-caught seeds are listed in EXPECT_MISS).
"""
import glob, json, os, shutil, subprocess, sys, time
V = os.path.dirname(os.path.dirname(os.path.abspath(__file__)))
ENV = dict(os.environ, GOFLAGS="-mod=mod", GOPROXY="off", GOSUMDB="off", GOTOOLCHAIN="local")
EXPECT_MISS = {"C05-explicit-gomaxprocs-segment-wins", "C05-r2-seed3", "C19-r2-seed2", "C05-r4-seed2", "C17-r4-seed1"}


def sh(cmd, cwd, env=ENV):
    r = subprocess.run(cmd, cwd=cwd, env=env, stdout=subprocess.PIPE, stderr=subprocess.STDOUT, text=True)
    return r.returncode, r.stdout


def main():
    kind = sys.argv[1]
    prefixes = sys.argv[2:]
    bad = 0
    for d in sorted(glob.glob(os.path.join(V, kind, "*"))):
        name = os.path.basename(d)
        if prefixes and not any(name.startswith(p) for p in prefixes):
            continue
        mp = os.path.join(d, "meta.json")
        meta = json.load(open(mp))
        wt = "/var/tmp/verif-recheck-%d" % os.getpid()
        rc, out = sh(["git", "-C", "/repo", "worktree", "add", "--detach", wt, "HEAD"], "/")
        try:
            rc, out = sh(["git", "apply", "--whitespace=nowarn", os.path.join(d, "patch.diff")], wt)
            if rc != 0:
                print("%s: PATCH DOES NOT APPLY" % name); bad += 1; continue
            res = {}
            for p in sorted(meta["checks"]):
                rc, out = sh([os.path.join(V, "vcheck"), "run", p, "--tier", "quick"], V, env=dict(ENV, VERIF_REPO=wt))
                sigs = [l.strip()[:300] for l in out.splitlines() if l.strip().startswith("violation [") or l.startswith("INCONCLUSIVE")]
                if kind == "seeded":
                    res[p] = {"exit": rc, "caught": rc == 1 and "VIOLATION property=" in out, "signatures": sigs[:6]}
                else:
                    res[p] = {"exit": rc, "signatures": sigs[:6]}
            meta["checks"] = res
            meta["rechecked_at_verif_commit"] = sh(["git", "-C", V, "rev-parse", "--short", "HEAD"], "/")[1].strip()
            if kind == "seeded":
                own = meta["property"]
                ok = res.get(own, {}).get("caught") or any(r["caught"] for r in res.values())
                if name in EXPECT_MISS:
                    ok = not any(r["caught"] for r in res.values())
                print("%s: %s" % (name, " ".join("%s=%s" % (p, "CAUGHT" if r["caught"] else "exit%d" % r["exit"]) for p, r in res.items())) + ("" if ok else "   <-- UNEXPECTED"))
            else:
                meta["alarms"] = sum(1 for r in res.values() if r["exit"] != 0)
                ok = meta["alarms"] == 0
                print("%s: %s" % (name, "silent" if ok else "ALARM " + " ".join("%s=exit%d" % (p, r["exit"]) for p, r in res.items() if r["exit"])))
            if not ok:
                bad += 1
            if not os.environ.get("RECHECK_NOWRITE"):
                json.dump(meta, open(mp, "w"), indent=1)
        finally:
            sh(["git", "-C", "/repo", "worktree", "remove", "--force", wt], "/")
            shutil.rmtree(wt, ignore_errors=True)
    return 1 if bad else 0


if __name__ == "__main__":
    sys.exit(main())
