#!/usr/bin/env python3
import json,sys
pid=sys.argv[1]
for l in open('/verif/properties.jsonl'):
    p=json.loads(l)
    if p['id']==pid: break
D=f"/tmp/benign/{pid}"
print(f"""You are helping with a robustness study of the Go repository golang/perf (module golang.org/x/perf). You have your OWN scratch git worktree of it at {D} (detached HEAD). Work only inside that directory. Do NOT read or touch /verif or /repo. There is no network; every go command needs: export GOFLAGS=-mod=mod GOPROXY=off GOSUMDB=off GOTOOLCHAIN=local

The property under study ("{p['title']}"):
{p['statement']}
It is meant to hold {p['quantifier']['text']}.
The code mainly involved: {', '.join(p['anchors']['files'])}.

Your task is the OPPOSITE of bug seeding: produce FOUR different source changes to the non-test Go code involved in this property that a maintainer might realistically make and that PRESERVE the property (it still holds for all inputs after the change), so that a checker which raises an alarm on them would be raising a FALSE alarm. Each change must compile and keep the repository's whole existing test suite passing unchanged (`cd {D} && go test -vet=off -count=1 ./...`). The four changes should be of different kinds, and as invasive as you can make them while staying correct:
 (1) a substantial REFACTORING of the central function(s): restructure control flow, split/merge functions, replace a data structure (map <-> slice, index <-> scan, recursion <-> loop), rename things, change internal representations - same observable behaviour;
 (2) a CORRECT performance optimisation: a cache or memo with a correct key, a fast path that is exact, buffer reuse that does not alias caller data, precomputation;
 (3) a change of behaviour the property does NOT specify: wording of error or warning messages, which of several equally valid choices is made (eviction victim, tie-break the statement leaves open, padding distribution, order of independent diagnostics on stderr where unspecified), internal limits/capacities, additional accepted-but-equivalent spellings - anything observable that the property text leaves open, as long as the existing tests still pass;
 (4) a change in a NEIGHBOURING part of the same files that is unrelated to the property (other exported function, doc comments, logging), or a defensive hardening that only affects inputs outside the property's domain.
Be careful to really preserve the property: think through the unusual inputs and histories its quantifier mentions (state carried across calls, boundary sizes, orders, error paths). If you are not sure a change preserves it, do not deliver it.

For each change i in {{1,2,3,4}} deliver, inside {D}/benign{'{i}'}/ (create the directories; put a one-line go.mod `module seed` in each so the parent module's `go test ./...` skips it):
 - patch.diff : `git diff` of the change against HEAD (non-test source only; `git apply` on a clean checkout must work),
 - README.md : what the change is, which kind, why the property still holds (argue about the unusual cases), what observable behaviour - if any - changes, and the exact commands you ran with their outcome.
Verify: apply patch -> `go build ./...` -> full suite passes; then revert (`git checkout -- .`). Leave the worktree with NO change applied at the end (clean `git status` apart from the untracked benignN/ directories). Your final message: a few lines per change (files touched, kind, what observable behaviour changes if any).""")
