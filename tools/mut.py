#!/usr/bin/env python3
"""Mutation probe without touching /repo: substitute an edited copy of one source
file through go's -overlay, check that the repository's own tests still pass
("realistic" change) and that the property's check fires.

  tools/mut.py --prop C01 --file benchfmt/writer.go --old 'TEXT' --new 'TEXT' [--tier quick] [--pkgs ./...] [--all]

--old/--new are literal strings ("\\n" and "\\t" escapes are expanded). Several --file/--old/--new triples may
be given. Exit status: 0 = baseline passes AND check reported a violation (mutant caught).
"""
import argparse, json, os, shutil, subprocess, sys, tempfile
REPO = "/repo"; V = os.path.dirname(os.path.dirname(os.path.abspath(__file__)))
ap = argparse.ArgumentParser()
ap.add_argument("--prop", required=True)
ap.add_argument("--file", action="append", required=True)
ap.add_argument("--old", action="append", required=True)
ap.add_argument("--new", action="append", required=True)
ap.add_argument("--tier", default="quick")
ap.add_argument("--pkgs", default="./...")
ap.add_argument("--all", action="store_true", help="replace every occurrence")
ap.add_argument("--seed", default="1")
ap.add_argument("--skip-baseline", action="store_true")
a = ap.parse_args()
d = tempfile.mkdtemp(prefix="verif-mut-", dir="/var/tmp")
try:
    ov = {}
    contents = {}
    for f, old, new in zip(a.file, a.old, a.new):
        old = old.replace("\\n", "\n").replace("\\t", "\t"); new = new.replace("\\n", "\n").replace("\\t", "\t")
        src = contents.get(f) or open(os.path.join(REPO, f)).read()
        n = src.count(old)
        if n == 0 or (n > 1 and not a.all):
            print("mut: --old occurs %d times in %s" % (n, f)); sys.exit(2)
        contents[f] = src.replace(old, new)
    for f, src in contents.items():
        dst = os.path.join(d, f.replace("/", "__"))
        open(dst, "w").write(src)
        ov[f] = dst
    env = dict(os.environ, GOFLAGS="-mod=mod", GOPROXY="off", GOSUMDB="off", GOTOOLCHAIN="local")
    base_ok = True
    if not a.skip_baseline:
        ovj = os.path.join(d, "ov.json")
        json.dump({"Replace": {os.path.join(REPO, k): v for k, v in ov.items()}}, open(ovj, "w"))
        r = subprocess.run(["go", "test", "-vet=off", "-count=1", "-overlay=" + ovj] + a.pkgs.split(), cwd=REPO, env=env, stdout=subprocess.PIPE, stderr=subprocess.STDOUT, text=True)
        base_ok = r.returncode == 0
        print("mut: baseline tests under mutant:", "PASS" if base_ok else "FAIL")
        if not base_ok:
            print("\n".join(l for l in r.stdout.splitlines() if not l.startswith("ok") and "no test files" not in l)[-3000:])
    env["VERIF_EXTRA_OVERLAY"] = json.dumps(ov)
    env["VERIF_SEED"] = a.seed
    r = subprocess.run([os.path.join(V, "vcheck"), "run", a.prop, "--tier", a.tier], cwd=V, env=env, stdout=subprocess.PIPE, stderr=subprocess.STDOUT, text=True)
    lines = r.stdout.splitlines()
    print("\n".join(lines[-25:]))
    caught = r.returncode == 1 and any(l.startswith("VIOLATION ") for l in lines)
    print("mut: check exit %d -> %s" % (r.returncode, "CAUGHT" if caught else "NOT caught"))
    sys.exit(0 if (caught and base_ok) else 1)
finally:
    shutil.rmtree(d, ignore_errors=True)
