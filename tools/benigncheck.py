#!/usr/bin/env python3
"""Run the checks that could be affected by a property-PRESERVING change and report any alarm.

  tools/benigncheck.py --patch /tmp/benign/C01/benign1/patch.diff [--props C01,C02] [--tier quick] [--keep ID --prop C01]

Applies the patch in a fresh detached worktree of /repo HEAD under /var/tmp, builds, runs the
repository's suite, then runs every check whose subject touches the patched files
(`VERIF_REPO=<worktree> ./vcheck run Cxx`). Any exit != 0 is printed as ALARM with its signatures.
"""
import argparse, json, os, re, shutil, subprocess, sys, time
V = os.path.dirname(os.path.dirname(os.path.abspath(__file__)))
ENV = dict(os.environ, GOFLAGS="-mod=mod", GOPROXY="off", GOSUMDB="off", GOTOOLCHAIN="local")
MAP = [
    ("benchfmt/internal/bytesconv", ["C03", "C02"]),
    ("benchfmt/", ["C01", "C02", "C03", "C04", "C14", "C15"]),
    ("benchunit/", ["C04", "C10", "C14", "C16"]),
    ("benchproc/internal/parse", ["C06", "C07", "C08", "C14"]),
    ("benchproc/", ["C04", "C05", "C06", "C07", "C08", "C09", "C14", "C15", "C16"]),
    ("benchmath/", ["C13", "C14", "C15"]),
    ("internal/stats/", ["C11", "C12", "C17"]),
    ("benchstat/", ["C17"]),
    ("benchseries/", ["C18"]),
    ("cmd/benchseries/", ["C18"]),
    ("cmd/benchstat/", ["C14", "C15", "C16"]),
    ("cmd/benchfilter/", ["C01"]),
    ("storage/", ["C19", "C20"]),
    ("analysis/", ["C19"]),
    ("internal/verifhook", ["C15"]),
]


def sh(cmd, cwd, env=ENV, timeout=7200):
    r = subprocess.run(cmd, cwd=cwd, env=env, stdout=subprocess.PIPE, stderr=subprocess.STDOUT, text=True, timeout=timeout)
    return r.returncode, r.stdout


def main():
    ap = argparse.ArgumentParser()
    ap.add_argument("--patch", required=True)
    ap.add_argument("--props", default="")
    ap.add_argument("--tier", default="quick")
    ap.add_argument("--keep", default="")
    ap.add_argument("--prop", default="")
    a = ap.parse_args()
    files = re.findall(r"^\+\+\+ b/(\S+)", open(a.patch).read(), re.M)
    props = [p for p in a.props.split(",") if p]
    if not props:
        for f in files:
            for pre, ps in MAP:
                if f.startswith(pre):
                    for p in ps:
                        if p not in props:
                            props.append(p)
                    break
    props.sort()
    wt = "/var/tmp/verif-benign-%d" % os.getpid()
    rc, out = sh(["git", "-C", "/repo", "worktree", "add", "--detach", wt, "HEAD"], "/")
    if rc != 0:
        print(out); return 2
    res = {"files": files, "checks": {}}
    try:
        rc, out = sh(["git", "apply", "--whitespace=nowarn", a.patch], wt)
        if rc != 0:
            print("patch does not apply:\n" + out); return 2
        rc, out = sh(["go", "build", "./..."], wt)
        if rc != 0:
            print("build FAIL\n" + out[-1500:]); return 2
        rc, out = sh(["go", "test", "-vet=off", "-count=1", "./..."], wt)
        res["baseline_with_change"] = "pass" if rc == 0 else "FAIL"
        print("files:", " ".join(files)); print("suite with change:", res["baseline_with_change"])
        if rc != 0:
            print("\n".join(l for l in out.splitlines() if not l.startswith("ok") and "no test files" not in l)[-2000:])
        alarms = 0
        for p in props:
            env = dict(ENV, VERIF_REPO=wt)
            rc, out = sh([os.path.join(V, "vcheck"), "run", p, "--tier", a.tier], V, env=env)
            sigs = [l.strip()[:400] for l in out.splitlines() if l.strip().startswith("violation [") or l.startswith("INCONCLUSIVE")]
            res["checks"][p] = {"exit": rc, "signatures": sigs[:6]}
            if rc != 0:
                alarms += 1
                print("ALARM %s exit %d" % (p, rc))
                for s in sigs[:5]:
                    print("    " + s[:380])
            else:
                print("silent %s" % p)
        res["alarms"] = alarms
        if a.keep:
            d = os.path.join(V, "seeded-benign", a.keep)
            os.makedirs(d, exist_ok=True)
            shutil.copy(a.patch, os.path.join(d, "patch.diff"))
            rd = os.path.join(os.path.dirname(a.patch), "README.md")
            if os.path.exists(rd):
                shutil.copy(rd, os.path.join(d, "AUTHOR_README.md"))
            res["property"] = a.prop
            json.dump(res, open(os.path.join(d, "meta.json"), "w"), indent=1)
    finally:
        sh(["git", "-C", "/repo", "worktree", "remove", "--force", wt], "/")
        shutil.rmtree(wt, ignore_errors=True)
    return 0


if __name__ == "__main__":
    sys.exit(main())
