#!/usr/bin/env python3
import json,sys
pid=sys.argv[1]
for l in open('/verif/properties.jsonl'):
    p=json.loads(l)
    if p['id']==pid: break
D=f"/tmp/seed4/{pid}"
print(f"""You are a mutation author for a robustness study of the Go repository golang/perf (module golang.org/x/perf). You have your OWN scratch git worktree of it at {D} (detached HEAD). Work only inside that directory. Do NOT read or touch /verif or /repo (another team works there, and your change must be independent of whatever they can detect). There is no network; every go command needs: export GOFLAGS=-mod=mod GOPROXY=off GOSUMDB=off GOTOOLCHAIN=local

The property under study ("{p['title']}"):
{p['statement']}
It is meant to hold {p['quantifier']['text']}.

Your task: produce TWO different, independent, realistic source changes (bugs) to the non-test Go code of the repository, each of which BREAKS this property while (a) still compiling, and (b) still passing the repository's whole existing test suite unchanged: `cd {D} && go test -vet=off -count=1 ./...` must pass with the change applied. This is a fourth round. Earlier rounds covered single-site slips, stale caches, aliasing of reused buffers, state carried across calls on one object, and thresholds in batch sizes. Each of your changes must therefore be of one of these kinds:
 (A) a defect reachable only through a SECONDARY public entry point, option or mode of the code under the property - one that the main flow and the existing tests do not use (an alternative constructor or method that should be equivalent, a non-default option/flag/policy/format, a wrapper that re-implements part of the logic, a code path chosen by the shape of the input such as labelled vs unlabelled, text vs API, with vs without optional parts) - while the primary path stays correct;
 (B) a defect that needs a particular SCALE or COMBINATION to show: values of very large or very small magnitude, very long or deeply nested inputs, many items/keys/columns/files, or a specific combination of two independent features of the input (each of which alone is handled correctly), or a specific ORDER of otherwise ordinary operations.
The wrong result must be silent (no panic, no error) unless the property itself is about errors. Do NOT use these overused ideas: a cache keyed by a printed/concatenated form, integer overflow at 2^63/2^64, byte-versus-rune confusion, a mask/word boundary at a multiple of 32, replacing a stable sort by an unstable one, an error dropped by := shadowing, NaN handling, a memo validated against its own reused buffer, values packed into one buffer without capacity limits, a "sorted"/"valid" flag that is not cleared, eviction that leaves a stale index entry. Each change must look like a plausible refactoring, optimisation or clean-up a maintainer could make - not sabotage such as `if input == "magic"`. Do not edit any *_test.go file or testdata of the repository. (History shows that several defects around this property were recently repaired; do not simply revert a recent commit.)

For each change i in {{1,2}} deliver, inside {D}/seed{'{i}'}/ (create the directories; put a one-line go.mod `module seed` in each so that the parent module's `go test ./...` skips it):
 - patch.diff : `git diff` of the change against HEAD (only the non-test source change; `git apply` on a clean checkout must work),
 - demo_test.go : a Go test (test function TestSeedDemo; say in README which package directory it must be copied into) that FAILS with the change applied and PASSES on the unmodified tree, exercising the property through the public behaviour described above,
 - README.md : what the change is, which of the two kinds (A/B) it is, why it breaks the property, a section headed "## Condition needed" stating in one paragraph the specific condition needed to manifest, and the exact commands you ran (build, full test suite with the change, demo with and without the change) with their outcome.
Verify all of it yourself: apply patch -> full suite passes -> demo fails; revert (`git checkout -- .`) -> demo passes. Leave the worktree with NO change applied at the end (clean `git status` apart from the untracked seedN/ directories; no demo files left inside package directories). If you cannot find two, deliver what you have and say so. Never use `git stash` (it is shared between worktrees; other helpers work in parallel). Your final message: a few lines per change (files touched, kind, trigger condition, verification result, directory to copy the demo into).""")
