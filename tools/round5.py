#!/usr/bin/env python3
"""tools/round5.py Cxx <demo-pkg-seed1> [<demo-pkg-seed2>] [--props C02,C03]: validate and keep the round-5 seeds of one property."""
import os, re, subprocess, sys
V = os.path.dirname(os.path.dirname(os.path.abspath(__file__)))
args = [a for a in sys.argv[1:] if not a.startswith("--")]
opts = [a for a in sys.argv[1:] if a.startswith("--")]
pid, pkgs = args[0], args[1:]
extra = []
for o in opts:
    if o.startswith("--props="):
        extra = ["--props", o.split("=", 1)[1]]
for i, pkg in enumerate(pkgs, 1):
    if pkg == "-":
        continue
    d = "/tmp/seed5/%s/seed%d" % (pid, i)
    needs = ""
    try:
        t = open(os.path.join(d, "README.md")).read()
        m = re.search(r"## Condition needed\s*\n(.*?)(\n## |\Z)", t, re.S)
        if m:
            needs = " ".join(m.group(1).split())[:600]
    except OSError:
        pass
    cmd = [os.path.join(V, "tools/seedcheck.py"), "--prop", pid, "--seed", d, "--demo-pkg", pkg, "--keep", "%s-r5-seed%d" % (pid, i), "--needs", needs] + extra
    print("==", pid, "seed", i, flush=True)
    subprocess.run(cmd)
