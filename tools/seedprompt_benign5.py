#!/usr/bin/env python3
import json,sys
pid=sys.argv[1]
FOCUS={
'C04':"how the reader handles `Unit` metadata lines: lines with several pairs, repeated pairs, a `Unit <u>` line without any pair (whether it is silently ignored or reported as a positioned non-fatal syntax error is open), caching of the tidied unit between consecutive Unit lines, the order in which pairs are processed, how lookups by written and base unit are implemented",
'C12':"Sample.Percentile / IQR / Bounds: other but equivalent ways of locating the two order statistics and interpolating between them (the result must stay within a few ulps of the exact R8 value, monotone in p and within [min,max]; think about samples with many equal values), selection instead of sorting, handling p outside [0,1]",
'C14':"how benchstat and the reader deal with `Unit` lines that carry several pairs, repeated or CONTRADICTING metadata (the wording of the complaint, whether more is said on stderr about the same line position, the order in which pairs of a line are applied) and with metadata that arrives after the measurements it applies to",
'C16':"how the text table chooses the number scale shared by the cells of a row (benchtab RowScaler, benchunit.CommonScale and Scaler.Format): equivalent ways to find the value closest to zero, rows with zero, negative and very small or very large values, how many digits are printed when MORE than the guaranteed precision is available",
'C18':"Builder.Add and the builder's filter option: matching instead of applying the filter, not modifying the caller's result, the order in which units of one result are processed, results all of whose measurements are filtered out",
}
for l in open('/verif/properties.jsonl'):
    p=json.loads(l)
    if p['id']==pid: break
D=f"/tmp/benign5/{pid}"
print(f"""You are helping with a robustness study of the Go repository golang/perf (module golang.org/x/perf). You have your OWN scratch git worktree of it at {D} (detached HEAD). Work only inside that directory. Do NOT read or touch /verif or /repo. Do not use `git stash`. There is no network; every go command needs: export GOFLAGS=-mod=mod GOPROXY=off GOSUMDB=off GOTOOLCHAIN=local

The property under study ("{p['title']}"):
{p['statement']}
It is meant to hold {p['quantifier']['text']}.
The code mainly involved: {', '.join(p['anchors']['files'])}.

Your task is the OPPOSITE of bug seeding: produce TWO different source changes to the non-test Go code involved in this property that a maintainer might realistically make and that PRESERVE the property (it still holds for all inputs and histories after the change), so that a checker which raises an alarm on them would be raising a FALSE alarm. Each change must compile and keep the repository's whole existing test suite passing unchanged (`cd {D} && go test -vet=off -count=1 ./...`). This round concentrates on one area - {FOCUS[pid]}. Within that area deliver two of the following three kinds:
 (1) a rewrite of the relevant code with a DIFFERENT but equivalent algorithm or arithmetic (results may differ only in ways the property explicitly tolerates);
 (2) a change of OBSERVABLE behaviour in that area which the property text leaves open (which of several admissible results is produced, how something undefined or degenerate is represented, what happens outside the property's domain);
 (3) a hardening or generalisation in that area (handling inputs more carefully or more uniformly than today, removing a special case, making a limit configurable) that leaves every result the property pins down unchanged. If the current code has a genuine defect in that area with respect to the property, a correct repair of it also qualifies - say so in the README.
Be careful to really preserve the property: think through the unusual inputs its quantifier mentions. If you are not sure a change preserves it, do not deliver it (deliver fewer rather than a doubtful one, and say so).

For each change i in {{1,2}} deliver, inside {D}/benign{'{i}'}/ (create the directories; put a one-line go.mod `module seed` in each so the parent module's `go test ./...` skips it):
 - patch.diff : `git diff` of the change against HEAD (non-test source only; `git apply` on a clean checkout must work),
 - README.md : what the change is, which kind, why the property still holds, what observable behaviour - if any - changes, and the exact commands you ran with their outcome.
Verify: apply patch -> `go build ./...` -> full suite passes; then revert (`git checkout -- .`). Leave the worktree with NO change applied at the end (clean `git status` apart from the untracked benignN/ directories). Your final message: a few lines per change (files touched, kind, what observable behaviour changes if any).""")
