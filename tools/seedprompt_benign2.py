#!/usr/bin/env python3
import json,sys
pid=sys.argv[1]
for l in open('/verif/properties.jsonl'):
    p=json.loads(l)
    if p['id']==pid: break
D=f"/tmp/benign2/{pid}"
print(f"""You are helping with a robustness study of the Go repository golang/perf (module golang.org/x/perf). You have your OWN scratch git worktree of it at {D} (detached HEAD). Work only inside that directory. Do NOT read or touch /verif or /repo. There is no network; every go command needs: export GOFLAGS=-mod=mod GOPROXY=off GOSUMDB=off GOTOOLCHAIN=local

The property under study ("{p['title']}"):
{p['statement']}
It is meant to hold {p['quantifier']['text']}.
The code mainly involved: {', '.join(p['anchors']['files'])}.

Your task is the OPPOSITE of bug seeding: produce FOUR different source changes (a second round: earlier helpers already delivered plain refactorings and caches, so focus on the kinds below) to the non-test Go code involved in this property that a maintainer might realistically make and that PRESERVE the property (it still holds for all inputs after the change), so that a checker which raises an alarm on them would be raising a FALSE alarm. Each change must compile and keep the repository's whole existing test suite passing unchanged (`cd {D} && go test -vet=off -count=1 ./...`). The four changes should be of different kinds, and as invasive as you can make them while staying correct:
 (1) a change of OBSERVABLE behaviour that the property text leaves open, in the code central to the property: pick something a user could notice (exact wording or punctuation of a warning/error/log line, the order in which independent diagnostics are printed, which of several equally valid results is chosen when the property allows several, blank lines / padding / column widths where unspecified, HTTP status code of a failure, extra information appended to a message, a new optional flag or accepted alias/spelling, a raised or lowered internal limit) and change it;
 (2) a SECOND, different change of that kind in another function or file involved in the property;
 (3) a change that makes the code STRICTER or MORE LENIENT only for inputs OUTSIDE the property's domain (inputs the quantifier above does not cover: nil/zero-value receivers, API misuse, invalid arguments, sizes beyond documented limits), e.g. turning a panic into an error or the reverse, rejecting something that used to be silently accepted but is not covered by the property, or accepting more;
 (4) a deep but behaviour-preserving rewrite of one algorithmic core of the property using a DIFFERENT algorithm or arithmetic that is mathematically/semantically equivalent within the property's promises (e.g. another summation order or formula that stays within any stated tolerance, another traversal order with a final sort, a table-driven instead of computed decision, eager instead of lazy evaluation) - results may differ in ways the property explicitly tolerates (last-digit rounding where only a tolerance is promised, order of elements where no order is promised) but never beyond.
Be careful to really preserve the property: think through the unusual inputs and histories its quantifier mentions (state carried across calls, boundary sizes, orders, error paths). If you are not sure a change preserves it, do not deliver it.

For each change i in {{1,2,3,4}} deliver, inside {D}/benign{'{i}'}/ (create the directories; put a one-line go.mod `module seed` in each so the parent module's `go test ./...` skips it):
 - patch.diff : `git diff` of the change against HEAD (non-test source only; `git apply` on a clean checkout must work),
 - README.md : what the change is, which kind, why the property still holds (argue about the unusual cases), what observable behaviour - if any - changes, and the exact commands you ran with their outcome.
Verify: apply patch -> `go build ./...` -> full suite passes; then revert (`git checkout -- .`). Leave the worktree with NO change applied at the end (clean `git status` apart from the untracked benignN/ directories). Your final message: a few lines per change (files touched, kind, what observable behaviour changes if any).""")
