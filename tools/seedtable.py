#!/usr/bin/env python3
import json,glob,os
rows=[]
for d in sorted(glob.glob('/verif/seeded/*/')):
    m=json.load(open(d+'meta.json'))
    name=os.path.basename(d.rstrip('/'))
    res=[]
    for p,r in m['checks'].items():
        sigs=sorted({s.split(']')[0].replace('violation [','') for s in r['signatures']})
        res.append('%s: %s%s'%(p,'CAUGHT' if r['caught'] else 'not caught',(' ('+', '.join(sigs[:3])+')') if sigs else ''))
    rows.append('| `%s` | %s | %s |'%(name,m.get('needs_to_manifest',''),'; '.join(res)))
print('| seeded change (`seeded/<id>/`) | needs, to manifest | quick tier of |')
print('|---|---|---|')
print('\n'.join(rows))
