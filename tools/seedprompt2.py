#!/usr/bin/env python3
import json,sys
pid=sys.argv[1]
for l in open('/verif/properties.jsonl'):
    p=json.loads(l)
    if p['id']==pid: break
D=f"/tmp/seed2/{pid}"
print(f"""You are a mutation author for a robustness study of the Go repository golang/perf (module golang.org/x/perf). You have your OWN scratch git worktree of it at {D} (detached HEAD). Work only inside that directory. Do NOT read or touch /verif or /repo (another team works there, and your change must be independent of whatever they can detect). There is no network; every go command needs: export GOFLAGS=-mod=mod GOPROXY=off GOSUMDB=off GOTOOLCHAIN=local

The property under study ("{p['title']}"):
{p['statement']}
It is meant to hold {p['quantifier']['text']}.

Your task: produce THREE different, independent, realistic source changes (bugs) to the non-test Go code of the repository, each of which BREAKS this property while (a) still compiling, and (b) still passing the repository's whole existing test suite unchanged: `cd {D} && go test -vet=off -count=1 ./...` must pass with the change applied. Each change must look like a plausible mistake or an innocent-looking refactoring/optimisation a maintainer could make - not sabotage such as `if input == "magic"`. The three changes must use three DIFFERENT kinds of mechanism, as far as the property allows:
 (1) STATE carried across calls or records: a cache or memo keyed slightly wrongly, a reused buffer/slice that aliases caller data, a lazily built index that goes stale, interning, something remembered from the previous line/record/request/upload;
 (2) a BOUNDARY / arithmetic / encoding condition: off-by-one at a size or word boundary, integer overflow or truncation, signed vs unsigned, byte vs rune, rounding direction, NaN/zero/negative handling, an escape or separator case;
 (3) ORDER or ERROR PATH: dependence on map iteration or insertion order, an unstable sort or missing tie-break, two operations in the wrong order, goroutine interleaving, an error or partial-failure path that is dropped, shadowed or cleaned up wrongly.
If a kind does not apply to this property, substitute another mechanism that differs from your other changes. Strongly prefer changes that would SURVIVE a simple randomized differential test on typical inputs, i.e. that need a rare coincidence to manifest: a particular multi-step history, two values that collide in some derived form, an exact size, a particular interleaving or fault position, or two cooperating sites that each look fine alone. Do not edit any *_test.go file or testdata of the repository. (History shows that several defects around this property were recently repaired; do not simply revert a recent commit.)

For each change i in {{1,2,3}} deliver, inside {D}/seed{'{i}'}/ (create the directories; put a one-line go.mod `module seed` in each so that the parent module's `go test ./...` skips it):
 - patch.diff : `git diff` of the change against HEAD (only the non-test source change; `git apply` on a clean checkout must work),
 - demo_test.go : a Go test (test function TestSeedDemo; say in README which package directory it must be copied into) that FAILS with the change applied and PASSES on the unmodified tree, exercising the property through the public behaviour described above,
 - README.md : what the change is, which of the three kinds it is, why it breaks the property, what specific condition is needed to manifest, and the exact commands you ran (build, full test suite with the change, demo with and without the change) with their outcome.
Verify all of it yourself: apply patch -> full suite passes -> demo fails; revert (`git checkout -- .`) -> demo passes. Leave the worktree with NO change applied at the end (clean `git status` apart from the untracked seedN/ directories; no demo files left inside package directories). If you cannot find three, deliver what you have and say so. Your final message: a few lines per change (files touched, kind, trigger condition, verification result, directory to copy the demo into).""")
