#!/usr/bin/env python3
"""Regenerates /verif/MANIFEST.json from monitors/targets.json (single source of truth)."""
import json, os, subprocess
V = os.path.dirname(os.path.dirname(os.path.abspath(__file__)))
import glob
targets = {os.path.basename(os.path.dirname(p)): json.load(open(p)) for p in sorted(glob.glob(os.path.join(V, "monitors", "C*", "target.json")))}
props = [json.loads(l) for l in open(os.path.join(V, "properties.jsonl"))]
hooks_commits = []
hp = os.path.join(V, "hooks_commits.txt")
if os.path.exists(hp):
    hooks_commits = [l.split()[0] for l in open(hp) if l.strip()]
man = {
    "version": 1,
    "setup_cmd": "./setup.sh",
    "hooks": {
        "guard": "verif",
        "enable": "go test -tags verif (plus -overlay of /verif/kit and /verif/monitors into /repo, see DESIGN.md §2.1)",
        "baseline_off_cmd": "cd /repo && GOFLAGS=-mod=mod GOPROXY=off GOSUMDB=off GOTOOLCHAIN=local go test -json -vet=off -count=1 -timeout 25m ./...",
        "source_commits": hooks_commits,
        "add_only": True,
    },
    "engines": [
        {"name": "vcheck", "path": "vcheck", "serves_properties": sorted(targets.keys()),
         "kind_free_text": "Python driver: overlays /verif/kit (virtual package internal/verifkit) and the property's monitor files into /repo's working tree, runs one `go test -tags verif` child per monitor unit (race detector where listed), merges the monitors' reports, classifies against known_findings.json, writes evidence"},
        {"name": "verifkit", "path": "kit/", "serves_properties": sorted(targets.keys()),
         "kind_free_text": "Go runtime-monitoring kit: seeded/enumerated case classes, oracle execution under recover and hang watchdog, distinct-case accounting, replay files"},
    ],
    "checks": [],
    "not_applicable": [],
    "notes": "Family: runtime monitoring and sanitizers. Every check executes the real code of /repo's working tree under generated hostile workloads with an oracle observing each execution; see DESIGN.md.",
}
for p in props:
    pid = p["id"]
    t = targets.get(pid)
    if not t or t.get("disabled") or t.get("level_text", "placeholder") == "placeholder":
        man["not_applicable"].append({"property_id": pid, "reason": (t or {}).get("disabled_reason", "monitor not built yet (planned in DESIGN.md §5); nothing is claimed for it")})
        continue
    man["checks"].append({
        "property_id": pid,
        "quick_cmd": "./vcheck run %s --tier quick" % pid,
        "thorough_cmd": "./vcheck run %s --tier thorough" % pid,
        "evidence_file": "evidence/%s.json" % pid,
        "replay_cmd_template": "./vcheck replay {path}",
        "engine": "vcheck",
        "level_claimed": {"category": t.get("level", "exploration"), "text": t["level_text"], "design_ref": t.get("design_ref", "DESIGN.md §5 " + pid)},
        "level_note": t["level_note"],
        "technique": t["technique"],
    })
json.dump(man, open(os.path.join(V, "MANIFEST.json"), "w"), indent=1)
print("checks:", [c["property_id"] for c in man["checks"]])
print("not claimed:", [c["property_id"] for c in man["not_applicable"]])
