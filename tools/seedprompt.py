#!/usr/bin/env python3
import json,sys
pid=sys.argv[1]
for l in open('/verif/properties.jsonl'):
    p=json.loads(l)
    if p['id']==pid: break
print(f"""You are a mutation author for a robustness study of the Go repository golang/perf (module golang.org/x/perf). You have your OWN scratch git worktree of it at /tmp/seed/{pid} (detached HEAD). Work only inside that directory. Do NOT read or touch /verif or /repo (another team works there, and your change must be independent of whatever they can detect). There is no network; every go command needs: export GOFLAGS=-mod=mod GOPROXY=off GOSUMDB=off GOTOOLCHAIN=local

The property under study ("{p['title']}"):
{p['statement']}
It is meant to hold {p['quantifier']['text']}.

Your task: produce TWO different, independent, realistic source changes (bugs) to the non-test Go code of the repository, each of which BREAKS this property while (a) still compiling (`go build ./...` and `go vet` not required), and (b) still passing the repository's whole existing test suite unchanged: `cd /tmp/seed/{pid} && go test -vet=off -count=1 ./...` must pass with the change applied. Each change must look like a plausible mistake or an innocent-looking refactoring/optimisation a maintainer could make (an off-by-one, a wrong comparison, a dropped or misplaced statement, a stale cache, a missed case, wrong order of two operations, a condition that is true in all tests but not in general) - not sabotage such as `if input == "magic"`. Prefer changes that need something SPECIFIC to manifest: an unusual input, a particular multi-step history, a particular interleaving or fault position, or two cooperating sites that each look fine alone - not changes that any ordinary use would expose at once. The two changes should be in different functions (ideally different mechanisms of the property). Do not edit any *_test.go file or testdata of the repository.

For each change i in {{1,2}} deliver, inside /tmp/seed/{pid}/seed{'{i}'}/ (create the directories; they are untracked):
 - patch.diff : `git diff` of the change against HEAD (only the non-test source change; make sure `git apply` on a clean checkout works),
 - a demonstration: a Go test file demo_test.go (say which package directory it must be copied into; name the test TestSeedDemo) or a small program, that FAILS with the change applied and PASSES on the unmodified tree, exercising the property through the public behaviour described above,
 - README.md : what the change is, why it breaks the property, what specific condition is needed to manifest, and the exact commands you ran (build, full test suite with the change, demo with and without the change) with their outcome.
Verify all of it yourself: apply patch -> full suite passes -> demo fails; revert (`git checkout -- .`) -> demo passes. Leave the worktree with NO change applied at the end (clean `git status` apart from the untracked seed1/ seed2/ directories, and do not leave the demo files inside package directories). If you cannot find two, deliver one and say so. Your final message: a few lines per change (files touched, trigger condition, verification result).""")
